"""C03 - written files are self-consistent: every length, count and alignment is truthful."""
from __future__ import annotations

import glob
import io
import json
import os

from . import core
from . import format_common as F
from . import c01
from .core import Check, exc_code, h63_list

IMPORTS = ["Base.Prelude", "Psd.Codec", "Psd.Model", "Psd.Corr"]


def walk_out(b, check_rle=False, descend=False):
    """canonical outcome of the Python walker: [0, #blocks, digest(kind,size,...)] or [1]"""
    try:
        lay = F.walk(b, check_rle=check_rle, descend=descend)
    except F.WalkError as e:
        return [1], str(e)
    flat = []
    for k, st, sz in lay:
        flat += [k, sz]
    return [0, len(lay), h63_list(0, flat)], lay


# ----------------------------------------------------------------------------- every write() call reports what it emitted
class WriteAudit:
    """wraps write() of every psd_tools.psd element class: the value returned must equal the distance the
    file position moved during the call (length prefixes are back-patched with seeks and are inside it)"""

    def __init__(self):
        self.bad = []
        self.calls = 0
        self.saved = []

    def __enter__(self):
        import importlib
        from psd_tools.psd.base import BaseElement

        for m in ["tagged_blocks", "image_resources", "effects_layer", "color", "adjustments", "vector", "patterns",
                  "linked_layer", "filter_effects", "descriptor", "layer_and_mask", "engine_data", "header",
                  "color_mode_data", "image_data"]:
            importlib.import_module("psd_tools.psd." + m)
        seen = set()
        stack = [BaseElement]
        while stack:
            c = stack.pop()
            if c in seen:
                continue
            seen.add(c)
            stack += c.__subclasses__()
            f = c.__dict__.get("write")
            if f is None or not callable(f):
                continue
            self.saved.append((c, f))
            setattr(c, "write", self._wrap(c, f))
        return self

    def _wrap(self, cls, orig):
        audit = self

        def write(self, fp, *a, **k):
            p0 = fp.tell()
            r = orig(self, fp, *a, **k)
            p1 = fp.tell()
            audit.calls += 1
            if r != p1 - p0:
                audit.bad.append((cls.__module__.split(".")[-1] + "." + cls.__name__, r, p1 - p0))
            return r

        write.__wrapped__ = orig
        return write

    def __exit__(self, *exc):
        for c, f in self.saved:
            setattr(c, "write", f)
        return False


# ----------------------------------------------------------------------------- documents with real pixel data (RLE tables matter)
def g_pixel_doc(rng, enc, version):
    """a document whose channel data and merged image come from the library's own compressors"""
    from psd_tools.compression import compress

    depth = rng.choice([8, 8, 16])
    nlayers = rng.choice([1, 2, 3])
    recs, chans = [], []
    for _ in range(nlayers):
        top, left = rng.randint(-3, 3), rng.randint(-3, 3)
        h, w = rng.choice([0, 1, 2, 5]), rng.choice([0, 1, 3, 9])
        ids = rng.sample([-1, 0, 1, 2], rng.choice([1, 2, 4]))
        r = F.g_rec(rng, enc, nch=len(ids))
        r[0], r[1], r[2], r[3] = top, left, top + h, left + w
        r[4] = [[i, 0] for i in ids]
        r[10] = None
        cl = []
        for _i in ids:
            comp = rng.choice([0, 1, 1, 2, 3])
            raw = bytes(rng.choice([0, 0, 255, rng.randrange(256)]) for _ in range(w * h * depth // 8))
            cl.append([comp, compress(raw, comp, w, h, depth, version)])
        recs.append(r)
        chans.append(cl)
    hh, ww, ch = rng.choice([1, 2, 4]), rng.choice([1, 3, 8]), rng.choice([1, 3, 4])
    comp = rng.choice([0, 1, 1])
    raw = bytes(rng.choice([0, 255, rng.randrange(256)]) for _ in range(ww * hh * ch * depth // 8))
    img = [comp, compress(raw, comp, ww, hh * ch, depth, version)]
    header = [F.SIG_8BPS, version, ch, hh, ww, depth, 3 if ch >= 3 else 1]
    return [header, b"", F.g_resources(rng, enc), [[nlayers, recs, chans], F.g_glmi(rng), F.g_tbs(rng)], img]


def run():
    F.quiet()
    ck = Check("C03")
    thorough = ck.tier == "thorough"
    ck.rule = ("every in-scope generated document (structure generator of C01: version x padding x charset, extremes, empty/odd payloads, "
               "0..4 layers) written by the implementation and walked by the independent walker; documents with real compressed pixel "
               "data (RLE tables checked); every fixture re-written with padding 1, 2, 4; unedited API saves; the Coq walker on the same "
               "bytes and on the model's bytes; every nested write() call audited for reported == emitted; "
               "non-trivial = distinct written file with at least one layer or tagged block")
    if ck.coq_build(["theories/Psd/Corr.v", "theories/Properties/C03.v"]):
        ck.collect_theorems("C03.v")
    from psd_tools.psd import PSD

    rng = ck.rng
    wcases, dcases = [], []
    audit = WriteAudit()
    with audit:
        # ---- (a) generated documents
        n_docs = 30000 if thorough else 1500
        for i in range(n_docs):
            enc = F.ENCODINGS[i % len(F.ENCODINGS)]
            v, pad = [1, 2][(i // 3) % 2], [1, 2, 4][i % 3]
            d = F.g_psd(rng, enc, v)
            tag = "plain"
            if rng.random() < 0.25:
                r = F.deform(rng, "psd", d)
                if r:
                    tag, d = r
            case = ("psd", {"version": v, "padding": pad, "encoding": enc}, d)
            r = F.run_impl(case, exc_code)
            if r["bytes"] is None:
                ck.count("doc:not-written")
                continue
            b = r["bytes"]
            scope = c01.in_scope(case)
            ck.count("doc:%s" % ("in-scope" if scope else "out-of-scope"))
            wo, info = walk_out(b)
            if r["written"] != len(b):
                ck.fail("written-count-psd", c01.jcase(case), r["written"], len(b), case=c01.jcase(case))
            if scope:
                if wo == [1]:
                    ck.fail("walker-rejects-written-file", c01.jcase(case), info, "every region filled exactly", case=c01.jcase(case), tag=tag)
                else:
                    check_channel_lengths(ck, case, r["obj"], info)
                    if d[3][0] and (d[3][0][1] or d[3][2]):
                        ck.nontriv(h63_list(0, list(b)))
            wcases.append((b, wo))
            dcases.append(((pad, d), wo))
        # ---- (b) real pixel data: RLE row tables
        for i in range(2500 if thorough else 500):
            enc = "macroman"
            v, pad = [1, 2][i % 2], [1, 2, 4][i % 3]
            d = g_pixel_doc(rng, enc, v)
            case = ("psd", {"version": v, "padding": pad, "encoding": enc}, d)
            r = F.run_impl(case, exc_code)
            if r["bytes"] is None:
                continue
            ck.count("doc:pixel")
            wo, info = walk_out(r["bytes"], check_rle=True)
            if wo == [1]:
                ck.fail("walker-rejects-pixel-document", c01.jcase(case), info, "RLE row tables sum to the channel data", case=c01.jcase(case))
            else:
                ck.nontriv(h63_list(0, list(r["bytes"])))
        # ---- (b1) one wide incompressible 32-bit row: its RLE byte count does not fit the 2-byte row table of a version-1 file;
        #      the library must refuse (OverflowError) or write a table a reader of that version can sum
        from psd_tools.compression import compress as _compress

        for i, w in enumerate([16383, 16400] if not thorough else [16383, 16384, 16390, 16400]):
            for v in (1, 2):
                raw = bytes(rng.randrange(256) for _ in range(w * 4))
                try:
                    enc_row = _compress(raw, 1, w, 1, 32, v)
                except OverflowError:
                    ck.count("doc:wide-row-refused-v%d" % v)
                    continue
                header = [F.SIG_8BPS, v, 1, 1, w, 32, 1]
                rec = F.g_rec(rng, "macroman", nch=1)
                rec[0], rec[1], rec[2], rec[3], rec[4], rec[10] = 0, 0, 1, w, [[0, 0]], None
                d = [header, b"", [], [[1, [rec], [[[1, enc_row]]]], [None, 0, 128], []], [1, enc_row]]
                case = ("psd", {"version": v, "padding": 4, "encoding": "macroman"}, d)
                r = F.run_impl(case, exc_code)
                if r["bytes"] is None:
                    continue
                ck.count("doc:wide-row-v%d" % v)
                wo, info = walk_out(r["bytes"], check_rle=True)
                if wo == [1]:
                    ck.fail("walker-rejects-wide-row-document", {"version": v, "width": w, "depth": 32, "rows": 1, "compression": "RLE",
                                                                 "encoded_row_bytes": len(enc_row)},
                            info, "the RLE row table, read with the count width of the file's version, sums to the channel data")
        # ---- (b2) 16/32-bit documents: the layers live in a Lr16 / Lr32 block (LayerInfoBlock), channel lengths stale at write time
        for i in range(1200 if thorough else 150):
            case = F.g_lr_case(rng, [1, 2][i % 2], [1, 2, 4][i % 3])
            r = F.run_lr_case(case, exc_code)
            if r["bytes"] is None:
                ck.count("doc:lr-not-written")
                continue
            ck.count("doc:lr16/lr32")
            jc = c01.jcase(case)
            if r["written"] != len(r["bytes"]):
                ck.fail("written-count-psd", jc, r["written"], len(r["bytes"]), lr=True)
            stale = F.stale_channel_lengths(r["block"].data)
            if stale:
                ck.fail("channel-length-field-lr16", jc, "layer %d channel %d: stored length %d" % stale[0][:3], stale[0][3], lr=True)
            wo, info = walk_out(r["bytes"], descend=True)
            if wo == [1]:
                ck.fail("walker-rejects-lr16-document", jc, info, "every region filled exactly, inside the Lr16/Lr32 block too", lr=True)
            else:
                ck.nontriv(h63_list(0, list(r["bytes"])))
        # ---- (c) fixtures re-written
        lim = 1 << 40 if thorough else 300000
        lim_coq = 600000 if thorough else 120000
        for p in c01.fixture_paths(lim):
            name = os.path.basename(p)
            try:
                d = PSD.frombytes(open(p, "rb").read())
            except Exception:
                continue
            for pad in (1, 2, 4):
                f = io.BytesIO()
                n = d.write(f, padding=pad)
                b = f.getvalue()
                if n != len(b):
                    ck.fail("written-count-fixture", {"fixture": name, "padding": pad}, n, len(b))
                wo, info = walk_out(b, check_rle=True, descend=True)
                ck.count("fixture-rewrite")
                if wo == [1]:
                    ck.fail("walker-rejects-rewritten-fixture", {"fixture": name, "padding": pad}, info, "every region filled exactly")
                else:
                    ck.nontriv(("fx", name, pad))
                if pad == 4 and len(b) <= lim_coq:
                    wo2, _ = walk_out(b)
                    wcases.append((b, wo2))
        # ---- (d) API: documents created by the library, unedited saves
        api_docs(ck, thorough)
        # ---- (e) API: documents edited through the layer API, then saved
        edited_api_docs(ck, thorough, wcases)
    ck.count("write-calls-audited", audit.calls)
    seen = set()
    for cls, rep, emitted in audit.bad:
        if cls in seen:
            continue
        seen.add(cls)
        ck.fail("write-reports-wrong-count:" + cls, {"class": cls}, rep, emitted)

    # ---- the Coq walker on the same bytes, and on the model's own bytes
    ck.sample({"walker_outcome": wcases[0][1], "file_bytes": len(wcases[0][0])})
    bad = ck.correspond("walker_twin", "walk_digest", IMPORTS, wcases, F.coq_bytes, chunk=12, timeout=1800)
    for i in bad[:3]:
        ck.notes.append("Coq walker and Python walker differ on a file of %d bytes: python %r" % (len(wcases[i][0]), wcases[i][1]))
    lit = lambda a: "(%d, %s)" % (a[0], F.coq_psd(a[1]))
    dc = [c for c in dcases if c[1] != [1] or True]
    bad2 = ck.correspond("model_bytes_walk", "fun a => doc_walk_outcome (fst a) (snd a)", IMPORTS, dc, lit, chunk=60)
    for i in bad2[:3]:
        ck.notes.append("walker on the model's bytes differs from walker on the implementation's bytes: %r" % (dc[i][1],))
    ck.assumptions += [
        "RLE row tables are checked by the Python twin of the walker only (channel data is opaque in the Coq model); "
        "for channels whose geometry the walker can know (ids >= -1 and the user mask), on documents whose pixel data came from the library's compressors and on re-written fixtures",
        "layer-level tagged blocks are navigated by their length field as stored (no implicit rounding); global ones are padded to 4, image resources to 2",
        "the 8-byte-length key table of the walker is the specification's list plus the keys observed in Photoshop CC PSB files",
        "scope = documents whose parts are coherent (Psd.Model.wf_psd without the two reader-side guards of C01): a structure whose counts "
        "contradict its lists is not something a writer can make consistent",
        "API saves after an edit: walked here too (length fields, section sums, image data sized from the header); the classes in which the "
        "unchanged tree writes a wrong plane count (no alpha channel / CMYK / 16-32 bit: F-C17-1..3) are excused as F-C03-1..3 and only those",
    ]
    return ck.finish()


def check_channel_lengths(ck, case, obj, layout):
    """per-channel lengths stored in the records (after write) = 2 + stored bytes; and = the sizes the walker found"""
    li = obj.layer_and_mask_information.layer_info
    if li is None or not li.layer_records or not li.channel_image_data:
        return
    found = [sz for k, st, sz in layout if k == F.K_CHANNEL]
    want = []
    for rec, chans in zip(li.layer_records, li.channel_image_data):
        for ci, cd in zip(rec.channel_info, chans):
            want.append(2 + len(cd.data))
            if ci.length != 2 + len(cd.data):
                ck.fail("channel-length-field", c01.jcase(case), ci.length, 2 + len(cd.data), case=c01.jcase(case))
                return
    if found != want:
        ck.fail("channel-lengths-vs-walker", c01.jcase(case), found[:20], want[:20], case=c01.jcase(case))


def api_docs(ck, thorough):
    import warnings
    from psd_tools import PSDImage

    modes = [("L", 1), ("RGB", 3), ("RGBA", 4), ("CMYK", 4)]
    sizes = [(1, 1), (2, 3), (7, 5), (16, 16)]
    for mode, _ in modes:
        for size in sizes:
            for depth in ((8, 16) if thorough else (8,)):
                try:
                    psd = PSDImage.new(mode, size, depth=depth)
                except Exception as e:
                    ck.count("api:new-raises")
                    continue
                f = io.BytesIO()
                try:
                    psd.save(f)
                except Exception as e:
                    ck.count("api:save-raises")
                    continue
                wo, info = walk_out(f.getvalue(), check_rle=True)
                ck.count("api:new")
                if wo == [1]:
                    ck.fail("walker-rejects-api-document", {"mode": mode, "size": list(size), "depth": depth}, info, "walkable file")
    # unedited open + save of fixtures
    for p in c01.fixture_paths(300000)[:: (1 if thorough else 4)]:
        try:
            psd = PSDImage.open(p)
            f = io.BytesIO()
            psd.save(f)
        except Exception:
            ck.count("api:open-save-raises")
            continue
        wo, info = walk_out(f.getvalue(), check_rle=True)
        ck.count("api:open-save")
        if wo == [1]:
            ck.fail("walker-rejects-api-resave", {"fixture": os.path.basename(p)}, info, "walkable file")


# ----------------------------------------------------------------------------- edited API documents: save() after layer edits
EDIT_OPS = ["append", "append-two", "append-delete", "group", "group-with-layer", "move-down", "cross-move", "cross-move-pattern"]
COLOUR_CHANNELS = {1: 1, 3: 3, 4: 4, 8: 1, 9: 3, 2: 1, 7: 3, 0: 1}   # ColorMode -> colour channels (GRAYSCALE 1, RGB 3, CMYK 4, ...)


def edited_scenarios(thorough):
    """deterministic list of scenarios: base document x edit x document-level blocks x merged-image compression"""
    out = []
    bases = [("new", m) for m in ("L", "LA", "RGB", "RGBA")]
    sizes = [(5, 4), (1, 1), (8, 8)] if thorough else [(5, 4)]
    k = 0
    for base in bases:
        for size in sizes:
            for op in EDIT_OPS:
                for blocks in (False, True):
                    comps = (0, 1, 2, 3) if (thorough or base[1] in ("LA", "RGBA")) else ((k % 4),)
                    for comp in comps:
                        if not thorough and base[1] in ("LA", "RGBA") and op not in ("append", "group", "cross-move-pattern") and comp not in (0, 1):
                            continue
                        out.append({"base": "new", "mode": base[1], "size": list(size), "op": op, "blocks": blocks, "comp": comp})
                        k += 1
    small = ["2layers.psd", "transparentbg-gimp.psd", "1layer.psd", "group.psd", "layer_mask_data.psd", "gray0.psd", "clipping-mask2.psd",
             "hidden-layer.psd", "empty-layer.psd", "layer_params.psd"]
    for i, name in enumerate(small if thorough else small[:6]):
        for j, op in enumerate(EDIT_OPS if thorough else [EDIT_OPS[(i + t) % len(EDIT_OPS)] for t in (0, 3)]):
            out.append({"base": "fixture", "fixture": name, "op": op, "blocks": bool((i + j) % 2), "comp": None})
    return out


def build_edited(sc):
    """-> (PSDImage after the edit, facts about the document before save)"""
    from PIL import Image
    from psd_tools import PSDImage
    from psd_tools.api.layers import Group, PixelLayer
    from psd_tools.constants import Compression, Tag
    from psd_tools.psd.patterns import Patterns

    if sc["base"] == "new":
        psd = PSDImage.new(sc["mode"], tuple(sc["size"]), color=40, compression=Compression(sc["comp"]))
    else:
        psd = PSDImage.open(os.path.join(c01.FIXTURES, sc["fixture"]))
    w, h = psd.width, psd.height
    lm = {1: "LA", 3: "RGBA"}.get(COLOUR_CHANNELS.get(int(psd.color_mode), 0), "RGBA")

    def pix(seed, top=0, left=0, ww=None, hh=None):
        ww, hh = ww or max(1, w - left), hh or max(1, h - top)
        im = Image.new(lm, (ww, hh))
        im.putdata([tuple(((x * 37 + seed * 11 + c * 5) % 256) for c in range(len(lm))) for x in range(ww * hh)])
        return PixelLayer.frompil(im, psd, "px%d" % seed, top, left, Compression.RLE)

    op = sc["op"]
    if op == "append":
        psd.append(pix(1))
    elif op == "append-two":
        psd.append(pix(2))
        psd.append(pix(3, min(1, h - 1), min(1, w - 1)))
    elif op == "append-delete":
        psd.append(pix(4))
        l = pix(5)
        psd.append(l)
        psd.remove(l)
    elif op == "group":
        psd.append(Group.new("g"))
    elif op == "group-with-layer":
        g = Group.new("g")
        psd.append(g)
        g.append(pix(6))
    elif op == "move-down":
        psd.append(pix(7))
        psd.append(pix(8))
        psd[len(psd) - 1].move_down()
    elif op in ("cross-move", "cross-move-pattern"):
        if op == "cross-move-pattern":
            src = PSDImage.open(os.path.join(c01.FIXTURES, "patterns.psd"))
            cand = [l for l in src.descendants() if l.name == "Rectangle 1 copy 6"]
        else:
            src = PSDImage.open(os.path.join(c01.FIXTURES, "2layers.psd"))
            cand = [l for l in src.descendants() if l.kind == "pixel"]
        psd.append(cand[0])
    if sc["blocks"]:
        psd.tagged_blocks.set_data(Tag.PATTERNS1, Patterns())
    hd = psd._record.header
    cc = COLOUR_CHANNELS.get(int(hd.color_mode), 0)
    facts = {"color_mode": int(hd.color_mode), "channels": hd.channels, "depth": hd.depth, "version": hd.version,
             "has_alpha": hd.channels == cc + 1, "width": hd.width, "height": hd.height,
             "merged_compression": int(psd._record.image_data.compression)}
    return psd, facts


def _unpackbits(row):
    out = bytearray()
    i = 0
    while i < len(row):
        n = row[i]
        i += 1
        if n < 128:
            out += row[i:i + n + 1]
            i += n + 1
        elif n > 128:
            out += row[i:i + 1] * (257 - n)
            i += 1
    return bytes(out)


def image_data_against_header(b):
    """size the image data section from the header alone (as a reader must): channels x height rows of ceil(width*depth/8)
    bytes.  -> None, or what is wrong.  Independent of the library: navigates by the four section lengths."""
    import struct
    import zlib

    sig, version, channels, height, width, depth, mode = struct.unpack(">4sH6xHIIHH", b[:26])
    p = 26
    for _ in range(2):
        (n,) = struct.unpack(">I", b[p:p + 4])
        p += 4 + n
    lw = 4 if version == 1 else 8
    n = int.from_bytes(b[p:p + lw], "big")
    p += lw + n
    if p + 2 > len(b):
        return "sections run past the end of the file (image data starts at %d, file has %d bytes)" % (p, len(b))
    (comp,) = struct.unpack(">H", b[p:p + 2])
    body = b[p + 2:]
    row = (width * depth + 7) // 8
    rows = channels * height
    if comp == 0:
        if len(body) != rows * row:
            return "raw image data holds %d bytes, the header (%d channels x %d x %d, depth %d) prescribes %d" % (
                len(body), channels, height, width, depth, rows * row)
    elif comp == 1:
        cw = 2 if version == 1 else 4
        if len(body) < rows * cw:
            return "RLE row table shorter than %d rows" % rows
        lens = [int.from_bytes(body[i * cw:(i + 1) * cw], "big") for i in range(rows)]
        q = rows * cw
        if q + sum(lens) != len(body):
            return "RLE rows sum to %d bytes, the section holds %d" % (sum(lens), len(body) - q)
        for i, ln in enumerate(lens):
            got = len(_unpackbits(body[q:q + ln]))
            q += ln
            if got != row:
                return "RLE row %d of %d (plane %d) unpacks to %d bytes, the header prescribes %d" % (i, rows, i // max(height, 1), got, row)
    else:
        try:
            raw = zlib.decompress(body)
        except Exception as e:
            return "zip image data does not inflate: %r" % e
        if len(raw) != rows * row:
            return "zip image data inflates to %d bytes, the header prescribes %d" % (len(raw), rows * row)
    return None


def edited_known_class(facts):
    """the classes in which the UNCHANGED tree writes an inconsistent merged image after an edit (findings of C17)"""
    if facts["color_mode"] == 4:
        return "F-C03-2"          # CMYK: F-C17-2
    if facts["depth"] != 8:
        return "F-C03-3"          # 16 / 32 bit: F-C17-3
    if not facts["has_alpha"]:
        return "F-C03-1"          # no alpha channel in the header: F-C17-1
    return None


def run_edited(sc):
    """-> (kind of failure or None, detail, facts, bytes)"""
    import warnings

    with warnings.catch_warnings():
        warnings.simplefilter("ignore")
        try:
            psd, facts = build_edited(sc)
        except Exception as e:
            return "build", repr(e), None, None
        f = io.BytesIO()
        try:
            psd.save(f)
        except Exception as e:
            return "edited-api-save-raises", repr(e), facts, None
    b = f.getvalue()
    wo, info = walk_out(b, check_rle=True)
    if wo == [1]:
        return "edited-api-walker-rejects", info, facts, b
    why = image_data_against_header(b)
    if why is not None:
        return "edited-api-image-data-vs-header", why, facts, b
    if sc["blocks"]:
        keys = [x for x in info if x[0] == F.K_GTB]
        if not keys:
            return "edited-api-walker-rejects", "the document-level tagged block set before save() was not reached by the walker", facts, b
    return None, None, facts, b


def edited_api_docs(ck, thorough, wcases):
    for sc in edited_scenarios(thorough):
        kind, detail, facts, b = run_edited(sc)
        if kind == "build":
            ck.count("edited-api:not-built")
            continue
        ck.count("edited-api:%s:%s" % (sc.get("mode") or "fixture", sc["op"]))
        if b is not None:
            ck.nontriv(("edited", h63_list(0, list(b))))
            if kind is None and len(b) < 60000 and len(wcases) < 4000:
                wo, _ = walk_out(b)
                wcases.append((b, wo))
        if kind is None:
            ck.count("edited-api:consistent")
            continue
        known = edited_known_class(facts)
        if kind == "edited-api-save-raises" and (known is not None or sc["base"] != "new"):
            # no file is written: whether save() may raise here is C09's / C17's business (CMYK, deep, ICC profile, ...)
            ck.count("edited-api:save-raises:" + (known or "fixture"))
            continue
        ck.fail(kind, {"scenario": sc, "facts": facts}, detail, "a file that a reader navigating by the length fields and the header can walk")


def _cls_edited(fid):
    def f(fl):
        inp = fl.get("input")
        return fl["kind"].startswith("edited-api-") and isinstance(inp, dict) and inp.get("facts") is not None and \
            fl["kind"] in ("edited-api-image-data-vs-header", "edited-api-save-raises") and edited_known_class(inp["facts"]) == fid
    return f


def _w_edited(sc):
    def w():
        kind, detail, facts, b = run_edited(sc)
        return kind is not None
    return w


for _fid in ("F-C03-1", "F-C03-2", "F-C03-3"):
    core.KNOWN_CLASSIFIERS[_fid] = _cls_edited(_fid)
core.KNOWN_WITNESS["F-C03-1"] = _w_edited({"base": "new", "mode": "RGB", "size": [4, 3], "op": "append", "blocks": False, "comp": 0})
core.KNOWN_WITNESS["F-C03-2"] = _w_edited({"base": "new", "mode": "CMYK", "size": [4, 3], "op": "group", "blocks": False, "comp": 0})


def replay(path):
    F.quiet()
    fl = json.load(open(path))
    print("kind:", fl["kind"], "| expected:", fl["expected"], "| observed:", str(fl["observed"])[:400])
    if fl.get("lr"):
        return c01.replay(path)
    if "case" in fl:
        case = c01.unjcase(fl["case"])
        r = F.run_impl(case, exc_code)
        print("document args:", case[1])
        print("coq literal:", F.coq_elem(case)[:1500])
        if r["bytes"] is not None:
            print("written: %d bytes, write() reported %r" % (len(r["bytes"]), r["written"]))
            try:
                lay = F.walk(r["bytes"], check_rle=True)
                print("independent walker: ok,", len(lay), "blocks:", [(k, s) for k, _, s in lay][:40])
            except F.WalkError as e:
                print("independent walker: FAILS:", e)
        print("in scope:", c01.in_scope(case))
    elif isinstance(fl.get("input"), dict) and "scenario" in fl["input"]:
        sc = fl["input"]["scenario"]
        print("scenario:", json.dumps(sc))
        kind, detail, facts, b = run_edited(sc)
        print("document before save:", facts)
        print("save():", "raised " + str(detail) if kind == "edited-api-save-raises" else "%d bytes" % len(b))
        if b is not None:
            wo, info = walk_out(b, check_rle=True)
            print("independent walker:", "FAILS: %s" % info if wo == [1] else "ok, %d blocks" % len(info))
            print("image data against the header:", image_data_against_header(b) or "ok")
        print("result:", kind or "consistent", "| known class (findings of C17 seen by the walker):", edited_known_class(facts) if facts else None)
    else:
        print("input:", json.dumps(fl["input"])[:1500])
    return 1
