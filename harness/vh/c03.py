"""C03 - written files are self-consistent: every length, count and alignment is truthful."""
from __future__ import annotations

import glob
import io
import json
import os

from . import core
from . import format_common as F
from . import c01
from .core import Check, exc_code, h63_list

IMPORTS = ["Base.Prelude", "Psd.Codec", "Psd.Model", "Psd.Corr"]


def walk_out(b, check_rle=False, descend=False):
    """canonical outcome of the Python walker: [0, #blocks, digest(kind,size,...)] or [1]"""
    try:
        lay = F.walk(b, check_rle=check_rle, descend=descend)
    except F.WalkError as e:
        return [1], str(e)
    flat = []
    for k, st, sz in lay:
        flat += [k, sz]
    return [0, len(lay), h63_list(0, flat)], lay


# ----------------------------------------------------------------------------- every write() call reports what it emitted
class WriteAudit:
    """wraps write() of every psd_tools.psd element class: the value returned must equal the distance the
    file position moved during the call (length prefixes are back-patched with seeks and are inside it)"""

    def __init__(self):
        self.bad = []
        self.calls = 0
        self.saved = []

    def __enter__(self):
        import importlib
        from psd_tools.psd.base import BaseElement

        for m in ["tagged_blocks", "image_resources", "effects_layer", "color", "adjustments", "vector", "patterns",
                  "linked_layer", "filter_effects", "descriptor", "layer_and_mask", "engine_data", "header",
                  "color_mode_data", "image_data"]:
            importlib.import_module("psd_tools.psd." + m)
        seen = set()
        stack = [BaseElement]
        while stack:
            c = stack.pop()
            if c in seen:
                continue
            seen.add(c)
            stack += c.__subclasses__()
            f = c.__dict__.get("write")
            if f is None or not callable(f):
                continue
            self.saved.append((c, f))
            setattr(c, "write", self._wrap(c, f))
        return self

    def _wrap(self, cls, orig):
        audit = self

        def write(self, fp, *a, **k):
            p0 = fp.tell()
            r = orig(self, fp, *a, **k)
            p1 = fp.tell()
            audit.calls += 1
            if r != p1 - p0:
                audit.bad.append((cls.__module__.split(".")[-1] + "." + cls.__name__, r, p1 - p0))
            return r

        write.__wrapped__ = orig
        return write

    def __exit__(self, *exc):
        for c, f in self.saved:
            setattr(c, "write", f)
        return False


# ----------------------------------------------------------------------------- documents with real pixel data (RLE tables matter)
def g_pixel_doc(rng, enc, version):
    """a document whose channel data and merged image come from the library's own compressors"""
    from psd_tools.compression import compress

    depth = rng.choice([8, 8, 16])
    nlayers = rng.choice([1, 2, 3])
    recs, chans = [], []
    for _ in range(nlayers):
        top, left = rng.randint(-3, 3), rng.randint(-3, 3)
        h, w = rng.choice([0, 1, 2, 5]), rng.choice([0, 1, 3, 9])
        ids = rng.sample([-1, 0, 1, 2], rng.choice([1, 2, 4]))
        r = F.g_rec(rng, enc, nch=len(ids))
        r[0], r[1], r[2], r[3] = top, left, top + h, left + w
        r[4] = [[i, 0] for i in ids]
        r[10] = None
        cl = []
        for _i in ids:
            comp = rng.choice([0, 1, 1, 2, 3])
            raw = bytes(rng.choice([0, 0, 255, rng.randrange(256)]) for _ in range(w * h * depth // 8))
            cl.append([comp, compress(raw, comp, w, h, depth, version)])
        recs.append(r)
        chans.append(cl)
    hh, ww, ch = rng.choice([1, 2, 4]), rng.choice([1, 3, 8]), rng.choice([1, 3, 4])
    comp = rng.choice([0, 1, 1])
    raw = bytes(rng.choice([0, 255, rng.randrange(256)]) for _ in range(ww * hh * ch * depth // 8))
    img = [comp, compress(raw, comp, ww, hh * ch, depth, version)]
    header = [F.SIG_8BPS, version, ch, hh, ww, depth, 3 if ch >= 3 else 1]
    return [header, b"", F.g_resources(rng, enc), [[nlayers, recs, chans], F.g_glmi(rng), F.g_tbs(rng)], img]


def run():
    F.quiet()
    ck = Check("C03")
    thorough = ck.tier == "thorough"
    ck.rule = ("every in-scope generated document (structure generator of C01: version x padding x charset, extremes, empty/odd payloads, "
               "0..4 layers) written by the implementation and walked by the independent walker; documents with real compressed pixel "
               "data (RLE tables checked); every fixture re-written with padding 1, 2, 4; unedited API saves; the Coq walker on the same "
               "bytes and on the model's bytes; every nested write() call audited for reported == emitted; "
               "non-trivial = distinct written file with at least one layer or tagged block")
    if ck.coq_build(["theories/Psd/Corr.v", "theories/Properties/C03.v"]):
        ck.collect_theorems("C03.v")
    from psd_tools.psd import PSD

    rng = ck.rng
    wcases, dcases = [], []
    audit = WriteAudit()
    with audit:
        # ---- (a) generated documents
        n_docs = 30000 if thorough else 1500
        for i in range(n_docs):
            enc = F.ENCODINGS[i % len(F.ENCODINGS)]
            v, pad = [1, 2][(i // 3) % 2], [1, 2, 4][i % 3]
            d = F.g_psd(rng, enc, v)
            tag = "plain"
            if rng.random() < 0.25:
                r = F.deform(rng, "psd", d)
                if r:
                    tag, d = r
            case = ("psd", {"version": v, "padding": pad, "encoding": enc}, d)
            r = F.run_impl(case, exc_code)
            if r["bytes"] is None:
                ck.count("doc:not-written")
                continue
            b = r["bytes"]
            scope = c01.in_scope(case)
            ck.count("doc:%s" % ("in-scope" if scope else "out-of-scope"))
            wo, info = walk_out(b)
            if r["written"] != len(b):
                ck.fail("written-count-psd", c01.jcase(case), r["written"], len(b), case=c01.jcase(case))
            if scope:
                if wo == [1]:
                    ck.fail("walker-rejects-written-file", c01.jcase(case), info, "every region filled exactly", case=c01.jcase(case), tag=tag)
                else:
                    check_channel_lengths(ck, case, r["obj"], info)
                    if d[3][0] and (d[3][0][1] or d[3][2]):
                        ck.nontriv(h63_list(0, list(b)))
            wcases.append((b, wo))
            dcases.append(((pad, d), wo))
        # ---- (b) real pixel data: RLE row tables
        for i in range(2500 if thorough else 500):
            enc = "macroman"
            v, pad = [1, 2][i % 2], [1, 2, 4][i % 3]
            d = g_pixel_doc(rng, enc, v)
            case = ("psd", {"version": v, "padding": pad, "encoding": enc}, d)
            r = F.run_impl(case, exc_code)
            if r["bytes"] is None:
                continue
            ck.count("doc:pixel")
            wo, info = walk_out(r["bytes"], check_rle=True)
            if wo == [1]:
                ck.fail("walker-rejects-pixel-document", c01.jcase(case), info, "RLE row tables sum to the channel data", case=c01.jcase(case))
            else:
                ck.nontriv(h63_list(0, list(r["bytes"])))
        # ---- (b1) one wide incompressible 32-bit row: its RLE byte count does not fit the 2-byte row table of a version-1 file;
        #      the library must refuse (OverflowError) or write a table a reader of that version can sum
        from psd_tools.compression import compress as _compress

        for i, w in enumerate([16383, 16400] if not thorough else [16383, 16384, 16390, 16400]):
            for v in (1, 2):
                raw = bytes(rng.randrange(256) for _ in range(w * 4))
                try:
                    enc_row = _compress(raw, 1, w, 1, 32, v)
                except OverflowError:
                    ck.count("doc:wide-row-refused-v%d" % v)
                    continue
                header = [F.SIG_8BPS, v, 1, 1, w, 32, 1]
                rec = F.g_rec(rng, "macroman", nch=1)
                rec[0], rec[1], rec[2], rec[3], rec[4], rec[10] = 0, 0, 1, w, [[0, 0]], None
                d = [header, b"", [], [[1, [rec], [[[1, enc_row]]]], [None, 0, 128], []], [1, enc_row]]
                case = ("psd", {"version": v, "padding": 4, "encoding": "macroman"}, d)
                r = F.run_impl(case, exc_code)
                if r["bytes"] is None:
                    continue
                ck.count("doc:wide-row-v%d" % v)
                wo, info = walk_out(r["bytes"], check_rle=True)
                if wo == [1]:
                    ck.fail("walker-rejects-wide-row-document", {"version": v, "width": w, "depth": 32, "rows": 1, "compression": "RLE",
                                                                 "encoded_row_bytes": len(enc_row)},
                            info, "the RLE row table, read with the count width of the file's version, sums to the channel data")
        # ---- (b2) 16/32-bit documents: the layers live in a Lr16 / Lr32 block (LayerInfoBlock), channel lengths stale at write time
        for i in range(1200 if thorough else 150):
            case = F.g_lr_case(rng, [1, 2][i % 2], [1, 2, 4][i % 3])
            r = F.run_lr_case(case, exc_code)
            if r["bytes"] is None:
                ck.count("doc:lr-not-written")
                continue
            ck.count("doc:lr16/lr32")
            jc = c01.jcase(case)
            if r["written"] != len(r["bytes"]):
                ck.fail("written-count-psd", jc, r["written"], len(r["bytes"]), lr=True)
            stale = F.stale_channel_lengths(r["block"].data)
            if stale:
                ck.fail("channel-length-field-lr16", jc, "layer %d channel %d: stored length %d" % stale[0][:3], stale[0][3], lr=True)
            wo, info = walk_out(r["bytes"], descend=True)
            if wo == [1]:
                ck.fail("walker-rejects-lr16-document", jc, info, "every region filled exactly, inside the Lr16/Lr32 block too", lr=True)
            else:
                ck.nontriv(h63_list(0, list(r["bytes"])))
        # ---- (c) fixtures re-written
        lim = 1 << 40 if thorough else 300000
        lim_coq = 600000 if thorough else 120000
        for p in c01.fixture_paths(lim):
            name = os.path.basename(p)
            try:
                d = PSD.frombytes(open(p, "rb").read())
            except Exception:
                continue
            for pad in (1, 2, 4):
                f = io.BytesIO()
                n = d.write(f, padding=pad)
                b = f.getvalue()
                if n != len(b):
                    ck.fail("written-count-fixture", {"fixture": name, "padding": pad}, n, len(b))
                wo, info = walk_out(b, check_rle=True, descend=True)
                ck.count("fixture-rewrite")
                if wo == [1]:
                    ck.fail("walker-rejects-rewritten-fixture", {"fixture": name, "padding": pad}, info, "every region filled exactly")
                else:
                    ck.nontriv(("fx", name, pad))
                if pad == 4 and len(b) <= lim_coq:
                    wo2, _ = walk_out(b)
                    wcases.append((b, wo2))
        # ---- (d) API: documents created by the library, unedited saves
        api_docs(ck, thorough)
    ck.count("write-calls-audited", audit.calls)
    seen = set()
    for cls, rep, emitted in audit.bad:
        if cls in seen:
            continue
        seen.add(cls)
        ck.fail("write-reports-wrong-count:" + cls, {"class": cls}, rep, emitted)

    # ---- the Coq walker on the same bytes, and on the model's own bytes
    ck.sample({"walker_outcome": wcases[0][1], "file_bytes": len(wcases[0][0])})
    bad = ck.correspond("walker_twin", "walk_digest", IMPORTS, wcases, F.coq_bytes, chunk=12, timeout=1800)
    for i in bad[:3]:
        ck.notes.append("Coq walker and Python walker differ on a file of %d bytes: python %r" % (len(wcases[i][0]), wcases[i][1]))
    lit = lambda a: "(%d, %s)" % (a[0], F.coq_psd(a[1]))
    dc = [c for c in dcases if c[1] != [1] or True]
    bad2 = ck.correspond("model_bytes_walk", "fun a => doc_walk_outcome (fst a) (snd a)", IMPORTS, dc, lit, chunk=60)
    for i in bad2[:3]:
        ck.notes.append("walker on the model's bytes differs from walker on the implementation's bytes: %r" % (dc[i][1],))
    ck.assumptions += [
        "RLE row tables are checked by the Python twin of the walker only (channel data is opaque in the Coq model); "
        "for channels whose geometry the walker can know (ids >= -1 and the user mask), on documents whose pixel data came from the library's compressors and on re-written fixtures",
        "layer-level tagged blocks are navigated by their length field as stored (no implicit rounding); global ones are padded to 4, image resources to 2",
        "the 8-byte-length key table of the walker is the specification's list plus the keys observed in Photoshop CC PSB files",
        "scope = documents whose parts are coherent (Psd.Model.wf_psd without the two reader-side guards of C01): a structure whose counts "
        "contradict its lists is not something a writer can make consistent",
        "API saves after an edit (plane count of the merged image) belong to C17",
    ]
    return ck.finish()


def check_channel_lengths(ck, case, obj, layout):
    """per-channel lengths stored in the records (after write) = 2 + stored bytes; and = the sizes the walker found"""
    li = obj.layer_and_mask_information.layer_info
    if li is None or not li.layer_records or not li.channel_image_data:
        return
    found = [sz for k, st, sz in layout if k == F.K_CHANNEL]
    want = []
    for rec, chans in zip(li.layer_records, li.channel_image_data):
        for ci, cd in zip(rec.channel_info, chans):
            want.append(2 + len(cd.data))
            if ci.length != 2 + len(cd.data):
                ck.fail("channel-length-field", c01.jcase(case), ci.length, 2 + len(cd.data), case=c01.jcase(case))
                return
    if found != want:
        ck.fail("channel-lengths-vs-walker", c01.jcase(case), found[:20], want[:20], case=c01.jcase(case))


def api_docs(ck, thorough):
    import warnings
    from psd_tools import PSDImage

    modes = [("L", 1), ("RGB", 3), ("RGBA", 4), ("CMYK", 4)]
    sizes = [(1, 1), (2, 3), (7, 5), (16, 16)]
    for mode, _ in modes:
        for size in sizes:
            for depth in ((8, 16) if thorough else (8,)):
                try:
                    psd = PSDImage.new(mode, size, depth=depth)
                except Exception as e:
                    ck.count("api:new-raises")
                    continue
                f = io.BytesIO()
                try:
                    psd.save(f)
                except Exception as e:
                    ck.count("api:save-raises")
                    continue
                wo, info = walk_out(f.getvalue(), check_rle=True)
                ck.count("api:new")
                if wo == [1]:
                    ck.fail("walker-rejects-api-document", {"mode": mode, "size": list(size), "depth": depth}, info, "walkable file")
    # unedited open + save of fixtures
    for p in c01.fixture_paths(300000)[:: (1 if thorough else 4)]:
        try:
            psd = PSDImage.open(p)
            f = io.BytesIO()
            psd.save(f)
        except Exception:
            ck.count("api:open-save-raises")
            continue
        wo, info = walk_out(f.getvalue(), check_rle=True)
        ck.count("api:open-save")
        if wo == [1]:
            ck.fail("walker-rejects-api-resave", {"fixture": os.path.basename(p)}, info, "walkable file")


def replay(path):
    F.quiet()
    fl = json.load(open(path))
    print("kind:", fl["kind"], "| expected:", fl["expected"], "| observed:", str(fl["observed"])[:400])
    if fl.get("lr"):
        return c01.replay(path)
    if "case" in fl:
        case = c01.unjcase(fl["case"])
        r = F.run_impl(case, exc_code)
        print("document args:", case[1])
        print("coq literal:", F.coq_elem(case)[:1500])
        if r["bytes"] is not None:
            print("written: %d bytes, write() reported %r" % (len(r["bytes"]), r["written"]))
            try:
                lay = F.walk(r["bytes"], check_rle=True)
                print("independent walker: ok,", len(lay), "blocks:", [(k, s) for k, _, s in lay][:40])
            except F.WalkError as e:
                print("independent walker: FAILS:", e)
        print("in scope:", c01.in_scope(case))
    else:
        print("input:", json.dumps(fl["input"])[:1500])
    return 1
