"""C06 worker: opens each input of a batch file under an address-space limit and a per-input alarm,
appending one outcome line per input (so the parent knows the culprit when the process dies).
usage: python -m vh.c06_worker <batch.bin> <out.txt> <rlimit_mb> <per_input_seconds> [open|engine|decode]
batch.bin: repeated [u32 id][u32 len][bytes]
Every fp.read call of the run is counted (io.BytesIO is replaced by a counting subclass in THIS process only): the
outcome line ends with " |r=<calls>,<bytes returned>".  mode decode: open, then every pixel-decoding entry point
(topil / numpy of the document and of each layer, composite) - the allocation sites sized by declared geometry."""
import io
import resource
import signal
import struct
import sys
import time

from vh import core

core.use_repo_sources()
import logging  # noqa

logging.disable(logging.CRITICAL)
from psd_tools import PSDImage  # noqa
from vh import c06_cost  # noqa

c06_cost.install_counting_io()


class Hang(Exception):
    pass


def on_alarm(signum, frame):
    raise Hang()


def main():
    batch, out, mb, secs = sys.argv[1], sys.argv[2], int(sys.argv[3]), int(sys.argv[4])
    mode = sys.argv[5] if len(sys.argv) > 5 else "open"
    data = open(batch, "rb").read()
    lim = mb * 1024 * 1024
    resource.setrlimit(resource.RLIMIT_AS, (lim, lim))
    signal.signal(signal.SIGALRM, on_alarm)
    pos = 0
    with open(out, "a", buffering=1) as fo:
        while pos < len(data):
            cid, n = struct.unpack_from(">II", data, pos)
            pos += 8
            b = data[pos:pos + n]
            pos += n
            fo.write("S %d\n" % cid)
            t0 = time.time()
            rss0 = resource.getrusage(resource.RUSAGE_SELF).ru_maxrss
            c06_cost._C.reads = c06_cost._C.nbytes = 0
            signal.alarm(secs)
            try:
                if mode == "decode":
                    psd = PSDImage.open(c06_cost.CountingBytesIO(b))
                    layers = list(psd.descendants())
                    grown_open = (resource.getrusage(resource.RUSAGE_SELF).ru_maxrss - rss0) // 1024
                    outs = []
                    calls = [("topil", psd.topil), ("numpy", psd.numpy), ("composite", lambda: psd.composite(force=True))]
                    for k, l in enumerate(layers[:2]):
                        calls += [("L%d.topil" % k, l.topil), ("L%d.numpy" % k, l.numpy)]
                    for nm, f in calls:
                        try:
                            f()
                            o = "ok"
                        except Hang:
                            raise
                        except MemoryError:
                            o = "MemoryError"
                        except Exception as e:
                            o = type(e).__name__
                        outs.append("%s=%s" % (nm, o))
                    res = "ok %d open-rss=%dMB %s" % (len(layers), grown_open, ";".join(outs))
                    rss0 = resource.getrusage(resource.RUSAGE_SELF).ru_maxrss  # decode-time growth is reported, not judged here
                elif mode == "engine":
                    # the text-engine-data parser that opening a type layer runs on the embedded blob
                    from psd_tools.psd.engine_data import EngineData, EngineData2

                    n = 0
                    for cls in (EngineData, EngineData2):
                        try:
                            cls.frombytes(b)
                            n += 1
                        except Hang:
                            raise
                        except MemoryError:
                            raise
                        except Exception:
                            pass
                    res = "ok %d" % n
                else:
                    psd = PSDImage.open(c06_cost.CountingBytesIO(b))
                    # touching the tree is part of "opening"
                    nlayers = sum(1 for _ in psd.descendants())
                    res = "ok %d" % nlayers
            except Hang:
                res = "HANG"
            except MemoryError:
                res = "MEMORY"
            except RecursionError:
                res = "exc RecursionError"
            except Exception as e:  # ordinary Python exception
                res = "exc " + type(e).__name__
            finally:
                signal.alarm(0)
            grown_mb = (resource.getrusage(resource.RUSAGE_SELF).ru_maxrss - rss0) // 1024
            if grown_mb > 768 and not res.startswith(("HANG", "MEMORY")):
                res = "MEMORY peak-rss-grew-%dMB (%s)" % (grown_mb, res)
            fo.write("E %d %.3f %s |r=%d,%d\n" % (cid, time.time() - t0, res, c06_cost._C.reads, c06_cost._C.nbytes))


if __name__ == "__main__":
    main()
