"""Shared by C09 / C10 / C14: the edit-history machinery.

* ops are tuples mirroring the constructors of Edit.Model.op, e.g. ("Insert", g, i, x);
  objects are ids in allocation order on both sides;
* World applies an op to real psd_tools objects and prints the canonical state
  (the STORED fields: _layers, _parent, _psd, visible, rectangle, _bbox, _clip_layers, clipping
  flag, _updated_layers) exactly as Edit.Model.print_state does;
* op generators (all argument choices for a given set of families), scenes (mirrors of
  Edit.Corr.init*), Coq literal printers, the plain-list shadow used by the oracles.
"""
from __future__ import annotations

import io
import logging
import re

from .core import h63_list

KDOC, KGROUP, KPIXEL = 0, 1, 2
E_VALUE, E_INDEX, E_ASSERT, E_RECURSION, E_OTHER, E_UNEXPECTED = 1, 3, 4, 8, 99, 98

ALLOCATING = ("NewDoc", "NewPixel", "NewGroup", "GroupLayers")
STRUCTURAL = ("NewGroup", "GroupLayers", "Append", "Extend", "Insert", "Remove", "Pop", "Clear", "SetItem",
              "DelItem", "DeleteLayer", "MoveToGroup", "MoveUp", "MoveDown")
SETTERS = ("SetVisible", "SetLeft", "SetTop", "SetClip")
OBSERVERS = ("ObsBbox", "ObsSize", "ObsRepr", "ObsDesc", "ObsFind", "ObsVisible", "ObsExport")
EXPORT_KINDS = {0: "topil", 1: "numpy", 2: "composite", 3: "save-to-buffer", 4: "mask/effects/print reads", 5: "composite(layer_filter)"}

_quiet = False


def quiet():
    global _quiet
    if not _quiet:
        logging.getLogger("psd_tools").setLevel(logging.CRITICAL)
        _quiet = True


def exc_code(e):
    if isinstance(e, RecursionError):
        return E_RECURSION
    if isinstance(e, AssertionError):
        return E_ASSERT
    if isinstance(e, IndexError):
        return E_INDEX
    if isinstance(e, ValueError):
        return E_VALUE
    if isinstance(e, AttributeError):
        return E_OTHER
    return E_UNEXPECTED


# ----------------------------------------------------------------------------- scenes (mirror of Edit/Corr.v)
def _px(psd, l, t, w, h):
    return ("NewPixel", psd, l, t, w, h)


SCENES = {
    0: [("NewDoc", 8, 8), _px(0, 1, 1, 2, 2), ("Append", 0, 1), ("NewGroup", 0), _px(0, 3, 2, 2, 3), ("Append", 2, 3),
        _px(0, 0, 4, 3, 1), ("NewGroup", None)],
    1: [("NewDoc", 8, 8), ("NewGroup", 0), ("NewGroup", 1), _px(0, 1, 1, 2, 2), ("Append", 2, 3),
        _px(0, 4, 0, 2, 2), ("Append", 1, 4), _px(0, 0, 5, 3, 2), ("Append", 0, 5), _px(0, 6, 6, 1, 1)],
    2: [("NewDoc", 8, 8), _px(0, 1, 1, 2, 2), ("Append", 0, 1), _px(0, 2, 2, 3, 3), ("Append", 0, 2), ("NewGroup", 0),
        _px(0, 0, 0, 1, 1), ("Append", 3, 4), _px(0, 5, 5, 2, 2), ("Append", 3, 5), ("SetClip", 2, True), ("SetClip", 5, True),
        _px(0, 6, 0, 1, 2)],
    3: [("NewDoc", 8, 8), ("NewDoc", 6, 6), _px(0, 1, 1, 2, 2), ("Append", 0, 2), ("NewGroup", 0), _px(0, 3, 3, 2, 2), ("Append", 3, 4),
        _px(1, 0, 0, 2, 1), ("Append", 1, 5), ("NewGroup", 1)],
    4: [("NewDoc", 8, 8), _px(0, 1, 1, 2, 2), ("Append", 0, 1), ("NewGroup", 0), _px(0, 3, 2, 2, 3), ("Append", 2, 3)],
    5: [("NewDoc", 8, 8), _px(0, 1, 1, 2, 2), ("Append", 0, 1), ("NewGroup", None), _px(0, 3, 2, 2, 3), ("Append", 2, 3), _px(None, 0, 0, 2, 2)],
    6: [("NewDoc", 8, 8), ("NewDoc", 8, 8), _px(0, 1, 1, 2, 2), ("Append", 0, 2), _px(0, 2, 2, 3, 3), ("Append", 0, 3), ("SetClip", 3, True),
        ("NewGroup", 1), _px(1, 4, 4, 2, 2), ("Append", 4, 5)],
    7: [],
    8: [("NewDoc", 8, 8), _px(0, 1, 1, 2, 2), _px(0, 3, 3, 3, 2)],
}


def kinds_after(ops, kinds=None):
    """static kinds (by id) after the allocating ops of a script (allocation never depends on outcomes,
    except GroupLayers [] which allocates nothing)"""
    kinds = list(kinds or [])
    for o in ops:
        if o[0] == "NewDoc":
            kinds.append(KDOC)
        elif o[0] == "NewPixel":
            kinds.append(KPIXEL)
        elif o[0] == "NewGroup":
            kinds.append(KGROUP)
        elif o[0] == "GroupLayers" and o[1]:
            kinds.append(KGROUP)
    return kinds


# ----------------------------------------------------------------------------- Coq literals
def _z(v):
    return "(%d)" % v if v < 0 else "%d" % v


def _oz(v):
    return "None" if v is None else "(Some %d)" % v


def _zl(l):
    return "[" + ";".join(str(int(x)) for x in l) + "]"


def _b(v):
    return "true" if v else "false"


def op_lit(o):
    k = o[0]
    if k == "NewDoc":
        return "NewDoc %d %d" % (o[1], o[2])
    if k == "NewPixel":
        return "NewPixel %s %s %s %d %d" % (_oz(o[1]), _z(o[2]), _z(o[3]), o[4], o[5])
    if k == "NewGroup":
        return "NewGroup %s" % _oz(o[1])
    if k == "GroupLayers":
        return "GroupLayers %s %s" % (_zl(o[1]), _oz(o[2]))
    if k == "Extend":
        return "Extend %d %s" % (o[1], _zl(o[2]))
    if k in ("SetVisible", "SetClip"):
        return "%s %d %s" % (k, o[1], _b(o[2]))
    return k + " " + " ".join(_z(v) for v in o[1:])


def case_lit(c):
    k, ops = c
    return "(%d, [%s])" % (k, ";".join(op_lit(o) for o in ops))


# ----------------------------------------------------------------------------- the implementation side
class World:
    """Real psd_tools objects addressed by id (allocation order)."""

    def __init__(self, mode="RGB", depth=8, modes=None, docs="new"):
        """modes: colour mode of the n-th document created (cycled), default: `mode` for all;
        docs: "new" = PSDImage.new, "frompil-rgba" = flat documents made by PSDImage.frompil(RGBA image)"""
        quiet()
        self.objs = []
        self.idx = {}
        self.mode = mode
        self.depth = depth
        self.modes = list(modes) if modes else None
        self.docs = docs
        self.ndocs = 0
        self.dead = False  # after a RecursionError from a list cycle nothing more is applied
        self.export_errors = []  # exceptions raised by exporting reads (their answers are not compared)

    # -- ids
    def reg(self, ob):
        self.idx[id(ob)] = len(self.objs)
        self.objs.append(ob)
        return len(self.objs) - 1

    def oid(self, ob):
        if ob is None:
            return None
        return self.idx.get(id(ob), -2)

    def kind(self, i):
        from psd_tools import PSDImage
        from psd_tools.api.layers import Group

        ob = self.objs[i]
        return KDOC if isinstance(ob, PSDImage) else KGROUP if isinstance(ob, Group) else KPIXEL

    def name(self, i):
        return "%s%d" % ("DGL"[self.kind(i)] if i < len(self.objs) else "L", i)

    # -- ops
    def apply(self, o):
        """apply one op; returns the canonical outcome ([0, values...] or [error code])"""
        if self.dead:
            return [-1]
        try:
            return [0] + self._apply(o)
        except RecursionError as e:
            # a list cycle (the model's corrupt state) or a _parent pointer cycle (state still meaningful)
            if self._has_list_cycle():
                self.dead = True
            return [E_RECURSION]
        except Exception as e:  # noqa
            return [exc_code(e)]

    def _has_list_cycle(self):
        seen = set()

        def walk(ob, path):
            if id(ob) in path:
                return True
            if id(ob) in seen:
                return False
            seen.add(id(ob))
            for c in getattr(ob, "_layers", []) or []:
                if walk(c, path | {id(ob)}):
                    return True
            return False

        return any(walk(ob, frozenset()) for ob in self.objs)

    def _apply(self, o):
        from PIL import Image
        from psd_tools import PSDImage
        from psd_tools.api.layers import Group, PixelLayer

        k = o[0]
        O = self.objs
        if k == "NewDoc":
            m = self.modes[self.ndocs % len(self.modes)] if self.modes else self.mode
            self.ndocs += 1
            if self.docs == "frompil-rgba":
                return [self.reg(PSDImage.frompil(Image.new("RGBA", (o[1], o[2]), (200, 30, 30, 128))))]
            return [self.reg(PSDImage.new(m, (o[1], o[2]), depth=self.depth))]
        if k == "NewPixel":
            _, psd, l, t, w, h = o
            pm = O[psd].pil_mode if psd is not None else self.mode
            im = Image.new(pm[:-1] if pm in ("RGBA", "LA") else pm, (w, h), (40 + 30 * len(O)) % 200)
            lay = PixelLayer.frompil(im, None if psd is None else O[psd], "L%d" % len(O), t, l)
            return [self.reg(lay)]
        if k == "NewGroup":
            g = Group.new("G%d" % len(O), parent=None if o[1] is None else O[o[1]])
            return [self.reg(g)]
        if k == "GroupLayers":
            xs = [O[x] for x in o[1]]
            first_parent = xs[0]._parent if xs else None
            try:
                g = Group.group_layers(xs, "G%d" % len(O), parent=None if o[2] is None else O[o[2]])
            except Exception:
                # the group object was created and lost; it is still the _parent of the moved layers
                if xs and xs[0]._parent is not None and id(xs[0]._parent) not in self.idx and xs[0]._parent is not first_parent:
                    self.reg(xs[0]._parent)
                raise
            return [self.reg(g)]
        if k == "Append":
            O[o[1]].append(O[o[2]])
            return []
        if k == "Extend":
            O[o[1]].extend([O[x] for x in o[2]])
            return []
        if k == "Insert":
            O[o[1]].insert(o[2], O[o[3]])
            return []
        if k == "Remove":
            O[o[1]].remove(O[o[2]])
            return []
        if k == "Pop":
            return [self.oid(O[o[1]].pop(o[2]))]
        if k == "Clear":
            O[o[1]].clear()
            return []
        if k == "SetItem":
            O[o[1]][o[2]] = O[o[3]]
            return []
        if k == "DelItem":
            del O[o[1]][o[2]]
            return []
        if k == "DeleteLayer":
            O[o[1]].delete_layer()
            return []
        if k == "MoveToGroup":
            O[o[1]].move_to_group(O[o[2]])
            return []
        if k == "MoveUp":
            O[o[1]].move_up(o[2])
            return []
        if k == "MoveDown":
            O[o[1]].move_down(o[2])
            return []
        if k == "SetVisible":
            if self.kind(o[1]) == KDOC:
                raise AttributeError("documents are not layers")
            O[o[1]].visible = o[2]
            return []
        if k == "SetLeft":
            O[o[1]].left = o[2]
            return []
        if k == "SetTop":
            O[o[1]].top = o[2]
            return []
        if k == "SetClip":
            if self.kind(o[1]) == KDOC:
                raise AttributeError("documents are not layers")
            O[o[1]].clipping_layer = o[2]
            return []
        if k == "ObsBbox":
            return [int(v) for v in O[o[1]].bbox]
        if k == "ObsSize":
            return [int(v) for v in O[o[1]].size]
        if k == "ObsRepr":
            return parse_repr(repr(O[o[1]]), self.kind(o[1]))
        if k == "ObsDesc":
            return [self.oid(l) for l in O[o[1]].descendants()]
        if k == "ObsFind":
            nm = self.name(o[2])
            f = O[o[1]].find(nm)
            n = len(list(O[o[1]].findall(nm)))
            if f is not None and f is not O[o[2]]:
                return [-5, n]
            return [1 if f is not None else 0, n]
        if k == "ObsVisible":
            return [1 if O[o[1]].is_visible() else 0]
        if k == "ObsExport":
            self.export(O[o[1]], o[2])
            return []
        raise KeyError(k)

    def export(self, ob, kk):
        """the exporting / printing reads of the property; what they return is not compared here, an
        exception is remembered (the twin run compares what happens afterwards)"""
        import contextlib

        try:
            if kk == 0:
                ob.topil()
            elif kk == 1:
                ob.numpy()
            elif kk == 2:
                ob.composite()
            elif kk == 5:
                ob.composite(layer_filter=lambda l: True)
            elif kk == 3:
                if hasattr(ob, "save"):
                    ob.save(io.BytesIO())
                else:
                    with contextlib.redirect_stdout(io.StringIO()):
                        print(ob)
            else:
                with contextlib.redirect_stdout(io.StringIO()):
                    print(ob)
                str(ob)
                if hasattr(ob, "has_mask"):
                    ob.has_mask()
                    _ = ob.mask
                    ob.has_effects()
                    list(ob.effects)
                    ob.has_clip_layers()
                    ob.has_pixels()
                else:
                    ob.has_preview()
                    _ = ob.viewbox
                    class _P:  # IPython pretty printer protocol
                        def text(self, t): pass
                        def break_(self): pass
                        def pretty(self, o): pass
                        def indent(self, n): return contextlib.nullcontext()
                    ob._repr_pretty_(_P(), False)
        except RecursionError as e:
            self.export_errors.append("RecursionError")
        except Exception as e:  # noqa
            self.export_errors.append(type(e).__name__)

    # -- the canonical state (mirror of Edit.Model.print_state)
    def obj_fields(self, i):
        ob = self.objs[i]
        kd = self.kind(i)
        if kd == KDOC:
            parent, psd, vis, rect = None, None, 1, (0, 0, ob.width, ob.height)
            clipf, dirty, clips = 0, int(bool(ob._updated_layers)), []
        else:
            parent, psd = self.oid(ob._parent), self.oid(ob._psd)
            r = ob._record
            vis, rect = int(bool(r.flags.visible)), (r.left, r.top, r.right, r.bottom)
            from psd_tools.constants import Clipping

            clipf, dirty, clips = int(r.clipping == Clipping.NON_BASE), 0, [self.oid(c) for c in ob._clip_layers]
        cache = ob.__dict__.get("_bbox") if kd != KPIXEL else None
        kids = [self.oid(c) for c in ob._layers] if kd != KPIXEL else []
        return dict(kind=kd, parent=parent, psd=psd, vis=vis, rect=tuple(int(v) for v in rect), cache=cache,
                    clipf=clipf, dirty=dirty, clips=clips, kids=kids)

    def print_state(self, nc=False):
        if self.dead:
            return [-1]
        out = [len(self.objs)]
        for i in range(len(self.objs)):
            f = self.obj_fields(i)
            out += [f["kind"], 0 if f["parent"] is None else f["parent"] + 1, 0 if f["psd"] is None else f["psd"] + 1, f["vis"]]
            out += list(f["rect"])
            if not nc:
                out += [0, 0, 0, 0, 0] if f["cache"] is None else [1] + [int(v) for v in f["cache"]]
            out += [f["clipf"], f["dirty"], len(f["clips"])] + f["clips"]
            out += [len(f["kids"])] + f["kids"]
        return out

    def adjacency(self):
        return {i: [self.oid(c) for c in self.objs[i]._layers] for i in range(len(self.objs)) if self.kind(i) != KPIXEL}


_REPR = re.compile(r"^(\w+)\('([^']*)'(?: size=(\d+)x(\d+))?( invisible)?( mask)?( effects)?\)$")


def parse_repr(s, kd):
    if kd == KDOC:
        m = re.search(r"size=(\d+)x(\d+)", s)
        return [int(m.group(1)), int(m.group(2))]
    m = _REPR.match(s)
    if not m:
        return [-9]
    if m.group(3) is not None:
        return [1, int(m.group(3)), int(m.group(4)), 1 if m.group(5) else 0]
    return [0, 0, 0, 1 if m.group(5) else 0]


def step_digest(out, state):
    return h63_list(h63_list(0, out), state)


def run_case(case, hooks=(), mode="RGB", depth=8, nc=False, modes=None, docs="new"):
    """run scene + history on a fresh World; returns (world, [step digests], [outs]).
    hooks: callables (world, index_in_history or -1 for scene steps, op, out, before) called after each step;
    `before` is whatever hook.pre(world, op) returned (or None)."""
    k, ops = case
    w = World(mode, depth, modes=modes, docs=docs)
    ds, outs = [], []
    scene = SCENES[k]
    for n, o in enumerate(list(scene) + list(ops)):
        pres = [h.pre(w, o) if hasattr(h, "pre") else None for h in hooks]
        out = w.apply(o)
        ds.append(step_digest(out, w.print_state(nc)))
        outs.append(out)
        for h, p in zip(hooks, pres):
            h(w, n - len(scene), o, out, p)
    return w, ds, outs


def case_digest(ds):
    return [h63_list(0, ds)]


# ----------------------------------------------------------------------------- op generators
def ops_for(kinds, fam, pos=(-3, -2, -1, 0, 1, 2, 3), offs=(-2, -1, 0, 1, 2), pairs=True, layer_args=None):
    """every op of the families in `fam` with every argument choice, for objects of the given kinds"""
    n = len(kinds)
    conts = [i for i in range(n) if kinds[i] != KPIXEL]
    layers = [i for i in range(n) if kinds[i] != KDOC]
    docs = [i for i in range(n) if kinds[i] == KDOC]
    args = layers if layer_args is None else [x for x in layer_args if x in layers]
    out = []
    if "Append" in fam:
        out += [("Append", g, x) for g in conts for x in args]
    if "Extend" in fam:
        out += [("Extend", g, []) for g in conts]
        out += [("Extend", g, [x]) for g in conts for x in args]
        if pairs:
            out += [("Extend", g, [x, y]) for g in conts for x in args for y in args if (x + y + g) % 3 == 0 or x == y or y == g]
    if "Insert" in fam:
        out += [("Insert", g, i, x) for g in conts for i in pos for x in args]
    if "SetItem" in fam:
        out += [("SetItem", g, i, x) for g in conts for i in pos for x in args]
    if "Remove" in fam:
        out += [("Remove", g, x) for g in conts for x in layers]
    if "Pop" in fam:
        out += [("Pop", g, i) for g in conts for i in pos]
    if "Clear" in fam:
        out += [("Clear", g) for g in conts]
    if "DelItem" in fam:
        out += [("DelItem", g, i) for g in conts for i in pos]
    if "DeleteLayer" in fam:
        out += [("DeleteLayer", x) for x in layers]
    if "MoveToGroup" in fam:
        out += [("MoveToGroup", x, g) for x in layers for g in range(n)]
    if "MoveUp" in fam:
        out += [("MoveUp", x, d) for x in layers for d in offs]
    if "MoveDown" in fam:
        out += [("MoveDown", x, d) for x in layers for d in offs if d != 0]
    if "NewGroup" in fam:
        out += [("NewGroup", None)] + [("NewGroup", p) for p in range(n)]
    if "GroupLayers" in fam:
        out += [("GroupLayers", [], None)]
        out += [("GroupLayers", [x], p) for x in layers for p in [None] + conts]
        if pairs:
            out += [("GroupLayers", [x, y], p) for x in layers for y in layers for p in [None] + conts if (x + 2 * y + (p or 0)) % 4 == 0]
    if "NewPixel" in fam:
        out += [("NewPixel", None, 0, 0, 2, 2)] + [("NewPixel", d, 1 + d, 2, 2, 1) for d in docs]
    if "SetVisible" in fam:
        out += [("SetVisible", x, b) for x in layers for b in (False, True)]
    if "SetLeft" in fam:
        out += [("SetLeft", x, v) for x in layers for v in (-2, 5)]
    if "SetTop" in fam:
        out += [("SetTop", x, v) for x in layers for v in (0, 4)]
    if "SetClip" in fam:
        out += [("SetClip", x, b) for x in layers for b in (True, False)]
    if "ObsBbox" in fam:
        out += [("ObsBbox", x) for x in range(n)]
    if "ObsSize" in fam:
        out += [("ObsSize", x) for x in range(n)]
    if "ObsRepr" in fam:
        out += [("ObsRepr", x) for x in range(n)]
    if "ObsDesc" in fam:
        out += [("ObsDesc", g) for g in conts]
    if "ObsFind" in fam:
        out += [("ObsFind", g, x) for g in conts for x in layers]
    if "ObsVisible" in fam:
        out += [("ObsVisible", x) for x in range(n)]
    if "ObsExport" in fam:
        out += [("ObsExport", x, k) for x in range(n) for k in range(6)]
    return out


def random_op(rng, kinds, fam, pos=(-3, -2, -1, 0, 1, 2, 3, 7), offs=(-3, -2, -1, 0, 1, 2, 3)):
    """one random op of a random family (families equally likely, then arguments uniform)"""
    n = len(kinds)
    conts = [i for i in range(n) if kinds[i] != KPIXEL]
    layers = [i for i in range(n) if kinds[i] != KDOC]
    docs = [i for i in range(n) if kinds[i] == KDOC]
    for _ in range(50):
        f = rng.choice(fam)
        if f == "NewDoc":
            return ("NewDoc", rng.choice([6, 8]), rng.choice([6, 8]))
        if f == "NewPixel":
            return ("NewPixel", rng.choice(docs + [None]) if docs else None, rng.randint(-1, 5), rng.randint(-1, 5), rng.randint(1, 3), rng.randint(1, 3))
        if f == "NewGroup":
            return ("NewGroup", rng.choice(conts + [None]) if conts else None)
        if not conts or not layers:
            continue
        g, x = rng.choice(conts), rng.choice(layers)
        if f in ("Append", "Remove"):
            return (f, g, x)
        if f == "Extend":
            return (f, g, [rng.choice(layers) for _ in range(rng.randint(0, 2))])
        if f in ("Insert", "SetItem"):
            return (f, g, rng.choice(pos), x)
        if f in ("Pop", "DelItem"):
            return (f, g, rng.choice(pos))
        if f in ("Clear", "ObsDesc"):
            return (f, g)
        if f in ("DeleteLayer",):
            return (f, x)
        if f == "MoveToGroup":
            return (f, x, rng.choice(conts) if rng.random() < 0.9 else rng.randrange(n))
        if f in ("MoveUp", "MoveDown"):
            return (f, x, rng.choice(offs))
        if f == "GroupLayers":
            return (f, [rng.choice(layers) for _ in range(rng.randint(1, 2))], rng.choice(conts + [None, None]))
        if f in ("SetVisible", "SetClip"):
            return (f, x, rng.random() < 0.5)
        if f in ("SetLeft", "SetTop"):
            return (f, x, rng.randint(-2, 6))
        if f in ("ObsBbox", "ObsSize", "ObsRepr", "ObsVisible"):
            return (f, rng.randrange(n))
        if f == "ObsExport":
            return (f, rng.choice(docs) if docs and rng.random() < 0.6 else rng.randrange(n), rng.randrange(6))
        if f == "ObsFind":
            return (f, g, x)
    return ("NewDoc", 8, 8)


def random_walk(rng, k, length, fam, guarded=None):
    """random history from scene k; `guarded` (a Shadow-based predicate) filters ops when given"""
    kinds = kinds_after(SCENES[k])
    sh = Shadow(SCENES[k]) if guarded else None
    ops = []
    tries = 0
    while len(ops) < length and tries < length * 20:
        tries += 1
        o = random_op(rng, kinds, fam)
        if sh is not None:
            if not guarded(sh, o):
                continue
            sh.apply(o)
        ops.append(o)
        kinds = kinds_after([o], kinds)
    return (k, ops)


# ----------------------------------------------------------------------------- the plain-list shadow (specification side)
class Refused(Exception):
    pass


class Shadow:
    """The same operations on plain Python lists: one `list` of ids per container, nothing else.
    Refusals are the ones the property names (a cycle would be created / not a layer / group into itself);
    IndexError / ValueError come from the Python lists themselves.  Written without reference to
    psd_tools: this is the specification the real tree is compared with (C09) and the source of the
    guard flags (which histories leave the class the theorems cover)."""

    def __init__(self, scene=()):
        self.kinds = []
        self.L = {}
        self.flags = set()  # guard negations met so far
        for o in scene:
            self.apply(o)

    def container_of(self, x):
        cs = [g for g, l in self.L.items() if x in l]
        return cs

    def listed(self, x):
        return any(x in l for l in self.L.values())

    def reach(self, x, seen=None):
        seen = set() if seen is None else seen
        for c in self.L.get(x, []):
            if c not in seen:
                seen.add(c)
                self.reach(c, seen)
        return seen

    def _new(self, kind):
        self.kinds.append(kind)
        i = len(self.kinds) - 1
        if kind != KPIXEL:
            self.L[i] = []
        return i

    def _would_cycle(self, g, x):
        return x == g or g in self.reach(x)

    def _unlist(self, x):
        for g in self.container_of(x):
            self.L[g].remove(x)
            return

    def guard_flags(self, o):
        return guard_flags(self.L, self.kinds, o)

    def apply(self, o):
        """returns the outcome list like World.apply; state unchanged when refused"""
        try:
            return [0] + self._apply(o)
        except Refused:
            return [E_ASSERT]
        except IndexError:
            return [E_INDEX]
        except ValueError:
            return [E_VALUE]

    def _attach_ok(self, g, xs):
        for x in xs:
            if self.kinds[x] == KDOC:
                raise Refused()
            if self.kinds[x] == KGROUP and g in self.reach(x):
                raise Refused()

    def _apply(self, o):
        k = o[0]
        L = self.L
        if k == "NewDoc":
            return [self._new(KDOC)]
        if k == "NewPixel":
            return [self._new(KPIXEL)]
        if k == "NewGroup":
            n = self._new(KGROUP)
            p = o[1]
            if p is not None and self.kinds[p] != KPIXEL:
                L[p].append(n)
            return [n]
        if k == "GroupLayers":
            xs, p = o[1], o[2]
            if not xs:
                raise Refused()
            if p is None:
                cs = self.container_of(xs[0])
                p = cs[0] if cs else None
            attach = p is not None and self.kinds[p] != KPIXEL
            if attach and any(p == x or p in self.reach(x) for x in xs):
                raise Refused()  # the new group would contain its own parent (the code notices only after moving: F-C10-4)
            n = self._new(KGROUP)
            for x in xs:
                self._unlist(x)
                L[n].append(x)
            if attach:
                L[p].append(n)
            return [n]
        if k == "Append":
            g, x = o[1], o[2]
            if x == g:
                raise Refused()
            self._attach_ok(g, [x])
            L[g].append(x)
            return []
        if k == "Extend":
            g, xs = o[1], o[2]
            self._attach_ok(g, xs)
            if g in xs:
                raise Refused()
            L[g].extend(xs)
            return []
        if k == "Insert":
            g, i, x = o[1], o[2], o[3]
            if x == g:
                raise Refused()
            self._attach_ok(g, [x])
            L[g].insert(i, x)
            return []
        if k == "SetItem":
            g, i, x = o[1], o[2], o[3]
            if x == g:
                raise Refused()
            self._attach_ok(g, [x])
            L[g][i] = x
            return []
        if k == "Remove":
            L[o[1]].remove(o[2])
            return []
        if k == "Pop":
            return [L[o[1]].pop(o[2])]
        if k == "Clear":
            L[o[1]].clear()
            return []
        if k == "DelItem":
            del L[o[1]][o[2]]
            return []
        if k == "DeleteLayer":
            self._unlist(o[1])
            return []
        if k == "MoveToGroup":
            x, g = o[1], o[2]
            if self.kinds[g] == KPIXEL or g == x or (self.kinds[x] == KGROUP and g in self.reach(x)):
                raise Refused()
            self._unlist(x)
            L[g].append(x)
            return []
        if k in ("MoveUp", "MoveDown"):
            x, d = o[1], o[2] if k == "MoveUp" else -o[2]
            cs = self.container_of(x)
            if not cs:
                raise Refused()
            l = L[cs[0]]
            j = min(max(l.index(x) + d, 0), len(l) - 1)
            l.remove(x)
            l.insert(j, x)
            return []
        return []  # setters / observers do not touch the lists

    def nested(self, g):
        return [[c, self.nested(c)] if self.kinds[c] != KPIXEL else c for c in self.L[g]]


def _reach(L, x, seen=None):
    seen = set() if seen is None else seen
    for c in L.get(x, []):
        if c not in seen:
            seen.add(c)
            _reach(L, c, seen)
    return seen


def guard_flags(L, kinds, o, first_parent="by-containment"):
    """guard negations of op o in the structure L (container id -> list of child ids), before applying it.
    first_parent: for GroupLayers without explicit parent, the parent the code will resolve
    (the stored _parent of the first layer) when the caller knows it; default: its container."""
    k = o[0]
    fl = set()
    args = []
    if any(isinstance(v, int) and not isinstance(v, bool) and not (0 <= v < len(kinds)) for v in
           ([o[1]] if k not in ("NewGroup", "GroupLayers", "NewDoc", "NewPixel") else [])):
        return fl  # the receiver does not exist on this side (ids out of step after a lost object)
    listed = lambda x: any(x in l for l in L.values())
    mult = lambda x: sum(l.count(x) for l in L.values())
    if k == "Append":
        args = [o[2]]
    elif k == "Extend":
        args = list(o[2])
        if len(set(args)) != len(args):
            fl.add("dup-in-list")
        if o[1] in args:
            fl.add("self-in-list")
    elif k in ("Insert", "SetItem"):
        args = [o[3]]
    for x in args:
        if listed(x):
            fl.add("listed-arg")
    if k in ("DeleteLayer", "MoveToGroup", "MoveUp", "MoveDown") and mult(o[1]) > 1:
        fl.add("multi-listed")
    if k == "GroupLayers" and o[1]:
        if any(mult(x) > 1 for x in o[1]):
            fl.add("multi-listed")
        p = o[2]
        if p is None:
            if first_parent == "by-containment":
                cs = [g for g, l in L.items() if o[1][0] in l]
                p = cs[0] if cs else None
            else:
                p = first_parent
                cs = [g for g, l in L.items() if o[1][0] in l]
                if p is not None and p not in cs:
                    fl.add("stale-parent-default")
        if p is not None and not (0 <= p < len(kinds)):
            fl.add("stale-parent-default")  # the stored _parent is an object nobody registered
            p = None
        if p is not None and kinds[p] != KPIXEL and any(p == x or p in _reach(L, x) for x in o[1]):
            fl.add("group-layers-parent-inside")
    return fl


def structure_guard(sh, o):
    """the guard of the theorems: arguments of listing operations are detached, no duplicates, not the group itself"""
    return not sh.guard_flags(o)


# ----------------------------------------------------------------------------- save + reopen (persistence oracle)
def tree_shape(w, root):
    """(name, kind, visible, rect, children) nested, from real objects"""

    def rec(g):
        out = []
        for l in g:
            if l.is_group():
                out.append((l.name, l.kind, bool(l.visible), rec(l)))
            else:
                out.append((l.name, l.kind, bool(l.visible), (l.left, l.top, l.right, l.bottom)))
        return out

    return rec(root)


def save_reopen(doc):
    from psd_tools import PSDImage

    b = io.BytesIO()
    doc.save(b)
    b.seek(0)
    return PSDImage.open(b), b.getvalue()


# ----------------------------------------------------------------------------- model detail for diagnosing a mismatch
def parse_listlist(s):
    m = re.search(r"=\s*(\[.*\])\s*:\s*list", s, re.S)
    if not m:
        return None
    body = re.sub(r"%\w+", "", m.group(1)).replace("\n", " ")
    body = body.replace(";", ",")
    import ast

    return ast.literal_eval(body)


_variant = None


def code_variant():
    """which code variant the tree under test is (see Edit.Model.cfg): (clipfix, selffix, descfix, clipsfix, cachefix)"""
    global _variant
    if _variant is None:
        from PIL import Image
        from psd_tools import PSDImage
        from psd_tools.api.layers import Group, PixelLayer

        quiet()
        im = Image.new("RGB", (1, 1))
        d = PSDImage.new("RGB", (2, 2))
        l = PixelLayer.frompil(im, d, "probe")
        l.clipping_layer = True
        clipfix = bool(l.clipping_layer)
        g = Group.new("probe")
        try:
            g.extend([g])
            selffix = False
        except AssertionError:
            selffix = True
        except RecursionError:
            selffix = False
        d2 = PSDImage.new("RGB", (2, 2))
        a, b = PixelLayer.frompil(im, d2, "a"), PixelLayer.frompil(im, d2, "b")
        d2.append(a)
        d2.append(b)
        b.clipping_layer = True
        descfix = len(list(d2.descendants())) == 2
        d2.remove(b)
        clipsfix = len(a._clip_layers) == 0
        g2 = Group.new("probe2", parent=d2)
        _ = g2.bbox
        g2.append(b)
        cachefix = g2.__dict__.get("_bbox") is None
        _variant = (clipfix, selffix, descfix, clipsfix, cachefix)
    return _variant


def cfg_lit():
    return "(mkCfg %s %s %s %s %s)" % tuple("true" if v else "false" for v in code_variant())


def digest_fn(nc=False):
    return "%s %s" % ("run_digest_nc_v" if nc else "run_digest_v", cfg_lit())


def model_full(ck, case, tag="dbg"):
    out = ck.coq_eval("full_%s" % tag, "Eval vm_compute in (run_full_v %s %s).\n" % (cfg_lit(), case_lit(case)),
                      ["Base.Prelude", "Edit.Model", "Edit.Corr"])
    return parse_listlist(out)


def impl_full(case, mode="RGB"):
    k, ops = case
    w = World(mode)
    res = []
    for o in list(SCENES[k]) + list(ops):
        out = w.apply(o)
        res.append(out + [-7] + w.print_state())
    return res


def explain_mismatch(ck, case, tag="dbg"):
    """first step at which model and implementation differ, as text"""
    try:
        m = model_full(ck, case, tag)
    except Exception as e:  # noqa
        return "model evaluation failed: %s" % e
    im = impl_full(case)
    allops = list(SCENES[case[0]]) + list(case[1])
    for n, (a, b) in enumerate(zip(m, im)):
        if a != b:
            return "case %r: first difference at step %d (%r): model %r impl %r" % (case, n - len(SCENES[case[0]]), allops[n], a, b)
    return "case %r: no difference found in detail (digest only?)" % (case,)


# ----------------------------------------------------------------------------- parallel evaluation on the implementation side
class Guarded:
    """wraps a per-case worker: an exception inside the driver or an oracle becomes a reported failure
    (with the case as replay) instead of killing the run"""

    def __init__(self, fn, on_error):
        self.fn, self.on_error = fn, on_error

    def __call__(self, item):
        try:
            return self.fn(item)
        except Exception as e:  # noqa
            import traceback

            return self.on_error(item, "%s: %s | %s" % (type(e).__name__, e, traceback.format_exc()[-400:]))


def parallel_map(fn, items, procs=12, chunk=200):
    """map a top-level function over items in forked workers (psd_tools is already imported and is inherited)"""
    import multiprocessing as mp

    if len(items) < 400 or procs <= 1:
        return [fn(x) for x in items]
    ctx = mp.get_context("fork")
    with ctx.Pool(procs) as pool:
        return pool.map(fn, items, chunksize=chunk)


def scene_prefix_digests():
    """per-step digests of the scene scripts (deterministic), computed once"""
    res = {}
    for k in SCENES:
        _, ds, _ = run_case((k, []))
        res[k] = ds
    return res


IMPORTS = ["Base.Prelude", "Edit.Model", "Edit.Corr"]


def pylist_cases(rng, n=3000):
    """Python list primitives vs Edit.Corr.pylist_case"""
    cases = []
    for _ in range(n):
        which = rng.randrange(5)
        l = [rng.randrange(6) for _ in range(rng.randrange(6))]
        i = rng.randint(-8, 8)
        x = rng.randrange(7)
        m = list(l)
        try:
            if which == 0:
                m.insert(i, x)
                out = m
            elif which == 1:
                v = m.pop(i)
                out = [v] + m
            elif which == 2:
                m[i] = x
                out = m
            elif which == 3:
                m.remove(x)
                out = m
            else:
                out = [m.index(x)]
        except (IndexError, ValueError):
            out = [-1]
        cases.append(((which, l, i, x), out))
    return cases


def pylist_lit(c):
    which, l, i, x = c
    return "(%d, (%s, (%s, %d)))" % (which, _zl(l), _z(i), x)


# ----------------------------------------------------------------------------- shrinking a failing history
def _op_ids(o):
    """positions in the op tuple that are object ids (ints or lists of ints / None)"""
    k = o[0]
    if k in ("NewDoc",):
        return []
    if k == "NewPixel":
        return [1]
    if k == "NewGroup":
        return [1]
    if k == "GroupLayers":
        return [1, 2]
    if k == "Extend":
        return [1, 2]
    if k in ("Insert", "SetItem"):
        return [1, 3]
    if k in ("Pop", "DelItem", "MoveUp", "MoveDown", "SetVisible", "SetLeft", "SetTop", "SetClip", "ObsExport"):
        return [1]
    if k in ("Append", "Remove", "MoveToGroup", "ObsFind"):
        return [1, 2]
    return [1]


def _renumber(o, removed):
    """op with every id > removed decremented; None if it mentions the removed id"""
    o = list(o)
    for p in _op_ids(o):
        v = o[p]
        if isinstance(v, list):
            if removed in v:
                return None
            o[p] = [x - 1 if x > removed else x for x in v]
        elif isinstance(v, int) and not isinstance(v, bool):
            if v == removed:
                return None
            if v > removed:
                o[p] = v - 1
    return tuple(o)


def shrink(case, still_fails, budget=400):
    """greedy: drop steps of the history while still_fails(case) holds.  A step that creates an object can go
    when no later step mentions the object; later ids are renumbered."""
    k, ops = case
    ops = [tuple(o) for o in ops]
    base = len(kinds_after(SCENES[k]))
    changed = True
    while changed and budget > 0:
        changed = False
        i = len(ops) - 2  # keep the last (failing) step
        while i >= 0 and budget > 0:
            o = ops[i]
            cand = None
            allocates = o[0] in ("NewDoc", "NewPixel", "NewGroup") or (o[0] == "GroupLayers" and o[1])
            if not allocates:
                cand = ops[:i] + ops[i + 1:]
            else:
                nid = base + len(kinds_after(ops[:i]))
                rest = [_renumber(x, nid) for x in ops[i + 1:]]
                if all(r is not None for r in rest):
                    cand = ops[:i] + rest
            if cand is not None:
                budget -= 1
                try:
                    ok = still_fails((k, cand))
                except Exception:  # noqa
                    ok = False
                if ok:
                    ops = cand
                    changed = True
            i -= 1
    return (k, ops)


def shrink_failures(ck, case, fails, fails_for, min_len=7, limit=4):
    """unlisted failures found on long (random-walk) histories are reported on a minimised history"""
    out = []
    for kind, inp, obs, exp in fails:
        rec = (kind, inp, obs, exp)
        hist = inp.get("history") if isinstance(inp, dict) else None
        n = getattr(ck, "_shrunk", 0)
        if (hist is None or len(hist) < min_len or n >= limit
                or ck.classify({"kind": kind, "input": inp, "observed": obs, "expected": exp}) is not None):
            out.append(rec)
            continue
        ck._shrunk = n + 1

        def unlisted(c):
            for k2, i2, o2, e2 in fails_for(c):
                if k2 == kind and ck.classify({"kind": k2, "input": i2, "observed": o2, "expected": e2}) is None:
                    return (k2, i2, o2, e2)
            return None

        try:
            small = shrink((case[0], [tuple(o) for o in hist]), lambda c: unlisted(c) is not None)
            r2 = unlisted(small)
        except Exception:  # noqa
            r2 = None
        if r2 is not None and len(small[1]) < len(hist):
            out.append((r2[0], dict(r2[1], shrunk_from_length=len(hist)), r2[2], r2[3]))
        else:
            out.append(rec)
    return out
