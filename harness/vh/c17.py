"""C17 - the stored merged image is valid and matches the layers after an edit; untouched otherwise.
Oracle: the image-data section of the saved bytes is parsed by an INDEPENDENT reader
(pixels_common.read_image_data_section), compared with the header geometry, read back with psd-tools,
compared with composite(force=True) of the reopened layers, and compared byte for byte with the
original when nothing structural was edited.  Correspondence: save() vs Pixels/Model.v [save]."""
from __future__ import annotations

import io
import json
import os

from . import core
from . import pixels_common as pc
from .core import Check, exc_code

IMPORTS = ["Base.Prelude", "Pixels.Model", "Pixels.Corr"]
DOCMODES = ["L", "LA", "RGB", "RGBA", "CMYK"]
BASE = {"L": "L", "LA": "L", "RGB": "RGB", "RGBA": "RGB", "CMYK": "CMYK"}
NCOLOR = {1: 1, 3: 3, 4: 4}  # ColorMode value -> colour planes (grayscale, RGB, CMYK)
FIXTURES_Q = [
    "colormodes/4x4_8bit_rgb.psd", "colormodes/4x4_8bit_rgba.psd", "colormodes/4x4_8bit_cmyk.psd",
    "colormodes/4x4_8bit_grayscale.psd", "colormodes/4x4_16bit_rgb.psd", "colormodes/4x4_16bit_cmyk.psd",
    "colormodes/4x4_16bit_grayscale.psd", "colormodes/4x4_32bit_rgb.psd", "colormodes/4x4_32bit_grayscale.psd",
    "16bit5x5.psd", "32bit5x5.psd", "2layers.psd", "1layer.psd", "transparentbg-gimp.psd", "hidden-layer.psd",
    "group.psd", "clipping-mask2.psd", "layer_params.psd", "gray0.psd", "gray1.psd", "effects/stroke-composite.psd",
    "opacity-fill.psd", "16bit5x5.psb", "clipping-mask.psd",
]
STRUCTURAL = ["append-layer", "append-partial", "append-two", "append-remove", "append-group", "group-with-layer", "move-down"]
CLEAN = ["nothing", "rename", "hide", "opacity", "move-offset", "blend-mode"]
FIX_STRUCT = ["rotate", "delete-top", "add-group", "add-layer", "delete-clipping"]
FIX_CLEAN = ["nothing", "rename", "hide", "opacity"]
_ST = None


def st():
    global _ST
    if _ST is None:
        _ST = pc.finding_status()
    return _ST


def fixture_path(rel):
    return os.path.join(core.REPO, "tests", "psd_files", rel)


# ----------------------------------------------------------------------------- building documents
def layer_image(dm, w, h, seed, partial):
    mode = {"L": "LA", "RGB": "RGBA", "CMYK": "CMYK"}[BASE[dm]]
    return pc.gen_image(mode, w, h, seed, 5, 2 if partial else 1)


def make_api_doc(c):
    """-> (psd ready to be saved, original image-data section bytes or None, dirty?)"""
    from psd_tools import PSDImage
    from psd_tools.api.layers import Group, PixelLayer
    from psd_tools.constants import BlendMode, Compression

    dm, (w, h), depth, comp, hist = c["mode"], c["size"], c["depth"], c["comp"], c["history"]
    color = 0 if depth == 32 else (40 if depth == 8 else 10000)
    psd = PSDImage.new(dm, (w, h), color=color, depth=depth, compression=pc.comp_enum(comp))

    def pix(seed, partial, left, top, lw=None, lh=None):
        seed = (seed + c.get("seed", 0)) % 256
        im = layer_image(dm, lw or max(1, w - 1), lh or max(1, h - 1), seed, partial)
        return PixelLayer.frompil(im, psd, "px%d" % seed, top, left, Compression.RLE)

    if hist in CLEAN:
        # a clean history needs a layered document that was saved and reopened
        if depth == 8 and dm != "CMYK" and c.get("layered", True):
            psd.append(pix(3, False, 0, 0))
            psd.append(pix(4, False, 1, 1))
            try:
                blob0 = pc.save_bytes(psd)
            except Exception:
                return None, None, False
        else:
            blob0 = pc.save_bytes(psd)
        psd = pc.reopen(blob0)
        orig = pc.read_image_data_section(blob0).raw
        if hist == "rename" and len(psd):
            psd[0].name = "renamed"
        elif hist == "hide" and len(psd):
            psd[0].visible = False
        elif hist == "opacity" and len(psd):
            psd[0].opacity = 100
        elif hist == "move-offset" and len(psd):
            psd[0].left = psd[0].left + 1
        elif hist == "blend-mode" and len(psd):
            psd[0].blend_mode = BlendMode.MULTIPLY
        return psd, orig, False
    orig = None
    if hist == "append-layer":
        psd.append(pix(5, False, 1, 0))
    elif hist == "append-partial":
        psd.append(pix(6, True, 0, 1))
    elif hist == "append-two":
        psd.append(pix(7, False, -1, -1))
        psd.append(pix(8, True, 1, 1, 2, 2))
    elif hist == "append-remove":
        l = pix(9, False, 0, 0)
        psd.append(l)
        psd.remove(l)
    elif hist == "append-group":
        psd.append(Group.new("g"))
    elif hist == "append-remove-group":
        g = Group.new("g")
        psd.append(g)
        psd.remove(g)
    elif hist == "group-with-layer":
        g = Group.new("g")
        psd.append(g)
        g.append(pix(10, False, 0, 0))
    elif hist == "move-down":
        psd.append(pix(11, False, 0, 0))
        psd.append(pix(12, False, 1, 1))
        psd[1].move_down()
    return psd, orig, True


def make_fixture_doc(c):
    from psd_tools import PSDImage
    from psd_tools.api.layers import Group, PixelLayer
    from psd_tools.constants import Compression

    p = fixture_path(c["fixture"])
    blob0 = open(p, "rb").read()
    psd = PSDImage.open(p)
    orig = pc.read_image_data_section(blob0).raw
    hist = c["history"]
    dirty = hist in FIX_STRUCT
    if hist == "rotate":
        if len(psd) == 0:
            psd.append(Group.new("g"))
        else:
            l = psd.pop(0)
            psd.append(l)
    elif hist == "delete-top":
        if len(psd) == 0:
            psd.append(Group.new("g"))
        else:
            psd[-1].delete_layer()
    elif hist == "add-group":
        psd.append(Group.new("g"))
    elif hist == "delete-clipping":
        # remove every clipping layer, the last one last (the relation must be reset each time)
        clipped = [l for l in psd.descendants() if l.clipping_layer]
        if not clipped:
            psd.append(Group.new("g"))
        for l in clipped:
            l.delete_layer()
    elif hist == "add-layer" and psd.depth != 8:
        psd.append(Group.new("g"))  # frompil layers are 8-bit only (F-C07-7)
    elif hist == "add-layer":
        dm = {1: "L", 3: "RGB", 4: "CMYK"}.get(int(psd.color_mode), "RGB")
        im = layer_image(dm, max(1, psd.width - 1), max(1, psd.height - 1), 21, False)
        # RLE layers from frompil are unreadable in PSB documents (F-C07-9): not this property's business
        psd.append(PixelLayer.frompil(im, psd, "added", 0, 1, Compression.RLE if psd.version == 1 else Compression.ZIP))
    elif hist == "rename" and len(psd):
        psd[0].name = "renamed"
    elif hist == "hide" and len(psd):
        psd[0].visible = not psd[0].visible
    elif hist == "opacity" and len(psd):
        psd[0].opacity = 128
    return psd, orig, dirty


def make_doc(c):
    return make_fixture_doc(c) if "fixture" in c else make_api_doc(c)


# ----------------------------------------------------------------------------- the oracle
def has_clipping(psd):
    try:
        return any(getattr(l, "clipping_layer", False) or getattr(l, "clipping", False) for l in psd.descendants())
    except Exception:
        return False


def has_icc(psd):
    from psd_tools.constants import Resource

    return Resource.ICC_PROFILE in psd.image_resources


def oracle(ck, c, keep=None):
    """runs the history, saves, and states the property on the saved bytes.  Returns a dict of
    observations for the correspondence (or None when the case could not be built)."""
    try:
        psd, orig, dirty = make_doc(c)
    except Exception as e:
        ck.count("unbuildable:" + type(e).__name__)
        return None
    if psd is None:
        return None
    return judge(ck, c, psd, dirty, orig, keep)


def judge(ck, c, psd, dirty, orig, keep=None, render_always=False, **tag):
    """save [psd] once and state the property on the bytes written.  [dirty]: the structure of this
    PSDImage object was edited at some point since it was created / opened; [orig]: the image-data
    section the object started from (or of its previous save)."""
    import numpy as np
    from psd_tools.api.numpy_io import get_transparency_index, has_transparency
    from psd_tools.composite import composite

    hd = psd._record.header
    if int(psd.color_mode) not in NCOLOR or hd.depth == 1:
        ck.count("out-of-scope colour mode %s" % psd.color_mode.name)
        return None
    info = dict(mode=int(psd.color_mode), channels=hd.channels, depth=hd.depth, w=hd.width, h=hd.height,
                comp=int(psd._record.image_data.compression), dirty=dirty, clipping=has_clipping(psd), icc=has_icc(psd),
                nlayers=len(psd))
    info.update(tag)
    ck.count("mode:%d ch:%d depth:%d" % (info["mode"], info["channels"], info["depth"]))
    ck.count("merged-compression:%s" % pc.COMP_NAMES[info["comp"]])
    ck.count("history:" + ("structural" if dirty else "clean"))
    obs = dict(info=info)
    try:
        obs["old"] = [list(b) for b in psd._record.image_data.get_data(hd)]
    except Exception as e:
        obs["old_exc"] = e
    inmem = None
    if dirty or render_always:
        try:
            psd._update_record()
            cc, _, aa = composite(psd, force=True)
            inmem = (np.array(cc, dtype=np.float32), np.array(aa, dtype=np.float32))
            obs["rendered"] = inmem
            obs["transp"] = bool(has_transparency(psd))
            obs["tindex"] = get_transparency_index(psd) % hd.channels
        except Exception as e:
            obs["composite_exc"] = e
    extra = dict(info)
    try:
        blob = pc.save_bytes(psd)
    except Exception as e:
        obs["save_exc"] = e
        ck.fail("save-raises", c, repr(e), "file written", exc=type(e).__name__, **extra)
        return obs
    s = pc.read_image_data_section(blob)
    obs["section"] = s
    if keep is not None:
        keep["blob"] = blob
    # what the library reads back is what the independent reader finds in the file
    if s.ok:
        try:
            p2 = pc.reopen(blob)
            lib = [bytes(b) for b in p2._record.image_data.get_data(p2._record.header)]
            if lib != [bytes(b) for b in s.planes]:
                k = next((i for i, (x, y) in enumerate(zip(lib, s.planes)) if x != bytes(y)), min(len(lib), len(s.planes)))
                ck.fail("readback-differs-from-file", c, dict(planes=len(lib), first_differing_plane=k, sizes=[len(b) for b in lib]),
                        dict(planes=len(s.planes), sizes=[len(b) for b in s.planes]), **extra)
        except Exception as e:
            ck.fail("readback-raises", c, repr(e), "merged image readable by psd-tools", exc=type(e).__name__, **extra)
            return obs
    if not dirty:
        if s.raw != orig:
            ck.fail("clean-bytes-changed", c, dict(len=len(s.raw), head=list(s.raw[:12])), dict(len=len(orig or b""), head=list((orig or b"")[:12])), **extra)
        return obs
    if not s.ok:
        ck.fail("section-mismatch", c, s.why, "exactly %d planes of %d x %d samples of %d bits" % (hd.channels, hd.width, hd.height, hd.depth), **extra)
    try:
        p2 = pc.reopen(blob)
        obs["reopened"] = p2
        arr = p2.numpy()
        img = p2.topil(apply_icc=False)
        if tuple(arr.shape[:2]) != (hd.height, hd.width) or arr.shape[2] != hd.channels:
            ck.fail("readback-shape", c, list(arr.shape), [hd.height, hd.width, hd.channels], **extra)
        if img is not None and img.size != (hd.width, hd.height):
            ck.fail("readback-shape", c, list(img.size), [hd.width, hd.height], **extra)
    except Exception as e:
        obs["readback_exc"] = e
        ck.fail("readback-raises", c, repr(e), "merged image readable by psd-tools", exc=type(e).__name__, **extra)
        return obs
    if not s.ok or info["mode"] not in NCOLOR:
        return obs
    # equals the composite of the SAVED layers (those of the reopened file)
    try:
        c2, _, a2 = composite(p2, force=True)
    except Exception as e:
        ck.count("composite-of-reopened-raises:" + type(e).__name__)
        return obs
    nc = c2.shape[2]
    merged = np.stack([pc.plane_samples(p, hd.depth).reshape(hd.height, hd.width) for p in s.planes], axis=2)
    tr = bool(has_transparency(p2)) and hd.channels > nc
    tol = 1.01 / 255
    white = c2 * a2 + 1.0 - a2
    if tr:
        ti = get_transparency_index(p2) % hd.channels
        da = np.abs(merged[:, :, ti:ti + 1] - a2)
        exp = white if info["mode"] == 3 else c2
        dc = np.abs(merged[:, :, :nc] - exp) * (a2 > 0 if info["mode"] != 3 else 1.0)
    else:
        da = np.zeros_like(a2)
        dc = np.abs(merged[:, :, :nc] - white)
    badpix = (dc.max(axis=2) > tol) | (da[:, :, 0] > tol)
    if badpix.any():
        partial_only = bool(np.all((a2[:, :, 0][badpix] > 0) & (a2[:, :, 0][badpix] < 1)))
        stale = False
        if inmem is not None and inmem[0].shape == c2.shape:
            stale = bool(np.abs(inmem[0] - c2).max() > tol or np.abs(inmem[1] - a2).max() > tol)
        yx = np.argwhere(badpix)[0]
        ck.fail("merged-ne-composite", c,
                dict(pixel=[int(yx[1]), int(yx[0])], merged=[float(v) for v in merged[yx[0], yx[1]]]),
                dict(color=[float(v) for v in (white if (not tr or info["mode"] == 3) else c2)[yx[0], yx[1]]], alpha=float(a2[yx[0], yx[1], 0])),
                bad_pixels=int(badpix.sum()), partial_alpha_only=partial_only, inmem_differs_from_saved=stale,
                transparency=tr, **extra)
    return obs


# ----------------------------------------------------------------------------- correspondence
def enc_planes(arr, depth, rint):
    """(h, w, k) float array -> list of k planes as byte lists in the given depth"""
    import numpy as np

    out = []
    for k in range(arr.shape[2]):
        p = arr[:, :, k]
        if depth == 8:
            q = (np.rint(255 * p) if rint else (255 * p)).astype(np.uint8).astype(">u1")
        elif depth == 16:
            q = np.rint(65535 * p).astype(">u2")
        else:
            q = p.astype(">f4")
        out.append(list(q.tobytes()))
    return out


def save_case(c, obs, bits):
    """-> ((literal fields), implementation digests) or None"""
    info = obs["info"]
    if "old" not in obs or info["mode"] not in NCOLOR:
        return None
    fx_save = bool(bits & 16)
    if info["dirty"]:
        if "rendered" not in obs or info.get("icc"):
            return None  # ICC conversion inside save() is not modelled (F-C17-6)
        col, al = obs["rendered"]
        if col.shape[2] != NCOLOR[info["mode"]]:
            return None
        if fx_save:
            straight = enc_planes(col, info["depth"], True)
            white = enc_planes(col * al + (1.0 - al), info["depth"], True)
            alpha = enc_planes(al, info["depth"], True)[0]
        else:
            straight = enc_planes(col, 8, False)
            white = []
            alpha = enc_planes(al, 8, False)[0]
        transp, tindex = obs.get("transp", False), obs.get("tindex", 0)
    else:
        straight, white, alpha, transp, tindex = [], [], [], False, 0
    # implementation outcome
    if "save_exc" in obs:
        out = [pc.dg([exc_code(obs["save_exc"])]), 0]
    else:
        s = obs["section"]
        p2 = obs.get("reopened")
        try:
            if p2 is None:
                p2 = pc.reopen(obs["_blob"])
            planes = [list(b) for b in p2._record.image_data.get_data(p2._record.header)]
            d0 = pc.dg([0] + pc.canon_planes(planes))
        except Exception as e:
            d0 = pc.dg([exc_code(e)])
        out = [d0, (len(s.raw) - 2) if s.compression == 0 else 0]
        if not info["dirty"] and s.compression == 0 and len(s.raw) - 2 != sum(len(p) for p in obs["old"]):
            return None  # the original RAW payload does not match its header: nothing the model could be told
    fields = (bits, info["mode"], info["channels"], info["w"], info["h"], info["depth"], info["comp"], info["dirty"],
              obs["old"], straight, white, alpha, transp, tindex)
    return fields, out


def save_lit(f):
    return "(mkSC %d %d %d %d %d %d %d %s %s %s %s %s %s %d)" % (
        f[0], f[1], f[2], f[3], f[4], f[5], f[6], pc.coq_bool(f[7]), pc.planes_lit(f[8]), pc.planes_lit(f[9]),
        pc.planes_lit(f[10]), core.zlist(f[11]), pc.coq_bool(f[12]), f[13])


# ----------------------------------------------------------------------------- several saves of the same object
SEQUENCES = {
    "edit-save-hide-save": ["S:two", "save", "A:hide", "save"],
    "edit-save-move-save": ["S:two", "save", "A:offset", "save"],
    "edit-save-opacity-save": ["S:two", "save", "A:opacity", "save"],
    "edit-save-edit-save": ["S:one", "save", "S:another", "save"],
    "attr-save-edit-save": ["A:hide", "save", "S:another", "save"],
    "edit-save-save": ["S:two", "save", "save"],
    "edit-save-hide-save-show-save": ["S:two", "save", "A:hide", "save", "A:show", "save"],
    "edit-save-remove-save": ["S:two", "save", "S:remove", "save"],
    # clipping layers: base + clipped layer(s); the relation must follow every removal / flag change
    "clip-save-remove-save": ["S:clip", "save", "S:remove", "save"],
    "clip-save-pop-save": ["S:clip", "save", "S:pop", "save"],
    "clip-save-del-save": ["S:clip", "save", "S:del", "save"],
    "clip-save-delete_layer-save": ["S:clip", "save", "S:delete_layer", "save"],
    "clip-remove-save": ["S:clip", "S:remove", "save"],
    "clip-pop-save-save": ["S:clip", "S:pop", "save", "save"],
    "clip2-save-remove-remove-save": ["S:clip2", "save", "S:remove", "S:remove", "save"],
    "clip-save-unflag-save": ["S:clip", "save", "A:unflag", "save"],
    "clip-save-hide-save": ["S:clip", "save", "A:hide", "save"],
    "clip-save-hidebase-save": ["S:clip", "save", "A:hidebase", "save"],
    "clip-save-clear-save": ["S:clip", "save", "S:clear", "save"],
    "clip-save-removebase-save": ["S:clip", "save", "S:removebase", "save"],
    "two-save-flag-save": ["S:two", "save", "A:flag", "save"],
    # nested groups, the outer one looked at (bbox / repr / composite) while still empty, then filled
    "nest-observe-fill-save": ["S:nest", "O:observe", "S:into-inner", "save"],
    "nest-save-observe-fill-save": ["S:nest", "save", "O:observe", "S:into-inner", "save"],
    "nest-observe-save-fill-save": ["S:nest", "O:observe", "save", "S:into-inner", "save"],
    "nest-observe-fill-save-fill-save": ["S:nest", "O:observe", "S:into-inner", "save", "O:observe", "S:into-outer", "save"],
    "nest3-observe-fill-save": ["S:nest3", "O:observe", "S:into-innermost", "save"],
}


def apply_step(psd, c, step, dm):
    from psd_tools.api.layers import Group, PixelLayer
    from psd_tools.constants import Compression

    w, h = c["size"]

    def pix(seed, left, top, lw, lh):
        im = layer_image(dm, max(1, lw), max(1, lh), (seed + c.get("seed", 0)) % 256, False)
        return PixelLayer.frompil(im, psd, "px%d" % seed, top, left, Compression.RLE)

    if step == "S:two":
        psd.append(pix(31, 0, 0, w - 1, h - 1))
        psd.append(pix(32, 1, 1, w - 2, h - 1))
    elif step == "S:one":
        psd.append(pix(33, 1, 0, w - 1, h - 1))
    elif step == "S:another":
        psd.append(pix(34, 0, 1, w - 2, h - 1))
    elif step == "S:clip":
        psd.append(pix(35, 1, 1, w - 2, h - 2))      # base
        psd.append(pix(36, 0, 0, w - 1, h - 1))      # clipped onto the base
        psd[-1].clipping_layer = True
    elif step == "S:clip2":
        psd.append(pix(35, 1, 1, w - 2, h - 2))
        psd.append(pix(36, 0, 0, w - 1, h - 1))
        psd[-1].clipping_layer = True
        psd.append(pix(37, 2, 0, w - 2, h - 1))
        psd[-1].clipping_layer = True
    elif step in ("S:nest", "S:nest3"):
        outer, inner = Group.new("outer"), Group.new("inner")
        psd.append(outer)
        outer.append(inner)
        if step == "S:nest3":
            inner.append(Group.new("innermost"))
    elif step == "O:observe":
        # reading the cached geometry of the (still empty) containers, as a viewer or a test would
        # (only the OUTER group: the caches of the groups inside it stay as they are)
        outer = psd[-1]
        repr(outer), outer.bbox, outer.size
        psd.bbox
        psd.composite(force=True) if dm != "CMYK" else None
    elif step == "S:into-inner":
        psd[-1][0].append(pix(41, 1, 1, w - 2, h - 2))
    elif step == "S:into-innermost":
        psd[-1][0][0].append(pix(42, 0, 1, w - 1, h - 2))
    elif step == "S:into-outer":
        psd[-1].append(pix(43, 2, 0, w - 3, h - 1))
    elif step == "S:remove":
        psd.remove(psd[-1])
    elif step == "S:pop":
        psd.pop()
    elif step == "S:del":
        del psd[len(psd) - 1]
    elif step == "S:delete_layer":
        psd[-1].delete_layer()
    elif step == "S:clear":
        psd.clear()
    elif step == "S:removebase":
        psd.remove(psd[0])
    elif step == "A:unflag":
        psd[-1].clipping_layer = False
    elif step == "A:flag":
        psd[-1].clipping_layer = True
    elif step == "A:hidebase":
        psd[0].visible = False
    elif step == "A:hide":
        psd[-1].visible = False
    elif step == "A:show":
        psd[-1].visible = True
    elif step == "A:offset":
        psd[-1].left = psd[-1].left + 1
        psd[-1].top = psd[-1].top - 1
    elif step == "A:opacity":
        psd[-1].opacity = 120
    else:
        raise ValueError(step)


def oracle_sequence(ck, c, bits=None):
    """[c] = dict(mode, size, depth, comp, sequence, seed).  The same PSDImage object is edited and
    saved several times; the property is stated on EVERY file written.  Returns the correspondence
    case (fields, implementation digests) or None."""
    from psd_tools import PSDImage

    dm, (w, h), depth, comp = c["mode"], c["size"], c["depth"], c["comp"]
    steps = SEQUENCES[c["sequence"]]
    try:
        psd = PSDImage.new(dm, (w, h), color=40, depth=depth, compression=pc.comp_enum(comp))
        if steps[0].startswith("A:"):
            # an attribute edit needs layers that are already there: a saved and reopened layered document
            apply_step(psd, c, "S:two", dm)
            blob0 = pc.save_bytes(psd)
            psd = pc.reopen(blob0)
        else:
            blob0 = pc.save_bytes(psd)
    except Exception as e:
        ck.count("unbuildable sequence:" + type(e).__name__)
        return None
    sec0 = pc.read_image_data_section(blob0)
    orig = sec0.raw
    hd = psd._record.header
    try:
        old = [list(b) for b in psd._record.image_data.get_data(hd)]
        consistent = sec0.compression != 0 or len(sec0.raw) - 2 == sum(len(p) for p in old)
    except Exception:
        old, consistent = None, False
    dirty = False
    lits, outs = [], []
    k = 0
    for stp in steps:
        if stp != "save":
            try:
                apply_step(psd, c, stp, dm)
            except Exception as e:
                ck.count("unbuildable sequence:" + type(e).__name__)
                return None
            if stp.startswith("S:"):
                dirty = True
                lits.append((0, [], [], [], False, 0))
            else:
                lits.append((1, [], [], [], False, 0))
            continue
        keep = {}
        obs = judge(ck, c, psd, dirty, orig, keep, render_always=True, save_index=k, steps_before=steps[:steps.index("save") + 1] if k == 0 else None)
        k += 1
        if obs is None:
            return None
        if "blob" in keep:
            orig = pc.read_image_data_section(keep["blob"]).raw
        if old is None or "rendered" not in obs:
            old = None
            continue
        info = obs["info"]
        col, al = obs["rendered"]
        if bits & 16:
            straight = enc_planes(col, info["depth"], True)
            white = enc_planes(col * al + (1.0 - al), info["depth"], True)
            alpha = enc_planes(al, info["depth"], True)[0]
        else:
            straight, white, alpha = enc_planes(col, 8, False), [], enc_planes(al, 8, False)[0]
        lits.append((2, straight, white, alpha, obs.get("transp", False), obs.get("tindex", 0)))
        if "save_exc" in obs:
            outs += [pc.dg([exc_code(obs["save_exc"])]), 0]
        else:
            sct = obs["section"]
            try:
                p2 = pc.reopen(keep["blob"])
                d0 = pc.dg([0] + pc.canon_planes([list(b) for b in p2._record.image_data.get_data(p2._record.header)]))
            except Exception as e:
                d0 = pc.dg([exc_code(e)])
            outs += [d0, (len(sct.raw) - 2) if sct.compression == 0 else 0]
    if old is None or not consistent or has_icc(psd) or int(psd.color_mode) not in NCOLOR:
        return None
    fields = (bits, int(psd.color_mode), hd.channels, hd.width, hd.height, hd.depth, comp, old, lits)
    return fields, outs


def all_fixtures(ck):
    import glob

    root = os.path.join(core.REPO, "tests", "psd_files")
    out = []
    for pth in sorted(glob.glob(root + "/*.ps?") + glob.glob(root + "/*/*.ps?")):
        rel = os.path.relpath(pth, root)
        if ck.tier == "thorough" or os.path.getsize(pth) <= 300000 or rel == "artboard.psd":
            out.append(rel)
    return out


def oracle_open_save(ck, rel):
    """open a fixture, save it with NO edit: the object must not be marked as edited and the image-data
    section of the new file must be the original one, byte for byte (any colour mode, any depth)"""
    from psd_tools import PSDImage

    c = dict(fixture=rel, history="open-save")
    try:
        blob0 = open(fixture_path(rel), "rb").read()
        psd = PSDImage.open(io.BytesIO(blob0))
    except Exception as e:
        ck.count("fixture does not open:" + type(e).__name__)
        return
    ck.count("open-save fixtures")
    if psd._updated_layers:
        ck.fail("dirty-after-open", c, True, False, dirty=False)
    try:
        blob = pc.save_bytes(psd)
    except Exception as e:
        ck.fail("save-raises", c, repr(e), "file written", exc=type(e).__name__, dirty=False)
        return
    a, b = pc.read_image_data_section(blob0).raw, pc.read_image_data_section(blob).raw
    if a != b:
        ck.fail("clean-bytes-changed", c, dict(len=len(b), head=list(b[:12])), dict(len=len(a), head=list(a[:12])), dirty=False)
    ck.nontriv(("open-save", rel))


def session_lit(f):
    steps = "[" + ";".join("(%d, (%s, %s, %s), (%s, %d))" % (k, pc.planes_lit(s_), pc.planes_lit(w_), core.zlist(a_), pc.coq_bool(t_), i_)
                           for (k, s_, w_, a_, t_, i_) in f[8]) + "]"
    return "(mkSS %d %d %d %d %d %d %d %s %s)" % (f[0], f[1], f[2], f[3], f[4], f[5], f[6], pc.planes_lit(f[7]), steps)


def gen_sequences(ck):
    thorough = ck.tier == "thorough"
    for dm in DOCMODES:
        for comp in range(4):
            for name in SEQUENCES:
                for size in ([(6, 4)] + ([(5, 3), (128, 3)] if thorough else [])):
                    for _rep in range(2 if thorough else 1):
                        yield dict(mode=dm, size=list(size), depth=8, comp=comp, sequence=name, seed=ck.rng.randrange(256))


# ----------------------------------------------------------------------------- generators
def gen_cases(ck):
    thorough = ck.tier == "thorough"
    sizes = [(4, 3), (1, 1), (128, 2), (5, 1), (129, 3), (2, 130)] + ([(127, 1), (7, 7), (1, 64), (256, 2)] if thorough else [])
    for dm in DOCMODES:
        for depth in (8, 16, 32):
            for comp in range(4):
                for size in sizes:
                    hs = STRUCTURAL if depth == 8 else ["append-group", "append-remove-group"]
                    cl = CLEAN if depth == 8 else ["nothing"]
                    if not thorough:
                        hs = [h for h in hs if size == (4, 3) or ck.rng.random() < 0.5] or [ck.rng.choice(hs)]
                        cl = [ck.rng.choice(cl)] + (["nothing"] if size == (4, 3) else [])
                    for hist in hs + cl:
                        for _rep in range(3 if thorough else 1):
                            yield dict(mode=dm, size=list(size), depth=depth, comp=comp, history=hist, seed=ck.rng.randrange(256))
    fx = list(FIXTURES_Q)
    if thorough:
        import glob

        root = os.path.join(core.REPO, "tests", "psd_files")
        for p in sorted(glob.glob(root + "/*.ps?") + glob.glob(root + "/*/*.ps?")):
            rel = os.path.relpath(p, root)
            if os.path.getsize(p) < 300000 and rel not in fx:
                fx.append(rel)
    for rel in fx:
        if not os.path.exists(fixture_path(rel)):
            continue
        for hist in (FIX_STRUCT + FIX_CLEAN if (thorough or rel in FIXTURES_Q) else ["rotate", "add-group", "nothing", "rename"]):
            yield dict(fixture=rel, history=hist)


# ----------------------------------------------------------------------------- known findings
def _cm_gray_rgb(fl):
    return fl.get("mode") in (1, 3)


core.KNOWN_CLASSIFIERS["F-C17-1"] = lambda fl: (
    fl.get("dirty") and fl.get("depth") == 8 and _cm_gray_rgb(fl) and fl.get("channels") != NCOLOR[fl["mode"]] + 1
    and (fl["kind"] in ("section-mismatch", "readback-raises", "merged-ne-composite")
         # a later save of the same object, emptied meanwhile, composites from the merged image the earlier save broke
         or (fl["kind"] == "save-raises" and fl.get("exc") in ("AssertionError", "ValueError") and fl.get("nlayers") == 0
             and fl.get("save_index", 0) >= 1))
    and (fl["kind"] != "readback-raises" or fl.get("exc") == "AssertionError"
         or (fl.get("exc") == "ValueError" and fl.get("comp") == 1 and fl.get("channels") > NCOLOR[fl["mode"]] + 1))
    and (fl["kind"] != "merged-ne-composite" or fl.get("partial_alpha_only")))
core.KNOWN_CLASSIFIERS["F-C17-2"] = lambda fl: (
    fl.get("dirty") and fl.get("mode") == 4 and fl["kind"] == "save-raises" and fl.get("exc") == "TypeError")
core.KNOWN_CLASSIFIERS["F-C17-3"] = lambda fl: (
    fl.get("dirty") and fl.get("depth") in (16, 32) and _cm_gray_rgb(fl)
    and fl["kind"] in ("save-raises", "section-mismatch", "readback-raises", "merged-ne-composite")
    and (fl["kind"] != "save-raises" or fl.get("exc") in ("IndexError", "ValueError")))
core.KNOWN_CLASSIFIERS["F-C17-4"] = lambda fl: (
    fl.get("dirty") and fl.get("depth") == 8 and _cm_gray_rgb(fl) and fl.get("channels") == NCOLOR[fl["mode"]] + 1
    and fl["kind"] == "merged-ne-composite" and fl.get("partial_alpha_only") and not fl.get("inmem_differs_from_saved"))
core.KNOWN_CLASSIFIERS["F-C17-5"] = lambda fl: (
    fl.get("dirty") and fl["kind"] == "merged-ne-composite" and fl.get("clipping") and fl.get("inmem_differs_from_saved"))

core.KNOWN_CLASSIFIERS["F-C17-6"] = lambda fl: (
    fl.get("dirty") and fl.get("icc")
    and ((fl["kind"] == "save-raises" and fl.get("exc") == "PyCMSError") or fl["kind"] == "merged-ne-composite"))

W = {
    "F-C17-6": dict(fixture="colormodes/4x4_8bit_grayscale.psd", history="add-group"),
    "F-C17-1": dict(mode="RGB", size=[4, 3], depth=8, comp=2, history="append-layer"),
    "F-C17-2": dict(mode="CMYK", size=[4, 3], depth=8, comp=0, history="append-group"),
    "F-C17-3": dict(mode="RGBA", size=[4, 3], depth=16, comp=0, history="append-group"),
    "F-C17-4": dict(mode="RGBA", size=[4, 3], depth=8, comp=0, history="append-partial"),
    "F-C17-5": dict(fixture="effects/stroke-composite.psd", history="rotate"),
}


def _failures_of(c):
    probe = Check.__new__(Check)
    probe.failures = []
    probe.dist = {}
    probe.count = lambda *a, **k: None
    probe.fail = lambda kind, inp, observed, expected, **extra: probe.failures.append(
        dict(kind=kind, input=inp, observed=observed, expected=expected, **extra))
    probe.nontriv = lambda *a, **k: None
    if c.get("history") == "open-save":
        oracle_open_save(probe, c["fixture"])
    elif "sequence" in c:
        oracle_sequence(probe, c, pc.cfg_bits(st()))
    else:
        oracle(probe, c)
    return probe.failures


for _fid, _c in W.items():
    core.KNOWN_WITNESS[_fid] = (lambda fid, c: lambda: any(core.KNOWN_CLASSIFIERS[fid](f) for f in _failures_of(c)))(_fid, _c)


# ----------------------------------------------------------------------------- the run
def run():
    pc.quiet()
    ck = Check("C17")
    ck.rule = ("API-created documents: mode {L, LA, RGB, RGBA, CMYK} x depth {8, 16, 32} x merged-image compression {RAW, RLE, ZIP, ZIP+prediction} "
               "x sizes incl. 1x1, 128 wide, one row x histories that touch structure (append opaque / partially transparent / two layers, "
               "append+remove, group, group with layer, move_down) or do not (nothing, rename, hide, opacity, offset, blend mode on a saved and "
               "reopened layered document); fixtures x {rotate, delete top, add group, add layer | nothing, rename, hide, opacity}; "
               "several saves of the SAME object: [edit, save, hide/move/opacity, save], [edit, save, edit, save], [attribute edit, save, edit, save], "
               "[edit, save, save], ... with the property stated on every file written; "
               "non-trivial = distinct (mode, channels, depth, compression, history)")
    pc.drop_assumed_fixed(ck, st())
    bits = pc.cfg_bits(st())
    ck.notes.append("model configuration bits %d (bit 4 = fx_save) from known_findings status" % bits)
    ok = ck.coq_build(["theories/Pixels/Corr.v", "theories/Properties/C17.v"])
    if ok:
        ck.collect_theorems("C17.v")
    cases = list(gen_cases(ck))
    corr = []
    corr_in = []
    for c in cases:
        keep = {}
        obs = oracle(ck, c, keep)
        if obs is None:
            continue
        i = obs["info"]
        ck.nontriv((i["mode"], i["channels"], i["depth"], i["comp"], c["history"], c.get("fixture", "api")))
        obs["_blob"] = keep.get("blob")
        if i["w"] * i["h"] * i["channels"] * (i["depth"] // 8) <= 4000:
            sc = save_case(c, obs, bits)
            if sc is not None:
                corr.append(sc)
                corr_in.append(c)
    ck.sample({"case": cases[len(cases) // 2]})
    ck.sample({"case": cases[-3]})
    for rel in all_fixtures(ck):
        oracle_open_save(ck, rel)
    seqs = list(gen_sequences(ck))
    scorr, scorr_in = [], []
    for c in seqs:
        r = oracle_sequence(ck, c, bits)
        ck.count("sequence:" + c["sequence"])
        ck.nontriv(("seq", c["mode"], c["comp"], c["sequence"], tuple(c["size"])))
        if r is not None:
            scorr.append(r)
            scorr_in.append(c)
    ck.sample({"sequence_case": seqs[len(seqs) // 3], "steps": SEQUENCES[seqs[len(seqs) // 3]["sequence"]]})
    bad = ck.correspond("session", "session_digests", IMPORTS, scorr, session_lit, chunk=40)
    for k in bad[:5]:
        ck.notes.append("session model/implementation differ on %r" % (scorr_in[k],))
    bad = ck.correspond("save", "save_digests", IMPORTS, corr, save_lit, chunk=60)
    for k in bad[:5]:
        ck.notes.append("save model/implementation differ on %r" % (corr_in[k],))
    ck.assumptions += [
        "the compositor's result is an input of the model (composite(psd, force=True) is evaluated by the harness on the edited document "
        "and quantised the way composite_pil does); its arithmetic belongs to C11/C13",
        "'equals the composite of the saved layers' is read as: colour planes = composite(force=True) of the reopened file rendered on white "
        "(straight colour + transparency plane for a grayscale document that has_transparency), within 1/255",
        "16/32-bit fixtures keep their layers in Lr16/Lr32 (de76dec); ICC conversion is switched off for the read-back (apply_icc=False)",
    ]
    return ck.finish()


def replay(path):
    pc.quiet()
    fl = json.load(open(path))
    c = fl["input"]
    print("case:", c)
    open_ids = {k for k, v in st().items() if v == "open"}
    unlisted = []
    for f in _failures_of(c):
        cover = [k for k in open_ids if k in core.KNOWN_CLASSIFIERS and core.KNOWN_CLASSIFIERS[k](f)]
        print("FAIL" if not cover else "known %s" % cover, f["kind"], {k: v for k, v in f.items() if k not in ("kind", "input")})
        if not cover:
            unlisted.append(f)
    print("expected:", fl["expected"], "| recorded kind:", fl["kind"], "| failing outside the known findings:", bool(unlisted))
    return 1 if unlisted else 0
