"""C20 - no cross-document state."""
from __future__ import annotations

import glob
import io
import json
import os
import subprocess
import sys
from concurrent.futures import ThreadPoolExecutor

from . import core
from .core import Check, exc_code, zlist

IMPORTS = ["Base.Prelude", "State.Model", "Gen:Gen_Terms"]
FIXDIR = os.path.join(core.REPO, "tests", "psd_files")


# ------------------------------------------------------------------ implementation side of the key model
def impl_session(ops, T0):
    from psd_tools.psd import descriptor as D

    D._TERMS.clear()
    D._TERMS.update(T0)
    out = []
    order = []
    for op in ops:
        if op[0] == "R":
            fp = io.BytesIO(bytes(op[1]))
            before = set(D._TERMS)
            try:
                k = D.read_length_and_key(fp)
                o = [0] + list(k)
                out += [len(o)] + o + [len(op[1]) - fp.tell()]
            except Exception as e:
                out += [1, exc_code(e)]
            for x in set(D._TERMS) - before:
                order.insert(0, x)
        else:
            fp = io.BytesIO()
            try:
                w = D.write_length_and_key(fp, bytes(op[1]))
                o = [0] + list(fp.getvalue())
                out += [len(o)] + o + [w]
            except Exception as e:
                out += [1, exc_code(e)]
    out.append(-1)
    for k in order:
        out += [len(k)] + list(k)
    D._TERMS.clear()
    D._TERMS.update(T0)
    return out


def ops_lit(ops):
    return "[" + ";".join(("OpRead %s" if o[0] == "R" else "OpWrite %s") % zlist(o[1]) for o in ops) + "]"


def gen_ops(ck, T0list):
    rng = ck.rng
    pool_keys = [list(b"zzzq"), list(b"abcd"), list(b"ab"), list(b"longerkey"), [], list(b"null"), list(T0list[3]), list(T0list[len(T0list) // 2]),
                 list(b"\x00\x00\x00\x00"), list(b"Nm  "), list(b"abcde")]

    def rd(k, explicit):
        n = len(k) if explicit else 0
        return list(n.to_bytes(4, "big")) + list(k) + rng.choice([[], [7], [1, 2, 3, 4, 5]])

    def any_read():
        c = rng.randrange(8)
        k = rng.choice(pool_keys)
        if c < 3:
            return ("R", rd(k, False))
        if c < 5:
            return ("R", rd(k, True))
        if c == 5:  # truncated
            s = rd(k, rng.random() < 0.5)
            return ("R", s[:rng.randint(0, len(s))])
        if c == 6:  # huge declared length
            return ("R", [255, 255, 255, 255] + k)
        return ("R", [rng.randrange(256) for _ in range(rng.randint(0, 12))])

    n = 6000 if ck.tier == "thorough" else 1500
    for _ in range(n):
        m = rng.randint(1, 6)
        ops = []
        for _ in range(m):
            if rng.random() < 0.55:
                ops.append(any_read())
            else:
                ops.append(("W", rng.choice(pool_keys)))
        yield ops
    # exhaustive: every ordered pair/triple over a small op alphabet
    alpha = [("R", rd(list(b"zzzq"), False)), ("R", rd(list(b"zzzq"), True)), ("R", [0, 0, 0, 0, 97, 98]), ("R", [0, 0]),
             ("W", list(b"zzzq")), ("W", list(b"ab")), ("W", list(b"null")), ("W", [])]
    alpha = [(a, list(b)) for a, b in alpha]
    import itertools

    for r in (1, 2, 3):
        for t in itertools.product(alpha, repeat=r):
            yield list(t)


# ------------------------------------------------------------------ sessions in subprocesses
def worker(mode, items, timeout=600):
    env = dict(os.environ)
    env["PYTHONPATH"] = os.path.join(core.VERIF, "harness")
    env["PYTHONHASHSEED"] = "0"
    p = subprocess.run([sys.executable, "-m", "vh.c20_worker", mode] + items, capture_output=True, text=True, env=env, timeout=timeout)
    if p.returncode != 0:
        return {"error": p.stderr[-400:], "results": [], "globals_changed": [], "terms_added": []}
    return json.loads(p.stdout)


def shrink_prefix(mode, doc, prefix, alone_obs):
    """smallest session found that still makes [doc] come out differently: a single predecessor, else halves"""
    def differs(pre):
        r = worker(mode, pre + [doc])
        if r.get("error") or not r["results"]:
            return False
        obs = r["results"][-1][1]
        return any(alone_obs.get(k) != obs.get(k) for k in set(alone_obs) | set(obs) if k != "lowlevel_rewrite_terms_reset")

    for x in dict.fromkeys(prefix):
        if differs([x]):
            return [x]
    cur = list(prefix)
    while len(cur) > 1:
        h = len(cur) // 2
        if differs(cur[h:]):
            cur = cur[h:]
        elif differs(cur[:h]):
            cur = cur[:h]
        else:
            break
    return cur


def shared_mutables(a, b):
    """ids of mutable objects reachable from both a and b (fresh structures must share none)"""
    import enum

    def reach(x, acc, depth=0):
        if depth > 12 or id(x) in acc:
            return
        if x is None or isinstance(x, (int, float, str, bytes, bool, enum.Enum, type, frozenset)):
            return
        if isinstance(x, tuple):
            for y in x:
                reach(y, acc, depth + 1)
            return
        mod = type(x).__module__ or ""
        if isinstance(x, (list, dict, set, bytearray)) or mod.startswith("psd_tools") or mod in ("array", "numpy"):
            acc[id(x)] = x
        if isinstance(x, dict):
            for k, v in x.items():
                reach(k, acc, depth + 1)
                reach(v, acc, depth + 1)
        elif isinstance(x, (list, set)):
            for y in x:
                reach(y, acc, depth + 1)
        elif mod.startswith("psd_tools"):
            names = []
            if hasattr(type(x), "__attrs_attrs__"):
                names = [a.name for a in type(x).__attrs_attrs__]
            elif hasattr(x, "__dict__"):
                names = list(vars(x))
            for nme in names:
                try:
                    reach(getattr(x, nme), acc, depth + 1)
                except Exception:
                    pass

    ra, rb = {}, {}
    reach(a, ra)
    reach(b, rb)
    return [ra[i] for i in set(ra) & set(rb)]


def all_element_classes():
    import importlib
    import inspect
    import pkgutil

    import psd_tools.psd as P
    from psd_tools.psd.base import BaseElement

    seen = {}
    for m in pkgutil.iter_modules(P.__path__):
        mod = importlib.import_module("psd_tools.psd." + m.name)
        for _, cls in inspect.getmembers(mod, inspect.isclass):
            if issubclass(cls, BaseElement) and cls.__module__.startswith("psd_tools"):
                seen[cls.__module__ + "." + cls.__name__] = cls
    return seen


core.KNOWN_CLASSIFIERS["F-C20-1"] = lambda fl: (
    (fl["kind"] == "history-dependent-result" and fl.get("only_lowlevel_bytes") and fl.get("vanishes_with_terms_reset"))
    or (fl["kind"] == "module-global-changed" and fl["input"].get("name") == "psd_tools.psd.descriptor._TERMS")
)


def _w_c20_1():
    from psd_tools.psd import descriptor as D

    T0 = set(D._TERMS)
    try:
        a = impl_session([("W", list(b"zzzq"))], T0)
        b = impl_session([("R", [0, 0, 0, 0] + list(b"zzzq")), ("W", list(b"zzzq"))], T0)
        return a[: a.index(-1)] != b[b.index(-1) - len(a[: a.index(-1)]): b.index(-1)]
    finally:
        D._TERMS.clear()
        D._TERMS.update(T0)


core.KNOWN_WITNESS["F-C20-1"] = _w_c20_1


def run():
    ck = Check("C20")
    ck.rule = ("(a) key-codec sessions: random and exhaustive short sequences of read/write of descriptor keys against the live "
               "read_length_and_key/write_length_and_key with the live _TERMS (model = State.Model.session on the term table "
               "extracted from the live object); (b) document sessions: every pool document (fixtures + API-built) observed alone in a "
               "fresh interpreter vs inside shuffled multi-document sessions; non-trivial = a session containing at least one read and one write / "
               "a document that opens")
    from psd_tools.psd import descriptor as D

    T0 = set(D._TERMS)
    T0list = sorted(T0)
    ok = ck.coq_build(["theories/State/Proofs.v", "theories/Properties/C20.v"])
    if ok:
        ck.collect_theorems("C20.v")
    # generated table from the live object + the invariant the theorems need of it
    gen = ("From PsdV Require Import Base.Prelude State.Model.\nOpen Scope Z_scope.\n"
           "Definition terms0 : terms := [\n" + ";\n".join(zlist(k) for k in T0list) + "].\n"
           "Lemma terms0_all4 : all4 terms0 = true.\nProof. vm_compute. reflexivity. Qed.\n"
           "Lemma terms0_size : length terms0 = %d%%nat.\nProof. vm_compute. reflexivity. Qed.\n" % len(T0list))
    ck.coq_gen("Gen_Terms", gen)
    ck.count("terms0", len(T0list))
    # ---------------- (a) key-codec correspondence
    cases = []
    for ops in gen_ops(ck, T0list):
        out = impl_session(ops, T0)
        cases.append((ops, out))
        nr = sum(1 for o in ops if o[0] == "R")
        ck.count("ops:R", nr)
        ck.count("ops:W", len(ops) - nr)
        if nr and nr < len(ops):
            ck.nontriv(repr(ops))
        # oracle on the key level: a write must not depend on earlier reads in the same process
        # (checked for the last write of the sequence against the same write on the initial term set)
        if ops[-1][0] == "W" and nr:
            alone = impl_session([ops[-1]], T0)
            tail = out[: out.index(-1)]
            a = alone[: alone.index(-1)]
            if tail[len(tail) - len(a):] != a:
                # negated guard of Properties/C20.v history_independent: the key was added by an earlier zero-length read
                zero_read = {bytes(o[1][4:8]) for o in ops[:-1] if o[0] == "R" and len(o[1]) >= 4 and o[1][:4] == [0, 0, 0, 0]}
                in_added = bytes(ops[-1][1]) in zero_read and bytes(ops[-1][1]) not in T0
                ck.fail("history-dependent-result", {"ops": ops}, tail[len(tail) - len(a):], a,
                        only_lowlevel_bytes=True, vanishes_with_terms_reset=in_added, level="key")
    ck.sample({"key_session": cases[7][0], "impl_output": cases[7][1]})
    bad = ck.correspond("key_sessions", "fun ops => session terms0 ops", IMPORTS, cases, ops_lit, chunk=600)
    for i in bad[:3]:
        ck.notes.append("key session model/impl differ on %r: impl %r" % cases[i])
    assert set(D._TERMS) == T0
    # ---------------- (b) document sessions
    files = sorted(glob.glob(os.path.join(FIXDIR, "*.ps[db]")) + glob.glob(os.path.join(FIXDIR, "*", "*.ps[db]")))
    lim = 400_000 if ck.tier == "thorough" else 60_000
    files = [f for f in files if os.path.getsize(f) <= lim]
    if ck.tier != "thorough":
        files = files[::2]
    pool = files + ["gen:%d" % k for k in range(12 if ck.tier == "thorough" else 6)]
    mode = "composite" if ck.tier == "thorough" else "plain"
    with ThreadPoolExecutor(max_workers=14) as ex:
        alone = list(ex.map(lambda it: worker(mode, [it]), pool))
        nperm = 6 if ck.tier == "thorough" else 3
        perms = []
        for _ in range(nperm):
            p = list(pool)
            ck.rng.shuffle(p)
            perms.append(p + p[: len(p) // 3])  # some documents a second time in the same process
        together = list(ex.map(lambda p: worker(mode, p, timeout=1500), perms))
    base = {}
    shrunk = []
    changed_globals = set()
    for it, r in zip(pool, alone):
        if r.get("error"):
            ck.notes.append("worker failed alone on %s: %s" % (it, r["error"][-200:]))
            continue
        base[it] = r["results"][0][1]
        ck.count("doc:" + ("exception" if "exception" in base[it] else "opens"))
        if "exception" not in base[it]:
            ck.nontriv(it)
        for g in r["globals_changed"]:
            if g != "psd_tools.psd.descriptor._TERMS":
                changed_globals.add(g)
    ck.sample({"document": pool[0], "observations_alone": base.get(pool[0])})
    for p, r in zip(perms, together):
        if r.get("error"):
            ck.notes.append("worker failed on a permutation: %s" % r["error"][-300:])
            ck.obligations.append(("session-run", False, r["error"][-300:]))
            continue
        ck.evals += len(r["results"])
        ck.count("sessions")
        ck.count("terms_added_in_session", len(r["terms_added"]))
        for g in r["globals_changed"]:
            if g != "psd_tools.psd.descriptor._TERMS":
                changed_globals.add(g)
        for idx, (it, obs) in enumerate(r["results"]):
            b = base.get(it)
            if b is None:
                continue
            diff = sorted(k for k in set(b) | set(obs) if k != "lowlevel_rewrite_terms_reset" and b.get(k) != obs.get(k))
            if diff:
                only_low = set(diff) <= {"lowlevel_rewrite", "api_save", "built_save"}
                vanish = obs.get("lowlevel_rewrite_terms_reset") == b.get("lowlevel_rewrite")
                prefix = shrink_prefix(mode, it, p[:idx], b) if len(shrunk) < 3 else p[:idx]
                shrunk.append(it)
                ck.fail("history-dependent-result", {"document": it, "position": idx, "session_prefix": prefix},
                        {k: obs.get(k) for k in diff}, {k: b.get(k) for k in diff},
                        only_lowlevel_bytes=only_low, vanishes_with_terms_reset=vanish and only_low, level="document")
    # twin sessions: the same document after an identifier-preserving, payload-changing twin of itself
    twins = [f for f in files if os.path.getsize(f) <= lim]
    with ThreadPoolExecutor(max_workers=14) as ex:
        tw = list(ex.map(lambda f: worker(mode, ["twin:" + f, f]), twins))
    for f, r in zip(twins, tw):
        if r.get("error") or len(r["results"]) != 2:
            ck.notes.append("twin session failed on %s: %s" % (f, str(r.get("error"))[-200:]))
            continue
        ck.evals += 1
        tobs, obs = r["results"][0][1], r["results"][1][1]
        ck.count("twin:" + ("payload-changed" if tobs.get("twin_payloads_changed") else "identical"))
        for g in r["globals_changed"]:
            if g != "psd_tools.psd.descriptor._TERMS":
                changed_globals.add(g)
        b = base.get(f)
        if b is None or not tobs.get("twin_payloads_changed"):
            continue
        diff = sorted(k for k in set(b) | set(obs) if k != "lowlevel_rewrite_terms_reset" and b.get(k) != obs.get(k))
        if diff:
            ck.fail("history-dependent-result", {"document": f, "position": 1, "session_prefix": ["twin:" + f]},
                    {k: obs.get(k) for k in diff}, {k: b.get(k) for k in diff},
                    only_lowlevel_bytes=False, vanishes_with_terms_reset=False, level="twin")
    # variant sessions: the same document after a copy of itself in an alternative accepted encoding (signatures swapped)
    vfiles = [f for f in files if f.endswith(".psb")] + [f for f in files if f.endswith(".psd")][: (40 if ck.tier == "thorough" else 10)]
    with ThreadPoolExecutor(max_workers=14) as ex:
        vr = list(ex.map(lambda f: worker(mode, ["variant:" + f, f]), vfiles))
    for f, r in zip(vfiles, vr):
        if r.get("error") or len(r["results"]) != 2:
            ck.notes.append("variant session failed on %s: %s" % (f, str(r.get("error"))[-200:]))
            continue
        ck.evals += 1
        vobs, obs = r["results"][0][1], r["results"][1][1]
        ck.count("variant:" + ("changed" if vobs.get("variant_blocks_changed") else "none") + (":rejected" if "exception" in vobs else ""))
        for g in r["globals_changed"]:
            if g != "psd_tools.psd.descriptor._TERMS":
                changed_globals.add(g)
        b = base.get(f)
        if b is None:
            continue
        diff = sorted(k for k in set(b) | set(obs) if k != "lowlevel_rewrite_terms_reset" and b.get(k) != obs.get(k))
        if diff:
            ck.fail("history-dependent-result", {"document": f, "position": 1, "session_prefix": ["variant:" + f]},
                    {k: obs.get(k) for k in diff}, {k: b.get(k) for k in diff},
                    only_lowlevel_bytes=False, vanishes_with_terms_reset=False, level="variant")
    # cross-document moves: a pair processed alone vs after other pairs
    movable = [f for f in files if os.path.getsize(f) <= 60_000][: (24 if ck.tier == "thorough" else 10)]
    pairs = ["xmove:%s|%s" % (movable[i], movable[(i + 3) % len(movable)]) for i in range(len(movable))]
    with ThreadPoolExecutor(max_workers=14) as ex:
        palone = list(ex.map(lambda it: worker("plain", [it]), pairs))
        order = list(pairs)
        ck.rng.shuffle(order)
        ptog = worker("plain", order + order[: len(order) // 2], timeout=1500)
    pbase = {it: r["results"][0][1] for it, r in zip(pairs, palone) if not r.get("error") and r["results"]}
    if ptog.get("error"):
        ck.notes.append("cross-move session failed: %s" % ptog["error"][-200:])
    else:
        for g in ptog["globals_changed"]:
            if g != "psd_tools.psd.descriptor._TERMS":
                changed_globals.add(g)
        for idx, (it, obs) in enumerate(ptog["results"]):
            ck.evals += 1
            ck.count("xmove:" + ("skipped" if "skipped" in obs else "exception" if "exception" in obs else "moved"))
            b = pbase.get(it)
            if b is not None and b != obs:
                pre = (order + order[: len(order) // 2])[:idx]
                ck.fail("history-dependent-result", {"document": it, "position": idx, "session_prefix": shrink_prefix("plain", it, pre, b)},
                        obs, b, only_lowlevel_bytes=False, vanishes_with_terms_reset=False, level="cross-move")
    # a module-level container of psd_tools that changes while documents are processed is process-wide state the
    # inventory did not know: the "no other global" part of the argument no longer checks (an obligation, not by itself a failing input)
    ck.obligations.append(("module-globals-unchanged", not changed_globals,
                           "changed during sessions: " + ", ".join(sorted(changed_globals)) if changed_globals else ""))
    # ---------------- (c) fresh structures share no mutable state
    classes = all_element_classes()
    built = 0
    for name, cls in sorted(classes.items()):
        try:
            a, b = cls(), cls()
        except Exception:
            ck.count("class_not_default_constructible")
            continue
        built += 1
        sh = shared_mutables(a, b)
        if sh:
            ck.fail("fresh-structures-share-state", {"class": name}, [type(x).__name__ + ":" + repr(x)[:60] for x in sh[:4]], "no shared mutable object")
    ck.count("classes_default_constructed", built)
    from psd_tools import PSDImage

    a, b = PSDImage.new("RGB", (4, 4)), PSDImage.new("RGB", (4, 4))
    sh = shared_mutables(a._record, b._record)
    if sh:
        ck.fail("fresh-structures-share-state", {"class": "PSDImage.new()._record"}, [type(x).__name__ + ":" + repr(x)[:60] for x in sh[:4]], "no shared mutable object")
    from psd_tools.api.layers import Group

    ga, gb = Group.new("a"), Group.new("b")
    sh = shared_mutables(ga._record, gb._record) + shared_mutables(ga._layers, gb._layers)
    if sh:
        ck.fail("fresh-structures-share-state", {"class": "Group.new()"}, [type(x).__name__ + ":" + repr(x)[:60] for x in sh[:4]], "no shared mutable object")
    ck.evals += built
    ck.assumptions += [
        "Coq part covers the descriptor term set only; other process-wide objects are covered by the finite inventory of module-level "
        "mutable containers of psd_tools.* fingerprinted before/after every session (exhaustive over the inventory, not a theorem)",
        "interpreter-wide state outside psd_tools (PIL/numpy caches, logging) is not inspected; its effect would show in the session comparison only",
    ]
    return ck.finish({"pool_documents": len(pool), "element_classes": len(classes)})


def replay(path):
    fl = json.load(open(path))
    print(json.dumps(fl, indent=1)[:3000])
    inp = fl["input"]
    if "ops" in inp:
        from psd_tools.psd import descriptor as D

        T0 = set(D._TERMS)
        ops = [(o[0], o[1]) for o in inp["ops"]]
        print("in session :", impl_session(ops, T0))
        print("alone      :", impl_session([ops[-1]], T0))
    elif "document" in inp:
        print("alone   :", worker("composite", [inp["document"]])["results"])
        print("session :", worker("composite", inp["session_prefix"] + [inp["document"]])["results"][-1])
    return 1
