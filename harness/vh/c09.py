"""C09 - structure edits behave like list edits and survive save and reopen."""
from __future__ import annotations

import glob
import json
import os

from . import core
from . import edit_common as ec
from .core import Check

FAM = list(ec.STRUCTURAL) + ["NewPixel"]
FAM_WALK = FAM + ["NewDoc", "SetClip"]
STOP_FLAGS = {"multi-listed", "self-in-list"}  # after these the plain-list reading of the composite ops is ambiguous


# ------------------------------------------------------------------ oracle: plain Python lists side by side
class ListOracle:
    """Runs ec.Shadow (plain Python lists) next to the real objects and compares the two structures after
    every step, and whether the operation was accepted."""

    def __init__(self, fail, case):
        self.fail = fail
        self.case = case
        self.sh = ec.Shadow()
        self.flags = set()
        self.stopped = False
        self.reported = set()

    def pre(self, w, o):
        if w.dead or self.stopped:
            self.step_flags = set()
            return None
        kinds = [w.kind(i) for i in range(len(w.objs))]
        fp = "by-containment"
        if o[0] == "GroupLayers" and o[1] and o[2] is None:
            fp = w.oid(w.objs[o[1][0]]._parent)
        self.step_flags = ec.guard_flags(w.adjacency(), kinds, o, fp)
        # is the refusal test of the code about to look at clip_layers rather than at the lists?
        tgt, args = None, []
        if o[0] in ("Append", "Insert", "SetItem", "Extend"):
            tgt, args = o[1], (list(o[2]) if o[0] == "Extend" else [o[-1]])
        elif o[0] == "MoveToGroup":
            tgt, args = o[2], [o[1]]
        elif o[0] == "GroupLayers" and o[1]:
            tgt = o[2] if o[2] is not None else (fp if isinstance(fp, int) and fp >= 0 else None)
            args = list(o[1])
        if tgt is not None and 0 <= tgt < len(kinds) and all(0 <= x < len(kinds) for x in args) and kinds[tgt] != ec.KPIXEL:
            L = w.adjacency()
            for x in args:
                xo = w.objs[x]
                try:
                    inside = list(xo.descendants()) if hasattr(xo, "descendants") else []
                except RecursionError:
                    inside = []
                extra = inside + (list(xo._clip_layers) if o[0] == "GroupLayers" else [])
                if any(w.objs[tgt] is e for e in extra) and tgt not in ec._reach(L, x) and tgt != x:
                    self.step_flags.add("clip-layers-in-validity-check")
        return None

    def __call__(self, w, n, o, out, _before):
        if self.stopped:
            return
        self.flags |= self.step_flags
        if w.dead or (self.step_flags & STOP_FLAGS):
            self.stopped = True
            return
        sout = self.sh.apply(o)
        hist = list(self.case[1][: max(n, -1) + 1])
        base = {"scene": self.case[0], "history": hist, "step": n, "op": list(o), "outcome": out,
                "flags": sorted(self.flags), "step_flags": sorted(self.step_flags)}
        if (out[0] == 0) != (sout[0] == 0) or (out[0] == 0 and out != sout):
            self._rep("outcome-differs", base, out, sout)
            self.stopped = True
            return
        real = w.adjacency()
        if real != self.sh.L:
            diff = {g: (real.get(g), self.sh.L.get(g)) for g in set(real) | set(self.sh.L) if real.get(g) != self.sh.L.get(g)}
            self._rep("structure-differs", base, {str(g): v[0] for g, v in diff.items()}, {str(g): v[1] for g, v in diff.items()})
            self.stopped = True

    def _rep(self, kind, base, obs, exp):
        if kind in self.reported:
            return
        self.reported.add(kind)
        self.fail(kind, base, obs, exp)


# ------------------------------------------------------------------ oracle: save + reopen
def doc_shape(doc):
    out = []
    for l in doc:
        ent = [l.name, l.kind, bool(l.visible), bool(l.clipping_layer), int(l.opacity)]
        if l.is_group():
            ent.append(doc_shape(l))
        else:
            a = l.numpy()
            ent.append([l.left, l.top, l.right, l.bottom])
            ent.append(None if a is None else [list(a.shape), a.tobytes().hex()])
        out.append(ent)
    return out


def persistence_case(fail, desc):
    """desc: dict(source='new'|path, mode, depth, scene, history).  Build, edit, save, reopen, compare."""
    from psd_tools import PSDImage

    ec.quiet()
    info = dict(desc)
    try:
        if desc["source"] == "new":
            w, _, outs = ec.run_case((desc["scene"], [tuple(o) for o in desc["history"]]), mode=desc["mode"], depth=desc["depth"],
                                     modes=desc.get("modes"))
            docs = [ob for i, ob in enumerate(w.objs) if w.kind(i) == ec.KDOC]
            # adoption: every layer below a document reports it and carries pixel data of its colour mode
            for di, d in enumerate(docs):
                want = len(d.pil_mode.rstrip("A")) if d.pil_mode != "L" else 1
                for l in d.descendants():
                    if l._psd is not d:
                        fail("adopted-layer-psd", dict(info, layer=l.name), "layer %s reports another document" % l.name,
                             "every layer below a document reports it")
                    elif not l.is_group() and desc["depth"] == 8:
                        try:
                            a = l.numpy()
                        except Exception:  # noqa: reported as layer-unreadable below
                            a = None
                        if a is not None and a.shape[2] not in (want, want + 1):
                            fail("adopted-layer-mode", dict(info, layer=l.name), "pixel planes %d" % a.shape[2],
                                 "%d colour planes (+ alpha) of a %s document" % (want, d.pil_mode))
            info["has_pixel_layer"] = any(w.kind(i) == ec.KPIXEL for i in range(len(w.objs)))
        else:
            doc = PSDImage.open(desc["source"])
            info["depth"], info["mode"] = doc.depth, str(int(doc.color_mode))
            info["tree_before_edit"] = json.dumps(doc_shape(doc))
            from psd_tools.api.layers import Group

            e = desc["edit"]
            if len(doc) == 0 and e != "new-group":
                return
            if e == "new-group":
                Group.new("Gnew", parent=doc)
            elif e == "delete-first":
                doc[0].delete_layer()
            elif e == "move-up":
                doc[0].move_up()
            elif e == "group-first":
                Group.group_layers([doc[0]])
            elif e == "clear":
                doc.clear()
            docs = [doc]
    except Exception as ex:  # noqa
        fail("build-raises", info, "%s: %s" % (type(ex).__name__, str(ex)[:120]), "scene builds")
        return
    for d in docs:
        try:
            before = doc_shape(d)
        except Exception as ex:  # noqa
            info2 = dict(info, exception=type(ex).__name__)
            fail("layer-unreadable", info2, "%s: %s" % (type(ex).__name__, str(ex)[:120]), "layers of the edited document are readable")
            continue
        try:
            re, _ = ec.save_reopen(d)
        except Exception as ex:  # noqa
            import traceback

            names = [fr.name for fr in traceback.extract_tb(ex.__traceback__)]
            preview = "save" in names and "composite" in names[names.index("save"):]
            info2 = dict(info, exception=type(ex).__name__, in_preview_step=preview)
            fail("save-raises", info2, "%s: %s" % (type(ex).__name__, str(ex)[:120]), "save succeeds")
            continue
        try:
            after = doc_shape(re)
        except Exception as ex:  # noqa
            info2 = dict(info, exception=type(ex).__name__)
            info2.pop("tree_before_edit", None)
            try:
                info2["reopened_names"] = _names_only(re)
            except Exception:  # noqa
                pass
            fail("reopened-unreadable", info2, "%s: %s" % (type(ex).__name__, str(ex)[:120]),
                 "the reopened document is readable and equals the edited tree %s" % (_names(before),))
            continue
        if after != before:
            info2 = dict(info)
            info2["reopened_equals_tree_before_edit"] = (json.dumps(after) == info.get("tree_before_edit"))
            info2.pop("tree_before_edit", None)
            fail("reopen-differs", info2, _names(after), _names(before))


def _names_only(g):
    return [[l.name, l.kind, _names_only(l)] if l.is_group() else [l.name, l.kind] for l in g]


def _names(sh):
    return [[e[0], e[1], _names(e[5])] if e[1] in ("group", "artboard") else [e[0], e[1]] for e in sh]


# ------------------------------------------------------------------ known findings
def _sf(f):
    return set(f["input"].get("step_flags", []))


# F-C09-1 is fixed (de76dec): classifier and witness kept for reference only, never consulted while the entry is not open
core.KNOWN_CLASSIFIERS["F-C09-1"] = lambda f: (
    f["kind"] == "reopen-differs" and f["input"].get("source") != "new" and f["input"].get("depth") in (16, 32)
    and f["input"].get("reopened_equals_tree_before_edit") is True)
core.KNOWN_CLASSIFIERS["F-C09-2"] = lambda f: (
    f["kind"] == "structure-differs" and f["input"]["op"][0] == "GroupLayers" and "stale-parent-default" in _sf(f))
core.KNOWN_CLASSIFIERS["F-C09-3"] = lambda f: (
    f["kind"] == "outcome-differs" and f["observed"] == [4] and f["expected"][0] == 0 and "clip-layers-in-validity-check" in _sf(f))
core.KNOWN_CLASSIFIERS["F-C09-4"] = lambda f: (
    f["kind"] in ("outcome-differs", "structure-differs") and f["input"]["op"][0] == "GroupLayers"
    and "group-layers-parent-inside" in _sf(f) and f["input"]["outcome"] == [4])
core.KNOWN_CLASSIFIERS["F-C09-5"] = lambda f: (
    f["kind"] in ("save-raises", "layer-unreadable") and f["input"].get("source") == "new" and f["input"].get("depth") in (16, 32)
    and f["input"].get("has_pixel_layer") is True and f["input"].get("exception") == "ValueError")
core.KNOWN_CLASSIFIERS["F-C09-6"] = lambda f: (
    f["kind"] == "save-raises" and f["input"].get("in_preview_step") is True
    and (("CMYK" in str(f["input"].get("mode")) and f["input"].get("exception") == "TypeError")
         or (f["input"].get("source") != "new" and str(f["input"].get("mode")) in ("1", "4", "ColorMode.GRAYSCALE", "ColorMode.CMYK")
             and f["input"].get("exception") in ("PyCMSError", "TypeError"))))
core.KNOWN_CLASSIFIERS["F-C09-7"] = lambda f: (
    f["kind"] in ("structure-differs", "outcome-differs") and bool(set(f["input"].get("flags", [])) & {"listed-arg", "dup-in-list"})
    and f["input"]["op"][0] in ("DeleteLayer", "MoveToGroup", "MoveUp", "MoveDown", "GroupLayers"))


def _fixture(name):
    hits = glob.glob(os.path.join(core.REPO, "tests", "psd_files", "**", name), recursive=True)
    return hits[0] if hits else None


def _pw(desc, kinds):
    def run():
        fails = []
        persistence_case(lambda k, i, o, e: fails.append(k), desc)
        return any(k in kinds for k in fails)
    return run


def _lw(case, kinds):
    def run():
        fails = []
        orc = ListOracle(lambda k, i, o, e: fails.append(k), case)
        ec.run_case(case, hooks=(orc,))
        return any(k in kinds for k in fails)
    return run


core.KNOWN_WITNESS["F-C09-1"] = lambda: _pw({"source": _fixture("4x4_16bit_rgb.psd"), "edit": "delete-first"}, ("reopen-differs",))()
core.KNOWN_WITNESS["F-C09-2"] = _lw((4, [("Remove", 2, 3), ("GroupLayers", [3], None)]), ("structure-differs",))
core.KNOWN_WITNESS["F-C09-3"] = _lw((2, [("SetClip", 3, True), ("GroupLayers", [1], 3)]), ("outcome-differs",))
core.KNOWN_WITNESS["F-C09-4"] = _lw((4, [("GroupLayers", [2], 2)]), ("outcome-differs", "structure-differs"))
core.KNOWN_WITNESS["F-C09-7"] = _lw((0, [("Extend", 5, [1]), ("Clear", 5), ("MoveToGroup", 1, 0)]), ("structure-differs",))
# since ea94750 only layers created WITHOUT a document (NewPixel with no document) and adopted later keep 8-bit planes
core.KNOWN_WITNESS["F-C09-5"] = _pw({'source': 'new', 'mode': 'L', 'depth': 16, 'scene': 3, 'history': [['NewPixel', None, 0, 0, 1, 1], ['MoveUp', 7, -2], ['Pop', 0, -2], ['NewPixel', None, -1, 0, 1, 3], ['Append', 0, 2], ['NewGroup', 0], ['NewGroup', 1], ['Append', 9, 7], ['Clear', 3], ['SetItem', 0, 2, 8], ['SetItem', 6, 3, 9], ['GroupLayers', [2, 8], 10]]}, ("save-raises", "layer-unreadable"))
core.KNOWN_WITNESS["F-C09-6"] = _pw({"source": "new", "mode": "CMYK", "depth": 8, "scene": 4, "history": []}, ("save-raises",))


# ------------------------------------------------------------------ work items
def _work(case):
    fails = []
    orc = ListOracle(lambda kind, inp, obs, exp: fails.append((kind, inp, obs, exp)), case)
    w, ds, outs = ec.run_case(case, hooks=(orc,))
    stats = {}
    for o, out in zip(case[1], outs[len(ec.SCENES[case[0]]):]):
        key = "%s:%s" % (o[0], {0: "ok", -1: "after-cycle"}.get(out[0], "err%d" % out[0]))
        stats[key] = stats.get(key, 0) + 1
    return ec.case_digest(ds), fails, stats, not orc.flags


def _work_err(case, msg):
    inp = {"scene": case[0], "history": [list(o) for o in case[1]], "step": len(case[1]) - 1, "op": list(case[1][-1]) if case[1] else [],
           "outcome": None, "flags": [], "step_flags": []}
    return [0], [("driver-exception", inp, msg, "the operation sequence runs")], {}, False


def record_codes(case):
    """the record list psd_image._build_record_tree produces for every document after the history
    (mirror of Edit.Corr.flat_case_v)"""
    from psd_tools.api.psd_image import _build_record_tree
    from psd_tools.constants import SectionDivider, Tag

    w, _, _ = ec.run_case(case)
    if w.dead:
        return [-9]
    out = []
    for i, ob in enumerate(w.objs):
        if w.kind(i) != ec.KDOC:
            continue
        out += [-1, i]
        recs, _ = _build_record_tree(ob)
        for r in recs:
            name = r.tagged_blocks.get_data(Tag.UNICODE_LAYER_NAME, r.name)
            div = r.tagged_blocks.get_data(Tag.SECTION_DIVIDER_SETTING, None)
            kind = getattr(div, "kind", None)
            if kind == SectionDivider.BOUNDING_SECTION_DIVIDER:
                out += [1]
            elif kind in (SectionDivider.OPEN_FOLDER, SectionDivider.CLOSED_FOLDER):
                out += [2, int(name[1:])]
            else:
                out += [3, int(name[1:])]
    return out


def _pwork(desc):
    fails = []
    try:
        persistence_case(lambda kind, inp, obs, exp: fails.append((kind, inp, obs, exp)), desc)
    except Exception as ex:  # noqa: nothing the implementation does may kill the run
        import traceback

        d = {k: v for k, v in desc.items()}
        fails.append(("persistence-exception", d, "%s: %s | %s" % (type(ex).__name__, ex, traceback.format_exc()[-500:]),
                      "build, edit, save, reopen and compare run to the end"))
    return fails


def gen_cases(ck):
    thorough = ck.tier == "thorough"
    rng = ck.rng
    cases = []
    for k in range(7):
        kinds = ec.kinds_after(ec.SCENES[k])
        for o in ec.ops_for(kinds, FAM):
            cases.append((k, [o]))
    n1 = len(cases)
    pos2 = (-3, -2, -1, 0, 1, 2, 3) if thorough else (-3, -1, 0, 1, 2)
    for k in (4, 5) if thorough else (4,):
        kinds = ec.kinds_after(ec.SCENES[k])
        for o in ec.ops_for(kinds, FAM, pos=pos2, offs=(-2, -1, 1, 2), pairs=thorough):
            k2 = ec.kinds_after([o], kinds)
            for o2 in ec.ops_for(k2, FAM, pos=pos2, offs=(-2, -1, 1, 2), pairs=False):
                cases.append((k, [o, o2]))
    n2 = len(cases) - n1
    n3 = 150000 if thorough else 20000
    for _ in range(n3):
        k = rng.choice([0, 1, 3, 3, 4, 5, 2, 6])
        kinds = ec.kinds_after(ec.SCENES[k])
        ops = []
        for _j in range(4 if thorough and rng.random() < 0.5 else 3):
            o = rng.choice(ec.ops_for(kinds, FAM, pos=(-3, -1, 0, 1, 2), offs=(-2, -1, 1, 3), pairs=False))
            ops.append(o)
            kinds = ec.kinds_after([o], kinds)
        cases.append((k, ops))
    nw = 12000 if thorough else 1500
    for j in range(nw):
        k = rng.randrange(8)
        cases.append(ec.random_walk(rng, k, rng.choice([8, 20, 40, 60]), FAM_WALK, guarded=ec.structure_guard if j % 3 else None))
    return cases, {"length1": n1, "length2": n2, "sampled_length3plus": n3, "random_walks": nw}


def gen_persistence(ck):
    thorough = ck.tier == "thorough"
    rng = ck.rng
    descs = []
    # documents created through the API in every colour mode and depth, edited by guarded histories
    for mode in ("RGB", "L", "CMYK"):
        for depth in (8, 16, 32):
            ok_combo = mode in ("RGB", "L") and depth == 8
            n = (150 if thorough else 40) if ok_combo else (8 if thorough else 3)
            for j in range(n):
                k = rng.choice([0, 1, 2, 3, 4, 5, 6])
                _, ops = ec.random_walk(rng, k, rng.choice([0, 2, 5, 12]), FAM + ["SetVisible", "SetLeft", "SetTop", "SetClip"],
                                        guarded=ec.structure_guard)
                descs.append({"source": "new", "mode": mode, "depth": depth, "scene": k, "history": [list(o) for o in ops]})
            # the top level is emptied (clear / del / pop / delete_layer / move out every layer), then saved
            if ok_combo:
                for ops in ([("Clear", 0)], [("DelItem", 0, 0), ("DelItem", 0, -1)], [("Pop", 0, -1), ("Pop", 0, 0)],
                            [("DeleteLayer", 1), ("DeleteLayer", 2)], [("MoveToGroup", 1, 5), ("MoveToGroup", 2, 5)],
                            [("Remove", 0, 2), ("Remove", 0, 1)], [("Clear", 0), ("NewGroup", 0)], [("Clear", 2), ("Clear", 0)],
                            [("Clear", 0), ("Append", 0, 4)]):
                    descs.append({"source": "new", "mode": mode, "depth": depth, "scene": 0, "history": [list(o) for o in ops]})
            # group-only documents (no pixel data involved)
            for j in range(2):
                ops = [("NewDoc", 6, 6), ("NewGroup", 0), ("NewGroup", 1), ("NewGroup", 0), ("MoveUp", 3, -1)][: 3 + 2 * j]
                descs.append({"source": "new", "mode": mode, "depth": depth, "scene": 7, "history": [list(o) for o in ops]})
    # groups WITH members (and single layers) moved between documents of different colour modes (scene 3 has two documents)
    for modes in (["RGB", "L"], ["L", "RGB"]):
        for ops in ([("MoveToGroup", 3, 1)], [("MoveToGroup", 3, 6)], [("Remove", 0, 3), ("Append", 1, 3)],
                    [("Remove", 0, 3), ("Insert", 6, 0, 3)], [("GroupLayers", [3, 2], 1)], [("MoveToGroup", 6, 3), ("MoveToGroup", 3, 1)],
                    [("MoveToGroup", 4, 6)], [("MoveToGroup", 5, 3), ("MoveToGroup", 3, 1)], [("NewGroup", 3), ("MoveToGroup", 4, 7), ("MoveToGroup", 3, 1)],
                    [("MoveToGroup", 3, 1), ("MoveToGroup", 3, 0)]):
            descs.append({"source": "new", "mode": modes[0], "modes": modes, "depth": 8, "scene": 3, "history": [list(o) for o in ops]})
        for j in range(12 if thorough else 4):
            _, ops = ec.random_walk(rng, 3, rng.choice([3, 6]), ["MoveToGroup", "MoveToGroup", "GroupLayers", "Append", "Remove", "NewGroup", "MoveUp"],
                                    guarded=ec.structure_guard)
            descs.append({"source": "new", "mode": modes[0], "modes": modes, "depth": 8, "scene": 3, "history": [list(o) for o in ops]})
    # documents opened from files (the 16/32-bit ones keep their layers in a Lr16/Lr32 block)
    files = [f for f in sorted(glob.glob(os.path.join(core.REPO, "tests", "psd_files", "colormodes", "4x4_*bit_*.psd")))
             if any(t in f for t in ("_rgb", "_grayscale", "_cmyk"))]
    files += [f for f in [_fixture("16bit5x5.psd"), _fixture("32bit5x5.psd"), _fixture("layers-minimal.psd"), _fixture("group.psd"),
                          _fixture("clipping-mask.psd")] if f]
    for f in files:
        for e in ("new-group", "delete-first", "move-up", "group-first", "clear"):
            descs.append({"source": f, "edit": e})
    return descs


def run():
    ck = Check("C09")
    ck.rule = ("structure-edit histories on real psd_tools objects (7 scenes built through the public API incl. two documents and "
               "detached groups): every operation with every argument choice (positions -3..3, every target, detached vs listed "
               "argument) at length 1, the full product at length 2 from the small scene, uniform samples of the product at "
               "length 3(4), random walks up to length 60 (two thirds inside the guard); after every step the stored state is "
               "compared with the Coq model and the _layers lists with plain Python lists run side by side; a second stream "
               "saves and reopens edited documents of every colour mode {L, RGB, CMYK} and depth {8, 16, 32} (new and from "
               "files) and compares names, kinds, nesting, order, attributes and pixels; non-trivial = distinct history")
    if ck.coq_build(["theories/Edit/Corr.v", "theories/Properties/C09.v"]):
        ck.collect_theorems("C09.v")
    # the repairs committed to /repo are expected to be present: a probe that answers "old variant" is a regression
    ck.obligations.append(("code-variant:all-repairs-present", all(ec.code_variant()),
                           "" if all(ec.code_variant()) else "probed (clipfix, selffix, descfix, clipsfix, cachefix) = %r" % (ec.code_variant(),)))
    cases, sizes = gen_cases(ck)
    for k, v in sizes.items():
        ck.count("cases:" + k, v)
    res = ec.parallel_map(ec.Guarded(_work, _work_err), cases)
    cc = []
    nguard = 0
    for c, (dg, fails, stats, guarded) in zip(cases, res):
        cc.append((c, dg))
        nguard += guarded
        for kind, inp, obs, exp in ec.shrink_failures(ck, c, fails, lambda c: _work(c)[1]):
            ck.fail(kind, inp, obs, exp)
        for key, v in stats.items():
            ck.count(key, v)
        ck.nontriv((c[0], repr(c[1])))
    ck.count("histories:inside-guard", nguard)
    ck.count("histories:outside-guard", len(cases) - nguard)
    ck.sample({"scene": cases[len(cases) // 2][0], "history": [list(o) for o in cases[len(cases) // 2][1]]})
    bad = ck.correspond("edit_histories", ec.digest_fn(), ec.IMPORTS, cc, ec.case_lit, chunk=600)
    for i in bad[:3]:
        ck.notes.append(ec.explain_mismatch(ck, cases[i], "c09_%d" % i)[:1500])
    # the record list written for the tree (ties Edit/Persist.v flat_l to _build_record_tree)
    rc = [c for j, c in enumerate(cases) if j % (3 if ck.tier == "thorough" else 8) == 0]
    rcodes = ec.parallel_map(record_codes, rc)
    ck.correspond("record_list", "flat_case_v %s" % ec.cfg_lit(), ec.IMPORTS, list(zip(rc, rcodes)), ec.case_lit, chunk=600)
    # persistence
    descs = gen_persistence(ck)
    pres = ec.parallel_map(_pwork, descs, chunk=5)
    for d, fails in zip(descs, pres):
        ck.count("persist:%s" % ("file" if d["source"] != "new" else "cross-mode" if d.get("modes") else "%s/%d" % (d["mode"], d["depth"])))
        ck.nontriv(("p", json.dumps(d, sort_keys=True)))
        for kind, inp, obs, exp in fails:
            ck.fail(kind, inp, obs, exp)
    ck.evals += len(descs)
    ck.sample({"persistence": descs[0]})
    ck.assumptions += [
        "the container round trip itself (records -> bytes -> records) is C01/C02's subject; here save+reopen is observed on the implementation only and modelled at tree level (Edit/Persist.v: flatten/build of the record list)",
        "cross-colour-mode adoption (_convert renders and re-encodes the pixels) is not modelled; histories keep one colour mode",
    ]
    return ck.finish()


def replay(path):
    fl = json.load(open(path))
    inp = fl["input"]
    if "source" in inp:
        fails = []
        persistence_case(lambda k, i, o, e: fails.append((k, o, e)), inp)
        print("persistence:", {k: v for k, v in inp.items() if k != "tree_before_edit"})
        for f in fails:
            print("  ", f)
        return 1
    case = (inp["scene"], [tuple(o) for o in inp["history"]])
    fails = []
    orc = ListOracle(lambda kind, i, obs, exp: fails.append((kind, i["step"], obs, exp)), case)
    w, ds, outs = ec.run_case(case, hooks=(orc,))
    print("scene", case[0], "=", ec.SCENES[case[0]])
    for o, out in zip(case[1], outs[len(ec.SCENES[case[0]]):]):
        print("  ", o, "->", out)
    print("real lists :", w.adjacency() if not w.dead else "cycle")
    print("plain lists:", orc.sh.L)
    print("oracle:", fails)
    return 1
