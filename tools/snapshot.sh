#!/bin/bash
# commit the current /verif state only if the Coq tree is free of forbidden constructs
cd "$(dirname "$(readlink -f "$0")")/.."
if python3 tools/scan_coq.py > /tmp/scan.out 2>&1; then git add -A . && git commit -qm "${1:-progress snapshot}" && git log --oneline | head -1; else echo "NOT COMMITTED: scan failed"; head -5 /tmp/scan.out; fi
