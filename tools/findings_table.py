#!/usr/bin/env python3
"""Print a markdown list of all findings (open / fixed) from known_findings/*.json."""
import glob
import json
import os

V = os.path.dirname(os.path.dirname(os.path.abspath(__file__)))
rows = []
for f in sorted(glob.glob(os.path.join(V, "known_findings", "C*.json"))):
    for x in json.load(open(f))["findings"]:
        rows.append((x["id"], x.get("status", "open"), x.get("commit", ""), " ".join(x["what"].split())[:170]))
print("| id | status | commit | what fails |")
print("|---|---|---|---|")
for r in rows:
    print("| %s | %s | %s | %s |" % (r[0], r[1], r[2], r[3].replace("|", "/")))
