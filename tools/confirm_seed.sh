#!/bin/bash
# tools/confirm_seed.sh <mutation-dir with patch.diff demo.py notes.md> <Cxx> <name>
# Confirms in a fresh scratch worktree of /repo HEAD: demo passes unchanged, patch applies, demo fails changed, test-suite passes changed;
# then runs ./check against a patched copy and archives to /verif/seeded/<Cxx>/<name>/ with meta.json.
set -u
src=$(readlink -f "$1"); pid=$2; name=$3
wt=/tmp/seedconfirm-$$
git -C /repo worktree add -q --detach "$wt" HEAD || exit 2
cd "$wt"
run_demo() { PYTHONPATH="$wt/src" timeout 600 /venv/bin/python "$src/demo.py" >/tmp/demo-$$.out 2>&1; echo $?; }
d0=$(run_demo)
git apply "$src/patch.diff" || { echo "patch does not apply"; git -C /repo worktree remove --force "$wt"; exit 3; }
d1=$(run_demo)
suite=$(PYTHONPATH="$wt/src" timeout 1200 /venv/bin/python -m pytest -q -p no:cacheprovider -n 8 --no-cov 2>&1 | tail -1)
git checkout -q -- .
cd /verif
git -C /repo worktree remove --force "$wt"
chk=$(tools/seedtest.sh "$src/patch.diff" "$pid" 2>&1 | grep -E "^(VIOLATION|exit=)" | head -3 | cut -c1-160 | tr '\n' ';')
echo "demo unchanged=$d0 changed=$d1 | suite: $suite | check: $chk"
dst=/verif/seeded/$pid/$name
mkdir -p "$dst"; cp "$src/patch.diff" "$src/demo.py" "$dst/"; cp "$src/notes.md" "$dst/notes.md" 2>/dev/null
python3 - "$dst" "$pid" "$name" "$d0" "$d1" "$suite" "$chk" <<'PY'
import json,sys
dst,pid,name,d0,d1,suite,chk=sys.argv[1:]
json.dump({"property":pid,"name":name,
 "breaks":"see notes.md (written by the independent sub-agent that produced the change, given only the property text)",
 "confirmed":{"demo_exit_unchanged_tree":int(d0),"demo_exit_changed_tree":int(d1),"test_suite_on_changed_tree":suite,
              "repo_head":__import__('subprocess').run(['git','-C','/repo','rev-parse','--short','HEAD'],capture_output=True,text=True).stdout.strip()},
 "what_was_run":"tools/confirm_seed.sh: fresh scratch worktree of /repo HEAD; demo.py on unchanged tree, git apply patch.diff, demo.py, full pytest suite (-n 8); worktree removed; then tools/seedtest.sh patch.diff %s (check against a patched scratch copy)"%pid,
 "check_result":chk,"caught":"VIOLATION" in chk},open(dst+"/meta.json","w"),indent=1)
PY
