#!/bin/bash
# tools/recheck_seeds.sh [Cxx ...]  -- re-run the check of every archived seeded change against a patched scratch copy
# and record the outcome in its meta.json (keys recheck_*); the first-run outcome (key caught) is kept.
cd "$(dirname "$(readlink -f "$0")")/.."
props=${@:-$(ls seeded | grep '^C')}
for p in $props; do
  for d in seeded/$p/m*; do
    [ -f "$d/patch.diff" ] || continue
    out=$(tools/seedtest.sh "$d/patch.diff" "$p" 2>&1)
    v=$(echo "$out" | grep -c '^VIOLATION'); nf=$(echo "$out" | grep '^VIOLATION' | grep -c 'no-failing-input-found')
    rc=$(echo "$out" | grep -o 'exit=[0-9]*' | head -1)
    kind=$(echo "$out" | grep -m1 '"kind"' | sed 's/[",]//g; s/^ *kind: *//')
    python3 - "$d/meta.json" "$v" "$nf" "$rc" "$kind" <<'PY'
import json,sys,subprocess
f,v,nf,rc,kind=sys.argv[1:]
m=json.load(open(f))
m["recheck_violation_lines"]=int(v); m["recheck_no_failing_input_lines"]=int(nf); m["recheck_exit"]=rc; m["recheck_first_failure_kind"]=kind
m["recheck_repo_head"]=subprocess.run(['git','-C','/repo','rev-parse','--short','HEAD'],capture_output=True,text=True).stdout.strip()
m["recheck_verif_head"]=subprocess.run(['git','-C','/verif','rev-parse','--short','HEAD'],capture_output=True,text=True).stdout.strip()
m["caught_final"]= int(v)>int(nf)
if not m.get("caught") and m["caught_final"]:
    m["status_note"]="missed at first; caught with a replay after the check was strengthened"
json.dump(m,open(f,"w"),indent=1)
PY
    echo "$p $(basename $d): violations=$v (no-input=$nf) $rc kind=$kind"
  done
done
