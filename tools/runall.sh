#!/bin/bash
# tools/runall.sh [tier]  -- run every check listed in MANIFEST.json once, print one line per check
cd "$(dirname "$(readlink -f "$0")")/.."
tier=${1:-quick}
for p in $(python3 -c "import json;print(' '.join(c['property_id'] for c in json.load(open('MANIFEST.json'))['checks']))"); do
  s=$(date +%s)
  out=$(./check $p --tier $tier 2>&1); rc=$?
  v=$(echo "$out" | grep -c '^VIOLATION'); k=$(echo "$out" | grep -c '^KNOWN-FINDING')
  echo "$p exit=$rc violations=$v known=$k $(( $(date +%s) - s ))s"
  [ $rc -ne 0 ] && echo "$out" | grep -E '^VIOLATION|Traceback|Error' | head -5 | cut -c1-200
done
