#!/bin/bash
# tools/seedtest.sh <patch.diff> <Cxx> [tier]   -- run a check against a scratch copy of /repo with the patch applied
# (isolated build/evidence dirs, so concurrent work on /repo and /verif/evidence is not disturbed)
set -u
patch=$(readlink -f "$1"); pid=$2; tier=${3:-quick}
d=/verif/build/seedtest/$pid-$$
rm -rf "$d"; mkdir -p "$d/repo" "$d/build" "$d/evidence"
cp -r /repo/src "$d/repo/src"; ln -s /repo/tests "$d/repo/tests"
find "$d/repo/src" -name '__pycache__' -prune -exec rm -rf {} +
( cd "$d/repo" && patch -p1 -s < "$patch" ) || { echo "PATCH FAILED"; exit 3; }
cd /verif
VERIF_REPO="$d/repo" VERIF_BUILD="$d/build" VERIF_EVIDENCE_DIR="$d/evidence" ./check "$pid" --tier "$tier" > "$d/out.txt" 2>&1
rc=$?
grep -E "^(VIOLATION|KNOWN-FINDING)" "$d/out.txt" | cut -c1-300
echo "exit=$rc  (output: $d/out.txt)"
for f in "$d"/build/replays/*.json; do [ -f "$f" ] && { echo "--- $f"; head -c 900 "$f"; echo; }; done
rm -rf "$d/repo"
# keep only the replays and the output (case files of one run are hundreds of MB)
find "$d/build" -mindepth 1 -maxdepth 1 ! -name replays -exec rm -rf {} + 2>/dev/null
exit $rc
