#!/usr/bin/env python3
"""Markdown table of the independent seeded breaking changes (seeded/Cxx/mN/{meta.json,notes.md,patch.diff})."""
import glob
import json
import os
import re

V = os.path.dirname(os.path.dirname(os.path.abspath(__file__)))
print("| property | change | files | what it is (author's notes, first line) | first run | after strengthening (failure kind of the replay) |")
print("|---|---|---|---|---|---|")
tot = miss = ok = 0
for mf in sorted(glob.glob(os.path.join(V, "seeded", "C*", "m*", "meta.json"))):
    m = json.load(open(mf))
    d = os.path.dirname(mf)
    notes = open(os.path.join(d, "notes.md")).read() if os.path.exists(os.path.join(d, "notes.md")) else ""
    files = sorted(set(re.findall(r"^\+\+\+ b/(\S+)", open(os.path.join(d, "patch.diff")).read(), re.M)))
    first = next((l.strip("# ").strip() for l in notes.splitlines() if l.strip()), "")[:150].replace("|", "/")
    chk = m.get("check_result", "")
    fr = "caught (replay)" if ("VIOLATION" in chk and "no-failing-input-found" not in chk.split(";")[0]) else ("flagged, no failing input" if "VIOLATION" in chk else "MISSED")
    fin = m.get("caught_by") and ("by ./check %s" % m["caught_by"]) or (("caught: " + (m.get("recheck_first_failure_kind") or "replay")) if m.get("caught_final") else ("caught (replay)" if fr.startswith("caught") else "not re-run"))
    tot += 1
    miss += fr != "caught (replay)"
    ok += bool(m.get("caught_final") or m.get("caught_by") or fr == "caught (replay)")
    print("| %s | %s | %s | %s | %s | %s |" % (m["property"], m["name"], ", ".join(os.path.basename(f) for f in files), first, fr, fin))
print()
print("%d independent changes; %d were missed or flagged without a failing input on the first run; %d of %d are caught with a concrete replay by the checks as committed (recheck columns)." % (tot, miss, ok, tot))
