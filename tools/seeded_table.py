#!/usr/bin/env python3
"""Print the markdown table of seeded breaking changes (seeded/Cxx/mN/meta.json + notes.md first lines)."""
import glob
import json
import os
import re

V = os.path.dirname(os.path.dirname(os.path.abspath(__file__)))
print("| property | change | what it needs to manifest (from the author's notes) | caught by `./check` |")
print("|---|---|---|---|")
for mf in sorted(glob.glob(os.path.join(V, "seeded", "C*", "m*", "meta.json"))):
    m = json.load(open(mf))
    d = os.path.dirname(mf)
    notes = open(os.path.join(d, "notes.md")).read() if os.path.exists(os.path.join(d, "notes.md")) else ""
    files = sorted(set(re.findall(r"^\+\+\+ b/(\S+)", open(os.path.join(d, "patch.diff")).read(), re.M)))
    need = ""
    mm = re.search(r"(?is)(needs?[^\n]*\n(?:.*\n){0,3})", notes)
    if mm:
        need = " ".join(mm.group(1).split())[:220]
    st = m.get("status_note") or ("yes (replay)" if m.get("caught") else "NO")
    print("| %s | %s: %s | %s | %s |" % (m["property"], m["name"], ", ".join(os.path.basename(f) for f in files), need.replace("|", "/"), st))
