#!/usr/bin/env python3
"""Per-property index table for DESIGN.md 9.8 from evidence/, Properties/*.v, known_findings/ and an optional thorough log."""
import json, os, re, sys
V = os.path.dirname(os.path.dirname(os.path.abspath(__file__)))
th = {}
if len(sys.argv) > 1 and os.path.exists(sys.argv[1]):
    th = {m.group(1): int(m.group(2)) for m in re.finditer(r'^(C\d\d) exit=0 .* (\d+)s$', open(sys.argv[1]).read(), re.M)}
print("| property | theorems + examples in Properties/Cxx.v | model areas imported | obligations (all discharged) | evaluations (distinct non-trivial) | quick / thorough wall | findings |")
print("|---|---|---|---|---|---|---|")
for p in ['C%02d' % i for i in range(1, 21)]:
    e = json.load(open(os.path.join(V, 'evidence', p + '.json'))); c = e['coverage']
    src = open(os.path.join(V, 'coq', 'theories', 'Properties', p + '.v')).read()
    nth = len(re.findall(r'^(Theorem|Lemma)\s', src, re.M)); nex = len(re.findall(r'^Example\s', src, re.M))
    areas = sorted(set(re.findall(r'([A-Z][a-z]+)\.\w+', ' '.join(re.findall(r'From PsdV Require Import (.*?)\.\n', src, re.S)))))
    kfp = os.path.join(V, 'known_findings', p + '.json')
    kf = json.load(open(kfp))['findings'] if os.path.exists(kfp) else []
    print("| %s | %d + %d | %s | %d | %d (%d) | %.0f s / %s s | %d open, %d fixed |" % (
        p, nth, nex, ', '.join(areas) or '-', c['obligations'], c['evaluations'], c['distinct_nontrivial'], e['wall_s'], th.get(p, '?'),
        sum(1 for f in kf if f.get('status', 'open') == 'open'), sum(1 for f in kf if f.get('status') == 'fixed')))
