#!/usr/bin/env python3
"""Assemble /verif/MANIFEST.json from manifest.d/*.json fragments (one per claimed property)."""
import glob
import json
import os

V = os.path.dirname(os.path.dirname(os.path.abspath(__file__)))
props = [json.loads(l)["id"] for l in open(os.path.join(V, "properties.jsonl")) if l.strip()]
READY = json.load(open(os.path.join(V, "manifest.d", "_ready.json")))  # integrator's list of finished checks
checks, na = [], []
for pid in props:
    fp = os.path.join(V, "manifest.d", pid + ".json")
    if not os.path.exists(fp) or pid not in READY:
        na.append({"property_id": pid, "reason": "check not built yet (no executable model + correspondence committed for it so far); planned in DESIGN.md section 5"})
        continue
    fr = json.load(open(fp))
    if fr.get("not_applicable"):
        na.append({"property_id": pid, "reason": fr["not_applicable"]})
        continue
    checks.append({
        "property_id": pid,
        "quick_cmd": "./check %s --tier quick" % pid,
        "thorough_cmd": "./check %s --tier thorough" % pid,
        "evidence_file": "/verif/evidence/%s.json" % pid,
        "replay_cmd_template": "./check %s --replay {path}" % pid,
        "engine": "coq-model+correspondence",
        "level_claimed": fr["level_claimed"],
        "level_note": fr["level_note"],
        "technique": fr["technique"],
    })
hooks_commits = json.load(open(os.path.join(V, "manifest.d", "_hooks.json")))
m = {
    "version": 1,
    "setup_cmd": "coq/build.sh -k || true",
    "hooks": {
        "guard": "PSD_TOOLS_VERIF",
        "enable": "checks export PSD_TOOLS_VERIF=1 and import psd_tools from /repo/src of the current working tree (no build step; pure Python)",
        "baseline_off_cmd": "cd /repo && env -u PSD_TOOLS_VERIF /venv/bin/python -m pytest -ra -q -p no:cacheprovider --timeout=900 --continue-on-collection-errors -n 8",
        "source_commits": hooks_commits.get("source_commits", []),
        "add_only": True,
    },
    "engines": [{
        "name": "coq-model+correspondence",
        "path": "/verif/coq (theories), /verif/harness/vh (correspondence + oracle), /verif/check",
        "serves_properties": [c["property_id"] for c in checks],
        "kind_free_text": "Coq 8.16 theorems about hand-written executable Gallina models; the models are tied to /repo on every run by evaluating them with vm_compute on the same inputs as the implementation",
    }],
    "checks": checks,
    "not_applicable": na,
    "notes": "See DESIGN.md. Known findings per property: known_findings/<id>.json. Seeded breaking changes used to test the checks: seeded/<id>/.",
}
json.dump(m, open(os.path.join(V, "MANIFEST.json"), "w"), indent=1)
print("checks:", [c["property_id"] for c in checks], "not_applicable:", [x["property_id"] for x in na])
