#!/usr/bin/env python3
"""Scan coq/theories for constructs the brief forbids: Axiom/Parameter/Conjecture/Admitted/admit/Abort,
Variable/Hypothesis/Context outside a Section, switched-off kernel checks.  Prints offending lines; exit 1 if any."""
import os
import re
import sys

ROOT = os.path.join(os.path.dirname(os.path.dirname(os.path.abspath(__file__))), "coq", "theories")
FORBID = re.compile(r"\b(Admitted|admit|Axiom|Axioms|Parameter|Parameters|Conjecture|Conjectures)\b|Admit Obligations|Unset\s+Guard|Unset\s+Positivity|Unset\s+Universe|bypass_check|type-in-type|impredicative-set")


def strip_comments(t):
    out, depth, i = [], 0, 0
    while i < len(t):
        if t.startswith("(*", i):
            depth += 1
            i += 2
        elif t.startswith("*)", i) and depth:
            depth -= 1
            i += 2
        else:
            if depth == 0:
                out.append(t[i])
            elif t[i] == "\n":
                out.append("\n")
            i += 1
    return "".join(out)


def scan(path):
    bad = []
    t = strip_comments(open(path).read())
    depth = 0
    for n, line in enumerate(t.splitlines(), 1):
        s = line.strip()
        if FORBID.search(s):
            bad.append((n, s))
        if re.match(r"^Section\s+\w+", s):
            depth += 1
        elif re.match(r"^End\s+\w+", s) and depth:
            depth -= 1
        elif re.match(r"^(Variable|Variables|Hypothesis|Hypotheses|Context)\b", s) and depth == 0:
            bad.append((n, "outside a Section: " + s))
    return bad


def main():
    rc = 0
    for d, _, fs in os.walk(ROOT):
        for f in sorted(fs):
            if f.endswith(".v"):
                p = os.path.join(d, f)
                for n, s in scan(p):
                    print("%s:%d: %s" % (os.path.relpath(p, ROOT), n, s[:140]))
                    rc = 1
    sys.exit(rc)


if __name__ == "__main__":
    main()
