#!/bin/bash
# tools/seedtest_all.sh <patch.diff> [Cxx ...] -- run checks (default: all registered) against a scratch copy of /repo with the patch applied
cd "$(dirname "$(readlink -f "$0")")/.."
patch=$1; shift
props=${@:-$(python3 -c "import json;print(' '.join(c['property_id'] for c in json.load(open('MANIFEST.json'))['checks']))")}
for p in $props; do
  out=$(tools/seedtest.sh "$patch" $p 2>&1)
  v=$(echo "$out" | grep -c '^VIOLATION'); nf=$(echo "$out" | grep '^VIOLATION' | grep -c 'no-failing-input-found')
  echo "$p violations=$v no-input=$nf $(echo "$out" | grep -o 'exit=[0-9]*' | head -1) $(echo "$out" | grep -m1 '"kind"' | tr -d ' ",')"
done
