#!/bin/bash
# Full .vo build of the Coq development (or of the given .vo targets), serialised by a lock.
# usage: coq/build.sh [theories/X/Y.vo ...]
set -u
cd "$(dirname "$0")"
mkdir -p ../build
exec 9>../build/.coq.lock
flock 9
{ echo "-Q theories PsdV"; echo "-arg -w -arg -notation-overridden,-deprecated-hint-without-locality,-deprecated-instance-without-locality"; find theories -name '*.v' | LC_ALL=C sort; } > _CoqProject.new
if ! cmp -s _CoqProject.new _CoqProject 2>/dev/null || [ ! -f Makefile ]; then
  mv _CoqProject.new _CoqProject
  coq_makefile -f _CoqProject -o Makefile >/dev/null || exit 2
else
  rm -f _CoqProject.new
fi
ulimit -v ${COQ_VMEM_KB:-24000000} 2>/dev/null   # a runaway tactic must not take the machine down
if [ $# -eq 0 ]; then
  timeout "${COQ_BUILD_TIMEOUT:-3000}" make -j"${COQ_JOBS:-16}" 2>&1
else
  timeout "${COQ_BUILD_TIMEOUT:-3000}" make -j"${COQ_JOBS:-16}" "$@" 2>&1
fi
