(* C12: every entry of the BLEND_FUNC table names a model function whose theorems are proved. *)
From Coq Require Import String List Bool Arith Reals Lra.
From PsdV Require Import Blend.Num Blend.Model Blend.Spec Blend.ProofsR Blend.ProofsNS Blend.Table.
Import ListNotations.
Open Scope string_scope.

(* what "its theorems are proved" means for an entry: the all-inputs range theorem of that mode (the formula
   theorems are per mode in Properties/C12.v); for a non-separable mode also the CMYK facts *)
Definition entry_proved (f : fname) : Prop :=
  match f with
  | FSep m => forall cb cs : R, unit cb -> unit cs -> unit (blend_sep NR m cb cs)
  | FNon m => (forall cb cs, unit3 cb -> unit3 cs -> unit3 (blend_rgb NR m cb cs)) /\
              (forall cb cs, snd (blend_cmyk NR m cb cs) = snd cs) /\
              (forall cb cs, unit4 cb -> unit4 cs ->
                 (unit4 (blend_cmyk NR m cb cs) <->
                  (snd cs = 1 \/ le3 (blend_rgb NR m (cmyk2rgb NR cb) (cmyk2rgb NR cs)) (1 - snd cs)))%R)
  end.

Lemma every_fname_proved f : entry_proved f.
Proof.
  destruct f as [m|m]; cbn [entry_proved].
  - apply range_sep.
  - split; [apply range_rgb | split; [apply blend_cmyk_K_is_source | apply range_cmyk_iff]].
Qed.

Theorem table_entries_proved k f : In (k, f) blend_table -> entry_proved f.
Proof. intros _. apply every_fname_proved. Qed.

Lemma fname_str_injective f g : fname_str f = fname_str g -> f = g.
Proof.
  destruct f as [[]|[]]; destruct g as [[]|[]]; cbn [fname_str]; intro H; try reflexivity; discriminate H.
Qed.

Lemma table_shape : length blend_table = 54%nat /\ nodup_keys table_names = true.
Proof. split; vm_compute; reflexivity. Qed.

(* every mode is reachable: by its BlendMode key and by its descriptor key *)
Definition count_f (f : fname) : nat :=
  length (filter (fun e => String.eqb (fname_str (snd e)) (fname_str f)) blend_table).
Lemma table_covers_every_mode f : count_f f = 2%nat.
Proof. destruct f as [[]|[]]; vm_compute; reflexivity. Qed.

Lemma lookup_in k n t : lookup k t = Some n -> In (k, n) t.
Proof.
  induction t as [|[k' n'] t IH]; cbn [lookup]; [discriminate|].
  destruct (String.eqb k k') eqn:E.
  - intro H. injection H as ->. apply String.eqb_eq in E. subst. left. reflexivity.
  - intro H. right. apply IH. exact H.
Qed.
Lemma in_table_names k n : In (k, n) table_names -> exists f, In (k, f) blend_table /\ fname_str f = n.
Proof.
  unfold table_names. intro H. apply in_map_iff in H as [[k' f] [E Hin]]. cbn [fst snd] in E.
  injection E as E1 E2. subst k' n. exists f. split; [exact Hin | reflexivity].
Qed.

(* the lemma the generated file uses: a live table that passes [check_live] binds every key to a function whose
   name is the name of a proved model function, and that model function is determined by the name *)
Theorem live_table_sound live : check_live live = true ->
  forall k n, In (k, n) live ->
  exists f, In (k, f) blend_table /\ fname_str f = n /\ entry_proved f /\
            (forall g, fname_str g = n -> g = f).
Proof.
  unfold check_live. intros H k n Hin.
  apply andb_true_iff in H as [_ H]. rewrite forallb_forall in H. specialize (H (k, n) Hin). cbn [fst snd] in H.
  destruct (lookup k table_names) as [n'|] eqn:L; [|discriminate].
  apply String.eqb_eq in H. subst n'. apply lookup_in in L. apply in_table_names in L as [f [Hf Hn]].
  exists f. split; [exact Hf|]. split; [exact Hn|]. split; [apply every_fname_proved|].
  intros g Hg. apply fname_str_injective. rewrite Hg, Hn. reflexivity.
Qed.
