(* C12: PDF SetLum (= ClipColor after the luminosity shift) is Lipschitz in its colour argument, sup norm,
   constant 2 * (1 + 200/11) < 38.4.  With the stage bounds of ProofsNS (SetSat) and ProofsClip (SetLum) this
   gives hue and saturation within tolerance of the PDF formulas on the whole cube. *)
From Coq Require Import QArith Reals Lra Lia Psatz Bool.
From PsdV Require Import Blend.Num Blend.Model Blend.Spec Blend.ProofsR Blend.ProofsNS Blend.ProofsClip.
Open Scope R_scope.

(* the two scale factors of PDF ClipColor, for a colour of luminosity l *)
Definition fa (l n : R) : R := if Rlt_dec n 0 then l / (l - n) else 1.
Definition fb (l x : R) : R := if Rlt_dec 1 x then (1 - l) / (x - l) else 1.

Lemma s_clipchan_ab l n x v : 0 <= l <= 1 ->
  s_clipchan l n x v = l + (v - l) * fa l n * fb l x.
Proof.
  intros Hl. unfold s_clipchan, fa, fb. cbv zeta.
  destruct (Rlt_dec n 0); destruct (Rlt_dec 1 x); try (field; lra); ring.
Qed.

Lemma fa_unit l n : 0 <= l -> 0 <= fa l n <= 1.
Proof.
  intro Hl. unfold fa. destruct (Rlt_dec n 0); [|lra].
  split; [apply div_nonneg; lra | apply div_le_1; lra].
Qed.
Lemma fb_unit l x : l <= 1 -> 0 <= fb l x <= 1.
Proof.
  intro Hl. unfold fb. destruct (Rlt_dec 1 x); [|lra].
  split; [apply div_nonneg; lra | apply div_le_1; lra].
Qed.

(* w' is (a bound of) the spread of the primed colour; 11/100 w' <= l - n' is the luminosity margin *)
Lemma fa_lip l n n' w h : 0 <= l -> - h <= n - n' <= h -> 0 <= w -> 11/100 * w <= l - n' ->
  - (100/11 * h) <= w * (fa l n - fa l n') <= 100/11 * h.
Proof.
  intros Hl Hn Hw Hm. unfold fa.
  destruct (Rlt_dec n 0) as [N|N]; destruct (Rlt_dec n' 0) as [N'|N'].
  - nameq l (l - n). nameq l (l - n').
    assert (0 <= q <= 1) by (split; nra). assert (0 <= q0 <= 1) by (split; nra).
    (* (q - q0)(l-n') = q (n - n')  *)
    assert (E1 : (q - q0) * (l - n') = q * (n - n')) by nra.
    assert (11/100 * (w * (q - q0)) <= q * h).
    { assert (w * (q - q0) * (11/100) <= Rabs ((q - q0) * (l - n'))).
      { rewrite Rabs_mult. rewrite (Rabs_pos_eq (l - n')) by lra.
        destruct (Rcase_abs (q - q0)).
        - rewrite Rabs_left by assumption. nra.
        - rewrite Rabs_right by assumption. nra. }
      rewrite E1 in H1. rewrite Rabs_mult, (Rabs_pos_eq q) in H1 by lra.
      assert (Rabs (n - n') <= h) by (unfold Rabs; destruct (Rcase_abs (n - n')); lra). nra. }
    assert (- (q * h) <= 11/100 * (w * (q - q0))).
    { assert (- (w * (q - q0)) * (11/100) <= Rabs ((q - q0) * (l - n'))).
      { rewrite Rabs_mult. rewrite (Rabs_pos_eq (l - n')) by lra.
        destruct (Rcase_abs (q - q0)).
        - rewrite Rabs_left by assumption. nra.
        - rewrite Rabs_right by assumption. nra. }
      rewrite E1 in H2. rewrite Rabs_mult, (Rabs_pos_eq q) in H2 by lra.
      assert (Rabs (n - n') <= h) by (unfold Rabs; destruct (Rcase_abs (n - n')); lra). nra. }
    assert (0 <= h) by lra. split; nra.
  - (* n < 0 <= n' : a' = 1, 1 - a = -n/(l-n), -n <= h, w <= l/0.11 *)
    nameq l (l - n). assert (0 <= q <= 1) by (split; nra).
    assert (E1 : (1 - q) * (l - n) = - n) by nra.
    assert (0 <= - n <= h) by lra.
    assert (11/100 * w <= l) by lra.
    (* w (1-q) <= (l/0.11) (1-q), and l (1 - q) = -n q <= h *)
    assert (l * (1 - q) = - n * q) by nra.
    assert (11/100 * (w * (1 - q)) <= h) by nra.
    assert (0 <= w * (1 - q)) by nra. split; nra.
  - (* n' < 0 <= n : a = 1, 1 - a' = -n'/(l-n'), w <= (l-n')/0.11 *)
    nameq l (l - n'). assert (0 <= q <= 1) by (split; nra).
    assert (E1 : (1 - q) * (l - n') = - n') by nra.
    assert (0 <= - n' <= h) by lra.
    assert (11/100 * (w * (1 - q)) <= - n') by nra.
    assert (0 <= w * (1 - q)) by nra. split; nra.
  - replace (1 - 1) with 0 by ring. rewrite Rmult_0_r. lra.
Qed.

Lemma fb_lip l x x' w h : l <= 1 -> - h <= x - x' <= h -> 0 <= w -> 11/100 * w <= x' - l ->
  - (100/11 * h) <= w * (fb l x - fb l x') <= 100/11 * h.
Proof.
  intros Hl Hn Hw Hm. unfold fb.
  destruct (Rlt_dec 1 x) as [N|N]; destruct (Rlt_dec 1 x') as [N'|N'].
  - nameq (1 - l) (x - l). nameq (1 - l) (x' - l).
    assert (0 <= q <= 1) by (split; nra). assert (0 <= q0 <= 1) by (split; nra).
    assert (E1 : (q - q0) * (x' - l) = q * (x' - x)) by nra.
    assert (Rabs (x' - x) <= h) by (unfold Rabs; destruct (Rcase_abs (x' - x)); lra).
    assert (11/100 * (w * (q - q0)) <= q * h).
    { assert (w * (q - q0) * (11/100) <= Rabs ((q - q0) * (x' - l))).
      { rewrite Rabs_mult. rewrite (Rabs_pos_eq (x' - l)) by lra.
        destruct (Rcase_abs (q - q0)).
        - rewrite Rabs_left by assumption. nra.
        - rewrite Rabs_right by assumption. nra. }
      rewrite E1 in H2. rewrite Rabs_mult, (Rabs_pos_eq q) in H2 by lra. nra. }
    assert (- (q * h) <= 11/100 * (w * (q - q0))).
    { assert (- (w * (q - q0)) * (11/100) <= Rabs ((q - q0) * (x' - l))).
      { rewrite Rabs_mult. rewrite (Rabs_pos_eq (x' - l)) by lra.
        destruct (Rcase_abs (q - q0)).
        - rewrite Rabs_left by assumption. nra.
        - rewrite Rabs_right by assumption. nra. }
      rewrite E1 in H3. rewrite Rabs_mult, (Rabs_pos_eq q) in H3 by lra. nra. }
    assert (0 <= h) by lra. split; nra.
  - nameq (1 - l) (x - l). assert (0 <= q <= 1) by (split; nra).
    assert (E1 : (1 - q) * (x - l) = x - 1) by nra.
    assert (0 <= x - 1 <= h) by lra.
    assert (11/100 * w <= 1 - l) by lra.
    assert ((1 - l) * (1 - q) = (x - 1) * q) by nra.
    assert (11/100 * (w * (1 - q)) <= h) by nra.
    assert (0 <= w * (1 - q)) by nra. split; nra.
  - nameq (1 - l) (x' - l). assert (0 <= q <= 1) by (split; nra).
    assert (E1 : (1 - q) * (x' - l) = x' - 1) by nra.
    assert (0 <= x' - 1 <= h) by lra.
    assert (11/100 * (w * (1 - q)) <= x' - 1) by nra.
    assert (0 <= w * (1 - q)) by nra. split; nra.
  - replace (1 - 1) with 0 by ring. rewrite Rmult_0_r. lra.
Qed.

(* pure algebra: u a b against u' a' b' *)
Lemma combine (u u' a a' b b' w h k : R) :
  0 <= a <= 1 -> 0 <= a' <= 1 -> 0 <= b <= 1 -> 0 <= b' <= 1 ->
  - h <= u - u' <= h -> - w <= u' <= w ->
  - k <= w * (a - a') <= k -> - k <= w * (b - b') <= k ->
  - (h + 2 * k) <= u * a * b - u' * a' * b' <= h + 2 * k.
Proof.
  intros Ha Ha' Hb Hb' Hu Hw Ka Kb.
  replace (u * a * b - u' * a' * b') with ((u - u') * (a * b) + (u' * (a - a')) * b + (u' * (b - b')) * a') by ring.
  assert (0 <= a * b <= 1) by nra.
  assert (- h <= (u - u') * (a * b) <= h) by nra.
  assert (Pa : - k <= u' * (a - a') <= k).
  { destruct (Rle_dec 0 (a - a')); split; nra. }
  assert (Pb : - k <= u' * (b - b') <= k).
  { destruct (Rle_dec 0 (b - b')); split; nra. }
  assert (- k <= (u' * (a - a')) * b <= k) by (split; nra).
  assert (- k <= (u' * (b - b')) * a' <= k) by (split; nra).
  lra.
Qed.

Definition KL : R := 1 + 200 / 11.

(* one channel of ClipColor, two colours of the same luminosity l *)
Lemma s_clipchan_lip l n x v n' x' v' h :
  0 <= l <= 1 ->
  n <= v <= x -> n' <= v' <= x' -> n' <= l <= x' ->
  11/100 * (x' - n') <= l - n' -> 11/100 * (x' - n') <= x' - l ->
  - h <= v - v' <= h -> - h <= n - n' <= h -> - h <= x - x' <= h ->
  - (KL * h) <= s_clipchan l n x v - s_clipchan l n' x' v' <= KL * h.
Proof.
  intros Hl Hv Hv' Hl' M1 M2 Dv Dn Dx.
  rewrite !s_clipchan_ab by assumption.
  pose proof (fa_unit l n (proj1 Hl)). pose proof (fa_unit l n' (proj1 Hl)).
  pose proof (fb_unit l x (proj2 Hl)). pose proof (fb_unit l x' (proj2 Hl)).
  assert (Hw : 0 <= x' - n') by lra.
  pose proof (fa_lip l n n' (x' - n') h (proj1 Hl) Dn Hw M1) as Ka.
  pose proof (fb_lip l x x' (x' - n') h (proj2 Hl) Dx Hw M2) as Kb.
  assert (Du : - h <= (v - l) - (v' - l) <= h) by lra.
  assert (Hu' : - (x' - n') <= v' - l <= x' - n') by lra.
  pose proof (combine (v - l) (v' - l) (fa l n) (fa l n') (fb l x) (fb l x') (x' - n') h (100/11 * h)
                H H0 H1 H2 Du Hu' Ka Kb) as C.
  unfold KL. lra.
Qed.

(* ---------------------------------------------------------------- triples *)
Definition dist3 (a b : rgb NR) (h : R) : Prop :=
  let '(r, g, b') := a in let '(r', g', b'') := b in
  (- h <= r - r' <= h) /\ (- h <= g - g' <= h) /\ (- h <= b' - b'' <= h).

Lemma min3_lip c c' h : dist3 c c' h -> - h <= min3 NR c - min3 NR c' <= h.
Proof. destruct c as [[r g] b]. destruct c' as [[r' g'] b']. unfold dist3. intros (? & ? & ?). munfold. rcases; lra. Qed.
Lemma max3_lip c c' h : dist3 c c' h -> - h <= max3 NR c - max3 NR c' <= h.
Proof. destruct c as [[r g] b]. destruct c' as [[r' g'] b']. unfold dist3. intros (? & ? & ?). munfold. rcases; lra. Qed.
Lemma lum_lip c c' h : dist3 c c' h -> - h <= lum NR c - lum NR c' <= h.
Proof. destruct c as [[r g] b]. destruct c' as [[r' g'] b']. unfold dist3. intros (? & ? & ?). munfold. lra. Qed.

Lemma s_clip_color_lip c c' l h : 0 <= l <= 1 -> lum NR c = l -> lum NR c' = l -> dist3 c c' h ->
  dist3 (s_clip_color c) (s_clip_color c') (KL * h).
Proof.
  intros Hl Lc Lc' D. rewrite !s_clip_color_clipchan.
  rewrite <- (lum_is_spec c), <- (min3_is_spec c), <- (max3_is_spec c).
  rewrite <- (lum_is_spec c'), <- (min3_is_spec c'), <- (max3_is_spec c'). rewrite Lc, Lc'.
  pose proof (min3_lip c c' h D) as Dn. pose proof (max3_lip c c' h D) as Dx.
  pose proof (lum_margin c') as [M1 M2]. rewrite Lc' in M1, M2.
  pose proof (min_max_bounds c) as Bc. pose proof (min_max_bounds c') as Bc'.
  pose proof (lum_between c') as G. rewrite <- (min3_is_spec c'), <- (max3_is_spec c'), Lc' in G.
  destruct c as [[r g] b]. destruct c' as [[r' g'] b'].
  destruct Bc as (Br & Bg & Bb). destruct Bc' as (Br' & Bg' & Bb'). destruct D as (Dr & Dg & Db).
  set (n := min3 NR (r, g, b)) in *. set (x := max3 NR (r, g, b)) in *.
  set (n' := min3 NR (r', g', b')) in *. set (x' := max3 NR (r', g', b')) in *. clearbody n x n' x'.
  unfold s_map3, dist3.
  repeat split; apply s_clipchan_lip; assumption.
Qed.

(* PDF SetLum is Lipschitz in the colour, constant 2 KL = 2 + 400/11 *)
Theorem s_set_lum_lip c c' l h : unit l -> dist3 c c' h ->
  dist3 (s_set_lum c l) (s_set_lum c' l) (KL * (2 * h)).
Proof.
  intros Hl D. unfold s_set_lum. cbv zeta.
  pose proof (lum_lip c c' h D) as DL. rewrite <- (lum_is_spec c), <- (lum_is_spec c').
  apply (s_clip_color_lip _ _ l); try exact Hl.
  - destruct c as [[r g] b]. unfold s_map3. rewrite lum_shift. cbn [T NR]. ring.
  - destruct c' as [[r g] b]. unfold s_map3. rewrite lum_shift. cbn [T NR]. ring.
  - destruct c as [[r g] b]. destruct c' as [[r' g'] b']. unfold s_map3, dist3 in *.
    destruct D as (? & ? & ?). cbn [T NR] in *. repeat split; lra.
Qed.

(* from the weighted closeness of ProofsNS/ProofsClip to a distance *)
Lemma close3_dist3 w t a b : 0 < w -> close3 w t a b -> dist3 a b (t / w).
Proof.
  destruct a as [[r g] b']. destruct b as [[r' g'] b'']. unfold close3, dist3. intros Hw (H1 & H2 & H3).
  assert (E : t / w * w = t) by (apply div_mul; lra).
  set (q := t / w) in *. clearbody q. cbn [T NR] in *.
  unfold Rabs in *. repeat split;
    repeat match goal with H : context [Rcase_abs ?a] |- _ => destruct (Rcase_abs a) end; nra.
Qed.
Lemma dist3_close3 a b h : dist3 a b h -> close3 1 h a b.
Proof.
  destruct a as [[r g] b']. destruct b as [[r' g'] b'']. unfold close3, dist3. intros (H1 & H2 & H3).
  cbn [T NR] in *. unfold Rabs. repeat split; destruct (Rcase_abs _); lra.
Qed.
Lemma close3_1_dist3 a b t : close3 1 t a b -> dist3 a b t.
Proof.
  destruct a as [[r g] b']. destruct b as [[r' g'] b'']. unfold close3, dist3. intros (H1 & H2 & H3).
  cbn [T NR] in *. unfold Rabs in *. repeat split;
    repeat match goal with H : context [Rcase_abs ?a] |- _ => destruct (Rcase_abs a) end; lra.
Qed.
Lemma dist3_trans a b c h k : dist3 a b h -> dist3 b c k -> dist3 a c (h + k).
Proof.
  destruct a as [[r g] b']. destruct b as [[r' g'] b'']. destruct c as [[r2 g2] b2]. unfold dist3.
  intros (? & ? & ?) (? & ? & ?). cbn [T NR] in *. repeat split; lra.
Qed.

(* SetLum(SetSat(c, s), l): the code against the PDF, for a colour c that is not grey *)
Lemma set_lum_set_sat_close c s l : unit s -> unit l -> s_min3 c < s_max3 c ->
  dist3 (set_lum NR (set_sat NR c s) l) (s_set_lum (s_set_sat c s) l)
        (20 * e9 + KL * (2 * (s * e9 / (s_max3 c - s_min3 c)))).
Proof.
  intros Hs Hl Hd.
  apply (dist3_trans _ (s_set_lum (set_sat NR c s) l)).
  - apply close3_1_dist3. apply set_lum_close. exact Hl.
  - apply s_set_lum_lip; [exact Hl|]. apply close3_dist3; [lra|].
    apply set_sat_close; [apply Hs | exact Hd].
Qed.
(* ... and for a grey one both SetSat results are black *)
Lemma set_lum_set_sat_grey r s l : unit l ->
  dist3 (set_lum NR (set_sat NR (r, r, r) s) l) (s_set_lum (s_set_sat (r, r, r) s) l) (20 * e9).
Proof.
  intro Hl. destruct (set_sat_grey r s) as [E1 E2]. rewrite E1, E2.
  apply close3_1_dist3. apply set_lum_close. exact Hl.
Qed.

Lemma sat_is_spec c : sat NR c = s_sat c.
Proof. unfold sat, s_sat. cbn [sub NR]. rewrite min3_is_spec, max3_is_spec. reflexivity. Qed.
Lemma sat_unit c : unit3 c -> unit (sat NR c).
Proof.
  intro H. pose proof (min3_ge c H). pose proof (max3_le c H). pose proof (sorted3 c).
  unfold sat, unit. cbn [sub NR]. lra.
Qed.

(* hue and saturation against the PDF formulas, whole cube.  d = Cmax - Cmin of the colour whose hue is kept
   (the source for hue, the backdrop for saturation), s = the saturation imposed *)
Theorem formula_hue cb cs : unit3 cb -> unit3 cs -> s_min3 cs < s_max3 cs ->
  dist3 (hue_rgb NR cb cs) (s_hue cb cs) (20 * e9 + KL * (2 * (s_sat cb * e9 / (s_max3 cs - s_min3 cs)))).
Proof.
  intros Hb Hs Hd. unfold hue_rgb, s_hue. rewrite <- (lum_is_spec cb), <- (sat_is_spec cb).
  apply set_lum_set_sat_close; [apply sat_unit; exact Hb | apply lum_unit; exact Hb | exact Hd].
Qed.
Theorem formula_saturation cb cs : unit3 cb -> unit3 cs -> s_min3 cb < s_max3 cb ->
  dist3 (saturation_rgb NR cb cs) (s_saturation cb cs)
        (20 * e9 + KL * (2 * (s_sat cs * e9 / (s_max3 cb - s_min3 cb)))).
Proof.
  intros Hb Hs Hd. unfold saturation_rgb, s_saturation. rewrite <- (lum_is_spec cb), <- (sat_is_spec cs).
  apply set_lum_set_sat_close; [apply sat_unit; exact Hs | apply lum_unit; exact Hb | exact Hd].
Qed.
Theorem formula_hue_grey_source cb r : unit3 cb -> dist3 (hue_rgb NR cb (r, r, r)) (s_hue cb (r, r, r)) (20 * e9).
Proof.
  intro Hb. unfold hue_rgb, s_hue. rewrite <- (lum_is_spec cb), <- (sat_is_spec cb).
  apply set_lum_set_sat_grey. apply lum_unit. exact Hb.
Qed.
Theorem formula_saturation_grey_backdrop r cs : unit r ->
  dist3 (saturation_rgb NR (r, r, r) cs) (s_saturation (r, r, r) cs) (20 * e9).
Proof.
  intro Hr. unfold saturation_rgb, s_saturation. rewrite <- (lum_is_spec (r, r, r)), <- (sat_is_spec cs).
  apply set_lum_set_sat_grey. apply lum_unit. unfold unit3. tauto.
Qed.

(* one weighted statement for the whole cube, grey or not: (Cmax - Cmin) * |code - PDF| <= 60e-9 *)
Theorem formula_hue_weighted cb cs : unit3 cb -> unit3 cs ->
  close3 (s_sat cs) (60 * e9) (hue_rgb NR cb cs) (s_hue cb cs).
Proof.
  intros Hb Hs.
  pose proof (sat_unit cb Hb) as Sb. pose proof (sat_unit cs Hs) as Ss. rewrite sat_is_spec in Sb, Ss.
  assert (He : 0 < e9) by (unfold e9; lra).
  destruct (Rlt_dec (s_min3 cs) (s_max3 cs)) as [Hd|Hd].
  - pose proof (formula_hue cb cs Hb Hs Hd) as D. unfold s_sat in *.
    set (d := s_max3 cs - s_min3 cs) in *. set (s := s_max3 cb - s_min3 cb) in *.
    assert (Hd' : 0 < d) by (unfold d; lra).
    assert (E : s * e9 / d * d = s * e9) by (apply div_mul; apply Rgt_not_eq; lra).
    set (q := s * e9 / d) in *. clearbody q d s.
    destruct (hue_rgb NR cb cs) as [[r g] b]. destruct (s_hue cb cs) as [[r' g'] b'].
    unfold dist3, close3, KL, unit in *. cbn [T NR] in *. destruct D as (D1 & D2 & D3).
    assert (Q : d * (20 * e9 + (1 + 200 / 11) * (2 * q)) <= 60 * e9) by nra.
    assert (0 <= 20 * e9 + (1 + 200 / 11) * (2 * q)) by lra.
    unfold Rabs. repeat split; destruct (Rcase_abs _); nra.
  - assert (Z : s_sat cs = 0). { unfold s_sat. pose proof (sorted3 cs). rewrite min3_is_spec, max3_is_spec in H. lra. }
    rewrite Z. destruct (hue_rgb NR cb cs) as [[r g] b]. destruct (s_hue cb cs) as [[r' g'] b'].
    unfold close3. rewrite !Rmult_0_l. lra.
Qed.
Theorem formula_saturation_weighted cb cs : unit3 cb -> unit3 cs ->
  close3 (s_sat cb) (60 * e9) (saturation_rgb NR cb cs) (s_saturation cb cs).
Proof.
  intros Hb Hs.
  pose proof (sat_unit cb Hb) as Sb. pose proof (sat_unit cs Hs) as Ss. rewrite sat_is_spec in Sb, Ss.
  assert (He : 0 < e9) by (unfold e9; lra).
  destruct (Rlt_dec (s_min3 cb) (s_max3 cb)) as [Hd|Hd].
  - pose proof (formula_saturation cb cs Hb Hs Hd) as D. unfold s_sat in *.
    set (d := s_max3 cb - s_min3 cb) in *. set (s := s_max3 cs - s_min3 cs) in *.
    assert (Hd' : 0 < d) by (unfold d; lra).
    assert (E : s * e9 / d * d = s * e9) by (apply div_mul; apply Rgt_not_eq; lra).
    set (q := s * e9 / d) in *. clearbody q d s.
    destruct (saturation_rgb NR cb cs) as [[r g] b]. destruct (s_saturation cb cs) as [[r' g'] b'].
    unfold dist3, close3, KL, unit in *. cbn [T NR] in *. destruct D as (D1 & D2 & D3).
    assert (Q : d * (20 * e9 + (1 + 200 / 11) * (2 * q)) <= 60 * e9) by nra.
    assert (0 <= 20 * e9 + (1 + 200 / 11) * (2 * q)) by lra.
    unfold Rabs. repeat split; destruct (Rcase_abs _); nra.
  - assert (Z : s_sat cb = 0). { unfold s_sat. pose proof (sorted3 cb). rewrite min3_is_spec, max3_is_spec in H. lra. }
    rewrite Z. destruct (saturation_rgb NR cb cs) as [[r g] b]. destruct (s_saturation cb cs) as [[r' g'] b'].
    unfold close3. rewrite !Rmult_0_l. lra.
Qed.
