(* C12: theorems about the model instantiated at the reals ([Model.f NR]). *)
From Coq Require Import QArith Reals Lra Lia Psatz Bool.
From PsdV Require Import Blend.Num Blend.Model Blend.Spec.
Open Scope R_scope.

(* ---------------------------------------------------------------- constants of the model at NR *)
Ltac kq := cbv [c0 c1 c2 c4 c12 c16 half quarter eps hm wr wg wb ofQ NR Q2R Qnum Qden]; simpl; try lra; try (field; lra).
Lemma k0 : c0 NR = 0. Proof. kq. Qed.
Lemma k1 : c1 NR = 1. Proof. kq. Qed.
Lemma k2 : c2 NR = 2. Proof. kq. Qed.
Lemma k4 : c4 NR = 4. Proof. kq. Qed.
Lemma k12 : c12 NR = 12. Proof. kq. Qed.
Lemma k16 : c16 NR = 16. Proof. kq. Qed.
Lemma khalf : half NR = 1/2. Proof. kq. Qed.
Lemma kquarter : quarter NR = 1/4. Proof. kq. Qed.
Lemma keps : eps NR = 1/1000000000. Proof. kq. Qed.
Lemma khm : hm NR = 999999/1000000. Proof. kq. Qed.
Lemma kwr : wr NR = 3/10. Proof. kq. Qed.
Lemma kwg : wg NR = 59/100. Proof. kq. Qed.
Lemma kwb : wb NR = 11/100. Proof. kq. Qed.

Ltac kk := rewrite ?k0, ?k1, ?k2, ?k4, ?k12, ?k16, ?khalf, ?kquarter, ?keps, ?khm, ?kwr, ?kwg, ?kwb in *.

(* unfold the model down to real arithmetic + Rleb/Reqb tests *)
Ltac munfold :=
  cbv beta delta [normal multiply screen darken lighten color_dodge color_burn linear_dodge linear_burn hard_light
       overlay soft_light vivid_light linear_light pin_light difference exclusion subtract hard_mix divide dissolve
       fmin fmax fabs ltb blend_sep
       lum clip_color set_lum sat set_sat min3 max3 mid3 map3 hue_rgb saturation_rgb color_rgb luminosity_rgb
       darker_color_rgb lighter_color_rgb cmyk2rgb rgb2cmy wrap_cmyk blend_rgb blend_cmyk] in *;
  cbn [T add sub mul div leb eqb sqrt_ NR fst snd] in *; kk.

Ltac no_test t :=
  match t with
  | context [Rleb _ _] => fail 1
  | context [Reqb _ _] => fail 1
  | _ => idtac
  end.
(* split on an innermost test of the goal *)
Ltac rcase1 :=
  match goal with
  | |- context [Rleb ?a ?b] =>
      no_test a; no_test b;
      let H := fresh "C" in
      destruct (Rle_lt_dec a b) as [H|H];
      [rewrite (Rleb_true a b H) | rewrite (Rleb_false a b H)]
  | |- context [Reqb ?a ?b] =>
      no_test a; no_test b;
      let H := fresh "C" in
      destruct (Req_EM_T a b) as [H|H];
      [rewrite (Reqb_true a b H) | rewrite (Reqb_false a b H)]
  end; cbn [negb andb orb]; cbv iota.
Ltac rcases := repeat rcase1.

Lemma ltb_false a b : b <= a -> ltb NR a b = false.
Proof. intro H. unfold ltb. cbn [leb NR]. rewrite (Rleb_true _ _ H). reflexivity. Qed.
Lemma ltb_true a b : a < b -> ltb NR a b = true.
Proof. intro H. unfold ltb. cbn [leb NR]. rewrite (Rleb_false _ _ H). reflexivity. Qed.

Lemma div_mul a d : d <> 0 -> a / d * d = a.
Proof. intro. field. assumption. Qed.
Lemma div_nonneg a d : 0 <= a -> 0 < d -> 0 <= a / d.
Proof. intros. unfold Rdiv. apply Rmult_le_pos; [assumption | left; apply Rinv_0_lt_compat; assumption]. Qed.
Lemma div_le_1 a d : a <= d -> 0 < d -> a / d <= 1.
Proof. intros. apply (Rmult_le_reg_r d); [assumption|]. rewrite div_mul by lra. lra. Qed.

(* name a quotient: replaces a/d by a fresh q with q*d = a *)
Ltac nameq a d :=
  let q := fresh "q" in let E := fresh "E" in
  assert (E : a / d * d = a) by (apply div_mul; apply Rgt_not_eq; lra);
  set (q := a / d) in *; clearbody q.

Definition unit (x : R) : Prop := 0 <= x <= 1.

(* ---------------------------------------------------------------- ranges of the separable modes *)
Section Ranges.
Variables cb cs : R.
Hypothesis Hb : unit cb.
Hypothesis Hs : unit cs.

Lemma range_normal : unit (normal NR cb cs).
Proof. unfold unit in *. munfold. lra. Qed.
Lemma range_multiply : unit (multiply NR cb cs).
Proof. unfold unit in *. munfold. nra. Qed.
Lemma range_screen : unit (screen NR cb cs).
Proof. unfold unit in *. munfold. nra. Qed.
Lemma range_darken : unit (darken NR cb cs).
Proof. unfold unit in *. munfold. rcases; lra. Qed.
Lemma range_lighten : unit (lighten NR cb cs).
Proof. unfold unit in *. munfold. rcases; lra. Qed.
Lemma range_linear_dodge : unit (linear_dodge NR cb cs).
Proof. unfold unit in *. munfold. rcases; lra. Qed.
Lemma range_linear_burn : unit (linear_burn NR cb cs).
Proof. unfold unit in *. munfold. rcases; lra. Qed.
Lemma range_hard_light : unit (hard_light NR cb cs).
Proof. unfold unit in *. munfold. rcases; nra. Qed.
Lemma range_difference : unit (difference NR cb cs).
Proof. unfold unit in *. munfold. rcases; lra. Qed.
Lemma range_exclusion : unit (exclusion NR cb cs).
Proof. unfold unit in *. munfold. nra. Qed.
Lemma range_subtract : unit (subtract NR cb cs).
Proof. unfold unit in *. munfold. rcases; lra. Qed.
Lemma range_hard_mix : unit (hard_mix NR cb cs).
Proof. unfold unit in *. munfold. rcases; lra. Qed.
Lemma range_linear_light : unit (linear_light NR cb cs).
Proof. unfold unit in *. munfold. rcases; lra. Qed.
Lemma range_pin_light : unit (pin_light NR cb cs).
Proof. unfold unit in *. munfold. rcases; lra. Qed.
End Ranges.

Lemma range_overlay cb cs : unit cb -> unit cs -> unit (overlay NR cb cs).
Proof. intros. unfold overlay. apply range_hard_light; assumption. Qed.
Lemma range_dissolve cb cs : unit cb -> unit cs -> unit (dissolve NR cb cs).
Proof. intros. unfold dissolve. apply range_normal; assumption. Qed.

(* color_dodge / color_burn are used by vivid_light with a source argument in [0,2] / [-1,1]: state the
   range for the wider domain actually needed *)
Lemma range_color_dodge_gen cb cs : unit cb -> cs <= 1 -> unit (color_dodge NR cb cs).
Proof.
  unfold unit. intros Hb Hs. munfold. rcases; try lra.
  split; [|lra]. apply div_nonneg; lra.
Qed.
Lemma range_color_burn_gen cb cs : unit cb -> 0 <= cs -> unit (color_burn NR cb cs).
Proof.
  unfold unit. intros Hb Hs. munfold. rcases; try lra.
  assert (0 <= (1 - cb) / (1 * cs + 1 / 1000000000)) by (apply div_nonneg; lra). lra.
Qed.
Lemma range_color_dodge cb cs : unit cb -> unit cs -> unit (color_dodge NR cb cs).
Proof. intros Hb [? ?]. apply range_color_dodge_gen; assumption. Qed.
Lemma range_color_burn cb cs : unit cb -> unit cs -> unit (color_burn NR cb cs).
Proof. intros Hb [? ?]. apply range_color_burn_gen; assumption. Qed.

Lemma range_vivid_light cb cs : unit cb -> unit cs -> unit (vivid_light NR cb cs).
Proof.
  intros Hb Hs. unfold vivid_light. cbn [T add sub mul div leb eqb sqrt_ NR]. kk. unfold ltb. cbn [leb NR].
  destruct (negb (Rleb cs (1 / 2))).
  - apply range_color_dodge_gen; [assumption|]. unfold unit in *. lra.
  - apply range_color_burn_gen; [assumption|]. unfold unit in *. lra.
Qed.

Lemma range_divide cb cs : unit cb -> unit cs -> unit (divide NR cb cs).
Proof.
  unfold unit. intros Hb Hs. munfold. rcases; try lra.
  split; [|lra]. apply div_nonneg; lra.
Qed.

Lemma sqrt_unit x : unit x -> x <= sqrt x <= 1.
Proof.
  unfold unit. intros [H0 H1]. split.
  - destruct (Req_dec x 0) as [->|]; [rewrite sqrt_0; lra|].
    assert (Hx : 0 < x) by lra.
    pose proof (sqrt_lt_R0 x Hx). pose proof (sqrt_sqrt x H0).
    assert (sqrt x <= 1). { rewrite <- sqrt_1. apply sqrt_le_1_alt. assumption. }
    nra.
  - rewrite <- sqrt_1. apply sqrt_le_1_alt. assumption.
Qed.

Lemma range_soft_light cb cs : unit cb -> unit cs -> unit (soft_light NR cb cs).
Proof.
  intros Hb Hs. pose proof (sqrt_unit cb Hb) as Hq. unfold unit in *. munfold.
  destruct (Rle_lt_dec cs (1/2)) as [C|C].
  - rewrite (Rleb_true cs (1/2) C). cbv iota zeta.
    assert (0 <= cb * (1 - cb) <= cb) by nra.
    assert (0 <= (1 - 2 * cs) * (cb * (1 - cb)) <= cb * (1 - cb)) by nra. lra.
  - rewrite (Rleb_false cs (1/2) C).
    rewrite (Rleb_false cs (1/4)) by lra. cbv iota zeta. set (r := sqrt cb) in *.
    assert (0 <= (2 * cs - 1) * (r - cb) <= r - cb) by nra. lra.
Qed.

Theorem range_sep (m : sep_mode) cb cs : unit cb -> unit cs -> unit (blend_sep NR m cb cs).
Proof.
  intros Hb Hs. destruct m; cbn [blend_sep];
    auto using range_normal, range_multiply, range_screen, range_overlay, range_darken, range_lighten,
      range_color_dodge, range_color_burn, range_linear_dodge, range_linear_burn, range_hard_light, range_soft_light,
      range_vivid_light, range_linear_light, range_pin_light, range_hard_mix, range_divide, range_difference,
      range_exclusion, range_subtract, range_dissolve.
Qed.

(* ---------------------------------------------------------------- model = published formula *)
Ltac scase1 :=
  match goal with
  | |- context [Rle_dec ?a ?b] => destruct (Rle_dec a b)
  | |- context [Rlt_dec ?a ?b] => destruct (Rlt_dec a b)
  | |- context [Req_EM_T ?a ?b] => destruct (Req_EM_T a b)
  | |- context [Rcase_abs ?a] => destruct (Rcase_abs a)
  | _ : context [Rle_dec ?a ?b] |- _ => destruct (Rle_dec a b)
  | _ : context [Rlt_dec ?a ?b] |- _ => destruct (Rlt_dec a b)
  | _ : context [Req_EM_T ?a ?b] |- _ => destruct (Req_EM_T a b)
  | _ : context [Rcase_abs ?a] |- _ => destruct (Rcase_abs a)
  end.
Ltac sunfold :=
  cbv beta delta [s_normal s_multiply s_screen s_hard_light s_overlay s_darken s_lighten s_color_dodge s_color_burn
     s_difference s_exclusion s_soft_light s_soft_light_w3c s_linear_dodge s_linear_burn s_vivid_light s_linear_light
     s_pin_light s_hard_mix s_subtract s_divide Rmin Rmax Rabs] in *.
Ltac exact_eq := intros; munfold; sunfold; rcases; repeat scase1; try lra; try nra.

Lemma formula_normal cb cs : normal NR cb cs = s_normal cb cs.            Proof. exact_eq. Qed.
Lemma formula_multiply cb cs : multiply NR cb cs = s_multiply cb cs.      Proof. exact_eq. Qed.
Lemma formula_screen cb cs : screen NR cb cs = s_screen cb cs.            Proof. exact_eq. Qed.
Lemma formula_darken cb cs : darken NR cb cs = s_darken cb cs.            Proof. exact_eq. Qed.
Lemma formula_lighten cb cs : lighten NR cb cs = s_lighten cb cs.         Proof. exact_eq. Qed.
Lemma formula_hard_light cb cs : hard_light NR cb cs = s_hard_light cb cs. Proof. exact_eq. Qed.
Lemma formula_overlay cb cs : overlay NR cb cs = s_overlay cb cs.
Proof. unfold overlay, s_overlay. apply formula_hard_light. Qed.
Lemma formula_linear_dodge cb cs : linear_dodge NR cb cs = s_linear_dodge cb cs. Proof. exact_eq. Qed.
Lemma formula_linear_burn cb cs : linear_burn NR cb cs = s_linear_burn cb cs.    Proof. exact_eq. Qed.
Lemma formula_linear_light cb cs : unit cb -> unit cs -> linear_light NR cb cs = s_linear_light cb cs.
Proof. unfold unit. exact_eq. Qed.
Lemma formula_pin_light cb cs : pin_light NR cb cs = s_pin_light cb cs.   Proof. exact_eq. Qed.
Lemma formula_difference cb cs : difference NR cb cs = s_difference cb cs. Proof. exact_eq. Qed.
Lemma formula_exclusion cb cs : exclusion NR cb cs = s_exclusion cb cs.   Proof. exact_eq. Qed.
Lemma formula_subtract cb cs : subtract NR cb cs = s_subtract cb cs.      Proof. exact_eq. Qed.

(* soft light: the code is exactly Adobe's variant (its polynomial D branch is dead: D is only read where
   Cs > 1/2, and there the mask Cs <= 1/4 is false) *)
Lemma formula_soft_light cb cs : soft_light NR cb cs = s_soft_light cb cs.
Proof.
  munfold. sunfold. destruct (Rle_lt_dec cs (1/2)) as [C|C].
  - rewrite (Rleb_true _ _ C). destruct (Rle_dec cs (1/2)); [|lra]. cbv iota zeta. ring.
  - rewrite (Rleb_false _ _ C). rewrite (Rleb_false cs (1/4)) by lra. destruct (Rle_dec cs (1/2)); [lra|].
    cbv iota zeta. ring.
Qed.

(* ... and differs from the W3C/PDF variant: at Cb = 1/16, Cs = 1 by 11/256 (about 11 levels of 255) *)
Lemma sqrt_sixteenth : sqrt (1/16) = 1/4.
Proof. replace (1/16) with ((1/4) * (1/4)) by lra. apply sqrt_square. lra. Qed.
Lemma soft_light_w3c_refuted :
  exists cb cs, unit cb /\ unit cs /\ soft_light NR cb cs - s_soft_light_w3c cb cs = 11/256.
Proof.
  exists (1/16), 1. unfold unit. split; [lra|]. split; [lra|].
  munfold. sunfold. rewrite (Rleb_false 1 (1/2)) by lra. rewrite (Rleb_false 1 (1/4)) by lra.
  destruct (Rle_dec (1/16) (1/4)); [|lra]. destruct (Rle_dec 1 (1/2)); [lra|].
  cbv iota zeta. rewrite sqrt_sixteenth. lra.
Qed.

(* hard mix: equal to Adobe's threshold formula except in the sliver 1 <= Cb + Cs < 1 + Cs/10^6 opened by the
   0.999999 factor; on the line Cb + Cs = 1 the code gives 0, the formula 1 *)
Lemma formula_hard_mix cb cs : unit cb -> unit cs ->
  cb + cs < 1 \/ 1 + 1/1000000 <= cb + cs -> hard_mix NR cb cs = s_hard_mix cb cs.
Proof. unfold unit. intros Hb Hs [H|H]; munfold; sunfold; rcases; repeat scase1; try lra. Qed.
Lemma hard_mix_exact_characterisation cb cs :
  hard_mix NR cb cs = if Rle_dec 1 (cb + 999999/1000000 * cs) then 1 else 0.
Proof. munfold. rcases; repeat scase1; lra. Qed.
Lemma hard_mix_on_threshold_refuted :
  exists cb cs, unit cb /\ unit cs /\ cb + cs = 1 /\ hard_mix NR cb cs = 0 /\ s_hard_mix cb cs = 1.
Proof.
  exists (1/2), (1/2). unfold unit. repeat split; try lra.
  - munfold. rcases; lra.
  - sunfold. repeat scase1; lra.
Qed.

(* ---- regularised singular formulas: the code adds 1e-9 to the denominator.  Distance to the published
   formula, with the domain made explicit: it is at most 1e-9 / (distance of the source from the singularity). *)
Lemma formula_color_dodge cb cs : unit cb -> cs < 1 ->
  (1 - cs) * Rabs (color_dodge NR cb cs - s_color_dodge cb cs) <= 1/1000000000.
Proof.
  unfold unit. intros Hb Hs. munfold. sunfold.
  nameq cb (1 * (1 - cs + 1 / 1000000000)). nameq cb (1 - cs).
  rcases; repeat scase1; try lra; try nra.
Qed.
Lemma formula_color_dodge_at_1 cb : color_dodge NR cb 1 = s_color_dodge cb 1.
Proof. munfold. sunfold. rcases; repeat scase1; try lra. Qed.

Lemma formula_color_burn cb cs : unit cb -> 0 < cs ->
  cs * Rabs (color_burn NR cb cs - s_color_burn cb cs) <= 1/1000000000.
Proof.
  unfold unit. intros Hb Hs. munfold. sunfold.
  nameq (1 - cb) (1 * cs + 1 / 1000000000). nameq (1 - cb) cs.
  rcases; repeat scase1; try lra; try nra.
Qed.
Lemma formula_color_burn_at_0 cb : color_burn NR cb 0 = s_color_burn cb 0.
Proof. munfold. sunfold. rcases; repeat scase1; try lra. Qed.

Lemma formula_divide cb cs : unit cb -> 0 < cs ->
  cs * Rabs (divide NR cb cs - s_divide cb cs) <= 1/1000000000.
Proof.
  unfold unit. intros Hb Hs. munfold. sunfold.
  nameq cb (cs + 1 / 1000000000). nameq cb cs.
  rcases; repeat scase1; try lra; try nra.
Qed.

Lemma formula_vivid_light_burn cb cs : unit cb -> 0 < cs <= 1/2 ->
  (2 * cs) * Rabs (vivid_light NR cb cs - s_vivid_light cb cs) <= 1/1000000000.
Proof.
  intros Hb Hs. unfold vivid_light, s_vivid_light. cbn [T add sub mul div leb eqb sqrt_ NR]. kk.
  unfold ltb. cbn [leb NR]. rewrite (Rleb_true cs (1/2)) by lra. cbn [negb].
  destruct (Rle_dec cs (1/2)); [|lra]. replace (cs * 2) with (2 * cs) by ring.
  apply formula_color_burn; [assumption | lra].
Qed.
Lemma formula_vivid_light_dodge cb cs : unit cb -> 1/2 < cs < 1 ->
  (2 - 2 * cs) * Rabs (vivid_light NR cb cs - s_vivid_light cb cs) <= 1/1000000000.
Proof.
  intros Hb Hs. unfold vivid_light, s_vivid_light. cbn [T add sub mul div leb eqb sqrt_ NR]. kk.
  unfold ltb. cbn [leb NR]. rewrite (Rleb_false cs (1/2)) by lra. cbn [negb].
  destruct (Rle_dec cs (1/2)); [lra|]. replace (cs * 2) with (2 * cs) by ring.
  replace (2 - 2 * cs) with (1 - (2 * cs - 1)) by ring.
  apply formula_color_dodge; [assumption | lra].
Qed.
Lemma formula_vivid_light_ends cb : vivid_light NR cb 0 = s_vivid_light cb 0 /\ vivid_light NR cb 1 = s_vivid_light cb 1.
Proof.
  unfold vivid_light, s_vivid_light. cbn [T add sub mul div leb eqb sqrt_ NR]. kk. unfold ltb. cbn [leb NR].
  rewrite (Rleb_true 0 (1/2)) by lra. rewrite (Rleb_false 1 (1/2)) by lra. cbn [negb].
  destruct (Rle_dec 0 (1/2)); [|lra]. destruct (Rle_dec 1 (1/2)); [lra|].
  replace (0 * 2) with 0 by ring. replace (2 * 0) with 0 by ring.
  replace (1 * 2 - 1) with 1 by ring. replace (2 * 1 - 1) with 1 by ring.
  split; [apply formula_color_burn_at_0 | apply formula_color_dodge_at_1].
Qed.

(* ---------------------------------------------------------------- documented identities *)
Lemma id_normal cb cs : normal NR cb cs = cs.                 Proof. reflexivity. Qed.
Lemma id_multiply_white cb : multiply NR cb 1 = cb.           Proof. munfold. ring. Qed.
Lemma id_screen_black cb : screen NR cb 0 = cb.               Proof. munfold. ring. Qed.
Lemma id_darken_self x : darken NR x x = x.                   Proof. munfold. rcases; lra. Qed.
Lemma id_lighten_self x : lighten NR x x = x.                 Proof. munfold. rcases; lra. Qed.
Lemma id_overlay_hard_light cb cs : overlay NR cb cs = hard_light NR cs cb.  Proof. reflexivity. Qed.
Lemma id_dissolve_normal cb cs : dissolve NR cb cs = cs.      Proof. reflexivity. Qed.
