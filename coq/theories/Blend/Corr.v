(* Correspondence glue for C12 (mirrored in harness/vh/c12.py).
   Inputs are float32 values passed exactly (m * 2^-e) or generated on both sides from a compact descriptor;
   the implementation's float32 outputs come as integers y = round(out * 2^24).  The exact rational model is
   evaluated on the same inputs and compared with an explicit tolerance in units of 2^-24 -- never by equality
   of floats.  Where the code compares a COMPUTED quantity with a threshold (hard mix; darker/lighter colour)
   float32 rounding may legitimately take the other branch inside a narrow band around the threshold: there
   either branch value is accepted; the band widths are explicit below. *)
From PsdV Require Import Base.Prelude Blend.Num Blend.Model.
From Coq Require Import QArith Qabs Qround.
Open Scope Z_scope.

Definition fq (m e : Z) : Q := Qred (m # Z.to_pos (2 ^ e)).          (* the binary float m * 2^-e, e >= 0 *)

(* round-half-even of n/d (d > 0) *)
Definition rn_div (n d : Z) : Z :=
  let q := n / d in let r := n mod d in
  if 2 * r <? d then q else if d <? 2 * r then q + 1 else if Z.even q then q else q + 1.
Fixpoint find_e (fuel : nat) (i e : Z) : Z :=
  match fuel with O => e | S f => if 255 * 2 ^ 23 <=? i * 2 ^ e then e else find_e f i (e + 1) end.
(* float32(i)/float32(255): the correctly rounded binary32 quotient, as (m, e) *)
Definition g255_me (i : Z) : Z * Z :=
  if i =? 0 then (0, 0) else let e := find_e 12 i 23 in (rn_div (i * 2 ^ e) 255, e).
Definition g255 (i : Z) : Q := let '(m, e) := g255_me i in fq m e.

Definition sep_of_Z (k : Z) : sep_mode :=
  match k with
  | 0 => Normal | 1 => Multiply | 2 => Screen | 3 => Overlay | 4 => Darken | 5 => Lighten | 6 => ColorDodge
  | 7 => ColorBurn | 8 => LinearDodge | 9 => LinearBurn | 10 => HardLight | 11 => SoftLight | 12 => VividLight
  | 13 => LinearLight | 14 => PinLight | 15 => HardMix | 16 => Divide | 17 => Difference | 18 => Exclusion
  | 19 => Subtract | _ => Dissolve
  end.
Definition nonsep_of_Z (k : Z) : nonsep_mode :=
  match k with 0 => Hue | 1 => Saturation | 2 => Color | 3 => Luminosity | 4 => DarkerColor | _ => LighterColor end.

(* results are returned as (number of bad entries) :: bad entries, so that the expected value is the literal [0] *)
Definition tag (l : list Z) : list Z := Z.of_nat (length l) :: l.

Definition sc : Q := inject_Z (2 ^ 24).
(* |v * 2^24 - y| <= tol *)
Definition within (tol : Q) (v : Q) (y : Z) : bool := Qle_bool (Qabs (v * sc - inject_Z y)) tol.

(* tolerances, in units of 2^-24 (one float32 ulp just below 1.0 is 1 unit) *)
Definition tol_sep : Q := 12.         (* separable modes: <= 12 * 2^-24 ~ 7.2e-7 *)
Definition tol_ns : Q := 192.         (* non-separable modes, RGB path: 192 * 2^-24 ~ 1.1e-5 *)
Definition band_hm : Q := 1 # 2097152.        (* 2^-21: |Cb + 0.999999 Cs - 1| below this => hard mix may go either way *)
Definition band_lum : Q := 1 # 1048576.       (* 2^-20: |lum Cs - lum Cb| below this => darker/lighter may pick either *)

Definition sep_ok (m : sep_mode) (cb cs : Q) (y : Z) : bool :=
  if within tol_sep (blend_sep NQ m cb cs) y then true else
     match m with
     | HardMix => Qle_bool (Qabs (cb + (999999 # 1000000) * cs - 1)) band_hm && ((y =? 0) || (y =? 2 ^ 24))
     | _ => false
     end.

(* ---- 8-bit grid rows: (mode, i, outputs for Cb = g255 i and Cs = g255 0 .. g255 255) -> bad column indices *)
Fixpoint row_bad (m : sep_mode) (cb : Q) (j : Z) (ys : list Z) : list Z :=
  match ys with
  | [] => []
  | y :: ys' => if sep_ok m cb (g255 j) y then row_bad m cb (j + 1) ys' else j :: row_bad m cb (j + 1) ys'
  end.
Definition sep_row (d : Z * Z * list Z) : list Z :=
  let '(k, i, ys) := d in tag (row_bad (sep_of_Z k) (g255 i) 0 ys).

(* ---- explicit float32 points: (mode, (cbm, cbe), (csm, cse), y) *)
Definition sep_point (d : Z * (Z * Z) * (Z * Z) * Z) : list Z :=
  let '(k, (bm, be), (sm, se), y) := d in
  if sep_ok (sep_of_Z k) (fq bm be) (fq sm se) y then [0] else [1].

(* ---- non-separable, RGB path *)
Definition tri_ok (tol : Q) (c : Q * Q * Q) (y : Z * Z * Z) : bool :=
  let '(r, g, b) := c in let '(yr, yg, yb) := y in within tol r yr && within tol g yg && within tol b yb.

Definition rgb_ok (m : nonsep_mode) (cb cs : Q * Q * Q) (y : Z * Z * Z) : bool :=
  if tri_ok tol_ns (blend_rgb NQ m cb cs) y then true else
     match m with
     | DarkerColor | LighterColor =>
         Qle_bool (Qabs (lum NQ cs - lum NQ cb)) band_lum && (tri_ok tol_ns cb y || tri_ok tol_ns cs y)
     | _ => false
     end.

(* lattice point number p (0 <= p < n^3) of the lattice {0, 1/(n-1), ..}^3 ; n - 1 is a power of two in the
   harness, so every coordinate is an exact float32 *)
Definition lat3 (n p : Z) : Q * Q * Q :=
  let d := n - 1 in
  (Qred (p / (n * n) # Z.to_pos d), Qred ((p / n) mod n # Z.to_pos d), Qred (p mod n # Z.to_pos d)).

Fixpoint lat_row_bad (m : nonsep_mode) (n : Z) (cb : Q * Q * Q) (p : Z) (ys : list (Z * Z * Z)) : list Z :=
  match ys with
  | [] => []
  | y :: ys' =>
      if rgb_ok m cb (lat3 n p) y then lat_row_bad m n cb (p + 1) ys' else p :: lat_row_bad m n cb (p + 1) ys'
  end.
(* (mode, n, index of Cb in the lattice, outputs for every Cs of the lattice in order) *)
Definition rgb_lat_row (d : Z * Z * Z * list (Z * Z * Z)) : list Z :=
  let '(k, n, pb, ys) := d in tag (lat_row_bad (nonsep_of_Z k) n (lat3 n pb) 0 ys).

Definition me3 (t : (Z * Z) * (Z * Z) * (Z * Z)) : Q * Q * Q :=
  let '((am, ae), (bm, be), (cm, ce)) := t in (fq am ae, fq bm be, fq cm ce).
Definition rgb_point (d : Z * ((Z * Z) * (Z * Z) * (Z * Z)) * ((Z * Z) * (Z * Z) * (Z * Z)) * (Z * Z * Z)) : list Z :=
  let '(k, b, s, y) := d in if rgb_ok (nonsep_of_Z k) (me3 b) (me3 s) y then [0] else [1].

(* ---- non-separable, CMYK path.  The conversion back divides by (1 - K + 1e-9): the float32 evaluation loses
   accuracy like 1/(1-K), so the tolerance is scaled by (1 + 1/(1-K)) (explicit; K = 1 gives exact zeros).
   The K channel is copied, not computed: it must agree up to the rounding of y (half a unit).
   _set_sat is discontinuous where two channels coincide, and on this path its argument is COMPUTED
   ((1-c)*(1-k) in float32), so channels one rounding apart may merge: the result is also accepted when it
   matches the model run on the binary32-rounded conversion [cmyk2rgb_f32]. *)
Definition rn32 (x : Q) : Q :=           (* nearest binary32, ties to even; normal range; x > 0 (else unchanged) *)
  if Qle_bool x 0 then x else
  let n := Qnum x in let d := Zpos (Qden x) in
  let k := 23 - (Z.log2 n - Z.log2 d) in
  let scale (e : Z) := if 0 <=? e then (n * 2 ^ e, d) else (n, d * 2 ^ (- e)) in
  let fl (e : Z) := let '(a, b) := scale e in a / b in
  let e := if fl k <? 2 ^ 23 then k + 1 else if 2 ^ 24 <=? fl k then k - 1 else k in
  let '(a, b) := scale e in
  let m := rn_div a b in
  if 0 <=? e then fq m e else inject_Z (m * 2 ^ (- e)).
Definition rn32_nd (d : Z * Z) : list Z := let q := Qred (rn32 (fst d # Z.to_pos (snd d))) in [Qnum q; Zpos (Qden q)].

Definition cmyk2rgb_f32 (c : Q * Q * Q * Q) : Q * Q * Q :=
  let '(c', m, y, k) := c in
  let ok := rn32 (1 - k) in
  (rn32 (rn32 (1 - c') * ok), rn32 (rn32 (1 - m) * ok), rn32 (rn32 (1 - y) * ok)).

Definition cmyk_tol (k : Q) : Q :=
  if Qle_bool 1 k then tol_ns else tol_ns * (1 + 1 / (1 - k)).
Definition cmy_close (tol : Q) (c : Q * Q * Q) (k : Q) (y : Z * Z * Z * Z) : bool :=
  let '(r, g, b) := c in let '(yr, yg, yb, yk) := y in
  within tol r yr && within tol g yg && within tol b yb && within (1 # 2) k yk.
Definition cmyk_ok (m : nonsep_mode) (cb cs : Q * Q * Q * Q) (y : Z * Z * Z * Z) : bool :=
  let K := snd cs in
  let tol := cmyk_tol K in
  let '(r, g, b, k) := blend_cmyk NQ m cb cs in
  if cmy_close tol (r, g, b) k y then true
  else if cmy_close tol (rgb2cmy NQ (blend_rgb NQ m (cmyk2rgb_f32 cb) (cmyk2rgb_f32 cs)) K) K y then true
  else match m with
       | DarkerColor | LighterColor =>
           let lb := lum NQ (cmyk2rgb NQ cb) in let ls := lum NQ (cmyk2rgb NQ cs) in
           Qle_bool (Qabs (ls - lb)) band_lum
           && (cmy_close tol (rgb2cmy NQ (cmyk2rgb NQ cb) K) K y || cmy_close tol (rgb2cmy NQ (cmyk2rgb NQ cs) K) K y)
       | _ => false
       end.

Definition lat4 (n p : Z) : Q * Q * Q * Q :=
  let d := Z.to_pos (n - 1) in
  (Qred (p / (n * n * n) # d), Qred ((p / (n * n)) mod n # d), Qred ((p / n) mod n # d), Qred (p mod n # d)).
Fixpoint lat4_row_bad (m : nonsep_mode) (n : Z) (cb : Q * Q * Q * Q) (p : Z) (ys : list (Z * Z * Z * Z)) : list Z :=
  match ys with
  | [] => []
  | y :: ys' =>
      if cmyk_ok m cb (lat4 n p) y then lat4_row_bad m n cb (p + 1) ys' else p :: lat4_row_bad m n cb (p + 1) ys'
  end.
Definition cmyk_lat_row (d : Z * Z * Z * list (Z * Z * Z * Z)) : list Z :=
  let '(k, n, pb, ys) := d in tag (lat4_row_bad (nonsep_of_Z k) n (lat4 n pb) 0 ys).

Definition me4 (t : (Z * Z) * (Z * Z) * (Z * Z) * (Z * Z)) : Q * Q * Q * Q :=
  let '((am, ae), (bm, be), (cm, ce), (dm, de)) := t in (fq am ae, fq bm be, fq cm ce, fq dm de).
Definition cmyk_point (d : Z * ((Z * Z) * (Z * Z) * (Z * Z) * (Z * Z)) * ((Z * Z) * (Z * Z) * (Z * Z) * (Z * Z)) * (Z * Z * Z * Z)) : list Z :=
  let '(k, b, s, y) := d in if cmyk_ok (nonsep_of_Z k) (me4 b) (me4 s) y then [0] else [1].

(* the grid generator itself is compared with numpy: (i) -> [m; e] *)
Definition grid_me (i : Z) : list Z := let q := g255 i in [Qnum q; Zpos (Qden q)].
