(* C12: theorems about the non-separable helpers and modes and the CMYK wrapper, at the reals. *)
From Coq Require Import QArith Reals Lra Lia Psatz Bool.
From PsdV Require Import Blend.Num Blend.Model Blend.Spec Blend.ProofsR.
Open Scope R_scope.

Definition unit3 (c : rgb NR) : Prop := let '(r, g, b) := c in unit r /\ unit g /\ unit b.
Definition unit4 (c : cmyk NR) : Prop := let '(c', m, y, k) := c in unit c' /\ unit m /\ unit y /\ unit k.

(* ---------------------------------------------------------------- lum / clip_color / set_lum *)
Lemma lum_is_spec c : lum NR c = s_lum c.
Proof. destruct c as [[r g] b]. munfold. unfold s_lum. lra. Qed.

Lemma lum_shift r g b d : lum NR (r + d, g + d, b + d) = lum NR (r, g, b) + d.
Proof. munfold. lra. Qed.

Lemma lum_between c : s_min3 c <= lum NR c <= s_max3 c.
Proof.
  destruct c as [[r g] b]. munfold. unfold s_min3, s_max3, Rmin, Rmax. repeat scase1; lra.
Qed.

Lemma lum_unit c : unit3 c -> unit (lum NR c).
Proof. destruct c as [[r g] b]. unfold unit3, unit. intros (? & ? & ?). munfold. lra. Qed.

(* the two final writes C[C<0] = 0; C[C>1] = 1 put every channel into [0,1], whatever came before *)
Lemma clamp_unit v : unit (let v' := if ltb NR v (c0 NR) then c0 NR else v in if ltb NR (c1 NR) v' then c1 NR else v').
Proof. unfold unit. munfold. cbv zeta. rcases; lra. Qed.

Theorem range_clip_color c : unit3 (clip_color NR c).
Proof.
  unfold clip_color. cbv zeta.
  match goal with |- unit3 (map3 NR ?f (map3 NR ?g ?x)) => destruct x as [[r g'] b] end.
  unfold map3, unit3. repeat split; apply (clamp_unit _).
Qed.

Lemma min3_is_spec c : min3 NR c = s_min3 c.
Proof. destruct c as [[r g] b]. munfold. unfold s_min3, Rmin. rcases; repeat scase1; lra. Qed.
Lemma max3_is_spec c : max3 NR c = s_max3 c.
Proof. destruct c as [[r g] b]. munfold. unfold s_max3, Rmax. rcases; repeat scase1; lra. Qed.
Lemma min3_ge c : unit3 c -> 0 <= min3 NR c.
Proof. destruct c as [[r g] b]. unfold unit3, unit. intros (? & ? & ?). munfold. rcases; lra. Qed.
Lemma max3_le c : unit3 c -> max3 NR c <= 1.
Proof. destruct c as [[r g] b]. unfold unit3, unit. intros (? & ? & ?). munfold. rcases; lra. Qed.

Lemma clip_color_id c : unit3 c -> clip_color NR c = c.
Proof.
  intro H. unfold clip_color. cbv zeta.
  rewrite (ltb_false (min3 NR c) (c0 NR)) by (kk; apply min3_ge; exact H).
  rewrite (ltb_false (c1 NR) (max3 NR c)) by (kk; apply max3_le; exact H).
  destruct c as [[r g] b]. destruct H as (Hr & Hg & Hb). unfold unit in *. unfold map3.
  rewrite (ltb_false r (c0 NR)) by (kk; lra). rewrite (ltb_false g (c0 NR)) by (kk; lra).
  rewrite (ltb_false b (c0 NR)) by (kk; lra). cbv iota.
  rewrite (ltb_false (c1 NR) r) by (kk; lra). rewrite (ltb_false (c1 NR) g) by (kk; lra).
  rewrite (ltb_false (c1 NR) b) by (kk; lra). reflexivity.
Qed.

Theorem range_set_lum c l : unit3 (set_lum NR c l).
Proof. unfold set_lum. cbv zeta. apply range_clip_color. Qed.

(* Lum(SetLum(C, l)) = l whenever the shifted colour needs no clipping *)
Theorem lum_set_lum c l :
  unit3 (map3 NR (fun v => v + (l - lum NR c)) c) -> lum NR (set_lum NR c l) = l.
Proof.
  intro H. unfold set_lum. cbv zeta. rewrite clip_color_id by exact H.
  destruct c as [[r g] b]. unfold map3. cbn [add sub NR]. rewrite lum_shift. cbn [T NR]. ring.
Qed.

Theorem set_lum_is_spec_noclip c l :
  unit3 (map3 NR (fun v => v + (l - lum NR c)) c) -> set_lum NR c l = s_set_lum c l.
Proof.
  intro H. unfold set_lum. cbv zeta. rewrite clip_color_id by exact H.
  destruct c as [[r g] b]. unfold s_set_lum, s_map3, map3 in *. cbn [add sub NR] in *. rewrite lum_is_spec in *.
  unfold s_clip_color, s_map3, s_min3, s_max3, unit3, unit, Rmin, Rmax in *. cbv zeta.
  set (d := l - s_lum (r, g, b)) in *. clearbody d. destruct H as (? & ? & ?).
  repeat scase1; try lra; reflexivity.
Qed.

(* ---------------------------------------------------------------- sat / set_sat *)
(* the value written to a channel holding v, given (min, mid, max, s): the writes of _set_sat in order *)
Definition chan (n m x s v : R) : R :=
  let idiff := ltb NR n x in
  let imid := Reqb v m in
  let imax := Reqb v x && negb imid in
  let imin := Reqb v n in
  let B := 0 in
  let B := if imid && idiff then (m - n) * s / (x - n + 1 / 1000000000) else B in
  let B := if imax && idiff then s else B in
  let B := if negb idiff && imid then 0 else B in
  let B := if negb idiff && imax then 0 else B in
  if imin then 0 else B.

Lemma set_sat_chan c s : set_sat NR c s = map3 NR (chan (min3 NR c) (mid3 NR c) (max3 NR c) s) c.
Proof.
  destruct c as [[r g] b]. unfold set_sat, chan. cbv zeta. unfold map3.
  cbn [T add sub mul div leb eqb sqrt_ NR]. kk. reflexivity.
Qed.

Lemma sorted3 c : min3 NR c <= mid3 NR c <= max3 NR c.
Proof. destruct c as [[r g] b]. munfold. rcases; lra. Qed.
Lemma member3 c : let '(r, g, b) := c in
  let n := min3 NR c in let m := mid3 NR c in let x := max3 NR c in
  (r = n \/ r = m \/ r = x) /\ (g = n \/ g = m \/ g = x) /\ (b = n \/ b = m \/ b = x).
Proof. destruct c as [[r g] b]. munfold. cbv zeta. rcases; repeat split; lra. Qed.
Lemma has_max c : let '(r, g, b) := c in let x := max3 NR c in r = x \/ g = x \/ b = x.
Proof. destruct c as [[r g] b]. munfold. cbv zeta. rcases; lra. Qed.
Lemma has_min c : let '(r, g, b) := c in let n := min3 NR c in r = n \/ g = n \/ b = n.
Proof. destruct c as [[r g] b]. munfold. cbv zeta. rcases; lra. Qed.

Lemma chan_min n m x s : chan n m x s n = 0.
Proof. unfold chan. cbv zeta. rewrite (Reqb_true n n) by reflexivity. reflexivity. Qed.
Lemma chan_max n m x s : n <= m < x -> chan n m x s x = s.
Proof.
  intros H. unfold chan. cbv zeta. rewrite (ltb_true n x) by lra.
  rewrite (Reqb_false x m) by lra. rewrite (Reqb_true x x) by reflexivity. rewrite (Reqb_false x n) by lra.
  reflexivity.
Qed.
Lemma chan_bounds n m x s v : n <= m <= x -> 0 <= s -> 0 <= chan n m x s v <= s.
Proof.
  intros H Hs. unfold chan. cbv zeta. unfold ltb. cbn [leb NR].
  assert (Hd : 0 < x - n + 1 / 1000000000) by lra.
  assert (0 <= (m - n) * s / (x - n + 1 / 1000000000) <= s).
  { split; [apply div_nonneg; [nra | lra]|].
    apply (Rmult_le_reg_r (x - n + 1 / 1000000000)); [lra|]. rewrite div_mul by lra. nra. }
  rcases; lra.
Qed.

(* Sat(SetSat(C, s)) = s whenever C has a single largest component *)
Theorem sat_set_sat c s : 0 <= s -> mid3 NR c < max3 NR c -> sat NR (set_sat NR c s) = s.
Proof.
  intros Hs Hx. rewrite set_sat_chan.
  pose proof (sorted3 c) as So. pose proof (has_max c) as Hmax. pose proof (has_min c) as Hmin.
  destruct c as [[r g] b]. cbv zeta in *.
  set (n := min3 NR (r, g, b)) in *. set (m := mid3 NR (r, g, b)) in *. set (x := max3 NR (r, g, b)) in *.
  clearbody n m x.
  pose proof (chan_bounds n m x s r So Hs). pose proof (chan_bounds n m x s g So Hs).
  pose proof (chan_bounds n m x s b So Hs).
  assert (Ex : chan n m x s x = s) by (apply chan_max; lra).
  pose proof (chan_min n m x s) as En.
  unfold map3, sat, max3, min3, fmax, fmin. cbn [T add sub mul div leb eqb sqrt_ NR].
  set (cr := chan n m x s r) in *. set (cg := chan n m x s g) in *. set (cb := chan n m x s b) in *.
  assert (cr = s \/ cg = s \/ cb = s) by (destruct Hmax as [ -> | [ -> | -> ] ]; auto).
  assert (cr = 0 \/ cg = 0 \/ cb = 0) by (destruct Hmin as [ -> | [ -> | -> ] ]; auto).
  clearbody cr cg cb. rcases; lra.
Qed.

(* with two equal largest components the 1e-9 shows: the saturation comes out as s*d/(d + 1e-9) *)
Lemma sat_set_sat_tie_refuted :
  exists c s, unit3 c /\ unit s /\ sat NR (set_sat NR c s) <> s.
Proof.
  exists (1, 1, 0), 1. unfold unit3, unit. split; [lra|]. split; [lra|].
  munfold. cbv zeta. rcases; try lra.
  all: try (nameq ((1 - 0) * 1) (1 - 0 + 1 / 1000000000); nra).
Qed.

(* SetSat is within s * 1e-9 / (Cmax - Cmin) of the PDF map, channel by channel *)
Lemma chan_close n m x s v : n <= m <= x -> (v = n \/ v = m \/ v = x) -> 0 <= s -> n < x ->
  (x - n) * Rabs (chan n m x s v - (v - n) * s / (x - n)) <= s * (1 / 1000000000).
Proof.
  intros So Hv Hs Hnx. unfold chan. cbv zeta. rewrite (ltb_true n x Hnx). cbn [negb andb].
  nameq ((m - n) * s) (x - n + 1 / 1000000000). nameq ((v - n) * s) (x - n).
  unfold Rabs. destruct Hv as [ -> | [ -> | -> ] ]; rcases; repeat scase1; try lra; try nra.
  all: subst m; assert (q0 = s) by (apply (Rmult_eq_reg_r (x - n)); lra); subst q0;
    assert (q <= s) by nra; assert (0 <= q) by nra; nra.
Qed.

Definition close3 (w t : R) (a b : rgb NR) : Prop :=
  let '(r, g, b') := a in let '(r', g', b'') := b in
  w * Rabs (r - r') <= t /\ w * Rabs (g - g') <= t /\ w * Rabs (b' - b'') <= t.

Theorem set_sat_close c s : 0 <= s -> s_min3 c < s_max3 c ->
  close3 (s_max3 c - s_min3 c) (s * (1 / 1000000000)) (set_sat NR c s) (s_set_sat c s).
Proof.
  intros Hs Hd. rewrite set_sat_chan. unfold s_set_sat. cbv zeta.
  destruct (Rlt_dec (s_min3 c) (s_max3 c)) as [Hlt|]; [|lra].
  pose proof (sorted3 c) as So. pose proof (member3 c) as Hm.
  rewrite <- min3_is_spec, <- max3_is_spec in *.
  destruct c as [[r g] b]. cbv zeta in *. destruct Hm as (Hr & Hg & Hb).
  unfold map3, s_map3, close3. repeat split; apply chan_close; assumption.
Qed.
Theorem set_sat_grey r s : set_sat NR (r, r, r) s = (0, 0, 0) /\ s_set_sat (r, r, r) s = (0, 0, 0).
Proof.
  split.
  - munfold. cbv zeta. rcases; try lra; reflexivity.
  - unfold s_set_sat, s_min3, s_max3, Rmin, Rmax. cbv zeta. repeat scase1; try lra; reflexivity.
Qed.

(* ---------------------------------------------------------------- the six modes, RGB path *)
Theorem range_rgb (m : nonsep_mode) cb cs : unit3 cb -> unit3 cs -> unit3 (blend_rgb NR m cb cs).
Proof.
  intros Hb Hs. destruct m; cbn [blend_rgb];
    unfold hue_rgb, saturation_rgb, color_rgb, luminosity_rgb, darker_color_rgb, lighter_color_rgb;
    try apply range_set_lum.
  - destruct (ltb NR (lum NR cs) (lum NR cb)); assumption.
  - destruct (ltb NR (lum NR cb) (lum NR cs)); assumption.
Qed.
(* hue / saturation / color / luminosity end in _clip_color, whose last two writes clamp: in range for ANY input *)
Theorem range_rgb_clamped (m : nonsep_mode) cb cs :
  m <> DarkerColor -> m <> LighterColor -> unit3 (blend_rgb NR m cb cs).
Proof. intros H1 H2. destruct m; try congruence; cbn [blend_rgb]; apply range_set_lum. Qed.

Theorem formula_darker_color cb cs : darker_color_rgb NR cb cs = s_darker_color cb cs.
Proof.
  unfold darker_color_rgb, s_darker_color. rewrite <- (lum_is_spec cs), <- (lum_is_spec cb). unfold ltb. cbn [leb NR].
  destruct (Rlt_dec (lum NR cs) (lum NR cb)).
  - rewrite (Rleb_false (lum NR cb) (lum NR cs)) by assumption. reflexivity.
  - rewrite (Rleb_true (lum NR cb) (lum NR cs)) by lra. reflexivity.
Qed.
Theorem formula_lighter_color cb cs : lighter_color_rgb NR cb cs = s_lighter_color cb cs.
Proof.
  unfold lighter_color_rgb, s_lighter_color. rewrite <- (lum_is_spec cs), <- (lum_is_spec cb). unfold ltb. cbn [leb NR].
  destruct (Rlt_dec (lum NR cb) (lum NR cs)).
  - rewrite (Rleb_false (lum NR cs) (lum NR cb)) by assumption. reflexivity.
  - rewrite (Rleb_true (lum NR cs) (lum NR cb)) by lra. reflexivity.
Qed.
(* color / luminosity equal the PDF formula exactly when the shifted colour needs no clipping *)
Theorem formula_color_noclip cb cs :
  unit3 (map3 NR (fun v => v + (lum NR cb - lum NR cs)) cs) -> color_rgb NR cb cs = s_color cb cs.
Proof. intro H. unfold color_rgb, s_color. rewrite <- (lum_is_spec cb). apply set_lum_is_spec_noclip. exact H. Qed.
Theorem formula_luminosity_noclip cb cs :
  unit3 (map3 NR (fun v => v + (lum NR cs - lum NR cb)) cb) -> luminosity_rgb NR cb cs = s_luminosity cb cs.
Proof. intro H. unfold luminosity_rgb, s_luminosity. rewrite <- (lum_is_spec cs). apply set_lum_is_spec_noclip. exact H. Qed.
Theorem lum_color_noclip cb cs :
  unit3 (map3 NR (fun v => v + (lum NR cb - lum NR cs)) cs) -> lum NR (color_rgb NR cb cs) = lum NR cb.
Proof. intro H. unfold color_rgb. apply lum_set_lum. exact H. Qed.

(* ---------------------------------------------------------------- CMYK wrapper *)
Lemma cmyk2rgb_unit c : unit4 c -> unit3 (cmyk2rgb NR c).
Proof. destruct c as [[[c' m] y] k]. unfold unit4, unit3, unit. intros (? & ? & ? & ?). munfold. repeat split; nra. Qed.

Definition cmy_chan (k v : R) : R := if ltb NR k 1 then (1 - v - k) / (1 - k + 1 / 1000000000) else 0.
Lemma rgb2cmy_chan c k : rgb2cmy NR c k = map3 NR (cmy_chan k) c.
Proof. destruct c as [[r g] b]. unfold rgb2cmy, cmy_chan, map3. cbn [T add sub mul div leb eqb sqrt_ NR]. kk. reflexivity. Qed.

Lemma cmy_chan_range k v : unit k -> 0 <= v <= 1 - k -> unit (cmy_chan k v).
Proof.
  unfold unit. intros Hk Hv. unfold cmy_chan, ltb. cbn [leb NR]. rcases; [lra|].
  split; [apply div_nonneg; lra | apply div_le_1; lra].
Qed.
(* the channel is negative exactly when the blended value is brighter than the black allows *)
Lemma cmy_chan_negative_iff k v : 0 <= k < 1 -> (cmy_chan k v < 0 <-> 1 - k < v).
Proof.
  intros Hk. unfold cmy_chan. rewrite (ltb_true k 1) by lra.
  nameq (1 - v - k) (1 - k + 1 / 1000000000). split; intro; nra.
Qed.
Lemma cmy_chan_le_1 k v : unit k -> 0 <= v -> cmy_chan k v <= 1.
Proof.
  unfold unit. intros Hk Hv. unfold cmy_chan, ltb. cbn [leb NR]. rcases; [lra|]. apply div_le_1; lra.
Qed.

Theorem wrap_cmyk_K_is_source f cb cs : snd (wrap_cmyk NR f cb cs) = snd cs.
Proof. unfold wrap_cmyk. cbv zeta. destruct (rgb2cmy NR _ _) as [[r g] b]. reflexivity. Qed.
Theorem blend_cmyk_K_is_source m cb cs : snd (blend_cmyk NR m cb cs) = snd cs.
Proof. apply wrap_cmyk_K_is_source. Qed.

Definition le3 (c : rgb NR) (t : R) : Prop := let '(r, g, b) := c in r <= t /\ g <= t /\ b <= t.

Theorem wrap_cmyk_range f cb cs :
  unit (snd cs) -> unit3 (f (cmyk2rgb NR cb) (cmyk2rgb NR cs)) ->
  le3 (f (cmyk2rgb NR cb) (cmyk2rgb NR cs)) (1 - snd cs) -> unit4 (wrap_cmyk NR f cb cs).
Proof.
  intros Hk Hu Hl. unfold wrap_cmyk. cbv zeta. rewrite rgb2cmy_chan.
  destruct (f (cmyk2rgb NR cb) (cmyk2rgb NR cs)) as [[r g] b]. destruct cs as [[[c' m'] y'] k].
  cbn [snd] in *. unfold map3, unit4.
  destruct Hu as (Hr & Hg & Hb). destruct Hl as (Lr & Lg & Lb). unfold unit in Hr, Hg, Hb. cbn [T NR] in *.
  split; [|split; [|split]]; try exact Hk; apply cmy_chan_range; try exact Hk; lra.
Qed.

(* with K of the source = 0 the whole CMYK path is in range *)
Theorem range_cmyk_K0 m cb cs : unit4 cb -> unit4 cs -> snd cs = 0 -> unit4 (blend_cmyk NR m cb cs).
Proof.
  intros Hb Hs K0. unfold blend_cmyk.
  pose proof (range_rgb m _ _ (cmyk2rgb_unit _ Hb) (cmyk2rgb_unit _ Hs)) as Hu.
  apply wrap_cmyk_range.
  - destruct cs as [[[c' m'] y'] k]. cbn [snd] in *. subst k. unfold unit. lra.
  - exact Hu.
  - destruct (blend_rgb NR m _ _) as [[r g] b]. destruct cs as [[[c' m'] y'] k]. cbn [snd] in *. subst k.
    unfold le3. destruct Hu as ([? ?] & [? ?] & [? ?]). cbn [T NR] in *. lra.
Qed.

(* ... and in general it is not: a white backdrop under a source with K = 1/2, lighter colour *)
Theorem range_cmyk_refuted :
  exists m cb cs, unit4 cb /\ unit4 cs /\ ~ unit4 (blend_cmyk NR m cb cs).
Proof.
  exists LighterColor, (0, 0, 0, 0), (0, 0, 0, 1/2). unfold unit4, unit. split; [lra|]. split; [lra|].
  munfold. cbv zeta. rcases; try lra.
  all: nameq (1 - (1 - 0) * (1 - 0) - 1 / 2) (1 - 1 / 2 + 1 / 1000000000); intros ((? & ?) & _); nra.
Qed.

(* ---------------------------------------------------------------- F-C12-1, exactly *)
Lemma cmy_chan_K1 v : cmy_chan 1 v = 0.
Proof. unfold cmy_chan. rewrite (ltb_false 1 1) by lra. reflexivity. Qed.

(* for all six modes: the CMYK result is in range IFF the source black is 1 or no blended RGB channel exceeds
   1 - K of the source *)
Theorem wrap_cmyk_range_iff f cb cs :
  unit (snd cs) -> unit3 (f (cmyk2rgb NR cb) (cmyk2rgb NR cs)) ->
  (unit4 (wrap_cmyk NR f cb cs) <->
   (snd cs = 1 \/ le3 (f (cmyk2rgb NR cb) (cmyk2rgb NR cs)) (1 - snd cs))).
Proof.
  intros Hk Hu. split.
  - intro H. unfold wrap_cmyk in H. cbv zeta in H. rewrite rgb2cmy_chan in H.
    destruct (f (cmyk2rgb NR cb) (cmyk2rgb NR cs)) as [[r g] b]. destruct cs as [[[c' m'] y'] k].
    cbn [snd] in *. unfold map3, unit4 in H. destruct H as (Hr & Hg & Hb & _).
    unfold unit in *. cbn [T NR] in *.
    destruct (Req_dec k 1) as [E|E]; [left; exact E | right].
    assert (Hk1 : 0 <= k < 1) by lra. unfold le3.
    pose proof (cmy_chan_negative_iff k r Hk1) as [_ Nr]. pose proof (cmy_chan_negative_iff k g Hk1) as [_ Ng].
    pose proof (cmy_chan_negative_iff k b Hk1) as [_ Nb].
    repeat split; apply Rnot_lt_le; intro X; [apply Nr in X | apply Ng in X | apply Nb in X]; lra.
  - intros [E|L]; [|apply wrap_cmyk_range; assumption].
    unfold wrap_cmyk. cbv zeta. rewrite rgb2cmy_chan.
    destruct (f (cmyk2rgb NR cb) (cmyk2rgb NR cs)) as [[r g] b]. destruct cs as [[[c' m'] y'] k].
    cbn [snd] in *. subst k. unfold map3, unit4. rewrite !cmy_chan_K1. unfold unit. repeat split; lra.
Qed.

Theorem range_cmyk_iff m cb cs : unit4 cb -> unit4 cs ->
  (unit4 (blend_cmyk NR m cb cs) <->
   (snd cs = 1 \/ le3 (blend_rgb NR m (cmyk2rgb NR cb) (cmyk2rgb NR cs)) (1 - snd cs))).
Proof.
  intros Hb Hs. unfold blend_cmyk. apply wrap_cmyk_range_iff.
  - destruct cs as [[[c' m'] y'] k]. cbn [snd]. apply Hs.
  - apply range_rgb; apply cmyk2rgb_unit; assumption.
Qed.

(* the converted colours themselves fit under their own black *)
Lemma cmyk2rgb_le c : unit4 c -> le3 (cmyk2rgb NR c) (1 - snd c).
Proof.
  destruct c as [[[c' m] y] k]. unfold unit4, unit, le3. intros (? & ? & ? & ?). munfold. cbn [snd].
  repeat split; nra.
Qed.
Lemma le3_mono c a b : le3 c a -> a <= b -> le3 c b.
Proof. destruct c as [[r g] b']. unfold le3. intros (? & ? & ?) ?. cbn [T NR] in *. repeat split; lra. Qed.

(* darker / lighter colour pick one of the two converted colours: in range as soon as the source black does not
   exceed the backdrop black *)
Theorem range_cmyk_darker_lighter m cb cs : m = DarkerColor \/ m = LighterColor ->
  unit4 cb -> unit4 cs -> snd cs <= snd cb -> unit4 (blend_cmyk NR m cb cs).
Proof.
  intros Hm Hb Hs Hk. apply range_cmyk_iff; try assumption. right.
  pose proof (cmyk2rgb_le cb Hb) as Lb. pose proof (cmyk2rgb_le cs Hs) as Ls.
  assert (Lb' : le3 (cmyk2rgb NR cb) (1 - snd cs)) by (eapply le3_mono; [exact Lb | lra]).
  destruct Hm as [-> | ->]; cbn [blend_rgb]; unfold darker_color_rgb, lighter_color_rgb;
    match goal with |- context [if ?c then _ else _] => destruct c end; assumption.
Qed.
