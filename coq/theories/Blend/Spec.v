(* C12: the published formulas, over the reals.  Written from the texts, not from the code.
   [PDF]  = PDF Reference 1.7, section 11.3.5 (7.2.4 in earlier editions)
   [W3C]  = W3C Compositing and Blending Level 1, section 10
   [Adobe]= Photoshop's documented definitions for the modes PDF/W3C do not have. *)
From Coq Require Import Reals.
Open Scope R_scope.

(* ---- separable, [PDF]/[W3C] *)
Definition s_normal (cb cs : R) : R := cs.
Definition s_multiply (cb cs : R) : R := cb * cs.
Definition s_screen (cb cs : R) : R := 1 - (1 - cb) * (1 - cs).
Definition s_hard_light (cb cs : R) : R :=
  if Rle_dec cs (1/2) then s_multiply cb (2 * cs) else s_screen cb (2 * cs - 1).
Definition s_overlay (cb cs : R) : R := s_hard_light cs cb.
Definition s_darken (cb cs : R) : R := Rmin cb cs.
Definition s_lighten (cb cs : R) : R := Rmax cb cs.
(* [W3C] order of the special cases (PDF gives 1 for cb = 0, cs = 1; W3C gives 0) *)
Definition s_color_dodge (cb cs : R) : R :=
  if Req_EM_T cb 0 then 0 else if Req_EM_T cs 1 then 1 else Rmin 1 (cb / (1 - cs)).
Definition s_color_burn (cb cs : R) : R :=
  if Req_EM_T cb 1 then 1 else if Req_EM_T cs 0 then 0 else 1 - Rmin 1 ((1 - cb) / cs).
Definition s_difference (cb cs : R) : R := Rabs (cb - cs).
Definition s_exclusion (cb cs : R) : R := cb + cs - 2 * cb * cs.
(* soft light, [W3C]/[PDF] variant: D is chosen by the BACKDROP *)
Definition s_soft_light_w3c (cb cs : R) : R :=
  let D := if Rle_dec cb (1/4) then ((16 * cb - 12) * cb + 4) * cb else sqrt cb in
  if Rle_dec cs (1/2) then cb - (1 - 2 * cs) * cb * (1 - cb) else cb + (2 * cs - 1) * (D - cb).
(* soft light, [Adobe] (Photoshop) variant -- the one demanded of the code (DESIGN.md C12) *)
Definition s_soft_light (cb cs : R) : R :=
  if Rle_dec cs (1/2) then 2 * cb * cs + cb * cb * (1 - 2 * cs)
  else 2 * cb * (1 - cs) + sqrt cb * (2 * cs - 1).

(* ---- separable, [Adobe] *)
Definition s_linear_dodge (cb cs : R) : R := Rmin 1 (cb + cs).
Definition s_linear_burn (cb cs : R) : R := Rmax 0 (cb + cs - 1).
Definition s_vivid_light (cb cs : R) : R :=
  if Rle_dec cs (1/2) then s_color_burn cb (2 * cs) else s_color_dodge cb (2 * cs - 1).
Definition s_linear_light (cb cs : R) : R := Rmax 0 (Rmin 1 (cb + 2 * cs - 1)).
Definition s_pin_light (cb cs : R) : R :=
  if Rle_dec cs (1/2) then Rmin cb (2 * cs) else Rmax cb (2 * cs - 1).
Definition s_hard_mix (cb cs : R) : R := if Rle_dec 1 (cb + cs) then 1 else 0.
Definition s_subtract (cb cs : R) : R := Rmax 0 (cb - cs).
Definition s_divide (cb cs : R) : R := Rmin 1 (cb / cs).       (* cs > 0 *)

(* ---- non-separable, [PDF] 11.3.5.3 *)
Definition rgbR : Type := (R * R * R)%type.
Definition s_lum (c : rgbR) : R := let '(r, g, b) := c in 3/10 * r + 59/100 * g + 11/100 * b.
Definition s_min3 (c : rgbR) : R := let '(r, g, b) := c in Rmin (Rmin r g) b.
Definition s_max3 (c : rgbR) : R := let '(r, g, b) := c in Rmax (Rmax r g) b.
Definition s_map3 (f : R -> R) (c : rgbR) : rgbR := let '(r, g, b) := c in (f r, f g, f b).
Definition s_clip_color (c : rgbR) : rgbR :=
  let l := s_lum c in let n := s_min3 c in let x := s_max3 c in
  let c := if Rlt_dec n 0 then s_map3 (fun v => l + (v - l) * l / (l - n)) c else c in
  if Rlt_dec 1 x then s_map3 (fun v => l + (v - l) * (1 - l) / (x - l)) c else c.
Definition s_set_lum (c : rgbR) (l : R) : rgbR := let d := l - s_lum c in s_clip_color (s_map3 (fun v => v + d) c).
Definition s_sat (c : rgbR) : R := s_max3 c - s_min3 c.
(* SetSat: PDF assigns Cmid = (Cmid - Cmin) * s / (Cmax - Cmin), Cmax = s, Cmin = 0 when Cmax > Cmin, else all 0;
   that is one affine map applied to the three components *)
Definition s_set_sat (c : rgbR) (s : R) : rgbR :=
  let n := s_min3 c in let x := s_max3 c in
  if Rlt_dec n x then s_map3 (fun v => (v - n) * s / (x - n)) c else (0, 0, 0).
Definition s_hue (cb cs : rgbR) : rgbR := s_set_lum (s_set_sat cs (s_sat cb)) (s_lum cb).
Definition s_saturation (cb cs : rgbR) : rgbR := s_set_lum (s_set_sat cb (s_sat cs)) (s_lum cb).
Definition s_color (cb cs : rgbR) : rgbR := s_set_lum cs (s_lum cb).
Definition s_luminosity (cb cs : rgbR) : rgbR := s_set_lum cb (s_lum cs).
(* [Adobe] darker / lighter colour: the whole colour with the lower / higher luminosity, nothing new is mixed *)
Definition s_darker_color (cb cs : rgbR) : rgbR := if Rlt_dec (s_lum cs) (s_lum cb) then cs else cb.
Definition s_lighter_color (cb cs : rgbR) : rgbR := if Rlt_dec (s_lum cb) (s_lum cs) then cs else cb.
