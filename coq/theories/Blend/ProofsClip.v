(* C12: _clip_color / _set_lum with their 1e-9 regularisation and final clamps stay within 20e-9 of the PDF
   ClipColor / SetLum, for every colour whose luminosity is in [0,1]; hence color and luminosity match the PDF
   formulas within 2e-8 on all of [0,1]^3 x [0,1]^3. *)
From Coq Require Import QArith Reals Lra Lia Psatz Bool.
From PsdV Require Import Blend.Num Blend.Model Blend.Spec Blend.ProofsR Blend.ProofsNS.
Open Scope R_scope.

Definition e9 : R := 1 / 1000000000.

(* one channel of the model's _clip_color, given (L, Cmin, Cmax) of the incoming colour *)
Definition clipchan (L n x v : R) : R :=
  let v1 := if ltb NR n 0 then L + (v - L) * L / (L - n + e9) else v in
  let v2 := if ltb NR 1 x then L + (v1 - L) * (1 - L) / (x - L + e9) else v1 in
  let v3 := if ltb NR v2 0 then 0 else v2 in
  if ltb NR 1 v3 then 1 else v3.
Definition s_clipchan (L n x v : R) : R :=
  let v1 := if Rlt_dec n 0 then L + (v - L) * L / (L - n) else v in
  if Rlt_dec 1 x then L + (v1 - L) * (1 - L) / (x - L) else v1.

Lemma clip_color_clipchan c :
  clip_color NR c = map3 NR (clipchan (lum NR c) (min3 NR c) (max3 NR c)) c.
Proof.
  destruct c as [[r g] b]. unfold clip_color, clipchan, e9. cbv zeta.
  cbn [T add sub mul div leb eqb sqrt_ NR]. kk.
  repeat match goal with |- context [ltb NR (min3 NR ?c) ?z] => destruct (ltb NR (min3 NR c) z) end;
  repeat match goal with |- context [ltb NR ?z (max3 NR ?c)] => destruct (ltb NR z (max3 NR c)) end; reflexivity.
Qed.
Lemma s_clip_color_clipchan c :
  s_clip_color c = s_map3 (s_clipchan (s_lum c) (s_min3 c) (s_max3 c)) c.
Proof.
  destruct c as [[r g] b]. unfold s_clip_color, s_clipchan. cbv zeta.
  destruct (Rlt_dec (s_min3 (r, g, b)) 0); destruct (Rlt_dec 1 (s_max3 (r, g, b))); reflexivity.
Qed.

(* the algebraic core: scale factors A' <= A, B' <= B in [0,1] *)
Lemma core (L v A A' B B' d : R) :
  0 <= A' <= A -> A <= 1 -> 0 <= B' <= B -> B <= 1 ->
  Rabs (v - L) * (A - A') <= d -> Rabs (v - L) * (B - B') <= d ->
  Rabs ((L + (v - L) * A' * B') - (L + (v - L) * A * B)) <= 2 * d.
Proof.
  intros HA HA1 HB HB1 H1 H2.
  replace ((L + (v - L) * A' * B') - (L + (v - L) * A * B)) with (- ((v - L) * ((A - A') * B + A' * (B - B')))) by ring.
  rewrite Rabs_Ropp, Rabs_mult.
  assert (0 <= Rabs (v - L)) by apply Rabs_pos.
  assert (P1 : 0 <= (A - A') * B) by (apply Rmult_le_pos; lra).
  assert (P2 : 0 <= A' * (B - B')) by (apply Rmult_le_pos; lra).
  rewrite (Rabs_pos_eq ((A - A') * B + A' * (B - B'))) by lra.
  set (w := Rabs (v - L)) in *. clearbody w.
  assert (w * ((A - A') * B) <= d * B) by nra.
  assert (w * (A' * (B - B')) <= A' * d) by nra.
  assert (0 <= d) by nra. nra.
Qed.

Lemma clamp_close (y z : R) : 0 <= z <= 1 ->
  Rabs ((let v3 := if ltb NR y 0 then 0 else y in if ltb NR 1 v3 then 1 else v3) - z) <= Rabs (y - z).
Proof.
  intros Hz. cbv zeta. unfold ltb. cbn [leb NR]. unfold Rabs. rcases; repeat scase1; lra.
Qed.

(* scale factors of the two rescalings *)
Lemma factorA L n : 0 <= L -> n < 0 ->
  0 <= L / (L - n + e9) <= L / (L - n) /\ L / (L - n) <= 1 /\
  (L - n) * (L / (L - n) - L / (L - n + e9)) <= e9.
Proof.
  intros HL Hn. unfold e9.
  nameq L (L - n + 1 / 1000000000). nameq L (L - n).
  assert (0 <= q) by nra. assert (q <= 1) by nra. assert (0 <= q0) by nra. assert (q0 <= 1) by nra.
  assert ((q0 - q) * (L - n) = q * (1 / 1000000000)) by nra.
  assert (q <= q0) by nra. repeat split; nra.
Qed.
Lemma factorB L x : L <= 1 -> 1 < x ->
  0 <= (1 - L) / (x - L + e9) <= (1 - L) / (x - L) /\ (1 - L) / (x - L) <= 1 /\
  (x - L) * ((1 - L) / (x - L) - (1 - L) / (x - L + e9)) <= e9.
Proof.
  intros HL Hx. unfold e9.
  nameq (1 - L) (x - L + 1 / 1000000000). nameq (1 - L) (x - L).
  assert (0 <= q) by nra. assert (q <= 1) by nra. assert (0 <= q0) by nra. assert (q0 <= 1) by nra.
  assert ((q0 - q) * (x - L) = q * (1 / 1000000000)) by nra.
  assert (q <= q0) by nra. repeat split; nra.
Qed.

Lemma scale_bound w t D dn : 0 <= w <= t -> 0 <= D -> 11/100 * t <= dn -> dn * D <= e9 -> w * D <= e9 * (100 / 11).
Proof.
  intros Hw HD Ht Hd. assert (w * D <= t * D) by nra. assert (11/100 * t * D <= dn * D) by nra. lra.
Qed.

Lemma clipchan_close L n x v :
  n <= v <= x -> 0 <= L <= 1 -> n <= L <= x ->
  11/100 * (x - n) <= L - n -> 11/100 * (x - n) <= x - L ->
  Rabs (clipchan L n x v - s_clipchan L n x v) <= 20 * e9.
Proof.
  intros Hv HL HnLx H3 H4.
  assert (He : 0 < e9) by (unfold e9; lra).
  assert (Hvl : 0 <= Rabs (v - L) <= x - n) by (split; [apply Rabs_pos | unfold Rabs; destruct (Rcase_abs (v - L)); lra]).
  unfold clipchan, s_clipchan. cbv zeta.
  destruct (Rlt_dec n 0) as [Hn|Hn]; destruct (Rlt_dec 1 x) as [Hx|Hx].
  - (* both rescalings *)
    rewrite (ltb_true n 0 Hn), (ltb_true 1 x Hx).
    destruct (factorA L n (proj1 HL) Hn) as (A1 & A2 & A3). destruct (factorB L x (proj2 HL) Hx) as (B1 & B2 & B3).
    set (A' := L / (L - n + e9)) in *. set (A := L / (L - n)) in *.
    set (B' := (1 - L) / (x - L + e9)) in *. set (B := (1 - L) / (x - L)) in *.
    replace (L + (L + (v - L) * L / (L - n + e9) - L) * (1 - L) / (x - L + e9)) with (L + (v - L) * A' * B')
      by (unfold A', B'; field; lra).
    replace (L + (L + (v - L) * L / (L - n) - L) * (1 - L) / (x - L)) with (L + (v - L) * A * B)
      by (unfold A, B; field; lra).
    assert (Hz : 0 <= L + (v - L) * A * B <= 1).
    { assert (EA : A * (L - n) = L) by (unfold A; field; lra).
      assert (EB : B * (x - L) = 1 - L) by (unfold B; field; lra).
      assert (0 <= A * B <= 1) by nra.
      split.
      - assert ((L - v) * (A * B) <= (L - n) * (A * B)) by nra. nra.
      - assert ((v - L) * (A * B) <= (x - L) * (A * B)) by nra. nra. }
    eapply Rle_trans; [apply (clamp_close _ _ Hz)|].
    eapply Rle_trans; [apply (core L v A A' B B' (e9 * (100 / 11)))|]; try lra.
    + apply (scale_bound _ (x - n) _ (L - n)); lra.
    + apply (scale_bound _ (x - n) _ (x - L)); lra.
  - (* only the lower rescaling *)
    rewrite (ltb_true n 0 Hn), (ltb_false 1 x) by lra.
    destruct (factorA L n (proj1 HL) Hn) as (A1 & A2 & A3).
    set (A' := L / (L - n + e9)) in *. set (A := L / (L - n)) in *.
    replace (L + (v - L) * L / (L - n + e9)) with (L + (v - L) * A' * 1) by (unfold A'; field; lra).
    replace (L + (v - L) * L / (L - n)) with (L + (v - L) * A * 1) by (unfold A; field; lra).
    assert (Hz : 0 <= L + (v - L) * A * 1 <= 1).
    { assert (EA : A * (L - n) = L) by (unfold A; field; lra).
      split.
      - assert ((L - v) * A <= (L - n) * A) by nra. nra.
      - assert ((v - L) * A <= (x - L) * A) by nra. nra. }
    eapply Rle_trans; [apply (clamp_close _ _ Hz)|].
    eapply Rle_trans; [apply (core L v A A' 1 1 (e9 * (100 / 11)))|]; try lra.
    apply (scale_bound _ (x - n) _ (L - n)); lra.
  - (* only the upper rescaling *)
    rewrite (ltb_false n 0), (ltb_true 1 x Hx) by lra.
    destruct (factorB L x (proj2 HL) Hx) as (B1 & B2 & B3).
    set (B' := (1 - L) / (x - L + e9)) in *. set (B := (1 - L) / (x - L)) in *.
    replace (L + (v - L) * (1 - L) / (x - L + e9)) with (L + (v - L) * 1 * B') by (unfold B'; field; lra).
    replace (L + (v - L) * (1 - L) / (x - L)) with (L + (v - L) * 1 * B) by (unfold B; field; lra).
    assert (Hz : 0 <= L + (v - L) * 1 * B <= 1).
    { assert (EB : B * (x - L) = 1 - L) by (unfold B; field; lra).
      split.
      - assert ((L - v) * B <= (L - n) * B) by nra. nra.
      - assert ((v - L) * B <= (x - L) * B) by nra. nra. }
    eapply Rle_trans; [apply (clamp_close _ _ Hz)|].
    eapply Rle_trans; [apply (core L v 1 1 B B' (e9 * (100 / 11)))|]; try lra.
    apply (scale_bound _ (x - n) _ (x - L)); lra.
  - (* no rescaling: the clamps are idle *)
    rewrite (ltb_false n 0), (ltb_false 1 x) by lra.
    rewrite (ltb_false v 0), (ltb_false 1 v) by lra.
    replace (v - v) with 0 by ring. rewrite Rabs_R0. lra.
Qed.

Lemma lum_margin c :
  11/100 * (max3 NR c - min3 NR c) <= lum NR c - min3 NR c /\
  11/100 * (max3 NR c - min3 NR c) <= max3 NR c - lum NR c.
Proof. destruct c as [[r g] b]. munfold. rcases; lra. Qed.
Lemma min_max_bounds c : let '(r, g, b) := c in
  (min3 NR c <= r <= max3 NR c) /\ (min3 NR c <= g <= max3 NR c) /\ (min3 NR c <= b <= max3 NR c).
Proof. destruct c as [[r g] b]. munfold. rcases; lra. Qed.

Theorem clip_color_close c : 0 <= lum NR c <= 1 ->
  close3 1 (20 * e9) (clip_color NR c) (s_clip_color c).
Proof.
  intro HL. rewrite clip_color_clipchan, s_clip_color_clipchan.
  rewrite <- (lum_is_spec c), <- (min3_is_spec c), <- (max3_is_spec c).
  pose proof (lum_margin c) as [M1 M2]. pose proof (min_max_bounds c) as Hb.
  pose proof (lum_ge_min' := lum_between c). rewrite <- (min3_is_spec c), <- (max3_is_spec c) in lum_ge_min'.
  destruct c as [[r g] b]. destruct Hb as (Hr & Hg & Hb).
  set (L := lum NR (r, g, b)) in *. set (n := min3 NR (r, g, b)) in *. set (x := max3 NR (r, g, b)) in *.
  clearbody L n x. unfold map3, s_map3, close3. rewrite !Rmult_1_l.
  repeat split; apply clipchan_close; assumption.
Qed.

Theorem set_lum_close c l : unit l -> close3 1 (20 * e9) (set_lum NR c l) (s_set_lum c l).
Proof.
  intro Hl. unfold set_lum, s_set_lum. cbv zeta. destruct c as [[r g] b].
  unfold map3, s_map3. cbn [add sub NR]. rewrite <- (lum_is_spec (r, g, b)).
  apply clip_color_close. rewrite lum_shift. unfold unit in Hl. cbn [T NR] in *. lra.
Qed.

(* color and luminosity are within 2e-8 of the PDF formulas on the whole unit cube *)
Theorem formula_color cb cs : unit3 cb -> close3 1 (20 * e9) (color_rgb NR cb cs) (s_color cb cs).
Proof. intro Hb. unfold color_rgb, s_color. rewrite <- (lum_is_spec cb). apply set_lum_close. apply lum_unit. exact Hb. Qed.
Theorem formula_luminosity cb cs : unit3 cs -> close3 1 (20 * e9) (luminosity_rgb NR cb cs) (s_luminosity cb cs).
Proof. intro Hs. unfold luminosity_rgb, s_luminosity. rewrite <- (lum_is_spec cs). apply set_lum_close. apply lum_unit. exact Hs. Qed.
