(* C12: per-pixel model of psd_tools/composite/blend.py, transcribed from the numpy masks and in-place
   assignments exactly as coded (constants 1e-9 and 0.999999, the order of the `B[...] =` writes, np.median of
   three values, the CMYK wrapper with its K choice).  Written once over the scalar interface [num];
   [Model.f NQ] runs (correspondence check), [Model.f NR] is what the theorems are about.
   Definitions only. *)
From Coq Require Import ZArith QArith Bool List.
From PsdV Require Import Blend.Num.
Import ListNotations.

Section Model.
Variable F : num.
Local Notation T := (T F).
Local Infix "+" := (add F) (at level 50, left associativity).
Local Infix "-" := (sub F) (at level 50, left associativity).
Local Infix "*" := (mul F) (at level 40, left associativity).
Local Infix "/" := (div F) (at level 40, left associativity).
Local Infix "<=?" := (leb F) (at level 70, no associativity).
Local Infix "=?" := (eqb F) (at level 70, no associativity).
Definition ltb (a b : T) : bool := negb (b <=? a).
Local Infix "<?" := ltb (at level 70, no associativity).

Definition c0 : T := ofQ F 0.
Definition c1 : T := ofQ F 1.
Definition c2 : T := ofQ F 2.
Definition c4 : T := ofQ F 4.
Definition c12 : T := ofQ F 12.
Definition c16 : T := ofQ F 16.
Definition half : T := ofQ F (1#2).
Definition quarter : T := ofQ F (1#4).
Definition eps : T := ofQ F (1#1000000000).           (* 1e-9 *)
Definition hm : T := ofQ F (999999#1000000).          (* 0.999999 *)
Definition wr : T := ofQ F (3#10).                    (* 0.3 *)
Definition wg : T := ofQ F (59#100).                  (* 0.59 *)
Definition wb : T := ofQ F (11#100).                  (* 0.11 *)

(* np.minimum(a, b) / np.maximum(a, b) / np.abs *)
Definition fmin (a b : T) : T := if a <=? b then a else b.
Definition fmax (a b : T) : T := if a <=? b then b else a.
Definition fabs (a : T) : T := if c0 <=? a then a else c0 - a.

(* ------------------------------------------------------------ separable modes (blend.py:19-171) *)
Definition normal (cb cs : T) : T := cs.
Definition multiply (cb cs : T) : T := cb * cs.
Definition screen (cb cs : T) : T := cb + cs - cb * cs.
Definition darken (cb cs : T) : T := fmin cb cs.
Definition lighten (cb cs : T) : T := fmax cb cs.

(* B = 0; B[Cs==1] = 1; B[Cb==0] = 0; B[(Cs!=1)&(Cb!=0)] = min(1, Cb/(s*(1-Cs+1e-9)))   with s = 1.0 *)
Definition color_dodge (cb cs : T) : T :=
  let B := c0 in
  let B := if cs =? c1 then c1 else B in
  let B := if cb =? c0 then c0 else B in
  if negb (cs =? c1) && negb (cb =? c0)
  then fmin c1 (cb / (c1 * (c1 - cs + eps)))
  else B.

(* B = 0; B[Cb==1] = 1; B[(Cb!=1)&(Cs!=0)] = 1 - min(1, (1-Cb)/(s*Cs+1e-9)) *)
Definition color_burn (cb cs : T) : T :=
  let B := c0 in
  let B := if cb =? c1 then c1 else B in
  if negb (cb =? c1) && negb (cs =? c0)
  then c1 - fmin c1 ((c1 - cb) / (c1 * cs + eps))
  else B.

Definition linear_dodge (cb cs : T) : T := fmin c1 (cb + cs).
Definition linear_burn (cb cs : T) : T := fmax c0 (cb + cs - c1).

(* index = Cs > 0.5; B = multiply(Cb, 2*Cs); B[index] = screen(Cb, 2*Cs-1)[index] *)
Definition hard_light (cb cs : T) : T :=
  if half <? cs then screen cb (c2 * cs - c1) else multiply cb (c2 * cs).
Definition overlay (cb cs : T) : T := hard_light cs cb.

(* D is selected by Cs <= 0.25 (sic: the mask tests Cs, not Cb) *)
Definition soft_light (cb cs : T) : T :=
  let D := if cs <=? quarter then ((c16 * cb - c12) * cb + c4) * cb else sqrt_ F cb in
  if cs <=? half
  then cb - (c1 - c2 * cs) * cb * (c1 - cb)
  else cb + (c2 * cs - c1) * (D - cb).

(* Cs2 = Cs*2; B = color_burn(Cb, Cs2); D = color_dodge(Cb, Cs2-1); B[Cs>0.5] = D[Cs>0.5] *)
Definition vivid_light (cb cs : T) : T :=
  let cs2 := cs * c2 in
  if half <? cs then color_dodge cb (cs2 - c1) else color_burn cb cs2.
Definition linear_light (cb cs : T) : T :=
  if half <? cs then linear_dodge cb (c2 * cs - c1) else linear_burn cb (c2 * cs).
Definition pin_light (cb cs : T) : T :=
  if half <? cs then lighten cb (c2 * cs - c1) else darken cb (c2 * cs).

Definition difference (cb cs : T) : T := fabs (cb - cs).
Definition exclusion (cb cs : T) : T := cb + cs - c2 * cb * cs.
Definition subtract (cb cs : T) : T := fmax c0 (cb - cs).
(* B = 0; B[(Cb + 0.999999*Cs) >= 1] = 1 *)
Definition hard_mix (cb cs : T) : T := if c1 <=? cb + hm * cs then c1 else c0.
(* B = Cb/(Cs+1e-9); B[B>1] = 1 *)
Definition divide (cb cs : T) : T :=
  let B := cb / (cs + eps) in if c1 <? B then c1 else B.
Definition dissolve (cb cs : T) : T := normal cb cs.

(* ------------------------------------------------------------ non-separable helpers (blend.py:253-311) *)
Definition rgb : Type := (T * T * T)%type.
Definition map3 (f : T -> T) (c : rgb) : rgb := let '(r, g, b) := c in (f r, f g, f b).
Definition min3 (c : rgb) : T := let '(r, g, b) := c in fmin (fmin r g) b.
Definition max3 (c : rgb) : T := let '(r, g, b) := c in fmax (fmax r g) b.
(* np.median over 3 values = the middle one *)
Definition mid3 (c : rgb) : T := let '(r, g, b) := c in fmax (fmin r g) (fmin (fmax r g) b).

Definition lum (c : rgb) : T := let '(r, g, b) := c in wr * r + wg * g + wb * b.

(* L, C_min, C_max are computed once from the incoming C; the second rescaling reads the C already rewritten
   by the first; then C[C<0] = 0; C[C>1] = 1 *)
Definition clip_color (c : rgb) : rgb :=
  let L := lum c in
  let n := min3 c in
  let x := max3 c in
  let c := if n <? c0 then map3 (fun v => L + (v - L) * L / (L - n + eps)) c else c in
  let c := if c1 <? x then map3 (fun v => L + (v - L) * (c1 - L) / (x - L + eps)) c else c in
  let c := map3 (fun v => if v <? c0 then c0 else v) c in
  map3 (fun v => if c1 <? v then c1 else v) c.

Definition set_lum (c : rgb) (l : T) : rgb :=
  let d := l - lum c in clip_color (map3 (fun v => v + d) c).

Definition sat (c : rgb) : T := max3 c - min3 c.

(* per channel v of C, in the order of the writes in _set_sat *)
Definition set_sat (c : rgb) (s : T) : rgb :=
  let cmax := max3 c in
  let cmid := mid3 c in
  let cmin := min3 c in
  let idiff := cmin <? cmax in
  map3 (fun v =>
    let imid := v =? cmid in
    let imax := (v =? cmax) && negb imid in
    let imin := v =? cmin in
    let B := c0 in
    let B := if imid && idiff then (cmid - cmin) * s / (cmax - cmin + eps) else B in
    let B := if imax && idiff then s else B in
    let B := if negb idiff && imid then c0 else B in
    let B := if negb idiff && imax then c0 else B in
    if imin then c0 else B) c.

Definition hue_rgb (cb cs : rgb) : rgb := set_lum (set_sat cs (sat cb)) (lum cb).
Definition saturation_rgb (cb cs : rgb) : rgb := set_lum (set_sat cb (sat cs)) (lum cb).
Definition color_rgb (cb cs : rgb) : rgb := set_lum cs (lum cb).
Definition luminosity_rgb (cb cs : rgb) : rgb := set_lum cb (lum cs).
Definition darker_color_rgb (cb cs : rgb) : rgb := if lum cs <? lum cb then cs else cb.
Definition lighter_color_rgb (cb cs : rgb) : rgb := if lum cb <? lum cs then cs else cb.

(* ------------------------------------------------------------ CMYK wrapper (blend.py:178-207) *)
Definition cmyk : Type := (T * T * T * T)%type.
Definition cmyk2rgb (c : cmyk) : rgb :=
  let '(c', m, y, k) := c in ((c1 - c') * (c1 - k), (c1 - m) * (c1 - k), (c1 - y) * (c1 - k)).
(* color = 0; color[K<1] = (1 - C - K)/(1 - K + 1e-9) *)
Definition rgb2cmy (c : rgb) (k : T) : rgb :=
  map3 (fun v => if k <? c1 then (c1 - v - k) / (c1 - k + eps) else c0) c.
(* every decorated function is wrapped with k = "s" (the default, and the explicit argument of luminosity):
   K is always taken from the source, whatever the comment above the decorator says *)
Definition wrap_cmyk (f : rgb -> rgb -> rgb) (cb cs : cmyk) : cmyk :=
  let K := snd cs in
  let '(r, g, b) := rgb2cmy (f (cmyk2rgb cb) (cmyk2rgb cs)) K in (r, g, b, K).

(* ------------------------------------------------------------ the BLEND_FUNC table *)
Inductive sep_mode :=
| Normal | Multiply | Screen | Overlay | Darken | Lighten | ColorDodge | ColorBurn | LinearDodge | LinearBurn
| HardLight | SoftLight | VividLight | LinearLight | PinLight | HardMix | Divide | Difference | Exclusion
| Subtract | Dissolve.
Inductive nonsep_mode := Hue | Saturation | Color | Luminosity | DarkerColor | LighterColor.

Definition blend_sep (m : sep_mode) : T -> T -> T :=
  match m with
  | Normal => normal | Multiply => multiply | Screen => screen | Overlay => overlay | Darken => darken
  | Lighten => lighten | ColorDodge => color_dodge | ColorBurn => color_burn | LinearDodge => linear_dodge
  | LinearBurn => linear_burn | HardLight => hard_light | SoftLight => soft_light | VividLight => vivid_light
  | LinearLight => linear_light | PinLight => pin_light | HardMix => hard_mix | Divide => divide
  | Difference => difference | Exclusion => exclusion | Subtract => subtract | Dissolve => dissolve
  end.

Definition blend_rgb (m : nonsep_mode) : rgb -> rgb -> rgb :=
  match m with
  | Hue => hue_rgb | Saturation => saturation_rgb | Color => color_rgb | Luminosity => luminosity_rgb
  | DarkerColor => darker_color_rgb | LighterColor => lighter_color_rgb
  end.

Definition blend_cmyk (m : nonsep_mode) : cmyk -> cmyk -> cmyk := wrap_cmyk (blend_rgb m).

End Model.
