(* C12: the BLEND_FUNC table (blend.py:315-372) as data: key -> the model function named for it.
   The harness regenerates the live table (key, function __name__) from the imported dict on every run and
   proves [check_live live = true] against this one (build/C12/gen/BlendTable.v), so a swapped, missing or extra
   entry is a broken obligation; Properties/C12.v states that every entry is a mode whose theorems are proved. *)
From Coq Require Import String List Bool Arith.
From PsdV Require Import Blend.Num Blend.Model.
Import ListNotations.
Open Scope string_scope.

Inductive fname := FSep (m : sep_mode) | FNon (m : nonsep_mode).

Definition blend_table : list (string * fname) := [
  ("BlendMode.NORMAL", FSep Normal); ("BlendMode.MULTIPLY", FSep Multiply); ("BlendMode.SCREEN", FSep Screen);
  ("BlendMode.OVERLAY", FSep Overlay); ("BlendMode.DARKEN", FSep Darken); ("BlendMode.LIGHTEN", FSep Lighten);
  ("BlendMode.COLOR_DODGE", FSep ColorDodge); ("BlendMode.COLOR_BURN", FSep ColorBurn);
  ("BlendMode.LINEAR_DODGE", FSep LinearDodge); ("BlendMode.LINEAR_BURN", FSep LinearBurn);
  ("BlendMode.HARD_LIGHT", FSep HardLight); ("BlendMode.SOFT_LIGHT", FSep SoftLight);
  ("BlendMode.VIVID_LIGHT", FSep VividLight); ("BlendMode.LINEAR_LIGHT", FSep LinearLight);
  ("BlendMode.PIN_LIGHT", FSep PinLight); ("BlendMode.HARD_MIX", FSep HardMix); ("BlendMode.DIVIDE", FSep Divide);
  ("BlendMode.DIFFERENCE", FSep Difference); ("BlendMode.EXCLUSION", FSep Exclusion);
  ("BlendMode.SUBTRACT", FSep Subtract); ("BlendMode.HUE", FNon Hue); ("BlendMode.SATURATION", FNon Saturation);
  ("BlendMode.COLOR", FNon Color); ("BlendMode.LUMINOSITY", FNon Luminosity);
  ("BlendMode.DARKER_COLOR", FNon DarkerColor); ("BlendMode.LIGHTER_COLOR", FNon LighterColor);
  ("BlendMode.DISSOLVE", FSep Dissolve);
  (* descriptor keys *)
  ("Enum.Normal", FSep Normal); ("Enum.Multiply", FSep Multiply); ("Enum.Screen", FSep Screen);
  ("Enum.Overlay", FSep Overlay); ("Enum.Darken", FSep Darken); ("Enum.Lighten", FSep Lighten);
  ("Enum.ColorDodge", FSep ColorDodge); ("Enum.ColorBurn", FSep ColorBurn); ("b'linearDodge'", FSep LinearDodge);
  ("b'linearBurn'", FSep LinearBurn); ("Enum.HardLight", FSep HardLight); ("Enum.SoftLight", FSep SoftLight);
  ("b'vividLight'", FSep VividLight); ("b'linearLight'", FSep LinearLight); ("b'pinLight'", FSep PinLight);
  ("b'hardMix'", FSep HardMix); ("b'blendDivide'", FSep Divide); ("Enum.Difference", FSep Difference);
  ("Enum.Exclusion", FSep Exclusion); ("Enum.Subtract", FSep Subtract); ("Enum.Hue", FNon Hue);
  ("Enum.Saturation", FNon Saturation); ("Enum.Color", FNon Color); ("Enum.Luminosity", FNon Luminosity);
  ("b'darkerColor'", FNon DarkerColor);
  ("b'ligherColor'", FNon LighterColor);      (* sic: the key is misspelt in blend.py *)
  ("Enum.Dissolve", FSep Dissolve) ].

(* the Python name of the function the model constructor stands for *)
Definition fname_str (f : fname) : string :=
  match f with
  | FSep Normal => "normal" | FSep Multiply => "multiply" | FSep Screen => "screen" | FSep Overlay => "overlay"
  | FSep Darken => "darken" | FSep Lighten => "lighten" | FSep ColorDodge => "color_dodge"
  | FSep ColorBurn => "color_burn" | FSep LinearDodge => "linear_dodge" | FSep LinearBurn => "linear_burn"
  | FSep HardLight => "hard_light" | FSep SoftLight => "soft_light" | FSep VividLight => "vivid_light"
  | FSep LinearLight => "linear_light" | FSep PinLight => "pin_light" | FSep HardMix => "hard_mix"
  | FSep Divide => "divide" | FSep Difference => "difference" | FSep Exclusion => "exclusion"
  | FSep Subtract => "subtract" | FSep Dissolve => "dissolve"
  | FNon Hue => "hue" | FNon Saturation => "saturation" | FNon Color => "color" | FNon Luminosity => "luminosity"
  | FNon DarkerColor => "darker_color" | FNon LighterColor => "lighter_color"
  end.

Definition table_names : list (string * string) := map (fun e => (fst e, fname_str (snd e))) blend_table.

Fixpoint lookup (k : string) (t : list (string * string)) : option string :=
  match t with
  | [] => None
  | (k', n) :: t' => if String.eqb k k' then Some n else lookup k t'
  end.
Fixpoint nodup_keys (t : list (string * string)) : bool :=
  match t with
  | [] => true
  | (k, _) :: t' => match lookup k t' with Some _ => false | None => nodup_keys t' end
  end.
(* the live table has exactly the keys of the model table (no order demanded), each bound to the function of the
   same name *)
Definition check_live (live : list (string * string)) : bool :=
  Nat.eqb (length live) (length table_names) && nodup_keys live && nodup_keys table_names
  && forallb (fun e => match lookup (fst e) table_names with Some n => String.eqb n (snd e) | None => false end) live.

(* keys whose entry differs, for the evidence: (key, live name, model name or "") *)
Definition live_diff (live : list (string * string)) : list (string * string * string) :=
  flat_map (fun e => match lookup (fst e) table_names with
                     | Some n => if String.eqb n (snd e) then [] else [(fst e, snd e, n)]
                     | None => [(fst e, snd e, "")]
                     end) live.
