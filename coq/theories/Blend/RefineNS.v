(* C12: refinement Q -> R for the non-separable helpers, modes and the CMYK wrapper (all sqrt-free). *)
From Coq Require Import ZArith QArith Qreals Reals Lra Lia Bool.
From PsdV Require Import Blend.Num Blend.Model Blend.Spec Blend.ProofsR Blend.ProofsNS Blend.ProofsClip Blend.ProofsLip Blend.Refine.
Open Scope R_scope.

Definition Q2R3 (c : rgb NQ) : rgb NR := let '(r, g, b) := c in (Q2R r, Q2R g, Q2R b).
Definition Q2R4 (c : cmyk NQ) : cmyk NR := let '(c', m, y, k) := c in (Q2R c', Q2R m, Q2R y, Q2R k).

Lemma q2r3_if (c : bool) a b : Q2R3 (if c then a else b) = if c then Q2R3 a else Q2R3 b.
Proof. destruct c; reflexivity. Qed.
Lemma map3_refine (f : Q -> Q) (g : R -> R) c :
  (forall v, Q2R (f v) = g (Q2R v)) -> Q2R3 (map3 NQ f c) = map3 NR g (Q2R3 c).
Proof. intro H. destruct c as [[r g'] b]. unfold map3, Q2R3. rewrite !H. reflexivity. Qed.

Ltac nsunfold := cbv beta iota delta [lum min3 max3 mid3 fmin fmax fabs ltb sat]; cbv zeta.

Lemma refine_lum c : Q2R (lum NQ c) = lum NR (Q2R3 c).
Proof. destruct c as [[r g] b]. unfold Q2R3. nsunfold. push. reflexivity. Qed.
Lemma refine_min3 c : Q2R (min3 NQ c) = min3 NR (Q2R3 c).
Proof. destruct c as [[r g] b]. unfold Q2R3. nsunfold. push. reflexivity. Qed.
Lemma refine_max3 c : Q2R (max3 NQ c) = max3 NR (Q2R3 c).
Proof. destruct c as [[r g] b]. unfold Q2R3. nsunfold. push. reflexivity. Qed.
Lemma refine_mid3 c : Q2R (mid3 NQ c) = mid3 NR (Q2R3 c).
Proof. destruct c as [[r g] b]. unfold Q2R3. nsunfold. push. reflexivity. Qed.
Lemma refine_sat c : Q2R (sat NQ c) = sat NR (Q2R3 c).
Proof. unfold sat. push. rewrite refine_max3, refine_min3. reflexivity. Qed.

Lemma lum_ge_min c : min3 NR c <= lum NR c.
Proof. rewrite min3_is_spec. apply lum_between. Qed.
Lemma lum_le_max c : lum NR c <= max3 NR c.
Proof. rewrite max3_is_spec. apply lum_between. Qed.

(* _clip_color in three stages, for any scalar instance *)
Definition cc1 (F : num) (L n : T F) (c : rgb F) : rgb F :=
  if ltb F n (c0 F) then map3 F (fun v => add F L (div F (mul F (sub F v L) L) (add F (sub F L n) (eps F)))) c else c.
Definition cc2 (F : num) (L x : T F) (c : rgb F) : rgb F :=
  if ltb F (c1 F) x
  then map3 F (fun v => add F L (div F (mul F (sub F v L) (sub F (c1 F) L)) (add F (sub F x L) (eps F)))) c else c.
Definition cc3 (F : num) (c : rgb F) : rgb F :=
  map3 F (fun v => if ltb F (c1 F) v then c1 F else v) (map3 F (fun v => if ltb F v (c0 F) then c0 F else v) c).
Lemma clip_color_stages F c :
  clip_color F c = cc3 F (cc2 F (lum F c) (max3 F c) (cc1 F (lum F c) (min3 F c) c)).
Proof. reflexivity. Qed.

Lemma refine_cc1 L n c : Q2R n <= Q2R L -> Q2R3 (cc1 NQ L n c) = cc1 NR (Q2R L) (Q2R n) (Q2R3 c).
Proof.
  intro H. unfold cc1. rewrite q2r3_if, q2r_ltb. push. destruct (ltb NR (Q2R n) (c0 NR)); [|reflexivity].
  apply map3_refine. intro v. push.
  rewrite q2r_div by (push; kk; cbn [T add sub mul div NR]; apply Rgt_not_eq; lra).
  push. reflexivity.
Qed.
Lemma refine_cc2 L x c : Q2R L <= Q2R x -> Q2R3 (cc2 NQ L x c) = cc2 NR (Q2R L) (Q2R x) (Q2R3 c).
Proof.
  intro H. unfold cc2. rewrite q2r3_if, q2r_ltb. push. destruct (ltb NR (c1 NR) (Q2R x)); [|reflexivity].
  apply map3_refine. intro v. push.
  rewrite q2r_div by (push; kk; cbn [T add sub mul div NR]; apply Rgt_not_eq; lra).
  push. reflexivity.
Qed.
Lemma refine_cc3 c : Q2R3 (cc3 NQ c) = cc3 NR (Q2R3 c).
Proof.
  unfold cc3.
  rewrite (map3_refine _ (fun v => if ltb NR (c1 NR) v then c1 NR else v))
    by (intro v; rewrite q2r_if, q2r_ltb; push; reflexivity).
  rewrite (map3_refine _ (fun v => if ltb NR v (c0 NR) then c0 NR else v))
    by (intro v; rewrite q2r_if, q2r_ltb; push; reflexivity).
  reflexivity.
Qed.

Lemma refine_clip_color c : Q2R3 (clip_color NQ c) = clip_color NR (Q2R3 c).
Proof.
  rewrite !clip_color_stages. rewrite refine_cc3, refine_cc2, refine_cc1.
  - rewrite refine_lum, refine_min3, refine_max3. reflexivity.
  - rewrite refine_lum, refine_min3. apply lum_ge_min.
  - rewrite refine_lum, refine_max3. apply lum_le_max.
Qed.

Lemma refine_set_lum c l : Q2R3 (set_lum NQ c l) = set_lum NR (Q2R3 c) (Q2R l).
Proof.
  unfold set_lum. cbv zeta. rewrite refine_clip_color. f_equal.
  rewrite (map3_refine _ (fun v => add NR v (sub NR (Q2R l) (lum NR (Q2R3 c)))))
    by (intro v; push; rewrite refine_lum; reflexivity).
  reflexivity.
Qed.

(* _set_sat: one channel, parameters (min, mid, max, s) *)
Definition sschan (F : num) (cmin cmid cmax s v : T F) : T F :=
  let idiff := ltb F cmin cmax in
  let imid := eqb F v cmid in
  let imax := eqb F v cmax && negb imid in
  let imin := eqb F v cmin in
  let B := c0 F in
  let B := if imid && idiff then div F (mul F (sub F cmid cmin) s) (add F (sub F cmax cmin) (eps F)) else B in
  let B := if imax && idiff then s else B in
  let B := if negb idiff && imid then c0 F else B in
  let B := if negb idiff && imax then c0 F else B in
  if imin then c0 F else B.
Lemma set_sat_sschan F c s : set_sat F c s = map3 F (sschan F (min3 F c) (mid3 F c) (max3 F c) s) c.
Proof. reflexivity. Qed.
Lemma refine_sschan n m x s v : Q2R n <= Q2R x ->
  Q2R (sschan NQ n m x s v) = sschan NR (Q2R n) (Q2R m) (Q2R x) (Q2R s) (Q2R v).
Proof.
  intro H. unfold sschan. cbv zeta. rewrite !q2r_if, !q2r_eqb, !q2r_ltb. push.
  rewrite q2r_div by (push; kk; cbn [T add sub mul div NR]; apply Rgt_not_eq; lra).
  push. reflexivity.
Qed.
Lemma min3_le_max3 c : min3 NR c <= max3 NR c.
Proof. pose proof (sorted3 c). lra. Qed.
Lemma refine_set_sat c s : Q2R3 (set_sat NQ c s) = set_sat NR (Q2R3 c) (Q2R s).
Proof.
  rewrite !set_sat_sschan.
  rewrite (map3_refine _ (sschan NR (Q2R (min3 NQ c)) (Q2R (mid3 NQ c)) (Q2R (max3 NQ c)) (Q2R s))).
  - rewrite refine_min3, refine_mid3, refine_max3. reflexivity.
  - intro v. apply refine_sschan. rewrite refine_min3, refine_max3. apply min3_le_max3.
Qed.

Theorem refine_rgb (m : nonsep_mode) cb cs : Q2R3 (blend_rgb NQ m cb cs) = blend_rgb NR m (Q2R3 cb) (Q2R3 cs).
Proof.
  destruct m; cbn [blend_rgb];
    unfold hue_rgb, saturation_rgb, color_rgb, luminosity_rgb, darker_color_rgb, lighter_color_rgb.
  - rewrite refine_set_lum, refine_set_sat, refine_sat, refine_lum. reflexivity.
  - rewrite refine_set_lum, refine_set_sat, refine_sat, refine_lum. reflexivity.
  - rewrite refine_set_lum, refine_lum. reflexivity.
  - rewrite refine_set_lum, refine_lum. reflexivity.
  - rewrite q2r3_if, q2r_ltb, !refine_lum. reflexivity.
  - rewrite q2r3_if, q2r_ltb, !refine_lum. reflexivity.
Qed.

(* ---- CMYK wrapper *)
Lemma refine_cmyk2rgb c : Q2R3 (cmyk2rgb NQ c) = cmyk2rgb NR (Q2R4 c).
Proof. destruct c as [[[c' m] y] k]. unfold cmyk2rgb, Q2R4, Q2R3. push. reflexivity. Qed.
Lemma refine_rgb2cmy c k : Q2R k <= 1 -> Q2R3 (rgb2cmy NQ c k) = rgb2cmy NR (Q2R3 c) (Q2R k).
Proof.
  intro H. unfold rgb2cmy. apply map3_refine. intro v. rewrite q2r_if, q2r_ltb. push.
  rewrite q2r_div by (push; kk; cbn [T add sub mul div NR]; apply Rgt_not_eq; lra).
  push. reflexivity.
Qed.
Theorem refine_cmyk (m : nonsep_mode) cb cs : Q2R (snd cs) <= 1 ->
  Q2R4 (blend_cmyk NQ m cb cs) = blend_cmyk NR m (Q2R4 cb) (Q2R4 cs).
Proof.
  intro H. unfold blend_cmyk, wrap_cmyk. cbv zeta.
  pose proof (refine_rgb2cmy (blend_rgb NQ m (cmyk2rgb NQ cb) (cmyk2rgb NQ cs)) (snd cs) H) as E.
  rewrite refine_rgb, !refine_cmyk2rgb in E.
  destruct cs as [[[c' m'] y'] k]. cbn [snd Q2R4] in *.
  destruct (rgb2cmy NQ _ k) as [[r g] b]. unfold Q2R3 in E. rewrite <- E. reflexivity.
Qed.

(* ---- the theorems about NR, read on the executable instance *)
Definition unit3Q (c : rgb NQ) : Prop := let '(r, g, b) := c in (0 <= r <= 1 /\ 0 <= g <= 1 /\ 0 <= b <= 1)%Q.
Lemma unit3_Q2R3 c : unit3 (Q2R3 c) -> unit3Q c.
Proof. destruct c as [[r g] b]. unfold unit3, unit3Q, Q2R3. intros (? & ? & ?). repeat split; apply Q2R_unit; assumption. Qed.
Lemma Q2R3_unit3 c : unit3Q c -> unit3 (Q2R3 c).
Proof. destruct c as [[r g] b]. unfold unit3, unit3Q, Q2R3. intros (? & ? & ?). repeat split; apply unit_Q2R; assumption. Qed.

Theorem range_rgb_Q (m : nonsep_mode) cb cs : unit3Q cb -> unit3Q cs -> unit3Q (blend_rgb NQ m cb cs).
Proof.
  intros Hb Hs. apply unit3_Q2R3. rewrite refine_rgb. apply range_rgb; apply Q2R3_unit3; assumption.
Qed.

(* hue / saturation / color / luminosity of the executable instance against the PDF formulas *)
Theorem formula_hue_exec cb cs : unit3Q cb -> unit3Q cs ->
  close3 (s_sat (Q2R3 cs)) (60 * e9) (Q2R3 (hue_rgb NQ cb cs)) (s_hue (Q2R3 cb) (Q2R3 cs)).
Proof.
  intros Hb Hs. change (hue_rgb NQ cb cs) with (blend_rgb NQ Hue cb cs). rewrite refine_rgb.
  apply formula_hue_weighted; apply Q2R3_unit3; assumption.
Qed.
Theorem formula_saturation_exec cb cs : unit3Q cb -> unit3Q cs ->
  close3 (s_sat (Q2R3 cb)) (60 * e9) (Q2R3 (saturation_rgb NQ cb cs)) (s_saturation (Q2R3 cb) (Q2R3 cs)).
Proof.
  intros Hb Hs. change (saturation_rgb NQ cb cs) with (blend_rgb NQ Saturation cb cs). rewrite refine_rgb.
  apply formula_saturation_weighted; apply Q2R3_unit3; assumption.
Qed.
Theorem formula_color_exec cb cs : unit3Q cb ->
  close3 1 (20 * e9) (Q2R3 (color_rgb NQ cb cs)) (s_color (Q2R3 cb) (Q2R3 cs)).
Proof.
  intros Hb. change (color_rgb NQ cb cs) with (blend_rgb NQ Color cb cs). rewrite refine_rgb.
  apply formula_color. apply Q2R3_unit3. assumption.
Qed.
Theorem formula_luminosity_exec cb cs : unit3Q cs ->
  close3 1 (20 * e9) (Q2R3 (luminosity_rgb NQ cb cs)) (s_luminosity (Q2R3 cb) (Q2R3 cs)).
Proof.
  intros Hs. change (luminosity_rgb NQ cb cs) with (blend_rgb NQ Luminosity cb cs). rewrite refine_rgb.
  apply formula_luminosity. apply Q2R3_unit3. assumption.
Qed.
