(* C12: the executable rational instance refines the real instance:
      Q2R (f NQ a b) = f NR (Q2R a) (Q2R b)
   for every sqrt-free function of the model, so that each theorem of ProofsR/ProofsNS about [f NR] is a theorem
   about what the correspondence check runs.  (soft_light: the rational sqrt is a lower bracket, see the end.) *)
From Coq Require Import ZArith QArith Qreals Qround Reals Lra Lia Bool.
From PsdV Require Import Blend.Num Blend.Model Blend.Spec Blend.ProofsR.
Open Scope R_scope.

Lemma q2r_ofQ q : Q2R (ofQ NQ q) = ofQ NR q.
Proof. reflexivity. Qed.
Lemma q2r_add a b : Q2R (add NQ a b) = add NR (Q2R a) (Q2R b).
Proof. change (Q2R (Qred (a + b)) = Q2R a + Q2R b). rewrite (Qeq_eqR _ _ (Qred_correct _)). apply Q2R_plus. Qed.
Lemma q2r_sub a b : Q2R (sub NQ a b) = sub NR (Q2R a) (Q2R b).
Proof. change (Q2R (Qred (a - b)) = Q2R a - Q2R b). rewrite (Qeq_eqR _ _ (Qred_correct _)). apply Q2R_minus. Qed.
Lemma q2r_mul a b : Q2R (mul NQ a b) = mul NR (Q2R a) (Q2R b).
Proof. change (Q2R (Qred (a * b)) = Q2R a * Q2R b). rewrite (Qeq_eqR _ _ (Qred_correct _)). apply Q2R_mult. Qed.
Lemma q2r_nonzero b : Q2R b <> 0 -> ~ (b == 0)%Q.
Proof. intros H E. apply H. rewrite (Qeq_eqR _ _ E). apply RMicromega.Q2R_0. Qed.
Lemma q2r_div a b : Q2R b <> 0 -> Q2R (div NQ a b) = div NR (Q2R a) (Q2R b).
Proof. intro H. change (Q2R (Qred (a / b)) = Q2R a / Q2R b). rewrite (Qeq_eqR _ _ (Qred_correct _)). apply Q2R_div. apply q2r_nonzero. exact H. Qed.
Lemma q2r_leb a b : leb NQ a b = leb NR (Q2R a) (Q2R b).
Proof.
  change (Qle_bool a b = Rleb (Q2R a) (Q2R b)). unfold Rleb. destruct (Rle_dec (Q2R a) (Q2R b)) as [H|H].
  - apply Qle_bool_iff. apply Rle_Qle. exact H.
  - destruct (Qle_bool a b) eqn:E; [|reflexivity]. exfalso. apply H. apply Qle_Rle. apply Qle_bool_iff. exact E.
Qed.
Lemma q2r_eqb a b : eqb NQ a b = eqb NR (Q2R a) (Q2R b).
Proof.
  change (Qeq_bool a b = Reqb (Q2R a) (Q2R b)). unfold Reqb. destruct (Req_EM_T (Q2R a) (Q2R b)) as [H|H].
  - apply Qeq_bool_iff. apply eqR_Qeq. exact H.
  - destruct (Qeq_bool a b) eqn:E; [|reflexivity]. exfalso. apply H. apply Qeq_eqR. apply Qeq_bool_iff. exact E.
Qed.
Lemma q2r_if (c : bool) a b : Q2R (if c then a else b) = if c then Q2R a else Q2R b.
Proof. destruct c; reflexivity. Qed.
Lemma q2r_ltb a b : ltb NQ a b = ltb NR (Q2R a) (Q2R b).
Proof. unfold ltb. rewrite q2r_leb. reflexivity. Qed.

Lemma q2r_c0 : Q2R (c0 NQ) = c0 NR. Proof. reflexivity. Qed.
Lemma q2r_c1 : Q2R (c1 NQ) = c1 NR. Proof. reflexivity. Qed.
Lemma q2r_c2 : Q2R (c2 NQ) = c2 NR. Proof. reflexivity. Qed.
Lemma q2r_c4 : Q2R (c4 NQ) = c4 NR. Proof. reflexivity. Qed.
Lemma q2r_c12 : Q2R (c12 NQ) = c12 NR. Proof. reflexivity. Qed.
Lemma q2r_c16 : Q2R (c16 NQ) = c16 NR. Proof. reflexivity. Qed.
Lemma q2r_quarter : Q2R (quarter NQ) = quarter NR. Proof. reflexivity. Qed.
Lemma q2r_half : Q2R (half NQ) = half NR. Proof. reflexivity. Qed.
Lemma q2r_eps : Q2R (eps NQ) = eps NR. Proof. reflexivity. Qed.
Lemma q2r_hm : Q2R (hm NQ) = hm NR. Proof. reflexivity. Qed.
Lemma q2r_wr : Q2R (wr NQ) = wr NR. Proof. reflexivity. Qed.
Lemma q2r_wg : Q2R (wg NQ) = wg NR. Proof. reflexivity. Qed.
Lemma q2r_wb : Q2R (wb NQ) = wb NR. Proof. reflexivity. Qed.

Ltac push :=
  repeat (rewrite ?q2r_if, ?q2r_add, ?q2r_sub, ?q2r_mul, ?q2r_leb, ?q2r_eqb,
                  ?q2r_c0, ?q2r_c1, ?q2r_c2, ?q2r_c4, ?q2r_c12, ?q2r_c16, ?q2r_quarter, ?q2r_half, ?q2r_eps, ?q2r_hm, ?q2r_wr, ?q2r_wg, ?q2r_wb).
Ltac funfold :=
  cbv beta delta [normal multiply screen darken lighten color_dodge color_burn linear_dodge linear_burn hard_light
       overlay vivid_light linear_light pin_light difference exclusion subtract hard_mix divide dissolve
       fmin fmax fabs ltb blend_sep]; cbv zeta.
(* side condition of a division: the denominator is positive *)
Ltac denpos := push; kk; cbn [T add sub mul div NR]; apply Rgt_not_eq; lra.

Section Sep.
Variables cb cs : Q.
Let rb := Q2R cb.
Let rs := Q2R cs.

Lemma refine_normal : Q2R (normal NQ cb cs) = normal NR rb rs.      Proof. reflexivity. Qed.
Lemma refine_multiply : Q2R (multiply NQ cb cs) = multiply NR rb rs. Proof. funfold. push. reflexivity. Qed.
Lemma refine_screen : Q2R (screen NQ cb cs) = screen NR rb rs.      Proof. funfold. push. reflexivity. Qed.
Lemma refine_darken : Q2R (darken NQ cb cs) = darken NR rb rs.      Proof. funfold. push. reflexivity. Qed.
Lemma refine_lighten : Q2R (lighten NQ cb cs) = lighten NR rb rs.   Proof. funfold. push. reflexivity. Qed.
Lemma refine_linear_dodge : Q2R (linear_dodge NQ cb cs) = linear_dodge NR rb rs. Proof. funfold. push. reflexivity. Qed.
Lemma refine_linear_burn : Q2R (linear_burn NQ cb cs) = linear_burn NR rb rs.   Proof. funfold. push. reflexivity. Qed.
Lemma refine_hard_light : Q2R (hard_light NQ cb cs) = hard_light NR rb rs.      Proof. funfold. push. reflexivity. Qed.
Lemma refine_linear_light : Q2R (linear_light NQ cb cs) = linear_light NR rb rs. Proof. funfold. push. reflexivity. Qed.
Lemma refine_pin_light : Q2R (pin_light NQ cb cs) = pin_light NR rb rs.         Proof. funfold. push. reflexivity. Qed.
Lemma refine_difference : Q2R (difference NQ cb cs) = difference NR rb rs.      Proof. funfold. push. reflexivity. Qed.
Lemma refine_exclusion : Q2R (exclusion NQ cb cs) = exclusion NR rb rs.         Proof. funfold. push. reflexivity. Qed.
Lemma refine_subtract : Q2R (subtract NQ cb cs) = subtract NR rb rs.            Proof. funfold. push. reflexivity. Qed.
Lemma refine_hard_mix : Q2R (hard_mix NQ cb cs) = hard_mix NR rb rs.            Proof. funfold. push. reflexivity. Qed.
End Sep.

Lemma refine_overlay cb cs : Q2R (overlay NQ cb cs) = overlay NR (Q2R cb) (Q2R cs).
Proof. unfold overlay. apply refine_hard_light. Qed.

Lemma refine_color_dodge cb cs : Q2R cs <= 1 -> Q2R (color_dodge NQ cb cs) = color_dodge NR (Q2R cb) (Q2R cs).
Proof. intro H. funfold. push. rewrite q2r_div by denpos. push; try reflexivity. Qed.
Lemma refine_color_burn cb cs : 0 <= Q2R cs -> Q2R (color_burn NQ cb cs) = color_burn NR (Q2R cb) (Q2R cs).
Proof. intro H. funfold. push. rewrite q2r_div by denpos. push; try reflexivity. Qed.
Lemma refine_divide cb cs : 0 <= Q2R cs -> Q2R (divide NQ cb cs) = divide NR (Q2R cb) (Q2R cs).
Proof. intro H. funfold. push. rewrite !q2r_div by denpos. push; try reflexivity. Qed.
Lemma refine_vivid_light cb cs : 0 <= Q2R cs <= 1 -> Q2R (vivid_light NQ cb cs) = vivid_light NR (Q2R cb) (Q2R cs).
Proof.
  intro H. unfold vivid_light. cbv zeta. rewrite q2r_if, q2r_ltb. push.
  rewrite refine_color_dodge, refine_color_burn; push; kk; cbn [T add sub mul div NR]; try lra; try reflexivity.
Qed.

(* ---------------------------------------------------------------- ranges transfer to the rational instance *)
Lemma unit_Q2R q : (0 <= q <= 1)%Q -> unit (Q2R q).
Proof.
  intros [H0 H1]. unfold unit. apply Qle_Rle in H0. apply Qle_Rle in H1.
  rewrite RMicromega.Q2R_0 in H0. rewrite RMicromega.Q2R_1 in H1. lra.
Qed.
Lemma Q2R_unit q : unit (Q2R q) -> (0 <= q <= 1)%Q.
Proof.
  intros [H0 H1]. split; apply Rle_Qle; [rewrite RMicromega.Q2R_0 | rewrite RMicromega.Q2R_1]; assumption.
Qed.

Theorem refine_sep (m : sep_mode) cb cs : m <> SoftLight -> (0 <= cs <= 1)%Q ->
  Q2R (blend_sep NQ m cb cs) = blend_sep NR m (Q2R cb) (Q2R cs).
Proof.
  intros Hm Hs. apply unit_Q2R in Hs. unfold unit in Hs.
  destruct m; try congruence; cbn [blend_sep];
    auto using refine_normal, refine_multiply, refine_screen, refine_overlay, refine_darken, refine_lighten,
      refine_linear_dodge, refine_linear_burn, refine_hard_light, refine_linear_light, refine_pin_light,
      refine_hard_mix, refine_difference, refine_exclusion, refine_subtract.
  - apply refine_color_dodge; lra.
  - apply refine_color_burn; lra.
  - apply refine_vivid_light; lra.
  - apply refine_divide; lra.
Qed.

Theorem range_sep_Q (m : sep_mode) cb cs : m <> SoftLight -> (0 <= cb <= 1)%Q -> (0 <= cs <= 1)%Q ->
  (0 <= blend_sep NQ m cb cs <= 1)%Q.
Proof.
  intros Hm Hb Hs. apply Q2R_unit. rewrite refine_sep by assumption.
  apply range_sep; apply unit_Q2R; assumption.
Qed.

(* ---------------------------------------------------------------- the rational square root is a bracket *)
Lemma Q2R_inject_Z z : Q2R (inject_Z z) = IZR z.
Proof. unfold Q2R, inject_Z. cbn. lra. Qed.

Lemma qsqrt_bracket x : (0 <= x)%Q ->
  Q2R (qsqrt x) <= sqrt (Q2R x) < Q2R (qsqrt x) + / IZR (2 ^ 32).
Proof.
  intro Hx. unfold qsqrt, qsqrt_bits.
  set (P := (2 ^ (2 * 32))%Z). set (n := Qfloor (x * inject_Z P)).
  assert (HP : IZR P = IZR (2 ^ 32) * IZR (2 ^ 32)) by (rewrite <- mult_IZR; reflexivity).
  assert (Hp : 0 < IZR (2 ^ 32)) by (apply IZR_lt; reflexivity).
  assert (Hn : (0 <= n)%Z).
  { unfold n. change 0%Z with (Qfloor 0). apply Qfloor_resp_le.
    apply Qmult_le_0_compat; [assumption | discriminate]. }
  pose proof (Z.sqrt_spec n Hn) as [S1 S2]. set (s := Z.sqrt n) in *.
  assert (Hs : (0 <= s)%Z) by apply Z.sqrt_nonneg.
  assert (L : IZR n <= Q2R x * IZR P).
  { rewrite <- Q2R_inject_Z, <- (Q2R_inject_Z P), <- Q2R_mult. apply Qle_Rle. apply Qfloor_le. }
  assert (U : Q2R x * IZR P < IZR (n + 1)).
  { rewrite <- (Q2R_inject_Z (n + 1)), <- (Q2R_inject_Z P), <- Q2R_mult. apply Qlt_Rlt. apply Qlt_floor. }
  assert (S1' : IZR s * IZR s <= IZR n) by (rewrite <- mult_IZR; apply IZR_le; exact S1).
  assert (S2' : IZR (n + 1) <= (IZR s + 1) * (IZR s + 1)).
  { replace (IZR s + 1) with (IZR (s + 1)) by (rewrite plus_IZR; reflexivity).
    rewrite <- mult_IZR. apply IZR_le. lia. }
  assert (Hs' : 0 <= IZR s) by (apply IZR_le; exact Hs).
  assert (Hx' : 0 <= Q2R x) by (rewrite <- RMicromega.Q2R_0; apply Qle_Rle; exact Hx).
  replace (Q2R (s # 2 ^ 32)) with (IZR s / IZR (2 ^ 32)) by (unfold Q2R; cbn; reflexivity).
  set (p := IZR (2 ^ 32)) in *. set (X := Q2R x) in *.
  assert (Hlo : (IZR s / p) * (IZR s / p) <= X).
  { apply (Rmult_le_reg_r (p * p)); [nra|]. replace (IZR s / p * (IZR s / p) * (p * p)) with (IZR s * IZR s) by (field; lra). nra. }
  assert (Hhi : X < ((IZR s + 1) / p) * ((IZR s + 1) / p)).
  { apply (Rmult_lt_reg_r (p * p)); [nra|].
    replace ((IZR s + 1) / p * ((IZR s + 1) / p) * (p * p)) with ((IZR s + 1) * (IZR s + 1)) by (field; lra). nra. }
  assert (Hq : 0 <= IZR s / p) by (apply div_nonneg; lra).
  split.
  - rewrite <- (sqrt_square (IZR s / p)) by exact Hq. apply sqrt_le_1_alt. exact Hlo.
  - replace (IZR s / p + / p) with ((IZR s + 1) / p) by (field; lra).
    rewrite <- (sqrt_square ((IZR s + 1) / p)) by (apply div_nonneg; lra).
    apply sqrt_lt_1_alt. split; [exact Hx' | exact Hhi].
Qed.

(* soft light over Q is within 2^-32 of soft light over R *)
Theorem refine_soft_light cb cs : (0 <= cb <= 1)%Q -> (0 <= cs <= 1)%Q ->
  Rabs (Q2R (soft_light NQ cb cs) - soft_light NR (Q2R cb) (Q2R cs)) <= / IZR (2 ^ 32).
Proof.
  intros Hb Hs. pose proof (qsqrt_bracket cb (proj1 Hb)) as Hq.
  apply unit_Q2R in Hb. apply unit_Q2R in Hs. unfold unit in *.
  assert (Hp : 0 < / IZR (2 ^ 32)) by (apply Rinv_0_lt_compat; apply IZR_lt; reflexivity).
  unfold soft_light. cbv zeta. push.
  change (Q2R (sqrt_ NQ cb)) with (Q2R (qsqrt cb)). change (sqrt_ NR (Q2R cb)) with (sqrt (Q2R cb)).
  set (a := Q2R (qsqrt cb)) in *. set (r := sqrt (Q2R cb)) in *. set (B := Q2R cb) in *. set (S := Q2R cs) in *.
  set (e := / IZR (2 ^ 32)) in *. clearbody a r B S e.
  cbn [T add sub mul div leb eqb NR]. kk. unfold Rabs.
  destruct (Rle_lt_dec S (1/2)) as [C|C].
  - rewrite (Rleb_true S (1/2) C). destruct (Rcase_abs _); lra.
  - rewrite (Rleb_false S (1/2) C). rewrite (Rleb_false S (1/4)) by lra.
    destruct (Rcase_abs _); nra.
Qed.
