(* C12: monotonicity of the separable modes in the backdrop (and, where it holds, in the source), on [0,1]. *)
From Coq Require Import QArith Reals Lra Lia Psatz Bool.
From PsdV Require Import Blend.Num Blend.Model Blend.Spec Blend.ProofsR.
Open Scope R_scope.

Definition mono_b (f : R -> R -> R) : Prop :=
  forall b b' s, unit b -> unit b' -> unit s -> b <= b' -> f b s <= f b' s.
Definition mono_s (f : R -> R -> R) : Prop :=
  forall b s s', unit b -> unit s -> unit s' -> s <= s' -> f b s <= f b s'.
Definition anti_s (f : R -> R -> R) : Prop :=
  forall b s s', unit b -> unit s -> unit s' -> s <= s' -> f b s' <= f b s.

Ltac mono0 := unfold mono_b, mono_s, anti_s, unit; intros; munfold; rcases; try lra; try nra.

Lemma mono_b_normal : mono_b (normal NR). Proof. mono0. Qed.
Lemma mono_s_normal : mono_s (normal NR). Proof. mono0. Qed.
Lemma mono_b_multiply : mono_b (multiply NR). Proof. mono0. Qed.
Lemma mono_s_multiply : mono_s (multiply NR). Proof. mono0. Qed.
Lemma mono_b_screen : mono_b (screen NR). Proof. mono0. Qed.
Lemma mono_s_screen : mono_s (screen NR). Proof. mono0. Qed.
Lemma mono_b_darken : mono_b (darken NR). Proof. mono0. Qed.
Lemma mono_s_darken : mono_s (darken NR). Proof. mono0. Qed.
Lemma mono_b_lighten : mono_b (lighten NR). Proof. mono0. Qed.
Lemma mono_s_lighten : mono_s (lighten NR). Proof. mono0. Qed.
Lemma mono_b_linear_dodge : mono_b (linear_dodge NR). Proof. mono0. Qed.
Lemma mono_s_linear_dodge : mono_s (linear_dodge NR). Proof. mono0. Qed.
Lemma mono_b_linear_burn : mono_b (linear_burn NR). Proof. mono0. Qed.
Lemma mono_s_linear_burn : mono_s (linear_burn NR). Proof. mono0. Qed.
Lemma mono_b_hard_light : mono_b (hard_light NR). Proof. mono0. Qed.
Lemma mono_s_hard_light : mono_s (hard_light NR). Proof. mono0. Qed.
Lemma mono_b_overlay : mono_b (overlay NR). Proof. mono0. Qed.
Lemma mono_s_overlay : mono_s (overlay NR). Proof. mono0. Qed.
Lemma mono_b_linear_light : mono_b (linear_light NR). Proof. mono0. Qed.
Lemma mono_s_linear_light : mono_s (linear_light NR). Proof. mono0. Qed.
Lemma mono_b_pin_light : mono_b (pin_light NR). Proof. mono0. Qed.
Lemma mono_s_pin_light : mono_s (pin_light NR). Proof. mono0. Qed.
Lemma mono_b_subtract : mono_b (subtract NR). Proof. mono0. Qed.
Lemma anti_s_subtract : anti_s (subtract NR). Proof. mono0. Qed.
Lemma mono_b_hard_mix : mono_b (hard_mix NR). Proof. mono0. Qed.
Lemma mono_s_hard_mix : mono_s (hard_mix NR). Proof. mono0. Qed.

(* ---- with a regularised division.  Stated on the domain vivid light needs (source in [-1,1] resp. [0,2]). *)
Lemma mono_b_color_dodge_gen b b' s : unit b -> unit b' -> s <= 1 -> b <= b' ->
  color_dodge NR b s <= color_dodge NR b' s.
Proof.
  unfold unit. intros Hb Hb' Hs Hle. munfold.
  nameq b (1 * (1 - s + 1 / 1000000000)). nameq b' (1 * (1 - s + 1 / 1000000000)).
  rcases; try lra; try nra.
Qed.
Lemma mono_s_color_dodge_gen b s s' : unit b -> s <= s' -> s' <= 1 ->
  color_dodge NR b s <= color_dodge NR b s'.
Proof.
  unfold unit. intros Hb Hle Hs. munfold.
  nameq b (1 * (1 - s + 1 / 1000000000)). nameq b (1 * (1 - s' + 1 / 1000000000)).
  assert (0 <= q) by nra. assert (0 <= q0) by nra.
  assert (q <= q0) by (assert (q0 * (1 * (1 - s + 1 / 1000000000)) >= b) by nra; nra).
  rcases; try lra; try nra.
Qed.
Lemma mono_b_color_burn_gen b b' s : unit b -> unit b' -> 0 <= s -> b <= b' ->
  color_burn NR b s <= color_burn NR b' s.
Proof.
  unfold unit. intros Hb Hb' Hs Hle. munfold.
  nameq (1 - b) (1 * s + 1 / 1000000000). nameq (1 - b') (1 * s + 1 / 1000000000).
  rcases; try lra; try nra.
Qed.
Lemma mono_s_color_burn_gen b s s' : unit b -> 0 <= s -> s <= s' ->
  color_burn NR b s <= color_burn NR b s'.
Proof.
  unfold unit. intros Hb Hs Hle. munfold.
  nameq (1 - b) (1 * s + 1 / 1000000000). nameq (1 - b) (1 * s' + 1 / 1000000000).
  assert (0 <= q) by nra. assert (0 <= q0) by nra.
  assert (q0 <= q) by (assert (q * (1 * s' + 1 / 1000000000) >= 1 - b) by nra; nra).
  rcases; try lra; try nra.
Qed.
Lemma mono_b_color_dodge : mono_b (color_dodge NR).
Proof. intros b b' s Hb Hb' [? ?] ?. apply mono_b_color_dodge_gen; assumption. Qed.
Lemma mono_s_color_dodge : mono_s (color_dodge NR).
Proof. intros b s s' Hb [? ?] [? ?] ?. apply mono_s_color_dodge_gen; assumption. Qed.
Lemma mono_b_color_burn : mono_b (color_burn NR).
Proof. intros b b' s Hb Hb' [? ?] ?. apply mono_b_color_burn_gen; assumption. Qed.
Lemma mono_s_color_burn : mono_s (color_burn NR).
Proof. intros b s s' Hb [? ?] [? ?] ?. apply mono_s_color_burn_gen; assumption. Qed.

Lemma mono_b_divide : mono_b (divide NR).
Proof.
  unfold mono_b, unit. intros b b' s Hb Hb' Hs Hle. munfold.
  nameq b (s + 1 / 1000000000). nameq b' (s + 1 / 1000000000).
  rcases; try lra; try nra.
Qed.
Lemma anti_s_divide : anti_s (divide NR).
Proof.
  unfold anti_s, unit. intros b s s' Hb Hs Hs' Hle. munfold.
  nameq b (s + 1 / 1000000000). nameq b (s' + 1 / 1000000000).
  assert (0 <= q) by nra. assert (0 <= q0) by nra.
  assert (q0 <= q) by (assert (q * (s' + 1 / 1000000000) >= b) by nra; nra).
  rcases; try lra; try nra.
Qed.

Lemma mono_b_vivid_light : mono_b (vivid_light NR).
Proof.
  intros b b' s Hb Hb' Hs Hle. unfold vivid_light. cbn [T add sub mul div leb eqb sqrt_ NR]. kk.
  unfold unit in Hs. destruct (ltb NR (1 / 2) s).
  - apply mono_b_color_dodge_gen; try assumption. lra.
  - apply mono_b_color_burn_gen; try assumption. lra.
Qed.

Lemma mono_b_soft_light : mono_b (soft_light NR).
Proof.
  intros b b' s Hb Hb' Hs Hle.
  pose proof (sqrt_unit b Hb) as Q. pose proof (sqrt_unit b' Hb') as Q'.
  assert (Hr : sqrt b <= sqrt b') by (apply sqrt_le_1_alt; exact Hle).
  assert (Sb : sqrt b * sqrt b = b) by (apply sqrt_sqrt; apply Hb).
  assert (Sb' : sqrt b' * sqrt b' = b') by (apply sqrt_sqrt; apply Hb').
  unfold unit in *. munfold.
  destruct (Rle_lt_dec s (1/2)) as [C|C].
  - rewrite !(Rleb_true s (1/2) C). cbv iota zeta.
    assert (H0 : 0 <= (b' - b) * ((1 - (1 - 2 * s)) + (1 - 2 * s) * (b + b'))) by (apply Rmult_le_pos; nra).
    lra.
  - rewrite !(Rleb_false s (1/2) C). rewrite !(Rleb_false s (1/4)) by lra. cbv iota zeta.
    set (r := sqrt b) in *. set (r' := sqrt b') in *. clearbody r r'.
    (* b + t (r - b) with t = 2s-1 in (0,1]:  = (1-t) b + t r, both terms monotone *)
    assert (0 <= (1 - (2 * s - 1)) * (b' - b)) by (apply Rmult_le_pos; lra).
    assert (0 <= (2 * s - 1) * (r' - r)) by (apply Rmult_le_pos; lra).
    lra.
Qed.
Lemma mono_s_soft_light : mono_s (soft_light NR).
Proof.
  intros b s s' Hb Hs Hs' Hle. pose proof (sqrt_unit b Hb) as Q. unfold unit in *. munfold.
  set (r := sqrt b) in *. clearbody r.
  assert (P : 0 <= b * (1 - b)) by nra.
  destruct (Rle_lt_dec s (1/2)) as [C|C]; destruct (Rle_lt_dec s' (1/2)) as [C'|C']; try lra.
  - rewrite (Rleb_true s (1/2) C), (Rleb_true s' (1/2) C'). cbv iota zeta. nra.
  - rewrite (Rleb_true s (1/2) C), (Rleb_false s' (1/2) C'). rewrite (Rleb_false s' (1/4)) by lra.
    cbv iota zeta. assert (0 <= (1 - 2 * s) * (b * (1 - b))) by nra. assert (0 <= (2 * s' - 1) * (r - b)) by nra. lra.
  - rewrite (Rleb_false s (1/2) C), (Rleb_false s' (1/2) C').
    rewrite (Rleb_false s (1/4)), (Rleb_false s' (1/4)) by lra. cbv iota zeta. nra.
Qed.

(* difference and exclusion are NOT monotone in either argument *)
Lemma difference_not_monotone : ~ mono_b (difference NR) /\ ~ mono_b (exclusion NR).
Proof.
  split; intro H.
  - specialize (H 0 1 1). unfold unit in H. munfold. revert H. rcases; intro H; lra.
  - specialize (H 0 1 1). unfold unit in H. munfold. lra.
Qed.

(* divide with a black source (the published Cb/Cs is singular there): the code gives min(1, 1e9 * Cb) *)
Lemma divide_at_0 cb : divide NR cb 0 = Rmin 1 (cb * 1000000000).
Proof.
  munfold. replace (cb / (0 + 1 / 1000000000)) with (cb * 1000000000) by (field; lra).
  unfold Rmin. rcases; repeat scase1; lra.
Qed.

(* vivid light is NOT monotone in the source across Cs = 1/2: color_burn(b, 1) = 1 - (1-b)/(1+e) sits about
   e/2 above color_dodge(b, 0+) = b/(1+e); witness b = 1/2, s = 1/2, s' = 1/2 + 1/(4*10^10) *)
Lemma vivid_light_seam_refuted : ~ mono_s (vivid_light NR).
Proof.
  intro H. specialize (H (1/2) (1/2) (1/2 + 1/40000000000)). unfold unit in H.
  assert (G : vivid_light NR (1/2) (1/2) <= vivid_light NR (1/2) (1/2 + 1/40000000000)) by (apply H; lra).
  clear H. revert G. munfold.
  rewrite (Rleb_true (1/2) (1/2)) by lra. rewrite (Rleb_false (1 / 2 + 1 / 40000000000) (1/2)) by lra.
  cbn [negb]. cbv iota.
  rewrite (Reqb_false (1/2) 1) by lra. rewrite (Reqb_false (1 / 2 * 2) 0) by lra.
  rewrite (Reqb_false ((1 / 2 + 1 / 40000000000) * 2 - 1) 1) by lra. rewrite (Reqb_false (1/2) 0) by lra.
  cbn [negb andb]. cbv iota.
  nameq (1 - 1 / 2) (1 * (1 / 2 * 2) + 1 / 1000000000).
  nameq (1 / 2) (1 * (1 - ((1 / 2 + 1 / 40000000000) * 2 - 1) + 1 / 1000000000)).
  rcases; intro G; nra.
Qed.
