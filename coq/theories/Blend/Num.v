(* C12: the scalar interface over which the blend model is written ONCE.
   Two instances: NQ (exact rationals, runs under vm_compute in the correspondence check;
   sqrt is a rational lower bracket of resolution 2^-32) and NR (Coq reals, for theorems). *)
From Coq Require Import ZArith QArith Qround Reals.

Record num := {
  T : Type;
  ofQ : Q -> T;
  add : T -> T -> T;
  sub : T -> T -> T;
  mul : T -> T -> T;
  div : T -> T -> T;
  leb : T -> T -> bool;      (* a <= b *)
  eqb : T -> T -> bool;
  sqrt_ : T -> T
}.

(* ---------------------------------------------------------------- Q instance *)
(* floor(sqrt(x) * 2^32) / 2^32  for x >= 0 : a lower bound of sqrt x, within 2^-32 *)
Definition qsqrt_bits : Z := 32.
Definition qsqrt (x : Q) : Q :=
  Z.sqrt (Qfloor (x * inject_Z (2 ^ (2 * qsqrt_bits)))) # (2 ^ 32).

Definition NQ : num := {|
  T := Q;
  ofQ := fun q => q;
  add := fun a b => Qred (a + b);
  sub := fun a b => Qred (a - b);
  mul := fun a b => Qred (a * b);
  div := fun a b => Qred (a / b);
  leb := Qle_bool;
  eqb := Qeq_bool;
  sqrt_ := qsqrt
|}.

(* ---------------------------------------------------------------- R instance *)
Definition Rleb (a b : R) : bool := if Rle_dec a b then true else false.
Definition Reqb (a b : R) : bool := if Req_EM_T a b then true else false.

Definition NR : num := {|
  T := R;
  ofQ := Q2R;
  add := Rplus;
  sub := Rminus;
  mul := Rmult;
  div := Rdiv;
  leb := Rleb;
  eqb := Reqb;
  sqrt_ := sqrt
|}.

Lemma Rleb_true a b : (a <= b)%R -> Rleb a b = true.
Proof. intro H. unfold Rleb. destruct (Rle_dec a b); [reflexivity | contradiction]. Qed.
Lemma Rleb_false a b : (b < a)%R -> Rleb a b = false.
Proof. intro H. unfold Rleb. destruct (Rle_dec a b) as [H'|]; [|reflexivity].
  exfalso. apply (Rlt_irrefl a). eapply Rle_lt_trans; eauto. Qed.
Lemma Reqb_true a b : a = b -> Reqb a b = true.
Proof. intro H. unfold Reqb. destruct (Req_EM_T a b); [reflexivity | contradiction]. Qed.
Lemma Reqb_false a b : a <> b -> Reqb a b = false.
Proof. intro H. unfold Reqb. destruct (Req_EM_T a b); [contradiction | reflexivity]. Qed.
