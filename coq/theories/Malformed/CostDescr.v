(* C06 - strict progress of the item readers inside the loops of the payload models (Psd/Descriptor.v, Effects.v,
   Patterns.v, Leaf.v), and sufficiency of their fuel on arbitrary bytes.

   Loops of the real code and the item reader each one runs:
     descriptor.py:87   for _ in range(count): key, OSType, value      read_key + read_ostype + read_dval  >= 9 bytes
     descriptor.py:226  for _ in range(count): OSType, value           read_ostype + read_dval             >= 5 bytes
     descriptor.py      UnitFloats: read_fmt("%dd" % count)            one read of 8 * count bytes (IOError when short)
     effects_layer.py:423 for _ in range(count): signature, key, block read_effect_items                   >= 12 bytes
     patterns.py:153    for _ in range(num_channels + 2): VMA.read     read_vma                            >= 4 bytes
     patterns.py:41     while is_readable(fp, 4): read_length_block    read_patterns                       >= 4 bytes
     tagged_blocks.py:437 while is_readable(fp, 4): read_fmt("I")      read_u32_list                       = 4 bytes
   Every value reader of the descriptor family consumes at least one byte when it succeeds ([dval_prog]); no item
   reader of these files can succeed without consuming. *)
From PsdV Require Import Base.Prelude Psd.Codec Psd.Model Psd.Leaf Psd.Descriptor Psd.Effects Psd.Patterns.
From PsdV Require Import Malformed.CostBase Malformed.CostProgress Malformed.CostTotal.
From Coq Require Import ZArith List Bool Lia ZifyBool.
Import ListNotations.
Open Scope Z_scope.

(* ------------------------------------------------------------------ descriptor *)
Global Instance key_prog t : Prog (read_key t) 4.
Proof. intros s x H. unfold read_key in H. inv H. done_ok H. Qed.
Global Instance ostype_prog : Prog read_ostype 4.
Proof.
  intros s x H. unfold read_ostype in H. inv H. apply ok_inj in H. subst x.
  match goal with E : _ && _ = true |- _ => apply andb_prop in E; destruct E as [E _] end. fin.
Qed.

Section Items.
  Variable rd : terms -> Z -> stream -> res (dval * terms * stream).
  Hypothesis rd_prog : forall t os, Prog (rd t os) 1.
  Local Existing Instance rd_prog.

  (* one (key, type, value) item: >= 4 + 4 + 1 bytes; the declared count is bounded by the data *)
  Global Instance items_prog n : forall t, Prog (read_items rd n t) (9 * n).
  Proof.
    induction n as [|n IH]; intros t s x H; cbn [read_items] in H.
    - injection H as <-. cbn [snd]. lia.
    - inv H. injection H as <-. cbn [fst snd] in *. lia.
  Qed.
  Global Instance list_items_prog n : forall t, Prog (read_list_items rd n t) (5 * n).
  Proof.
    induction n as [|n IH]; intros t s x H; cbn [read_list_items] in H.
    - injection H as <-. cbn [snd]. lia.
    - inv H. injection H as <-. cbn [fst snd] in *. lia.
  Qed.
End Items.

(* every descriptor value reader consumes at least one byte when it succeeds *)
Global Instance dval_prog units fuel : forall t os, Prog (read_dval units fuel t os) 1.
Proof.
  induction fuel as [|f IH]; intros t os s x H; [discriminate|].
  lazy beta iota zeta delta [read_dval] in H; fold (read_dval units f) in H. inv H; done_ok H.
Qed.

(* ---- fuel: S (length s) is enough, on every input *)
Definition nf (e : err) : Prop := e <> OutOfFuel.
Lemma io_nf e : io_class e -> nf e.
Proof. unfold io_class, nf. intros [H | [H | H]]; subst e; discriminate. Qed.
Ltac nf_solve H :=
  solve [ injection H as <-;
          repeat match goal with T : io_class _ |- _ => apply io_nf in T end;
          unfold nf in *; first [assumption | discriminate | congruence] ].

Lemma units_of_err : forall l e, units_of l = Err e -> e = ValueErr.
Proof.
  fix IH 1. intros [|a [|b l]] e H; cbn [units_of] in H; try discriminate.
  - injection H as <-. reflexivity.
  - unfold bind in H. destruct (units_of l) eqn:E1; [discriminate|]. injection H as <-. exact (IH l _ E1).
Qed.
Global Instance unicode_tot pad s : Tot (r_unicode pad s) io_class.
Proof.
  intros e H. unfold r_unicode in H. tinv H; try cls_solve H.
  injection H as <-.
  match goal with E : units_of _ = Err _ |- _ => apply units_of_err in E; subst end.
  right. left. reflexivity.
Qed.
Global Instance key_tot t s : Tot (read_key t s) io_class.
Proof. intros e H. unfold read_key in H. tinv H; cls_solve H. Qed.
Global Instance ostype_tot s : Tot (read_ostype s) io_class.
Proof. intros e H. unfold read_ostype in H. tinv H; cls_solve H. Qed.

Section ItemsFuel.
  Variable rd : terms -> Z -> stream -> res (dval * terms * stream).
  Variable L : Z.
  Hypothesis rd_prog : forall t os, Prog (rd t os) 1.
  Hypothesis rd_nf : forall t os s, len s <= L -> Tot (rd t os s) nf.
  Local Existing Instance rd_prog.

  Lemma items_nf n : forall t s, len s <= L -> Tot (read_items rd n t s) nf.
  Proof.
    induction n as [|n IH]; intros t s Hs e H; cbn [read_items] in H; [discriminate|].
    tinv H; try nf_solve H.
    - injection H as <-. cbn [fst snd] in *.
      match goal with E : read_items rd n _ _ = Err _ |- _ => eapply IH in E; [exact E|lia] end.
    - injection H as <-. cbn [fst snd] in *.
      match goal with E : rd _ _ _ = Err _ |- _ => eapply rd_nf in E; [exact E|lia] end.
  Qed.
  Lemma list_items_nf n : forall t s, len s <= L -> Tot (read_list_items rd n t s) nf.
  Proof.
    induction n as [|n IH]; intros t s Hs e H; cbn [read_list_items] in H; [discriminate|].
    tinv H; try nf_solve H.
    - injection H as <-. cbn [fst snd] in *.
      match goal with E : read_list_items rd n _ _ = Err _ |- _ => eapply IH in E; [exact E|lia] end.
    - injection H as <-. cbn [fst snd] in *.
      match goal with E : rd _ _ _ = Err _ |- _ => eapply rd_nf in E; [exact E|lia] end.
  Qed.
End ItemsFuel.

Lemma dval_nf units fuel : forall t os s, len s < Z.of_nat fuel -> Tot (read_dval units fuel t os s) nf.
Proof.
  induction fuel as [|f IH]; intros t os s Hf e H; [pose proof (len_nonneg s); lia|].
  assert (IH' : forall t os s, len s <= Z.of_nat f - 1 -> Tot (read_dval units f t os s) nf).
  { intros t0 os0 s0 Hs0. apply IH. lia. }
  lazy beta iota zeta delta [read_dval] in H; fold (read_dval units f) in H. tinv H; try nf_solve H.
  all: injection H as <-; cbn [fst snd] in *.
  all: first
    [ match goal with E : read_items _ _ _ _ = Err _ |- _ =>
        eapply (items_nf _ (Z.of_nat f - 1) (dval_prog units f) IH') in E; [exact E|lia] end
    | match goal with E : read_list_items _ _ _ _ = Err _ |- _ =>
        eapply (list_items_nf _ (Z.of_nat f - 1) (dval_prog units f) IH') in E; [exact E|lia] end
    | match goal with E : read_n _ (read_u 8) _ = Err _ |- _ =>
        apply (read_n_tot (read_u 8) io_class _ (read_u_tot 8)) in E; apply io_nf in E; exact E end ].
Qed.

(* DescriptorBlock / DescriptorBlock2.read on ANY bytes: never OutOfFuel *)
Global Instance dblock_tot units two t s : Tot (read_dblock units two t s) nf.
Proof.
  intros e H. unfold read_dblock in H. destruct two; tinv H; try nf_solve H.
  all: injection H as <-.
  all: match goal with E : read_dval _ _ _ _ ?s1 = Err _ |- _ =>
         apply (dval_nf units (S (length s1)) t OS_Objc s1) in E; [exact E|unfold len; lia] end.
Qed.
Theorem dblock_fuel_sufficient units two t s : read_dblock units two t s <> Err OutOfFuel.
Proof. intros H. exact (dblock_tot units two t s _ H eq_refl). Qed.

(* ------------------------------------------------------------------ effects *)
Global Instance effect_items_prog n : Prog (read_effect_items n) (12 * n).
Proof.
  induction n as [|n IH]; intros s x H; cbn [read_effect_items] in H.
  - injection H as <-. cbn [snd]. lia.
  - inv H. injection H as <-. cbn [fst snd] in *. lia.
Qed.

(* ------------------------------------------------------------------ patterns *)
Global Instance vma_prog : Prog read_vma 4.
Proof. intros s x H. unfold read_vma in H. inv H; done_ok H. Qed.
(* VirtualMemoryArrayList.read: num_channels + 2 arrays of >= 4 bytes each inside the block *)
Lemma vmal_count s v s' : read_vmal s = Ok (v, s') -> 4 * len (vl_channels v) + 28 + len s' <= len s.
Proof.
  intros H. unfold read_vmal in H. inv H. injection H as <- <-. cbn [vl_channels].
  repeat match goal with F : _ /\ _ |- _ => destruct F end. fin.
Qed.
Global Instance rgb3_tot s : Tot (r_rgb3 s) io_class.
Proof. intros e H. unfold r_rgb3, r_rgb in H. tinv H; cls_solve H. Qed.
Global Instance vma_tot s : Tot (read_vma s) io_class.
Proof. intros e H. unfold read_vma in H. tinv H; cls_solve H. Qed.
Global Instance vmal_tot s : Tot (read_vmal s) io_class.
Proof. intros e H. unfold read_vmal in H. tinv H; cls_solve H. Qed.
Section Patt.
  Variable dec_s : list Z -> res (list Z).
  Ltac cs H := solve [injection H as <-; unfold cls, dec_class, io_class in *; intuition eauto].
  Global Instance pattern_tot s : Tot (read_pattern dec_s s) (cls dec_s).
  Proof. intros e H. unfold read_pattern in H. tinv H; cs H. Qed.
  (* Patterns.read on ANY bytes: the fuel is enough, the outcome is Ok or an ordinary error *)
  Lemma patterns_tot fuel : forall s, (length s < fuel)%nat -> Tot (read_patterns dec_s fuel s) (cls dec_s).
  Proof.
    induction fuel as [|f IH]; intros s Hf e H; [lia|]. cbn [read_patterns] in H.
    tinv H; try cs H.
    injection H as <-. eapply IH; [|eassumption]. cbn [snd] in *. unfold len in *. lia.
  Qed.
End Patt.

(* ------------------------------------------------------------------ leaf: ChannelBlendingRestrictionsSetting *)
Lemma u32_list_tot fuel : forall s, (length s < fuel)%nat -> Tot (read_u32_list fuel s) io_class.
Proof.
  induction fuel as [|f IH]; intros s Hf e H; [lia|]. cbn [read_u32_list] in H.
  tinv H; try cls_solve H.
  injection H as <-. eapply IH; [|eassumption]. cbn [snd] in *. unfold len in *. lia.
Qed.
(* read_leaf on ANY bytes, every modelled payload class: never OutOfFuel *)
Global Instance leaf_tot k s : Tot (read_leaf k s) nf.
Proof.
  intros e H. destruct k; cbn [read_leaf] in H; unfold read_padded, read_color in H; tinv H; try nf_solve H; try discriminate H.
  all: injection H as <-.
  all: first
    [ match goal with E : read_u32_list _ _ = Err _ |- _ =>
        apply u32_list_tot in E; [apply io_nf in E; exact E|lia] end
    | match goal with E : read_n _ (if ?c then _ else _) _ = Err _ |- _ =>
        destruct c; apply tot in E; apply io_nf in E; exact E end ].
Qed.
Theorem leaf_fuel_sufficient k s : read_leaf k s <> Err OutOfFuel.
Proof. intros H. exact (leaf_tot k s _ H eq_refl). Qed.
