(* C06 - allocation on the model: the bytes MATERIALISED by all fp.read calls of the whole-file reader (weights
   0,0,1 of Malformed/CostTwin.v: every call of fp.read is charged the number of bytes it returned, including the
   peeks of is_readable, the re-reading of a block as a sub-stream, and what a section reader looked at past its
   declared end) are linear in the size of the data:
     bytes (read_psd_t b) <= 6 * length b     for EVERY byte string b.
   No declared length or count can make the reader materialise more than a constant multiple of the file. *)
From PsdV Require Import Base.Prelude Psd.Codec Psd.Model Malformed.CostBase Malformed.CostProgress Malformed.CostTwin Malformed.CostProofs.
From Coq Require Import ZArith List Bool Lia ZifyBool.
Import ListNotations.
Open Scope Z_scope.

Notation Bt x := (x W_bytes) (only parsing).

Global Instance rlb_bspec pre nb pad : Spec (read_length_block pre nb pad) (Bt rlb_t pre nb pad) 0 1.
Proof. intros s. unfold rlb_t, read_length_block. cgo. Qed.
Global Instance pascal_bspec dec_s pad : Spec (r_pascal dec_s pad) (Bt pascal_t dec_s pad) 0 1.
Proof. intros s. unfold pascal_t, r_pascal. cgo. Qed.
Global Instance header_bspec : Spec read_header (Bt read_header_t) 0 1.
Proof. intros s. unfold read_header_t. cgo. Qed.

(* ---------------------------------------------------------------- tagged blocks *)
Lemma tagged_block_bspec v pad s :
  fst (Bt read_tagged_block_t v pad s) = read_tagged_block v pad s /\
  snd (Bt read_tagged_block_t v pad s) <=
    match read_tagged_block v pad s with Ok (Some (_, s1)) => len s - len s1 | Ok None => 4 | Err _ => len s end.
Proof. unfold read_tagged_block_t, read_tagged_block. cgo. Qed.
(* the 8-byte peek of is_readable is paid by the >= 12 bytes of the block *)
Global Instance tagged_items_bspec fuel : forall v pad budget,
  Spec (read_tagged_items fuel v pad budget) (Bt read_tagged_items_t fuel v pad budget) 12 2.
Proof.
  induction fuel as [|f IH]; intros v pad budget s; cbn [read_tagged_items_t read_tagged_items]; [cgo|].
  destruct (tagged_block_bspec v pad s) as [E B].
  destruct (Bt read_tagged_block_t v pad s) as [r t]. cbn [fst snd] in E, B. subst r.
  cgo.
Qed.
Global Instance tagged_blocks_bspec v pad budget :
  Spec (read_tagged_blocks v pad budget) (Bt read_tagged_blocks_t v pad budget) 12 2.
Proof. intros s. unfold read_tagged_blocks_t, read_tagged_blocks. cgo. Qed.

(* ---------------------------------------------------------------- channel info / data *)
Global Instance channel_info_bspec v : Spec (read_channel_info v) (Bt read_channel_info_t v) 0 1.
Proof. intros s. unfold read_channel_info_t, read_channel_info. cgo. Qed.
Global Instance channel_data_bspec n : Spec (read_channel_data n) (Bt read_channel_data_t n) 0 1.
Proof. intros s. unfold read_channel_data_t, read_channel_data. cgo. Qed.

(* ---------------------------------------------------------------- mask *)
Global Instance mask_params_bspec : Spec read_mask_params (Bt read_mask_params_t) 0 1.
Proof. intros s. unfold read_mask_params_t, read_mask_params. cgo. Qed.
Global Instance mask_real_bspec : Spec read_mask_real (Bt read_mask_real_t) 0 1.
Proof. intros s. unfold read_mask_real_t, read_mask_real. cgo. Qed.
Global Instance mask_body_bspec : SpecV read_mask_body (Bt read_mask_body_t) 0 1.
Proof. intros s. unfold read_mask_body_t, read_mask_body. cgo. Qed.
(* the block is read, then parsed as a sub-stream *)
Global Instance mask_bspec : Spec read_mask (Bt read_mask_t) 0 2.
Proof. intros s. unfold read_mask_t, read_mask. cgo. Qed.

(* ---------------------------------------------------------------- blending ranges *)
Global Instance range_bspec : Spec read_range (Bt read_range_t) 0 1.
Proof. intros s. unfold read_range_t. cgo. Qed.
Global Instance range_list_bspec fuel : SpecV (read_range_list fuel) (Bt read_range_list_t fuel) 8 2.
Proof.
  induction fuel as [|f IH]; intros s; cbn [read_range_list_t read_range_list]; cgo.
Qed.
Global Instance ranges_bspec : Spec read_ranges (Bt read_ranges_t) 8 3.
Proof. intros s. unfold read_ranges_t, read_ranges. cgo. Qed.

(* ---------------------------------------------------------------- count-driven loops (an iteration returns no bytes) *)
Class SpecIb {A} (rd : stream -> res (A * stream)) (rdt : stream -> M (A * stream)) (kf c : Z) : Prop :=
  specib : forall s, fst (rdt s) = rd s /\
                     match rd s with
                     | Ok y => snd (rdt s) <= c * (len s - len (snd y))
                     | Err _ => snd (rdt s) <= kf + c * len s
                     end.
Lemma read_n_bspec {A} (rd : stream -> res (A * stream)) rdt kf c : SpecIb rd rdt kf c -> 0 <= kf ->
  forall n, SpecN (read_n n rd) (Bt read_n_t n rdt) kf c 0.
Proof.
  intros Hi Hk. induction n as [|n IH]; intros s; cbn [read_n_t read_n].
  - unfold mret. cbn [fst snd]. split; [reflexivity|]. lia.
  - destruct (Hi s) as [E B]. destruct (rdt s) as [r t]. cbn [fst snd] in E, B. subst r.
    unfold_twin. destruct (rd s) as [[a s1]|e]; cbv beta iota zeta; cbn [fst snd]; [|split; [reflexivity|lia]].
    destruct (IH s1) as [E1 B1]. destruct (Bt read_n_t n rdt s1) as [r1 t1]. cbn [fst snd] in E1, B1. subst r1.
    destruct (read_n n rd s1) as [[l s2]|e]; cbv beta iota zeta; cbn [fst snd] in *; (split; [reflexivity|]); lia.
Qed.

Global Instance channel_info_bspeci v : SpecIb (read_channel_info v) (Bt read_channel_info_t v) 0 1.
Proof.
  intros s. destruct (spec (ft := Bt read_channel_info_t v) s) as [E B]. split; [exact E|].
  unfold consumed in B. destruct (read_channel_info v s) eqn:H; [apply prog in H|]; fin.
Qed.
Global Instance channel_infos_bspec v n :
  SpecN (read_n n (read_channel_info v)) (Bt read_n_t n (Bt read_channel_info_t v)) 0 1 0.
Proof. apply read_n_bspec; [apply channel_info_bspeci|lia]. Qed.

Section Charset.
  Variable dec_s : list Z -> res (list Z).

  (* ---------------------------------------------------------------- image resources *)
  Global Instance resource_bspec : Spec (read_resource dec_s) (Bt read_resource_t dec_s) 0 1.
  Proof. intros s. unfold read_resource_t, read_resource. cgo. Qed.
  Global Instance resource_items_bspec fuel : SpecV (read_resource_items dec_s fuel) (Bt read_resource_items_t dec_s fuel) 4 2.
  Proof.
    induction fuel as [|f IH]; intros s; cbn [read_resource_items_t read_resource_items]; cgo.
  Qed.
  Global Instance resources_bspec : Spec (read_resources dec_s) (Bt read_resources_t dec_s) 4 3.
  Proof. intros s. unfold read_resources_t, read_resources. cgo. Qed.

  (* ---------------------------------------------------------------- LayerRecord *)
  Lemma record_bspec v : Spec (read_record dec_s v) (Bt read_record_t dec_s v) 20 4.
  Proof. intros s. unfold read_record_t, read_record. cgo. Qed.
  Global Instance record_bspeci v : SpecIb (read_record dec_s v) (Bt read_record_t dec_s v) 20 5.
  Proof.
    intros s. destruct (record_bspec v s) as [E B]. split; [exact E|].
    unfold consumed in B. destruct (read_record dec_s v s) eqn:H; [apply prog in H|]; fin.
  Qed.
  Global Instance records_bspec v n :
    SpecN (read_n n (read_record dec_s v)) (Bt read_n_t n (Bt read_record_t dec_s v)) 20 5 0.
  Proof. apply read_n_bspec; [apply record_bspeci|lia]. Qed.

  (* ---------------------------------------------------------------- LayerInfo *)
  Global Instance channel_list_bspec cis : SpecN (read_channel_list cis) (Bt read_channel_list_t cis) 0 1 0.
  Proof.
    induction cis as [|ci cis IH]; intros s; cbn [read_channel_list_t read_channel_list]; cgo.
  Qed.
  Global Instance channel_lists_bspec rs : Spec (read_channel_lists rs) (Bt read_channel_lists_t rs) 0 1.
  Proof.
    induction rs as [|r rs IH]; intros s; cbn [read_channel_lists_t read_channel_lists]; cgo.
  Qed.
  Global Instance li_body_bspec v : Spec (read_li_body dec_s v) (Bt read_li_body_t dec_s v) 20 5.
  Proof. intros s. unfold read_li_body_t, read_li_body. cgo. Qed.
  Global Instance layer_info_bspec v : Spec (read_layer_info dec_s v) (Bt read_layer_info_t dec_s v) 20 5.
  Proof. intros s. unfold read_layer_info_t, read_layer_info. cgo. Qed.

  (* ---------------------------------------------------------------- GlobalLayerMaskInfo *)
  Global Instance glmi_body_bspec : SpecV read_glmi_body (Bt read_glmi_body_t) 0 1.
  Proof. intros s. unfold read_glmi_body_t, read_glmi_body. cgo. Qed.
  (* a block of 1..12 bytes is read and then left unread: 16 bytes looked at, none consumed *)
  Global Instance glmi_bspec : Spec read_glmi (Bt read_glmi_t) 16 2.
  Proof. intros s. unfold read_glmi_t, read_glmi. cgo. Qed.

  (* ---------------------------------------------------------------- LayerAndMaskInformation *)
  Lemma lami_body_bspec v s n :
    fst (Bt read_lami_body_t dec_s v s n) = read_lami_body dec_s v s n /\
    snd (Bt read_lami_body_t dec_s v s n) <= 53 + 5 * len s.
  Proof. unfold read_lami_body_t, read_lami_body. cgo. Qed.
  Global Instance lami_bspec v : SpecV (read_lami dec_s v) (Bt read_lami_t dec_s v) 53 5.
  Proof.
    intros s. unfold read_lami_t, read_lami. unfold_twin.
    repeat first
      [ match goal with
        | |- context [Bt read_lami_body_t dec_s v ?s1 ?n] =>
            let E := fresh "E" in let B := fresh "B" in
            destruct (lami_body_bspec v s1 n) as [E B];
            let r := fresh "r" in let t := fresh "t" in
            destruct (Bt read_lami_body_t dec_s v s1 n) as [r t]; cbn [fst snd] in E, B; subst r
        end
      | cstep ].
    all: cfin.
  Qed.

  (* ---------------------------------------------------------------- ImageData, PSD *)
  Global Instance image_data_bspec : SpecV read_image_data (Bt read_image_data_t) 0 1.
  Proof. intros s. unfold read_image_data_t, read_image_data. cgo. Qed.

  Lemma read_psd_bspec b :
    fst (Bt read_psd_t dec_s b) = read_psd dec_s b /\ snd (Bt read_psd_t dec_s b) <= 6 * len b.
  Proof. unfold read_psd_t, read_psd, read_header_t, read_cmd_t, read_cmd. cgo. Qed.
End Charset.
