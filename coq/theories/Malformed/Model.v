(* C06 - the logic part of "malformed input fails safely":
   (1) psd_tools/psd/header.py FileHeader.read with its validators (format 4sH6xHIIHH);
   (2) count-driven read loops (descriptor items, list elements, layer records, channel lists):
       `for _ in range(count): items.append(read_item(fp))` over any item reader that either fails
       or consumes at least one byte - the loop shape of descriptor.py:82-94, 223-231, layer_and_mask.py:360-364. *)
From PsdV Require Import Base.Prelude.

(* ---------- big-endian unsigned fields *)
Definition be (l : list Z) : Z :=                       (* value of a big-endian byte string *)
  fold_left (fun acc b => acc * 256 + b) l 0.

Record header := {
  h_version : Z; h_channels : Z; h_height : Z; h_width : Z; h_depth : Z; h_mode : Z }.

Definition SIG : list Z := [56; 66; 80; 83].          (* "8BPS" *)
Definition color_modes : list Z := [0; 1; 2; 3; 4; 7; 8; 9].   (* ColorMode values; checked against the live enum *)

Definition zmem (x : Z) (l : list Z) : bool := existsb (Z.eqb x) l.

Definition valid_header (sig : list Z) (h : header) : bool :=
  list_eqb sig SIG
  && zmem (h_version h) [1; 2]
  && (1 <=? h_channels h) && (h_channels h <=? 56)
  && (1 <=? h_height h) && (h_height h <=? 300000)
  && (1 <=? h_width h) && (h_width h <=? 300000)
  && zmem (h_depth h) [1; 8; 16; 32]
  && zmem (h_mode h) color_modes.

(* FileHeader.read: read_fmt raises IOError on a short read; every validator/converter raises ValueError *)
Definition read_header (b : list Z) : res (header * list Z) :=
  if (length b <? 26)%nat then Err IOErr
  else
    let f (o n : nat) := be (firstn n (skipn o b)) in
    let h := {| h_version := f 4%nat 2%nat; h_channels := f 12%nat 2%nat; h_height := f 14%nat 4%nat;
                h_width := f 18%nat 4%nat; h_depth := f 22%nat 2%nat; h_mode := f 24%nat 2%nat |} in
    if valid_header (firstn 4 b) h then Ok (h, skipn 26 b) else Err ValueErr.

Definition be_bytes (n : nat) (v : Z) : list Z :=      (* n-byte big-endian *)
  (fix go (k : nat) (v : Z) (acc : list Z) :=
     match k with O => acc | S k' => go k' (v / 256) ((v mod 256) :: acc) end) n v [].

Definition write_header (h : header) : list Z :=
  SIG ++ be_bytes 2 (h_version h) ++ repeat 0 6 ++ be_bytes 2 (h_channels h) ++ be_bytes 4 (h_height h)
      ++ be_bytes 4 (h_width h) ++ be_bytes 2 (h_depth h) ++ be_bytes 2 (h_mode h).

(* ---------- count-driven loops *)
Section Loop.
  Variable A : Type.
  Variable item : list Z -> res (A * list Z).           (* reads one item from the remaining data *)

  (* for _ in range(count): ...   [count] is the declared (untrusted) count, any Z (up to 2^32-1 or 2^64-1).
     Returns the items, the rest, and the number of loop iterations started (ticks). *)
  Fixpoint read_items (fuel : nat) (count : Z) (s : list Z) (ticks : Z) : res (list A * list Z) * Z :=
    if count <=? 0 then (Ok ([], s), ticks)
    else match fuel with
         | O => (Err OutOfFuel, ticks)
         | S fuel' =>
             match item s with
             | Err e => (Err e, ticks + 1)
             | Ok (a, s') =>
                 let '(r, t) := read_items fuel' (count - 1) s' (ticks + 1) in
                 (match r with Ok (l, rest) => Ok (a :: l, rest) | Err e => Err e end, t)
             end
         end.
End Loop.

(* the item reader used by the correspondence check: descriptor.py List.read body with Integer ('long') items:
   OSType(fp.read(4)) raises ValueError for anything that is not a type code (the harness only generates
   'long' or non-type codes), Integer.read = read_fmt("i") raises IOError on a short read *)
Definition long_item (s : list Z) : res (Z * list Z) :=
  if list_eqb (firstn 4 s) [108; 111; 110; 103] then
    if (length (skipn 4 s) <? 4)%nat then Err IOErr
    else let v := be (firstn 4 (skipn 4 s)) in
         Ok ((if v <? 2147483648 then v else v - 4294967296), skipn 8 s)
  else Err ValueErr.

(* List element of a descriptor (descriptor.py List.read): count = read_fmt("I"), then count items *)
Definition read_list (s : list Z) : res (list Z * list Z) * Z :=
  if (length s <? 4)%nat then (Err IOErr, 0)
  else read_items Z long_item (S (length s)) (be (firstn 4 s)) (skipn 4 s) 0.

(* canonical observation for the correspondence check: outcome code, items parsed, loop iterations, bytes left *)
Definition observe_list (s : list Z) : list Z :=
  match read_list s with
  | (Ok (l, rest), t) => 0 :: Z.of_nat (length l) :: t :: Z.of_nat (length rest) :: l
  | (Err e, t) => [err_code e; t]
  end.

Definition observe_header (b : list Z) : list Z :=
  match read_header b with
  | Ok (h, rest) => [0; h_version h; h_channels h; h_height h; h_width h; h_depth h; h_mode h; Z.of_nat (length rest)]
  | Err e => [err_code e]
  end.
