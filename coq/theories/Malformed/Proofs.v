From PsdV Require Import Base.Prelude Malformed.Model.
From Coq Require Import ZifyBool.
Ltac Zify.zify_post_hook ::= Z.to_euclidean_division_equations.

Lemma skipn_app_exact_local {A} (a b : list A) : skipn (length a) (a ++ b) = b.
Proof. rewrite skipn_app, Nat.sub_diag, skipn_all. reflexivity. Qed.

(* ---------- header *)
Definition header_ok (sig : list Z) (h : header) : Prop :=
  sig = SIG /\ (h_version h = 1 \/ h_version h = 2)
  /\ 1 <= h_channels h <= 56 /\ 1 <= h_height h <= 300000 /\ 1 <= h_width h <= 300000
  /\ (h_depth h = 1 \/ h_depth h = 8 \/ h_depth h = 16 \/ h_depth h = 32)
  /\ In (h_mode h) color_modes.

Lemma zmem_In x l : zmem x l = true <-> In x l.
Proof.
  unfold zmem. rewrite existsb_exists. split.
  - intros [y [Hy E]]. apply Z.eqb_eq in E. subst. exact Hy.
  - intros H. exists x. split; [exact H|apply Z.eqb_refl].
Qed.

Lemma valid_header_spec sig h : valid_header sig h = true <-> header_ok sig h.
Proof.
  unfold valid_header, header_ok.
  rewrite !andb_true_iff, list_eqb_eq, !zmem_In, !Z.leb_le. cbn [In].
  intuition lia.
Qed.

Lemma read_header_valid b h rest :
  read_header b = Ok (h, rest) -> header_ok (firstn 4 b) h /\ rest = skipn 26 b /\ (26 <= length b)%nat.
Proof.
  unfold read_header. destruct (length b <? 26)%nat eqn:El; [discriminate|].
  match goal with |- context [valid_header ?s ?hh] => destruct (valid_header s hh) eqn:Ev end; [|discriminate].
  intros H. injection H as <- <-. apply valid_header_spec in Ev.
  split; [exact Ev|split; [reflexivity|]]. apply Nat.ltb_ge in El. exact El.
Qed.

Lemma read_header_outcomes b :
  (exists h, read_header b = Ok (h, skipn 26 b)) \/ read_header b = Err IOErr \/ read_header b = Err ValueErr.
Proof.
  unfold read_header. destruct (length b <? 26)%nat; [right; left; reflexivity|].
  match goal with |- context [valid_header ?s ?hh] => destruct (valid_header s hh) end;
    [left; eexists; reflexivity|right; right; reflexivity].
Qed.

Lemma read_header_short b : (length b < 26)%nat -> read_header b = Err IOErr.
Proof. intros H. unfold read_header. apply Nat.ltb_lt in H. rewrite H. reflexivity. Qed.

(* big-endian fields *)
Lemma be2 a b : be [a; b] = a * 256 + b. Proof. unfold be; cbn; lia. Qed.
Lemma be4 a b c d : be [a; b; c; d] = ((a * 256 + b) * 256 + c) * 256 + d. Proof. unfold be; cbn; lia. Qed.
Lemma be_bytes2 v : be_bytes 2 v = [(v / 256) mod 256; v mod 256]. Proof. reflexivity. Qed.
Lemma be_bytes4 v : be_bytes 4 v = [(v / 256 / 256 / 256) mod 256; (v / 256 / 256) mod 256; (v / 256) mod 256; v mod 256].
Proof. reflexivity. Qed.
Lemma be_be_bytes2 v : 0 <= v < 65536 -> be (be_bytes 2 v) = v.
Proof. intros H. rewrite be_bytes2, be2. lia. Qed.
Lemma be_be_bytes4 v : 0 <= v < 4294967296 -> be (be_bytes 4 v) = v.
Proof. intros H. rewrite be_bytes4, be4. lia. Qed.

Lemma write_header_length h : length (write_header h) = 26%nat.
Proof. reflexivity. Qed.

Lemma read_write_header h rest :
  header_ok SIG h -> read_header (write_header h ++ rest) = Ok (h, rest).
Proof.
  intros Hok. pose proof Hok as (_ & Hv & Hc & Hh & Hw & Hd & Hm).
  assert (Hmr : 0 <= h_mode h < 65536).
  { unfold color_modes in Hm. cbn [In] in Hm. lia. }
  unfold read_header. rewrite app_length, write_header_length.
  destruct (26 + length rest <? 26)%nat eqn:E; [apply Nat.ltb_lt in E; lia|].
  assert (F : forall o n, (o + n <= 26)%nat ->
            firstn n (skipn o (write_header h ++ rest)) = firstn n (skipn o (write_header h))).
  { intros o n Hon. rewrite skipn_app, firstn_app, skipn_length, write_header_length.
    replace (n - (26 - o))%nat with 0%nat by lia. rewrite firstn_O, app_nil_r. reflexivity. }
  rewrite !F by lia.
  replace (firstn 4 (write_header h ++ rest)) with SIG
    by (change (write_header h ++ rest) with (SIG ++ (skipn 4 (write_header h) ++ rest)); reflexivity).
  change (firstn 2 (skipn 4 (write_header h))) with (be_bytes 2 (h_version h)).
  change (firstn 2 (skipn 12 (write_header h))) with (be_bytes 2 (h_channels h)).
  change (firstn 4 (skipn 14 (write_header h))) with (be_bytes 4 (h_height h)).
  change (firstn 4 (skipn 18 (write_header h))) with (be_bytes 4 (h_width h)).
  change (firstn 2 (skipn 22 (write_header h))) with (be_bytes 2 (h_depth h)).
  change (firstn 2 (skipn 24 (write_header h))) with (be_bytes 2 (h_mode h)).
  rewrite !be_be_bytes2, !be_be_bytes4 by lia.
  destruct h as [v c hh w d m]; cbn [h_version h_channels h_height h_width h_depth h_mode] in *.
  apply valid_header_spec in Hok. rewrite Hok.
  reflexivity.
Qed.

(* ---------- count-driven loops *)
Section LoopProofs.
  Variable A : Type.
  Variable item : list Z -> res (A * list Z).
  Hypothesis progress : forall s a s', item s = Ok (a, s') -> (length s' < length s)%nat.

  (* the number of iterations is bounded by the data, whatever count the file declares *)
  Lemma read_items_ticks fuel : forall count s t,
    snd (read_items A item fuel count s t) <= t + Z.of_nat (length s) + 1.
  Proof.
    induction fuel as [|fuel IH]; intros count s t; cbn [read_items].
    - destruct (count <=? 0); cbn [snd]; lia.
    - destruct (count <=? 0); [cbn [snd]; lia|].
      destruct (item s) as [[a s']|e] eqn:Ei; [|cbn [snd]; lia].
      specialize (IH (count - 1) s' (t + 1)). apply progress in Ei.
      destruct (read_items A item fuel (count - 1) s' (t + 1)) as [r t'].
      cbn [snd] in *. lia.
  Qed.

  (* fuel = length of the data + 1 is always enough: the model never "runs out" *)
  Hypothesis item_total : forall s, item s <> Err OutOfFuel.

  Lemma read_items_fuel fuel : forall count s t,
    (length s < fuel)%nat -> fst (read_items A item fuel count s t) <> Err OutOfFuel.
  Proof.
    induction fuel as [|fuel IH]; intros count s t Hf; [lia|].
    cbn [read_items]. destruct (count <=? 0); [cbn [fst]; discriminate|].
    destruct (item s) as [[a s']|e] eqn:Ei.
    - pose proof (progress _ _ _ Ei) as Hp.
      specialize (IH (count - 1) s' (t + 1) ltac:(lia)).
      destruct (read_items A item fuel (count - 1) s' (t + 1)) as [[[l rest]|e] t']; cbn [fst] in *.
      + discriminate.
      + exact IH.
    - cbn [fst]. intro H. apply (item_total s). rewrite Ei. injection H as ->. reflexivity.
  Qed.

  (* a declared count larger than the data can never be satisfied: the loop ends in an error *)
  Lemma read_items_overcount fuel : forall count s t l rest t',
    read_items A item fuel count s t = (Ok (l, rest), t') ->
    Z.of_nat (length l) = Z.max count 0 /\ Z.max count 0 <= Z.of_nat (length s) /\ t' = t + Z.max count 0.
  Proof.
    induction fuel as [|fuel IH]; intros count s t l rest t'; cbn [read_items].
    - destruct (count <=? 0) eqn:E; [|discriminate]. intros H; injection H as <- <- <-. cbn [length]. lia.
    - destruct (count <=? 0) eqn:E; [intros H; injection H as <- <- <-; cbn [length]; lia|].
      destruct (item s) as [[a s']|e] eqn:Ei; [|discriminate].
      pose proof (progress _ _ _ Ei) as Hp.
      destruct (read_items A item fuel (count - 1) s' (t + 1)) as [[[l0 rest0]|e] t0] eqn:Er; [|discriminate].
      intros H; injection H as <- <- <-.
      destruct (IH _ _ _ _ _ _ Er) as (H1 & H2 & H3). cbn [length]. lia.
  Qed.
End LoopProofs.

Lemma long_item_progress s a s' : long_item s = Ok (a, s') -> (length s' < length s)%nat.
Proof.
  unfold long_item. destruct (list_eqb _ _); [|discriminate].
  destruct (length (skipn 4 s) <? 4)%nat eqn:E; [discriminate|].
  intros H. assert (Hs : s' = skipn 8 s) by congruence. subst s'.
  apply Nat.ltb_ge in E. rewrite skipn_length in E. rewrite skipn_length. lia.
Qed.

Lemma long_item_total s : long_item s <> Err OutOfFuel.
Proof.
  unfold long_item. destruct (list_eqb _ _); [|discriminate].
  destruct (length (skipn 4 s) <? 4)%nat; discriminate.
Qed.

(* List.read on any bytes: terminates (no OutOfFuel), at most one iteration per 8 bytes of data... bounded by the data *)
Lemma read_list_bounded s :
  fst (read_list s) <> Err OutOfFuel /\ snd (read_list s) <= Z.of_nat (length s).
Proof.
  unfold read_list. destruct (length s <? 4)%nat eqn:E; [cbn; split; [discriminate|lia]|].
  apply Nat.ltb_ge in E. split.
  - apply read_items_fuel; [exact long_item_progress|exact long_item_total|]. rewrite skipn_length. lia.
  - pose proof (read_items_ticks Z long_item long_item_progress (S (length s)) (be (firstn 4 s)) (skipn 4 s) 0) as H.
    rewrite skipn_length in H. lia.
Qed.
