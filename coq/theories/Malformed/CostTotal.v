(* C06 - totality of the readers of Psd/Model.v on arbitrary bytes: every outcome is Ok or an ordinary error class
   (IOError, ValueError, AssertionError, or what the charset decoder raises); the fuel the model passes to its
   while-loops (S (length s)) is always enough - [Err OutOfFuel] is unreachable, on every input. *)
From PsdV Require Import Base.Prelude Psd.Codec Psd.Model Malformed.CostBase Malformed.CostProgress.
From Coq Require Import ZArith List Bool Lia ZifyBool.
Import ListNotations.
Open Scope Z_scope.

Class Tot {A} (r : res A) (P : err -> Prop) : Prop := tot : forall e, r = Err e -> P e.

Definition io_class (e : err) : Prop := e = IOErr \/ e = ValueErr \/ e = AssertErr.

Ltac note_err E := try (let T := fresh "T" in pose proof (tot _ E) as T).
Ltac tinv1 H :=
  cbv beta iota zeta in H;
  lazymatch type of H with
  | match ?x0 with _ => _ end = _ =>
      head_scrut x0 ltac:(fun x =>
        first [ is_var x; destruct x
              | let E := fresh "E" in destruct x eqn:E; try discriminate H; try note E; try note_err E ]);
      try discriminate H
  end.
Ltac tinv H := unfold r_opt in H; unfold bind in H; repeat tinv1 H.
Ltac cls_solve H := solve [injection H as <-; unfold io_class in *; intuition eauto].

Global Instance take_tot n s : Tot (take n s) io_class.
Proof. intros e H. unfold take in H. destruct (_ && _); [discriminate|]. injection H as <-. left. reflexivity. Qed.
Global Instance read_u_tot n s : Tot (read_u n s) io_class.
Proof. intros e H. unfold read_u in H. tinv H. cls_solve H. Qed.
Global Instance read_s_tot n s : Tot (read_s n s) io_class.
Proof. intros e H. unfold read_s in H. tinv H. cls_solve H. Qed.
Global Instance rlb_tot pre nb pad s : Tot (read_length_block pre nb pad s) io_class.
Proof. intros e H. unfold read_length_block in H. tinv H; cls_solve H. Qed.
Global Instance read_n_tot {A} (rd : stream -> res (A * stream)) P n :
  (forall s, Tot (rd s) P) -> forall s, Tot (read_n n rd s) P.
Proof.
  intros Hrd. induction n as [|n IH]; intros s e H; cbn [read_n] in H; [discriminate|].
  tinv H.
  - apply IH in E0. injection H as <-. exact E0.
  - injection H as <-. exact T.
Qed.

Global Instance header_tot s : Tot (read_header s) io_class.
Proof. intros e H. unfold read_header in H. tinv H; cls_solve H. Qed.
Global Instance cmd_tot s : Tot (read_cmd s) io_class.
Proof. intros e H. unfold read_cmd in H. apply tot in H. exact H. Qed.

(* ("I","Q")[version - 1]: IndexError for a version outside {-1, 0, 1, 2} - excluded by the header validator *)
Definition ver_ok (v : Z) : Prop := v = 1 \/ v = 2.
Lemma len_bytes_ok v : ver_ok v -> exists nb, len_bytes v = Ok nb /\ (nb = 4 \/ nb = 8)%nat.
Proof. intros [-> | ->]; cbn; eauto. Qed.
Lemma header_ver_ok s h s' : read_header s = Ok (h, s') -> ver_ok (h_version h).
Proof.
  intros H. unfold read_header in H. inv H. injection H as <- <-. cbn [h_version].
  match goal with E : header_valid _ = true |- _ => unfold header_valid in E; cbn [h_version] in E;
    repeat (apply andb_prop in E; destruct E as [E ?]) end.
  match goal with E : memz _ model_versions = true |- _ => unfold memz, model_versions in E; cbn [existsb] in E end.
  unfold ver_ok. lia.
Qed.

Global Instance channel_info_tot v s : ver_ok v -> Tot (read_channel_info v s) io_class.
Proof.
  intros Hv e H. unfold read_channel_info in H. destruct (len_bytes_ok v Hv) as (nb & Hnb & _); rewrite Hnb in H.
  tinv H; cls_solve H.
Qed.
Global Instance channel_data_tot n s : Tot (read_channel_data n s) io_class.
Proof. intros e H. unfold read_channel_data in H. tinv H; cls_solve H. Qed.
Global Instance mask_params_tot s : Tot (read_mask_params s) io_class.
Proof. intros e H. unfold read_mask_params in H. tinv H; cls_solve H. Qed.
Global Instance mask_real_tot s : Tot (read_mask_real s) io_class.
Proof. intros e H. unfold read_mask_real in H. tinv H; cls_solve H. Qed.
Global Instance mask_body_tot s : Tot (read_mask_body s) io_class.
Proof. intros e H. unfold read_mask_body in H. tinv H; cls_solve H. Qed.
Global Instance mask_tot s : Tot (read_mask s) io_class.
Proof. intros e H. unfold read_mask in H. tinv H; cls_solve H. Qed.
Global Instance range_tot s : Tot (read_range s) io_class.
Proof. intros e H. unfold read_range in H. tinv H; cls_solve H. Qed.

(* ------------------------------------------------------------------ the while loops: fuel > length is enough *)
Lemma range_list_tot fuel : forall s e, (length s < fuel)%nat -> read_range_list fuel s = Err e -> io_class e.
Proof.
  induction fuel as [|f IH]; intros s e Hf H; [lia|]. cbn [read_range_list] in H.
  tinv H.
  - injection H as <-. eapply IH; [|eassumption]. cbn [snd] in *. unfold len in *. lia.
  - cls_solve H.
Qed.
Global Instance ranges_tot s : Tot (read_ranges s) io_class.
Proof.
  intros e H. unfold read_ranges in H. tinv H; try cls_solve H.
  injection H as <-. eapply range_list_tot; [|eassumption]. lia.
Qed.

Global Instance tagged_block_tot v pad s : Tot (read_tagged_block v pad s) io_class.
Proof. intros e H. unfold read_tagged_block in H. tinv H; cls_solve H. Qed.
Lemma tagged_items_tot fuel : forall v pad budget s e,
  (length s < fuel)%nat -> read_tagged_items fuel v pad budget s = Err e -> io_class e.
Proof.
  induction fuel as [|f IH]; intros v pad budget s e Hf H; [lia|]. cbn [read_tagged_items] in H.
  tinv H; try cls_solve H.
  all: injection H as <-.
  all: match goal with E1 : read_tagged_block _ _ _ = Ok (Some _) |- _ => apply read_tagged_block_progress in E1 end.
  all: eapply IH; [|eassumption]; unfold len in *; lia.
Qed.
Global Instance tagged_blocks_tot v pad budget s : Tot (read_tagged_blocks v pad budget s) io_class.
Proof.
  intros e H. unfold read_tagged_blocks in H. tinv H. injection H as <-.
  eapply tagged_items_tot; [|eassumption]. lia.
Qed.

Section Readers.
  Variable dec_s : list Z -> res (list Z).
  (* what the charset step (bytes.decode(encoding)) may raise *)
  Definition dec_class (e : err) : Prop := exists x, dec_s x = Err e.
  Definition cls (e : err) : Prop := io_class e \/ dec_class e.
  Ltac cs H := solve [injection H as <-; unfold cls, dec_class, io_class in *; intuition eauto].

  Global Instance pascal_tot pad s : Tot (r_pascal dec_s pad s) cls.
  Proof. intros e H. unfold r_pascal in H. tinv H; cs H. Qed.

  Global Instance resource_tot s : Tot (read_resource dec_s s) cls.
  Proof. intros e H. unfold read_resource in H. tinv H; cs H. Qed.
  Lemma resource_items_tot fuel : forall s e, (length s < fuel)%nat -> read_resource_items dec_s fuel s = Err e -> cls e.
  Proof.
    induction fuel as [|f IH]; intros s e Hf H; [lia|]. cbn [read_resource_items] in H.
    tinv H.
    - injection H as <-. eapply IH; [|eassumption]. cbn [snd] in *. unfold len in *. lia.
    - cs H.
  Qed.
  Global Instance resources_tot s : Tot (read_resources dec_s s) cls.
  Proof.
    intros e H. unfold read_resources in H. tinv H; try cs H.
    injection H as <-. eapply resource_items_tot; [|eassumption]. lia.
  Qed.

  Section Ver.
    Variable v : Z.
    Hypothesis Hv : ver_ok v.
    Local Existing Instance channel_info_tot.
    Local Instance ci_tot s : Tot (read_channel_info v s) io_class := channel_info_tot v s Hv.

    Global Instance record_tot s : Tot (read_record dec_s v s) cls.
    Proof. intros e H. unfold read_record in H. tinv H; cs H. Qed.
    Global Instance channel_list_tot cis : forall s, Tot (read_channel_list cis s) cls.
    Proof.
      induction cis as [|ci cis IH]; intros s e H; cbn [read_channel_list] in H; [discriminate|].
      tinv H; cs H.
    Qed.
    Global Instance channel_lists_tot rs : forall s, Tot (read_channel_lists rs s) cls.
    Proof.
      induction rs as [|r rs IH]; intros s e H; cbn [read_channel_lists] in H; [discriminate|].
      tinv H; cs H.
    Qed.
    Global Instance li_body_tot s : Tot (read_li_body dec_s v s) cls.
    Proof. intros e H. unfold read_li_body in H. tinv H; cs H. Qed.
    Global Instance layer_info_tot s : Tot (read_layer_info dec_s v s) cls.
    Proof.
      intros e H. unfold read_layer_info in H. destruct (len_bytes_ok v Hv) as (nb & Hnb & _); rewrite Hnb in H.
      tinv H; cs H.
    Qed.
    Global Instance glmi_body_tot s : Tot (read_glmi_body s) io_class.
    Proof. intros e H. unfold read_glmi_body in H. tinv H; cls_solve H. Qed.
    Global Instance glmi_tot s : Tot (read_glmi s) io_class.
    Proof. intros e H. unfold read_glmi in H. tinv H; cls_solve H. Qed.
    Global Instance lami_body_tot s n : Tot (read_lami_body dec_s v s n) cls.
    Proof. intros e H. unfold read_lami_body in H. tinv H; cs H. Qed.
    Global Instance lami_tot s : Tot (read_lami dec_s v s) cls.
    Proof.
      intros e H. unfold read_lami in H. destruct (len_bytes_ok v Hv) as (nb & Hnb & _); rewrite Hnb in H.
      tinv H; cs H.
    Qed.
  End Ver.

  Global Instance image_data_tot s : Tot (read_image_data s) io_class.
  Proof. intros e H. unfold read_image_data in H. tinv H; cls_solve H. Qed.

  (* PSD.read on ANY byte string: Ok, or IOError / ValueError / AssertionError / an error of the charset decoder.
     In particular never OutOfFuel (the model's loops always have enough fuel) and never IndexError (the version
     that indexes ("I","Q") was validated by the header). *)
  Theorem read_psd_total b :
    (exists d, read_psd dec_s b = Ok d) \/ (exists e, read_psd dec_s b = Err e /\ cls e).
  Proof.
    destruct (read_psd dec_s b) as [d|e] eqn:H; [left; eauto|right]. exists e. split; [reflexivity|].
    unfold read_psd in H. tinv H; try cs H.
    all: match goal with E : read_header _ = Ok (?h, _) |- _ => pose proof (header_ver_ok _ _ _ E) as Hv end.
    all: match goal with E : read_lami _ _ _ = Err _ |- _ => apply (lami_tot _ Hv) in E end.
    all: cs H.
  Qed.

  Corollary read_psd_fuel_sufficient b :
    (forall x, dec_s x <> Err OutOfFuel) -> read_psd dec_s b <> Err OutOfFuel.
  Proof.
    intros Hd H. destruct (read_psd_total b) as [[d E]|[e [E C]]]; [congruence|].
    rewrite H in E. injection E as <-. destruct C as [[C|[C|C]]|[x C]]; try discriminate. exact (Hd x C).
  Qed.
End Readers.

(* with the codec the model is evaluated with (identity on byte strings): only the three ordinary classes *)
Corollary read_psd_raw_total b :
  (exists d, read_psd raw_codec b = Ok d) \/ (exists e, read_psd raw_codec b = Err e /\ io_class e).
Proof.
  destruct (read_psd_total raw_codec b) as [H|[e [H [C|[x C]]]]]; [left; exact H|right; eauto|right].
  exists e. split; [exact H|]. unfold raw_codec in C. destruct (forallb byteb x); [discriminate|].
  injection C as <-. right. left. reflexivity.
Qed.
