(* C06 - the statements of Properties/C06.v about the real readers, in explicit form (no type classes). *)
From PsdV Require Import Base.Prelude Psd.Codec Psd.Model Psd.Leaf Psd.Descriptor Psd.Effects Psd.Patterns.
From PsdV Require Import Malformed.CostBase Malformed.CostProgress Malformed.CostTotal Malformed.CostTwin
  Malformed.CostProofs Malformed.CostBytes Malformed.CostDescr.
From Coq Require Import ZArith List Bool Lia ZifyBool.
Import ListNotations.
Open Scope Z_scope.

Lemma prog_nat {A} (f : stream -> res (A * stream)) p : Prog f p ->
  forall s a s', f s = Ok (a, s') -> (length s' + p <= length s)%nat.
Proof. intros Hp s a s' H. apply Hp in H. cbn [snd] in H. unfold len in H. lia. Qed.

(* ------------------------------------------------------------------ 1. strict progress of the loop items *)
Lemma channel_info_progress v s a s' : read_channel_info v s = Ok (a, s') -> (length s' + 6 <= length s)%nat.
Proof. apply prog_nat. exact _. Qed.
Lemma layer_record_progress dec_s v s a s' : read_record dec_s v s = Ok (a, s') -> (length s' + 43 <= length s)%nat.
Proof. apply prog_nat. exact _. Qed.
Lemma channel_data_progress n s a s' : read_channel_data n s = Ok (a, s') -> (length s' + 2 <= length s)%nat.
Proof. apply prog_nat. exact _. Qed.
Lemma image_resource_progress dec_s s a s' : read_resource dec_s s = Ok (a, s') -> (length s' + 11 <= length s)%nat.
Proof. apply prog_nat. exact _. Qed.
Lemma blending_range_progress s a s' : read_range s = Ok (a, s') -> (length s' + 8 <= length s)%nat.
Proof. apply prog_nat. exact _. Qed.
Lemma mask_params_progress s a s' : read_mask_params s = Ok (a, s') -> (length s' + 1 <= length s)%nat.
Proof. apply prog_nat. exact _. Qed.
Lemma tagged_block_progress v pad s b s' : read_tagged_block v pad s = Ok (Some (b, s')) -> (length s' + 12 <= length s)%nat.
Proof. intros H. apply read_tagged_block_progress in H. unfold len in H. lia. Qed.
(* the one item reader of a while-loop that can succeed without consuming: its caller stops *)
Lemma tagged_block_none_stops f v pad budget s :
  read_tagged_block v pad s = Ok None -> read_tagged_items (S f) v pad budget s = Ok ([], s).
Proof. intros H. destruct (read_tagged_block_none_stops f v pad budget s H) as (r & E & _). exact E. Qed.
(* a successful count-driven loop read exactly the declared number of items, and the data was long enough *)
Lemma count_loop_bounded {A} (rd : stream -> res (A * stream)) (p n : nat) :
  (forall s a s', rd s = Ok (a, s') -> (length s' + p <= length s)%nat) ->
  forall s l s', read_n n rd s = Ok (l, s') -> length l = n /\ (length s' + n * p <= length s)%nat.
Proof.
  intros Hp s l s' H.
  assert (P : Prog rd p). { intros s0 [a s1] H0. apply Hp in H0. cbn [snd]. unfold len. lia. }
  destruct (read_n_count rd p n P s (l, s') H) as [H1 H2]. cbn [fst snd] in *. unfold len in *. split; lia.
Qed.
(* the loop over the records already read (one ChannelDataList.read each, possibly consuming nothing) runs
   |layer_count| iterations, and 43 * |layer_count| bytes were consumed before it starts *)
Lemma layer_count_bounded dec_s v s li s' :
  read_li_body dec_s v s = Ok (li, s') ->
  exists recs, li_records li = Some recs /\ Z.of_nat (length recs) = Z.abs (li_count li) /\
               (43 * length recs + 2 + length s' <= length s)%nat.
Proof.
  intros H. destruct (li_body_count dec_s v s li s' H) as (recs & H1 & H2 & H3).
  exists recs. unfold len in *. repeat split; [exact H1|lia|lia].
Qed.
(* GlobalLayerMaskInfo.read succeeds without consuming exactly when it leaves a short block unread; it is not in a loop *)
Lemma glmi_progress s g s' : read_glmi s = Ok (g, s') -> (s' = s /\ g = glmi_empty) \/ (length s' + 4 <= length s)%nat.
Proof. intros H. apply read_glmi_progress in H as [H|H]; [left; exact H|right; unfold len in H; lia]. Qed.

(* payload models *)
Lemma descriptor_value_progress units fuel t os s d t' s' :
  read_dval units fuel t os s = Ok (d, t', s') -> (length s' + 1 <= length s)%nat.
Proof. apply prog_nat. exact _. Qed.
Lemma descriptor_items_progress units fuel n t s r s' :
  read_items (read_dval units fuel) n t s = Ok (r, s') -> (length s' + 9 * n <= length s)%nat.
Proof. apply prog_nat. apply items_prog. exact _. Qed.
Lemma descriptor_list_items_progress units fuel n t s r s' :
  read_list_items (read_dval units fuel) n t s = Ok (r, s') -> (length s' + 5 * n <= length s)%nat.
Proof. apply prog_nat. apply list_items_prog. exact _. Qed.
Lemma effect_items_progress n s r s' : read_effect_items n s = Ok (r, s') -> (length s' + 12 * n <= length s)%nat.
Proof. apply prog_nat. exact _. Qed.
Lemma vma_progress s a s' : read_vma s = Ok (a, s') -> (length s' + 4 <= length s)%nat.
Proof. apply prog_nat. exact _. Qed.
Lemma vmal_channels_bounded s v s' :
  read_vmal s = Ok (v, s') -> (4 * length (vl_channels v) + 28 + length s' <= length s)%nat.
Proof. intros H. apply vmal_count in H. unfold len in H. lia. Qed.

(* ------------------------------------------------------------------ 3. allocation *)
Lemma read_exact_alloc n s a r : take n s = Ok (a, r) -> (length a <= length s)%nat.
Proof. intros H. exact (take_alloc_nat n s (a, r) H). Qed.
Lemma read_lenient_alloc n s : (length (fst (read_upto n s)) <= length s)%nat.
Proof. exact (read_upto_alloc n s). Qed.
Lemma length_block_alloc pre nb pad s d r : read_length_block pre nb pad s = Ok (d, r) -> (length d + pre + nb + length r <= length s)%nat.
Proof. intros H. apply CostBase.fact in H. cbv beta in H. cbn [fst snd] in H. unfold len in H. lia. Qed.

(* ------------------------------------------------------------------ 2. header of an accepted file *)
Lemma header_valid_spec h :
  header_valid h = true <->
  h_sig h = sig_8BPS /\ (h_version h = 1 \/ h_version h = 2) /\ 1 <= h_channels h <= 56 /\
  1 <= h_height h <= 300000 /\ 1 <= h_width h <= 300000 /\
  (h_depth h = 1 \/ h_depth h = 8 \/ h_depth h = 16 \/ h_depth h = 32) /\
  In (h_mode h) model_color_modes.
Proof.
  unfold header_valid, memz, model_versions, model_depths, model_channels_range, model_dim_range, model_color_modes.
  cbn [existsb fst snd In]. rewrite !andb_true_iff, !orb_true_iff, !Z.eqb_eq, !Z.leb_le. intuition lia.
Qed.
Lemma read_psd_header_valid dec_s b d : read_psd dec_s b = Ok d -> header_valid (p_header d) = true.
Proof.
  intros H. unfold read_psd in H. inv H. apply ok_inj in H. subst d. cbn [p_header].
  match goal with E : read_header _ = Ok _ |- _ => unfold read_header in E; inv E; apply ok_inj in E end.
  match goal with E : (_, _) = (_, _) |- _ => injection E as <- _ end. assumption.
Qed.

(* ------------------------------------------------------------------ cost, with explicit constants *)
Definition ticks {A} (m : M A) : Z := snd m.
Lemma twin_same_result dec_s b : fst (read_psd_t W_ticks dec_s b) = read_psd dec_s b.
Proof. exact (proj1 (read_psd_spec dec_s b)). Qed.
Lemma read_psd_cost dec_s b : ticks (read_psd_t W_ticks dec_s b) <= 2 * Z.of_nat (length b) + 1.
Proof. exact (proj2 (read_psd_spec dec_s b)). Qed.
Lemma twin_bytes_same_result dec_s b : fst (read_psd_t W_bytes dec_s b) = read_psd dec_s b.
Proof. exact (proj1 (read_psd_bspec dec_s b)). Qed.
Lemma read_psd_bytes dec_s b : ticks (read_psd_t W_bytes dec_s b) <= 6 * Z.of_nat (length b).
Proof. exact (proj2 (read_psd_bspec dec_s b)). Qed.
