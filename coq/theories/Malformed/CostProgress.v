(* C06 - strict progress of every item reader that Psd/Model.v runs inside a count- or budget-driven loop, and
   totality of the whole-file reader: the fuel the model passes is always enough, every outcome is Ok or an
   ordinary error class.

   Loops of the real code and the item reader each one runs (all in /repo/src/psd_tools/psd):
     layer_and_mask.py:457  [ChannelInfo.read ... for i in range(num_channels)]    read_channel_info   >= 6 bytes
     layer_and_mask.py:364  for _ in range(abs(layer_count)): LayerRecord.read       read_record         >= 43 bytes
     layer_and_mask.py:893  for c in channel_info: ChannelData.read                  read_channel_data   >= 2 bytes
     layer_and_mask.py:866  for layer in layer_records: ChannelDataList.read         read_channel_list   >= 0 bytes [1]
     layer_and_mask.py:337  while is_readable(fp, 8): read_channel_range             read_range          = 8 bytes
     tagged_blocks.py:171   while is_readable(fp, 8): TaggedBlock.read               read_tagged_block   >= 12 bytes, or None [2]
     image_resources.py:182 while is_readable(fp, 4): ImageResource.read             read_resource       >= 11 bytes
     layer_and_mask.py:819  MaskParameters.read (four optional fields, no loop)      read_mask_params    >= 1 byte
   [1]  a record without channels makes ChannelDataList.read succeed without consuming: the enclosing loop runs
        over the records ALREADY read, one iteration each, so it is bounded by (bytes consumed by the records)/43
        ([read_n_count], [read_channel_lists] is structural on that list) - not by a count taken from the file.
   [2] TaggedBlock.read returns None without consuming on an invalid signature; TaggedBlocks.read breaks on None
        ([read_tagged_block_none_stops]).
   The only other reader that can succeed without consuming is GlobalLayerMaskInfo.read (a block of 1..12 bytes is
   left unread: fp.seek(pos)); it is not run in a loop ([read_glmi_progress]). *)
From PsdV Require Import Base.Prelude Psd.Codec Psd.Model Malformed.CostBase.
From Coq Require Import ZArith List Bool Lia ZifyBool.
Import ListNotations.
Open Scope Z_scope.

(* ------------------------------------------------------------------ leaf readers *)
Global Instance header_prog : Prog read_header 26.
Proof. intros s x H. unfold read_header in H. inv H. done_ok H. Qed.
Global Instance cmd_prog : Prog read_cmd 4.
Proof. intros s x H. unfold read_cmd in H. apply prog in H. exact H. Qed.

Lemma len_bytes_cases v nb : len_bytes v = Ok nb -> nb = 4%nat \/ nb = 8%nat.
Proof.
  unfold len_bytes. repeat (destruct (_ =? _)); intros H; inversion H; auto.
Qed.
Lemma tb_len_bytes_cases v k : tb_len_bytes v k = 4%nat \/ tb_len_bytes v k = 8%nat.
Proof. unfold tb_len_bytes. destruct (_ && _); auto. Qed.

Global Instance channel_info_prog v : Prog (read_channel_info v) 6.
Proof.
  intros s x H. unfold read_channel_info in H. inv H. apply len_bytes_cases in E. done_ok H.
Qed.
Global Instance channel_data_prog n : Prog (read_channel_data n) 2.
Proof. intros s x H. unfold read_channel_data in H. inv H. done_ok H. Qed.
Global Instance channel_data_fact n :
  Fact (read_channel_data n) (fun s x => len (cd_data (fst x)) + 2 + len (snd x) = len s /\ 0 <= len (cd_data (fst x))).
Proof. intros s x H. unfold read_channel_data in H. inv H. injection H as <-. cbn [fst snd cd_data]. fin. Qed.

Global Instance mask_params_prog : Prog read_mask_params 1.
Proof. intros s x H. unfold read_mask_params in H. inv H; done_ok H. Qed.
Global Instance mask_real_prog : Prog read_mask_real 18.
Proof. intros s x H. unfold read_mask_real in H. inv H. done_ok H. Qed.
Global Instance mask_prog : Prog read_mask 4.
Proof. intros s x H. unfold read_mask in H. inv H; done_ok H. Qed.
Global Instance range_prog : Prog read_range 8.
Proof. intros s x H. unfold read_range in H. inv H. done_ok H. Qed.
Global Instance range_fact : Fact read_range (fun s x => len (snd x) + 8 = len s).
Proof. intros s x H. unfold read_range in H. inv H. injection H as <-. fin. Qed.
Global Instance ranges_prog : Prog read_ranges 4.
Proof. intros s x H. unfold read_ranges in H. inv H; done_ok H. Qed.

(* ------------------------------------------------------------------ tagged blocks *)
Lemma read_tagged_block_progress v pad s b s1 :
  read_tagged_block v pad s = Ok (Some (b, s1)) -> len s1 + 12 <= len s.
Proof.
  intros H. unfold read_tagged_block in H. inv H. injection H as <- <-.
  match goal with _ : read_length_block _ (tb_len_bytes v ?k) _ _ = _ |- _ => pose proof (tb_len_bytes_cases v k) end. fin.
Qed.
(* the only success without consumption: an invalid signature - the position is restored and the caller breaks *)
Lemma read_tagged_block_none v pad s :
  read_tagged_block v pad s = Ok None ->
  exists sg s1, read_u 4 s = Ok (sg, s1) /\ memz sg model_tb_sigs = false.
Proof.
  intros H. unfold read_tagged_block in H. inv H; try discriminate H.
  match goal with E : read_u 4 s = Ok (?z, ?l) |- _ => exists z, l; split; [reflexivity|];
    destruct (memz z model_tb_sigs); [discriminate|reflexivity] end.
Qed.
Lemma read_tagged_block_none_stops f v pad budget s :
  read_tagged_block v pad s = Ok None ->
  exists r, read_tagged_items (S f) v pad budget s = Ok ([], s) /\ r = tt.
Proof.
  intros H. exists tt. split; [|reflexivity]. cbn [read_tagged_items]. rewrite H.
  destruct (negb (is_readable 8 s)); [reflexivity|]. destruct budget as [b|]; [destruct (b <=? 0)|]; reflexivity.
Qed.

(* the while loop: every block read consumed >= 12 bytes; the position never moves back *)
Lemma read_tagged_items_progress fuel : forall v pad budget s x,
  read_tagged_items fuel v pad budget s = Ok x -> len (snd x) + 12 * len (fst x) <= len s.
Proof.
  induction fuel as [|f IH]; intros v pad budget s x H; cbn [read_tagged_items] in H; [discriminate|].
  inv H; injection H as <-; cbn [fst snd]; try (change (len (@nil tagged_block)) with 0; lia).
  all: match goal with E1 : read_tagged_block _ _ _ = Ok (Some _) |- _ => apply read_tagged_block_progress in E1 end.
  all: match goal with E2 : read_tagged_items _ _ _ _ _ = Ok _ |- _ => apply IH in E2 end.
  all: cbn [fst snd] in *; rewrite len_cons; lia.
Qed.
Global Instance tagged_items_prog fuel v pad budget : Prog (read_tagged_items fuel v pad budget) 0.
Proof. intros s x H. apply read_tagged_items_progress in H. pose proof (len_nonneg (fst x)). lia. Qed.
Global Instance tagged_blocks_prog v pad budget : Prog (read_tagged_blocks v pad budget) 0.
Proof. intros s x H. unfold read_tagged_blocks in H. inv H. done_ok H. Qed.

(* ------------------------------------------------------------------ count-driven loops: read_n *)
(* a successful loop read exactly n items and the data was long enough: n * p <= bytes consumed *)
Lemma read_n_count {A} (rd : stream -> res (A * stream)) p n : Prog rd p ->
  forall s x, read_n n rd s = Ok x -> len (fst x) = Z.of_nat n /\ len (snd x) + Z.of_nat n * Z.of_nat p <= len s.
Proof.
  intros Hp s x H. split; [exact (read_n_len rd n s x H)|]. apply prog in H. lia.
Qed.

Section Readers.
  Variable dec_s : list Z -> res (list Z).

  Global Instance resource_prog : Prog (read_resource dec_s) 11.
  Proof. intros s x H. unfold read_resource in H. inv H. done_ok H. Qed.
  Global Instance resources_prog : Prog (read_resources dec_s) 4.
  Proof. intros s x H. unfold read_resources in H. inv H. done_ok H. Qed.

  (* LayerRecord.read: 34 bytes of fixed fields and length markers + the mask length, the blending-range length
     and the name length inside the extra block *)
  Global Instance record_prog v : Prog (read_record dec_s v) 43.
  Proof. intros s x H. unfold read_record in H. inv H; done_ok H. Qed.

  Global Instance channel_list_prog cis : Prog (read_channel_list cis) (2 * length cis).
  Proof.
    induction cis as [|ci cis IH]; intros s x H; cbn [read_channel_list] in H.
    - injection H as <-. cbn [snd length]. lia.
    - inv H. injection H as <-. apply IH in E0. cbn [fst snd length] in *. lia.
  Qed.
  Global Instance channel_lists_prog rs : Prog (read_channel_lists rs) 0.
  Proof.
    induction rs as [|r rs IH]; intros s x H; cbn [read_channel_lists] in H.
    - injection H as <-. cbn [snd]. lia.
    - inv H. injection H as <-. apply IH in E0. cbn [fst snd] in *. lia.
  Qed.
  Global Instance li_body_prog v : Prog (read_li_body dec_s v) 2.
  Proof. intros s x H. unfold read_li_body in H. inv H. done_ok H. Qed.
  (* LayerInfo.read: the declared count of records is bounded by the data: 43 bytes each *)
  Lemma li_body_count v s li s' :
    read_li_body dec_s v s = Ok (li, s') ->
    exists recs, li_records li = Some recs /\ len recs = Z.abs (li_count li) /\ 43 * len recs + 2 + len s' <= len s.
  Proof.
    intros H. unfold read_li_body in H. inv H. injection H as <- <-.
    eexists. cbn [li_records li_count]. split; [reflexivity|]. fin.
  Qed.
  Global Instance layer_info_prog v : Prog (read_layer_info dec_s v) 4.
  Proof.
    intros s x H. unfold read_layer_info in H. inv H; apply len_bytes_cases in E; done_ok H.
  Qed.

  (* GlobalLayerMaskInfo.read: >= 4 bytes, except a block of 1..12 bytes, which is left unread (fp.seek(pos)) *)
  Lemma read_glmi_progress s g s' :
    read_glmi s = Ok (g, s') -> (s' = s /\ g = glmi_empty) \/ len s' + 4 <= len s.
  Proof.
    intros H. unfold read_glmi in H. inv H; injection H as <- <-; auto; right; fin.
  Qed.
  Global Instance glmi_prog : Prog read_glmi 0.
  Proof. intros s [g s'] H. apply read_glmi_progress in H as [[-> _]|H]; cbn [snd]; lia. Qed.

  Global Instance lami_prog v : Prog (read_lami dec_s v) 4.
  Proof.
    intros s x H. unfold read_lami in H. inv H; apply len_bytes_cases in E; done_ok H.
  Qed.
End Readers.

