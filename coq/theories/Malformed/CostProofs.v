(* C06 - the instrumented twin (Malformed/CostTwin.v) returns what Psd/Model.v returns, and its tick count
   (weights 1,1,0: one tick per fp.read call and per loop iteration) is linear in the size of the data:
     ticks (read_psd_t b) <= 2 * length b + 1   for EVERY byte string b, whatever counts and lengths it declares. *)
From PsdV Require Import Base.Prelude Psd.Codec Psd.Model Malformed.CostBase Malformed.CostProgress Malformed.CostTwin.
From Coq Require Import ZArith List Bool Lia ZifyBool.
Import ListNotations.
Open Scope Z_scope.

(* bytes a reader consumed: all that was left when it failed (an upper bound of what it looked at) *)
Definition consumed {A} (s : stream) (r : res (A * stream)) : Z :=
  match r with Ok x => len s - len (snd x) | Err _ => len s end.

(* [Spec f ft k c]: the twin [ft] returns what [f] returns and costs at most k + c * (bytes consumed) *)
Class Spec {A} (f : stream -> res (A * stream)) (ft : stream -> M (A * stream)) (k c : Z) : Prop :=
  spec : forall s, fst (ft s) = f s /\ snd (ft s) <= k + c * consumed s (f s).
(* readers of a whole sub-stream (no rest returned) *)
Class SpecV {A} (f : stream -> res A) (ft : stream -> M A) (k c : Z) : Prop :=
  specv : forall s, fst (ft s) = f s /\ snd (ft s) <= k + c * len s.

(* facts about the value returned by a reader without a rest (or with the rest inside an option) *)
Class FactV {A} (f : stream -> res A) (Q : stream -> A -> Prop) : Prop :=
  factv : forall s x, f s = Ok x -> Q s x.
Ltac notev E := let F := fresh "F" in pose proof (factv _ _ E) as F; cbv beta iota in F.

(* count-driven loops: a successful loop also pays [x] ticks per item read *)
Class SpecN {A} (f : stream -> res (list A * stream)) (ft : stream -> M (list A * stream)) (kf c x : Z) : Prop :=
  specn : forall s, fst (ft s) = f s /\
                    match f s with
                    | Ok y => snd (ft s) + x * len (fst y) <= c * (len s - len (snd y))
                    | Err _ => snd (ft s) <= kf + c * len s
                    end.

Ltac unfold_twin :=
  unfold opt_t; unfold fmt_t, upto_t, readable_t, pad_t; unfold mbind, charge, iter_t, pure, mret, merr;
  unfold r_opt; unfold bind; unfold consumed; cbv beta iota zeta; cbn [wr wi wb W_ticks W_bytes].

Ltac use_spec x :=
  lazymatch x with
  | ?ft ?s0 =>
      let E := fresh "E" in let B := fresh "B" in
      first [ destruct (spec (ft:=ft) s0) as [E B] | destruct (specv (ft:=ft) s0) as [E B] | destruct (specn (ft:=ft) s0) as [E B] ];
      let r := fresh "r" in let t := fresh "t" in
      destruct x as [r t]; cbn [fst snd] in E, B; unfold consumed in B; subst r
  end.
Ltac cstep :=
  cbv beta iota zeta;
  match goal with
  | |- context [match ?x0 with _ => _ end] =>
      head_scrut x0 ltac:(fun x =>
        let T := type of x in
        lazymatch T with
        | M _ => use_spec x
        | (res _ * Z)%type => use_spec x
        | _ => first [ is_var x; destruct x
                     | let E := fresh "E" in destruct x eqn:E; try rewrite E in * |-; try note E; try notev E ]
        end)
  end.
Ltac cfin := cbv beta iota zeta; cbn [fst snd]; split; [reflexivity | unfold is_readable, glmi_probe in *; fin].
Ltac cgo := unfold_twin; repeat cstep; cfin.

(* ------------------------------------------------------------------ weights (1,1,0): ticks *)
Notation T x := (x W_ticks) (only parsing).

Global Instance rlb_spec pre nb pad : Spec (read_length_block pre nb pad) (T rlb_t pre nb pad) 3 0.
Proof. intros s. unfold rlb_t, read_length_block. cgo. Qed.
Global Instance pascal_spec dec_s pad : Spec (r_pascal dec_s pad) (T pascal_t dec_s pad) 3 0.
Proof. intros s. unfold pascal_t, r_pascal. cgo. Qed.
Global Instance header_spec : Spec read_header (T read_header_t) 1 0.
Proof. intros s. unfold read_header_t. cgo. Qed.
(* ColorModeData.read is read_length_block: read_cmd / read_cmd_t are unfolded where they are used *)

(* ---------------------------------------------------------------- tagged blocks *)
Global Instance tagged_block_factv v pad :
  FactV (read_tagged_block v pad) (fun s r => match r with Some (b, s1) => len s1 + 12 <= len s | None => True end).
Proof. intros s [[b s1]|] H; [exact (read_tagged_block_progress _ _ _ _ _ H)|exact I]. Qed.
(* TaggedBlock.read: one read when the signature is invalid, at most five otherwise *)
Lemma tagged_block_spec v pad s :
  fst (T read_tagged_block_t v pad s) = read_tagged_block v pad s /\
  snd (T read_tagged_block_t v pad s) <= match read_tagged_block v pad s with Ok None => 1 | _ => 5 end.
Proof. unfold read_tagged_block_t, read_tagged_block. cgo. Qed.

Global Instance tagged_items_spec fuel : forall v pad budget,
  Spec (read_tagged_items fuel v pad budget) (T read_tagged_items_t fuel v pad budget) 3 1.
Proof.
  induction fuel as [|f IH]; intros v pad budget s; cbn [read_tagged_items_t read_tagged_items]; [cgo|].
  destruct (tagged_block_spec v pad s) as [E B].
  destruct (T read_tagged_block_t v pad s) as [r t]. cbn [fst snd] in E, B. subst r.
  cgo.
Qed.
Global Instance tagged_blocks_spec v pad budget :
  Spec (read_tagged_blocks v pad budget) (T read_tagged_blocks_t v pad budget) 3 1.
Proof. intros s. unfold read_tagged_blocks_t, read_tagged_blocks. cgo. Qed.

(* ---------------------------------------------------------------- channel info / data *)
Global Instance channel_info_spec v : Spec (read_channel_info v) (T read_channel_info_t v) 1 0.
Proof. intros s. unfold read_channel_info_t, read_channel_info. cgo. Qed.
Global Instance channel_data_spec n : Spec (read_channel_data n) (T read_channel_data_t n) 2 0.
Proof. intros s. unfold read_channel_data_t, read_channel_data. cgo. Qed.

(* ---------------------------------------------------------------- mask *)
Global Instance mask_params_spec : Spec read_mask_params (T read_mask_params_t) 5 0.
Proof. intros s. unfold read_mask_params_t, read_mask_params. cgo. Qed.
Global Instance mask_real_spec : Spec read_mask_real (T read_mask_real_t) 3 0.
Proof. intros s. unfold read_mask_real_t, read_mask_real. cgo. Qed.
Global Instance mask_body_spec : SpecV read_mask_body (T read_mask_body_t) 10 0.
Proof. intros s. unfold read_mask_body_t, read_mask_body. cgo. Qed.
Global Instance mask_spec : Spec read_mask (T read_mask_t) 13 0.
Proof. intros s. unfold read_mask_t, read_mask. cgo. Qed.

(* ---------------------------------------------------------------- blending ranges *)
Global Instance range_spec : Spec read_range (T read_range_t) 1 0.
Proof. intros s. unfold read_range_t. cgo. Qed.
(* while is_readable(fp, 8): three ticks per 8 bytes, one for the last is_readable *)
Global Instance range_list_spec fuel : SpecV (read_range_list fuel) (T read_range_list_t fuel) 1 1.
Proof.
  induction fuel as [|f IH]; intros s; cbn [read_range_list_t read_range_list]; cgo.
Qed.
Global Instance ranges_spec : Spec read_ranges (T read_ranges_t) 5 1.
Proof. intros s. unfold read_ranges_t, read_ranges. cgo. Qed.

(* ---------------------------------------------------------------- count-driven loops *)
(* an item reader inside a loop: a successful item pays for its own ticks, for the iteration and for [x] more
   ticks with the bytes it consumed *)
Class SpecI {A} (rd : stream -> res (A * stream)) (rdt : stream -> M (A * stream)) (kf c x : Z) : Prop :=
  speci : forall s, fst (rdt s) = rd s /\
                    match rd s with
                    | Ok y => 1 + snd (rdt s) + x <= c * (len s - len (snd y))
                    | Err _ => 1 + snd (rdt s) <= kf + c * len s
                    end.
Lemma read_n_spec {A} (rd : stream -> res (A * stream)) rdt kf c x : SpecI rd rdt kf c x -> 0 <= kf -> 0 <= x ->
  forall n s, fst (T read_n_t n rdt s) = read_n n rd s /\
              match read_n n rd s with
              | Ok y => snd (T read_n_t n rdt s) + x * Z.of_nat n <= c * (len s - len (snd y))
              | Err _ => snd (T read_n_t n rdt s) <= kf + c * len s
              end.
Proof.
  intros Hi Hk Hx. induction n as [|n IH]; intros s; cbn [read_n_t read_n].
  - unfold mret. cbn [fst snd]. split; [reflexivity|]. lia.
  - destruct (Hi s) as [E B]. destruct (rdt s) as [r t]. cbn [fst snd] in E, B. subst r.
    unfold_twin. destruct (rd s) as [[a s1]|e]; cbv beta iota zeta; cbn [fst snd]; [|split; [reflexivity|lia]].
    destruct (IH s1) as [E1 B1]. destruct (T read_n_t n rdt s1) as [r1 t1]. cbn [fst snd] in E1, B1. subst r1.
    destruct (read_n n rd s1) as [[l s2]|e]; cbv beta iota zeta; cbn [fst snd] in *; (split; [reflexivity|]); rewrite ?Nat2Z.inj_succ; lia.
Qed.

Global Instance channel_info_speci v : SpecI (read_channel_info v) (T read_channel_info_t v) 2 1 0.
Proof.
  intros s. destruct (spec (ft := T read_channel_info_t v) s) as [E B]. split; [exact E|].
  unfold consumed in B. destruct (read_channel_info v s) eqn:H; [apply prog in H|]; fin.
Qed.

Global Instance channel_infos_spec v n :
  Spec (read_n n (read_channel_info v)) (T read_n_t n (T read_channel_info_t v)) 2 1.
Proof.
  intros s. destruct (read_n_spec _ _ 2 1 0 (channel_info_speci v) ltac:(lia) ltac:(lia) n s) as [E B].
  split; [exact E|]. unfold consumed. destruct (read_n n (read_channel_info v) s) as [y|e] eqn:H; [apply prog in H|]; fin.
Qed.

Section Charset.
  Variable dec_s : list Z -> res (list Z).

  (* ---------------------------------------------------------------- image resources *)
  Global Instance resource_spec : Spec (read_resource dec_s) (T read_resource_t dec_s) 7 0.
  Proof. intros s. unfold read_resource_t, read_resource. cgo. Qed.
  Global Instance resource_items_spec fuel : SpecV (read_resource_items dec_s fuel) (T read_resource_items_t dec_s fuel) 9 1.
  Proof.
    induction fuel as [|f IH]; intros s; cbn [read_resource_items_t read_resource_items]; cgo.
  Qed.
  Global Instance resources_spec : Spec (read_resources dec_s) (T read_resources_t dec_s) 12 1.
  Proof. intros s. unfold read_resources_t, read_resources. cgo. Qed.

  (* ---------------------------------------------------------------- LayerRecord *)
  Lemma record_spec v : Spec (read_record dec_s v) (T read_record_t dec_s v) 32 1.
  Proof. intros s. unfold read_record_t, read_record. cgo. Qed.
  (* as the item of the loop over the declared layer count: 43 bytes at least, so one record pays for its 32 ticks,
     its iteration, and one more tick (the later iteration of the channel-data loop over the same record) *)
  Global Instance record_speci v : SpecI (read_record dec_s v) (T read_record_t dec_s v) 33 2 1.
  Proof.
    intros s. destruct (record_spec v s) as [E B]. split; [exact E|].
    unfold consumed in B. destruct (read_record dec_s v s) eqn:H; [apply prog in H|]; fin.
  Qed.
  Global Instance records_spec v n :
    SpecN (read_n n (read_record dec_s v)) (T read_n_t n (T read_record_t dec_s v)) 33 2 1.
  Proof.
    intros s. destruct (read_n_spec _ _ 33 2 1 (record_speci v) ltac:(lia) ltac:(lia) n s) as [E B].
    split; [exact E|]. destruct (read_n n (read_record dec_s v) s) as [y|e] eqn:H; [|exact B].
    apply read_n_len in H. rewrite H. exact B.
  Qed.

  (* ---------------------------------------------------------------- LayerInfo *)
  Global Instance channel_list_spec cis : SpecN (read_channel_list cis) (T read_channel_list_t cis) 3 2 0.
  Proof.
    induction cis as [|ci cis IH]; intros s; cbn [read_channel_list_t read_channel_list]; cgo.
  Qed.
  (* one iteration per record ALREADY read (zero bytes for a record without channels) *)
  Global Instance channel_lists_spec rs : Spec (read_channel_lists rs) (T read_channel_lists_t rs) (3 + len rs) 2.
  Proof.
    induction rs as [|r rs IH]; intros s; cbn [read_channel_lists_t read_channel_lists];
      rewrite ?len_cons, ?(@len_nil layer_record); try pose proof (len_nonneg rs); cgo.
  Qed.
  Global Instance li_body_spec v : Spec (read_li_body dec_s v) (T read_li_body_t dec_s v) 34 2.
  Proof. intros s. unfold read_li_body_t, read_li_body. cgo. Qed.
  Global Instance layer_info_spec v : Spec (read_layer_info dec_s v) (T read_layer_info_t dec_s v) 35 2.
  Proof. intros s. unfold read_layer_info_t, read_layer_info. cgo. Qed.

  (* ---------------------------------------------------------------- GlobalLayerMaskInfo *)
  Global Instance glmi_body_spec : SpecV read_glmi_body (T read_glmi_body_t) 2 0.
  Proof. intros s. unfold read_glmi_body_t, read_glmi_body. cgo. Qed.
  Global Instance glmi_spec : Spec read_glmi (T read_glmi_t) 5 0.
  Proof. intros s. unfold read_glmi_t, read_glmi. cgo. Qed.

  (* ---------------------------------------------------------------- LayerAndMaskInformation *)
  Lemma lami_body_spec v s n :
    fst (T read_lami_body_t dec_s v s n) = read_lami_body dec_s v s n /\
    snd (T read_lami_body_t dec_s v s n) <= 45 + 2 * len s.
  Proof. unfold read_lami_body_t, read_lami_body. cgo. Qed.
  (* the section reader may look past the end of the section (fp.seek(end_pos) can move BACK): its cost is bounded
     by what is left of the file, not by the declared section length *)
  Global Instance lami_spec v : SpecV (read_lami dec_s v) (T read_lami_t dec_s v) 46 2.
  Proof.
    intros s. unfold read_lami_t, read_lami. unfold_twin.
    repeat first
      [ match goal with
        | |- context [T read_lami_body_t dec_s v ?s1 ?n] =>
            let E := fresh "E" in let B := fresh "B" in
            destruct (lami_body_spec v s1 n) as [E B];
            let r := fresh "r" in let t := fresh "t" in
            destruct (T read_lami_body_t dec_s v s1 n) as [r t]; cbn [fst snd] in E, B; subst r
        end
      | cstep ].
    all: cfin.
  Qed.

  (* ---------------------------------------------------------------- ImageData, PSD *)
  Global Instance image_data_spec : SpecV read_image_data (T read_image_data_t) 2 0.
  Proof. intros s. unfold read_image_data_t, read_image_data. cgo. Qed.

  Lemma read_psd_spec b :
    fst (T read_psd_t dec_s b) = read_psd dec_s b /\ snd (T read_psd_t dec_s b) <= 2 * len b + 1.
  Proof. unfold read_psd_t, read_psd, read_header_t, read_cmd_t, read_cmd. cgo. Qed.
End Charset.
