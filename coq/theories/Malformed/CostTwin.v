(* C06 - the instrumented twin of the whole-file reader of Psd/Model.v (definitions only).
   Same structure as Model.read_psd, threading a cost:  [wr] per call of fp.read (a primitive read, at the
   granularity of the real code: one read_fmt = one fp.read; read_length_block = read_fmt + fp.read + the padding
   read when there is padding; is_readable = one fp.read; read_pascal_string = read_fmt + fp.read + padding),
   [wi] per loop iteration = call of an item reader (ChannelInfo.read, LayerRecord.read, ChannelDataList.read,
   ChannelData.read, TaggedBlock.read, ImageResource.read, read_channel_range inside the while loop), and
   [wb] per byte that an fp.read call returned (materialised bytes).
   weights (1,1,0) = ticks; (1,0,0) = number of fp.read calls; (0,1,0) = iterations; (0,0,1) = bytes returned.
   [fst (x_t .. s) = x .. s] for every twin (Malformed/CostProofs.v: the twin returns what Model's reader returns). *)
From PsdV Require Import Base.Prelude Psd.Codec Psd.Model.
From Coq Require Import ZArith List Bool Lia.
Import ListNotations.
Open Scope Z_scope.

Definition M (A : Type) : Type := (res A * Z)%type.
Definition mret {A} (a : A) : M A := (Ok a, 0).
Definition merr {A} (e : err) : M A := (Err e, 0).
Definition pure {A} (r : res A) : M A := (r, 0).          (* converters, validators: no read *)
Definition mbind {A B} (m : M A) (f : A -> M B) : M B :=
  match m with
  | (Ok a, t) => let (r, t') := f a in (r, t + t')
  | (Err e, t) => (Err e, t)
  end.

Record weights := mkW { wr : Z; wi : Z; wb : Z }.
Definition W_ticks := mkW 1 1 0.     (* one tick per fp.read call and per loop iteration *)
Definition W_reads := mkW 1 0 0.
Definition W_iters := mkW 0 1 0.
Definition W_bytes := mkW 0 0 1.     (* bytes returned by all fp.read calls *)

Section Twin.
  Variable w : weights.
  Let wr := wr w.
  Let wi := wi w.
  Let wb := wb w.

  (* one fp.read call that returned [got] bytes, with the outcome [r] of whatever checks its result *)
  Definition charge {A} (got : Z) (r : res A) : M A := (r, wr + wb * got).
  (* one loop iteration (the call of the item reader) *)
  Definition iter_t {A} (m : M A) : M A := let (r, t) := m in (r, wi + t).

  (* utils.read_fmt of [n] bytes decoded by [g]: fp.read(n) returns what is there *)
  Definition fmt_t {A} (n : Z) (g : stream -> res A) (s : stream) : M A := charge (Z.min n (len s)) (g s).
  (* fp.read(n), lenient *)
  Definition upto_t (n : Z) (s : stream) : M (list Z * stream) :=
    let d := read_upto n s in charge (len (fst d)) (Ok d).
  (* utils.is_readable(fp, n): read, then seek back *)
  Definition readable_t (n : Z) (s : stream) : M bool := charge (Z.min n (len s)) (Ok (is_readable n s)).
  (* utils.read_padding: a read only when there is padding *)
  Definition pad_t (size d : Z) (s : stream) : M stream :=
    (Ok (r_pad size d s), if pad_count size d =? 0 then 0 else wr + wb * (len s - len (r_pad size d s))).
  Definition opt_t {A} (c : bool) (r : stream -> M (A * stream)) (s : stream) : M (option A * stream) :=
    if c then mbind (r s) (fun '(a, s1) => mret (Some a, s1)) else mret (None, s).

  (* utils.read_length_block *)
  Definition rlb_t (pre nb : nat) (pad : Z) (s : stream) : M (list Z * stream) :=
    mbind (fmt_t (Z.of_nat (pre + nb)) (take (Z.of_nat (pre + nb))) s) (fun h =>
    let n := be_val (skipn pre (fst h)) in
    mbind (charge (Z.min n (len (snd h))) (take n (snd h))) (fun d =>
    mbind (pad_t n pad (snd d)) (fun s' => mret (fst d, s')))).

  (* utils.read_pascal_string: the padding is read before the bytes are decoded *)
  Definition pascal_t (dec_s : list Z -> res (list Z)) (pad : Z) (s : stream) : M (list Z * stream) :=
    mbind (fmt_t 1 (read_u 1) s) (fun x =>
    let n := fst x in
    mbind (upto_t n (snd x)) (fun d =>
    if len (fst d) =? n then
      mbind (pad_t (1 + n) pad (snd d)) (fun s' =>
      mbind (pure (dec_s (fst d))) (fun name => mret (name, s')))
    else merr AssertErr)).

  Definition read_header_t (s : stream) : M (header * stream) := fmt_t 26 read_header s.
  Definition read_cmd_t (s : stream) : M (list Z * stream) := rlb_t 0 4 1 s.

  (* ---------------------------------------------------------------- tagged blocks *)
  Definition read_tagged_block_t (v padding : Z) (s : stream) : M (option (tagged_block * stream)) :=
    mbind (fmt_t 4 (read_u 4) s) (fun '(sg, s1) =>
    if negb (memz sg model_tb_sigs) then mret None
    else
      mbind (fmt_t 4 (read_u 4) s1) (fun '(key, s2) =>
      mbind (rlb_t 0 (tb_len_bytes v key) padding s2) (fun '(data, s3) =>
      mret (Some (mkTB sg key data, s3))))).

  Fixpoint read_tagged_items_t (fuel : nat) (v padding : Z) (budget : option Z) (s : stream)
    : M (list tagged_block * stream) :=
    match fuel with
    | O => merr OutOfFuel
    | S f =>
        mbind (readable_t 8 s) (fun rb =>
        if negb rb then mret ([], s)
        else if match budget with Some b => b <=? 0 | None => false end then mret ([], s)
        else
          mbind (iter_t (read_tagged_block_t v padding s)) (fun r =>
          match r with
          | None => mret ([], s)
          | Some (b, s1) =>
              let budget' := match budget with Some x => Some (x - (len s - len s1)) | None => None end in
              mbind (read_tagged_items_t f v padding budget' s1) (fun '(bs, s2) => mret (b :: bs, s2))
          end))
    end.
  Definition read_tagged_blocks_t (v padding : Z) (budget : option Z) (s : stream)
    : M (list tagged_block * stream) :=
    mbind (read_tagged_items_t (S (length s)) v padding budget s) (fun '(items, s1) =>
    mret (od_build tb_key items, s1)).

  (* ---------------------------------------------------------------- channel info / data *)
  Definition read_channel_info_t (v : Z) (s : stream) : M (channel_info * stream) :=
    mbind (pure (len_bytes v)) (fun nb =>
    fmt_t (2 + Z.of_nat nb)
      (fun s => do (id, s1) <- read_s 2 s;
                do (n, s2) <- read_u nb s1;
                if memz id model_channel_ids then Ok (mkCI id n, s2) else Err ValueErr) s).
  Definition read_channel_data_t (length : Z) (s : stream) : M (channel_data * stream) :=
    mbind (fmt_t 2 (read_u 2) s) (fun '(c, s1) =>
    if memz c model_compressions then
      mbind (upto_t length s1) (fun d => mret (mkCD c (fst d), snd d))
    else merr ValueErr).

  (* ---------------------------------------------------------------- mask *)
  Definition read_mask_params_t (s : stream) : M (mask_params * stream) :=
    mbind (fmt_t 1 (read_u 1) s) (fun '(p, s0) =>
    mbind (opt_t (Z.testbit p 0) (fmt_t 1 (read_u 1)) s0) (fun '(a, s1) =>
    mbind (opt_t (Z.testbit p 1) (fmt_t 8 (read_u 8)) s1) (fun '(b, s2) =>
    mbind (opt_t (Z.testbit p 2) (fmt_t 1 (read_u 1)) s2) (fun '(c, s3) =>
    mbind (opt_t (Z.testbit p 3) (fmt_t 8 (read_u 8)) s3) (fun '(d, s4) =>
    mret (mkMP a b c d, s4)))))).
  (* MaskFlags.read ("B"), read_fmt("B"), read_fmt("4i") *)
  Definition read_mask_real_t (s : stream) : M (mask_real * stream) :=
    mbind (fmt_t 1 (read_u 1) s) (fun '(f, s1) =>
    mbind (fmt_t 1 (read_u 1) s1) (fun '(bg, s2) =>
    mbind (fmt_t 16 (fun s2 => do (t, s3) <- read_s 4 s2; do (l, s4) <- read_s 4 s3;
                               do (b, s5) <- read_s 4 s4; do (r, s6) <- read_s 4 s5; Ok ((t, l, b, r), s6)) s2)
          (fun '((t, l, b, r), s6) => mret (mkMR (flags_of f) bg t l b r, s6)))).
  (* read_fmt("4iB"), MaskFlags.read, ... *)
  Definition read_mask_body_t (f : stream) : M mask_data :=
    let length := len f in
    mbind (fmt_t 17 (fun f => do (t, s1) <- read_s 4 f; do (l, s2) <- read_s 4 s1; do (b, s3) <- read_s 4 s2;
                              do (r, s4) <- read_s 4 s3; do (bg, s5) <- read_u 1 s4; Ok ((t, l, b, r, bg), s5)) f)
          (fun '((t, l, b, r, bg), s5) =>
    mbind (fmt_t 1 (read_u 1) s5) (fun '(fl, s6) =>
    let flags := flags_of fl in
    mbind (opt_t (36 <=? length) read_mask_real_t s6) (fun '(real, s7) =>
    mbind (opt_t (fb4 flags) read_mask_params_t s7) (fun '(params, s8) =>
    mret (mkMask t l b r bg flags params real))))).
  Definition read_mask_t (s : stream) : M (option mask_data * stream) :=
    mbind (rlb_t 0 4 1 s) (fun '(data, s1) =>
    if len data =? 0 then mret (None, s1)
    else mbind (read_mask_body_t data) (fun m => mret (Some m, s1))).

  (* ---------------------------------------------------------------- blending ranges *)
  Definition read_range_t (s : stream) : M (list (Z * Z) * stream) := fmt_t 8 read_range s.
  Fixpoint read_range_list_t (fuel : nat) (s : stream) : M (list (list (Z * Z))) :=
    match fuel with
    | O => merr OutOfFuel
    | S f =>
        mbind (readable_t 8 s) (fun rb =>
        if rb then
          mbind (iter_t (read_range_t s)) (fun '(r, s1) =>
          mbind (read_range_list_t f s1) (fun rs => mret (r :: rs)))
        else mret [])
    end.
  Definition read_ranges_t (s : stream) : M (blending_ranges * stream) :=
    mbind (rlb_t 0 4 1 s) (fun '(data, s1) =>
    if len data =? 0 then mret (mkBR None None, s1)
    else
      mbind (read_range_t data) (fun '(c, f1) =>
      mbind (read_range_list_t (S (length f1)) f1) (fun ch =>
      mret (mkBR (Some c) (Some ch), s1)))).

  (* for _ in range(n): items.append(read_item(fp)) *)
  Fixpoint read_n_t {A} (n : nat) (rd : stream -> M (A * stream)) (s : stream) : M (list A * stream) :=
    match n with
    | O => mret ([], s)
    | S n' => mbind (iter_t (rd s)) (fun '(a, s1) => mbind (read_n_t n' rd s1) (fun '(l, s2) => mret (a :: l, s2)))
    end.

  Section Charset.
    Variable dec_s : list Z -> res (list Z).

    (* ---------------------------------------------------------------- image resources *)
    Definition read_resource_t (s : stream) : M (image_resource * stream) :=
      mbind (fmt_t 6 (fun s => do (sg, s1) <- read_u 4 s; do (key, s2) <- read_u 2 s1; Ok ((sg, key), s2)) s)
            (fun '((sg, key), s2) =>
      mbind (pascal_t dec_s 2 s2) (fun '(name, s3) =>
      mbind (rlb_t 0 4 2 s3) (fun '(data, s4) =>
      if memz sg model_res_sigs then mret (mkRes sg key name data, s4) else merr ValueErr))).
    Fixpoint read_resource_items_t (fuel : nat) (s : stream) : M (list image_resource) :=
      match fuel with
      | O => merr OutOfFuel
      | S f =>
          mbind (readable_t 4 s) (fun rb =>
          if rb then
            mbind (iter_t (read_resource_t s)) (fun '(r, s1) =>
            mbind (read_resource_items_t f s1) (fun rs => mret (r :: rs)))
          else mret [])
      end.
    Definition read_resources_t (s : stream) : M (list image_resource * stream) :=
      mbind (rlb_t 0 4 1 s) (fun '(data, s1) =>
      mbind (read_resource_items_t (S (length data)) data) (fun items =>
      mret (od_build ir_key items, s1))).

    (* ---------------------------------------------------------------- LayerRecord *)
    Definition read_record_t (v : Z) (s : stream) : M (layer_record * stream) :=
      mbind (fmt_t 18 (fun s => do (top, s1) <- read_s 4 s; do (lft, s2) <- read_s 4 s1;
                                do (bottom, s3) <- read_s 4 s2; do (rgt, s4) <- read_s 4 s3;
                                do (nch, s5) <- read_u 2 s4; Ok ((top, lft, bottom, rgt, nch), s5)) s)
            (fun '((top, lft, bottom, rgt, nch), s5) =>
      mbind (read_n_t (Z.to_nat nch) (read_channel_info_t v) s5) (fun '(chans, s6) =>
      mbind (fmt_t 10 (fun s6 => do (sg, s7) <- read_u 4 s6; do (blend, s8) <- read_u 4 s7;
                                 do (opacity, s9) <- read_u 1 s8; do (clip, s10) <- read_u 1 s9;
                                 Ok ((sg, blend, opacity, clip), s10)) s6)
            (fun '((sg, blend, opacity, clip), s10) =>
      mbind (fmt_t 1 (read_u 1) s10) (fun '(fl, s11) =>
      mbind (rlb_t 1 4 1 s11) (fun '(data, s12) =>
      mbind (read_mask_t data) (fun '(mask, f1) =>
      mbind (read_ranges_t f1) (fun '(ranges, f2) =>
      mbind (pascal_t dec_s 4 f2) (fun '(name, f3) =>
      mbind (read_tagged_blocks_t v 1 None f3) (fun '(blocks, _) =>
      if memz sg model_record_sigs && memz blend model_blend_modes && memz clip model_clippings then
        mret (mkRec top lft bottom rgt chans sg blend opacity clip (lflags_of fl) mask ranges name blocks, s12)
      else merr ValueErr))))))))).

    (* ---------------------------------------------------------------- LayerInfo *)
    Fixpoint read_channel_list_t (cis : list channel_info) (s : stream) : M (list channel_data * stream) :=
      match cis with
      | [] => mret ([], s)
      | ci :: cis' =>
          mbind (iter_t (read_channel_data_t (ci_len ci - 2) s)) (fun '(c, s1) =>
          mbind (read_channel_list_t cis' s1) (fun '(l, s2) => mret (c :: l, s2)))
      end.
    Fixpoint read_channel_lists_t (rs : list layer_record) (s : stream) : M (list (list channel_data) * stream) :=
      match rs with
      | [] => mret ([], s)
      | r :: rs' =>
          mbind (iter_t (read_channel_list_t (r_channels r) s)) (fun '(l, s1) =>
          mbind (read_channel_lists_t rs' s1) (fun '(ls, s2) => mret (l :: ls, s2)))
      end.
    Definition read_li_body_t (v : Z) (s : stream) : M (layer_info * stream) :=
      mbind (fmt_t 2 (read_s 2) s) (fun '(count, s1) =>
      mbind (read_n_t (Z.to_nat (Z.abs count)) (read_record_t v) s1) (fun '(recs, s2) =>
      mbind (read_channel_lists_t recs s2) (fun '(chans, s3) =>
      mret (mkLI count (Some recs) (Some chans), s3)))).
    Definition read_layer_info_t (v : Z) (s : stream) : M (layer_info * stream) :=
      mbind (pure (len_bytes v)) (fun nb =>
      mbind (fmt_t (Z.of_nat nb) (read_u nb) s) (fun '(length, s1) =>
      if length =? 0 then mret (mkLI 0 None None, s1)
      else
        mbind (read_li_body_t v s1) (fun '(li, s2) =>
        if len s1 - len s2 <=? length then mret (li, skipz length s1) else merr AssertErr))).

    (* ---------------------------------------------------------------- GlobalLayerMaskInfo *)
    Definition read_glmi_body_t (f : stream) : M glmi :=
      mbind (fmt_t 10 (read_n 5 (read_u 2)) f) (fun '(ov, f1) =>
      mbind (fmt_t 3 (fun f1 => do (op, f2) <- read_u 2 f1; do (k, f3) <- read_u 1 f2; Ok ((op, k), f3)) f1)
            (fun '((op, k), f3) =>
      if memz k model_glmi_kinds then mret (mkGLMI (Some ov) op k) else merr ValueErr)).
    Definition read_glmi_t (s : stream) : M (glmi * stream) :=
      mbind (rlb_t 0 4 1 s) (fun '(data, s1) =>
      if len data =? 0 then mret (glmi_empty, s1)
      else if len data <? 13 then mret (glmi_empty, s)
      else mbind (read_glmi_body_t data) (fun g => mret (g, s1))).

    (* ---------------------------------------------------------------- LayerAndMaskInformation *)
    Definition read_lami_body_t (v : Z) (s : stream) (length : Z) : M lami :=
      mbind (read_layer_info_t v s) (fun '(li, s2) =>
      mbind (readable_t glmi_probe s2) (fun rb =>
      mbind (opt_t (rb && (len s - len s2 + glmi_probe <=? length)) read_glmi_t s2) (fun '(g, s3) =>
      mbind (readable_t 1 s3) (fun rb1 =>
      mbind (if rb1 then
               mbind (read_tagged_blocks_t v 4 (Some (length - (len s - len s3))) s3) (fun '(bs, _) => mret (Some bs))
             else mret None) (fun tb =>
      mret (mkLAMI (Some li) g tb)))))).
    Definition read_lami_t (v : Z) (s : stream) : M (lami * stream) :=
      mbind (pure (len_bytes v)) (fun nb =>
      mbind (fmt_t (Z.of_nat nb) (read_u nb) s) (fun '(length, s1) =>
      if length =? 0 then mret (mkLAMI None None None, s1)
      else mbind (read_lami_body_t v s1 length) (fun l => mret (l, skipz length s1)))).

    (* ---------------------------------------------------------------- ImageData, PSD *)
    Definition read_image_data_t (s : stream) : M channel_data :=
      mbind (fmt_t 2 (read_u 2) s) (fun '(c, s1) =>
      if memz c model_compressions then charge (len s1) (Ok (mkCD c s1)) else merr ValueErr).
    Definition read_psd_t (s : stream) : M psd :=
      mbind (read_header_t s) (fun '(h, s1) =>
      mbind (read_cmd_t s1) (fun '(cmd, s2) =>
      mbind (read_resources_t s2) (fun '(rs, s3) =>
      mbind (read_lami_t (h_version h) s3) (fun '(l, s4) =>
      mbind (read_image_data_t s4) (fun img =>
      mret (mkPSD h cmd rs l img)))))).
  End Charset.
End Twin.

(* what the correspondence check evaluates: outcome code, fp.read calls, iterations, bytes returned *)
Definition observe_cost (b : list Z) : list Z :=
  let r := read_psd_t W_reads raw_codec b in
  [match fst r with Ok _ => 0 | Err e => err_code e end;
   snd r; snd (read_psd_t W_iters raw_codec b); snd (read_psd_t W_bytes raw_codec b)].
