(* C06 - bounded work of the real readers (Psd/Model.v): foundations.
   (1) allocation: what a modelled [fp.read] can return - never more than what is left;
   (2) [Prog f p]: a reader that succeeds has consumed at least [p] bytes (strict progress when p > 0);
   (3) the inversion tactic used by every progress / totality / cost lemma of Malformed/Cost*.v.
   Psd/*.v is imported, never edited. *)
From PsdV Require Import Base.Prelude Psd.Codec Psd.Model.
From Coq Require Import ZArith List Bool Lia ZifyBool.
Import ListNotations.
Open Scope Z_scope.

(* ------------------------------------------------------------------ allocation *)
(* fp.read(n) with the "exact" check of read_fmt / read_length_block *)
Lemma take_alloc n s x : take n s = Ok x ->
  len (fst x) = n /\ len (fst x) + len (snd x) = len s.
Proof.
  destruct x as [a r]. intros H. apply take_len in H as [-> <-]. cbn [fst snd].
  rewrite len_app. auto.
Qed.

(* fp.read(n), lenient: whatever count the file declares, the bytes returned are bytes of the data *)
Lemma read_upto_split n s : fst (read_upto n s) ++ snd (read_upto n s) = s.
Proof.
  unfold read_upto. destruct (n <? 0); cbn [fst snd]; [apply app_nil_r|apply firstn_skipn].
Qed.
Lemma read_upto_len n s :
  len (fst (read_upto n s)) + len (snd (read_upto n s)) = len s /\
  0 <= len (fst (read_upto n s)) /\ 0 <= len (snd (read_upto n s)) /\
  (0 <= n -> len (fst (read_upto n s)) = Z.min n (len s)).
Proof.
  pose proof (read_upto_split n s) as H. apply (f_equal len) in H. rewrite len_app in H.
  pose proof (len_nonneg (fst (read_upto n s))). pose proof (len_nonneg (snd (read_upto n s))).
  repeat split; try lia.
  intros Hn. unfold read_upto. destruct (n <? 0) eqn:E; [lia|]. cbn [fst].
  unfold len at 1. rewrite firstn_length. pose proof (len_nonneg s). unfold len in *. lia.
Qed.
Lemma read_upto_alloc n s : (length (fst (read_upto n s)) <= length s)%nat.
Proof. pose proof (read_upto_len n s) as (H & H1 & H2 & _). unfold len in *. lia. Qed.
Lemma take_alloc_nat n s x : take n s = Ok x -> (length (fst x) <= length s)%nat.
Proof. intros H. apply take_alloc in H as [_ H]. pose proof (len_nonneg (snd x)). unfold len in *. lia. Qed.

Lemma skipz_len n s : len (skipz n s) <= len s /\ 0 <= len (skipz n s) /\ (0 <= n -> len (skipz n s) = len s - Z.min n (len s)).
Proof.
  unfold skipz, len. rewrite skipn_length. pose proof (len_nonneg s). unfold len in *. lia.
Qed.
Lemma r_pad_len size d s : len (r_pad size d s) <= len s /\ 0 <= len (r_pad size d s) /\ len s - len (r_pad size d s) <= Z.max 0 (pad_count size d).
Proof. unfold r_pad, len. rewrite skipn_length. lia. Qed.

(* ------------------------------------------------------------------ progress *)
Class Prog {A} (f : stream -> res (A * stream)) (p : nat) : Prop :=
  prog : forall s x, f s = Ok x -> len (snd x) + Z.of_nat p <= len s.
(* other facts about a successful read (sizes of what was returned) *)
Class Fact {A} (f : stream -> res (A * stream)) (Q : stream -> A * stream -> Prop) : Prop :=
  fact : forall s x, f s = Ok x -> Q s x.

Ltac note E :=
  try (let P := fresh "P" in pose proof (prog _ _ E) as P);
  try (let F := fresh "F" in pose proof (fact _ _ E) as F; cbv beta in F).

(* one step of inversion of a reader equation [H : <body> = Ok _]: destruct the scrutinee at its head *)
Ltac head_scrut x k :=
  lazymatch x with
  | match ?y with _ => _ end => head_scrut y k
  | _ => k x
  end.
Ltac inv1 H :=
  cbv beta iota zeta in H;
  lazymatch type of H with
  | match ?x0 with _ => _ end = _ =>
      head_scrut x0 ltac:(fun x =>
        first [ is_var x; destruct x
              | let E := fresh "E" in destruct x eqn:E; try discriminate H; try note E ]);
      try discriminate H
  end.
Ltac inv H := unfold r_opt in H; unfold bind in H; repeat inv1 H.

Ltac pose_len_facts :=
  repeat match goal with
         | |- context [read_upto ?n ?s] =>
             lazymatch goal with _ : len (fst (read_upto n s)) + _ = _ /\ _ |- _ => fail | _ => pose proof (read_upto_len n s) end
         | _ : context [read_upto ?n ?s] |- _ =>
             lazymatch goal with _ : len (fst (read_upto n s)) + _ = _ /\ _ |- _ => fail | _ => pose proof (read_upto_len n s) end
         | |- context [r_pad ?a ?b ?s] =>
             lazymatch goal with _ : len (r_pad a b s) <= _ /\ _ |- _ => fail | _ => pose proof (r_pad_len a b s) end
         | _ : context [r_pad ?a ?b ?s] |- _ =>
             lazymatch goal with _ : len (r_pad a b s) <= _ /\ _ |- _ => fail | _ => pose proof (r_pad_len a b s) end
         | _ : context [pad_count ?a ?d] |- _ =>
             lazymatch goal with _ : 0 <= pad_count a d < d |- _ => fail | _ => pose proof (pad_count_range a d ltac:(lia)) end
         | |- context [skipz ?n ?s] =>
             lazymatch goal with _ : len (skipz n s) <= _ /\ _ |- _ => fail | _ => pose proof (skipz_len n s) end
         | _ : context [skipz ?n ?s] |- _ =>
             lazymatch goal with _ : len (skipz n s) <= _ /\ _ |- _ => fail | _ => pose proof (skipz_len n s) end
         end;
  repeat match goal with
         | s : list Z |- _ =>
             lazymatch goal with _ : 0 <= len s |- _ => fail | _ => pose proof (len_nonneg s) end
         | s : stream |- _ =>
             lazymatch goal with _ : 0 <= len s |- _ => fail | _ => pose proof (len_nonneg s) end
         end.
(* boolean tests that say nothing about lengths (type codes, flags, enum membership) only slow lia down
   (the 4-character codes are large constants) *)
Ltac clear_bool :=
  repeat match goal with
         | E : ?b = true |- _ => lazymatch b with context [len] => fail | context [length] => fail | _ => clear E end
         | E : ?b = false |- _ => lazymatch b with context [len] => fail | context [length] => fail | _ => clear E end
         end.
Ltac fin := cbn [fst snd] in *; pose_len_facts; cbn [fst snd] in *; clear_bool; try lia.
(* close a goal [len (snd x) + p <= len s] from [H : Ok (..) = Ok x] *)
Lemma ok_inj {A} (a b : A) : Ok a = Ok b -> a = b.
Proof. congruence. Qed.
(* [injection] would normalise the terms (and unfold read_upto on a literal count) *)
Ltac done_ok H := apply ok_inj in H; subst; fin.

(* ---- the primitives of Psd/Codec.v *)
Global Instance take_prog n : Prog (take n) (Z.to_nat n).
Proof. intros s x H. apply take_alloc in H. pose proof (len_nonneg (fst x)). lia. Qed.
Global Instance take_fact n : Fact (take n) (fun s x => len (fst x) = n /\ len (fst x) + len (snd x) = len s).
Proof. intros s x H. apply take_alloc in H. exact H. Qed.
Global Instance read_u_prog n : Prog (read_u n) n.
Proof.
  intros s x H. unfold read_u in H. inv H. injection H as <-. cbn [fst snd] in *. lia.
Qed.
Global Instance read_s_prog n : Prog (read_s n) n.
Proof.
  intros s x H. unfold read_s in H. inv H. injection H as <-. cbn [fst snd] in *. lia.
Qed.
(* exact consumption of the fixed-size fields (for the cost of a failed read_fmt) *)
Global Instance read_u_fact n : Fact (read_u n) (fun s x => len (snd x) + Z.of_nat n = len s).
Proof.
  intros s x H. unfold read_u in H. inv H. injection H as <-. cbn [fst snd] in *. lia.
Qed.
Global Instance read_s_fact n : Fact (read_s n) (fun s x => len (snd x) + Z.of_nat n = len s).
Proof.
  intros s x H. unfold read_s in H. inv H. injection H as <-. cbn [fst snd] in *. lia.
Qed.

(* read_length_block: the length field and the declared number of bytes were there *)
Global Instance rlb_fact pre nb pad :
  Fact (read_length_block pre nb pad)
       (fun s x => len (fst x) + Z.of_nat (pre + nb) + len (snd x) <= len s /\
                   len s - len (snd x) <= len (fst x) + Z.of_nat (pre + nb) + Z.max 0 (pad_count (len (fst x)) pad) /\
                   0 <= len (fst x)).
Proof.
  intros s x H. unfold read_length_block in H. inv H. injection H as <-.
  destruct F as [F1 F2], F0 as [F3 F4]. fin. rewrite <- F3 in *. fin.
Qed.
Global Instance rlb_prog pre nb pad : Prog (read_length_block pre nb pad) (pre + nb).
Proof. intros s x H. apply fact in H. cbv beta in H. lia. Qed.

Global Instance pascal_prog dec_s pad : Prog (r_pascal dec_s pad) 1.
Proof.
  intros s x H. unfold r_pascal in H. inv H. done_ok H.
Qed.
Global Instance unicode_prog pad : Prog (r_unicode pad) 4.
Proof.
  intros s x H. unfold r_unicode in H. inv H. done_ok H.
Qed.

Lemma read_n_len {A} (rd : stream -> res (A * stream)) n : forall s x, read_n n rd s = Ok x -> len (fst x) = Z.of_nat n.
Proof.
  induction n as [|n IH]; intros s x H; cbn [read_n] in H.
  - injection H as <-. reflexivity.
  - inv H. injection H as <-. cbn [fst]. rewrite len_cons. apply IH in E0. cbn [fst] in E0. lia.
Qed.
Global Instance read_n_prog {A} (rd : stream -> res (A * stream)) p n : Prog rd p -> Prog (read_n n rd) (n * p).
Proof.
  intros Hp. induction n as [|n IH]; intros s x H; cbn [read_n] in H.
  - injection H as <-. cbn [snd]. lia.
  - inv H. injection H as <-. apply IH in E0. cbn [fst snd] in *. lia.
Qed.
Global Instance read_n_fact {A} (rd : stream -> res (A * stream)) n : Fact (read_n n rd) (fun s x => len (fst x) = Z.of_nat n).
Proof. intros s x H. exact (read_n_len rd n s x H). Qed.
