(* C19 - lemmas about the string codec models. *)
From PsdV Require Import Base.Prelude Strings.Model.
From Coq Require Import ZArith List Bool Lia ZifyBool.
Import ListNotations.
Open Scope Z_scope.

Ltac Zify.zify_post_hook ::= Z.to_euclidean_division_equations.

(* ------------------------------------------------------------------ lists *)
Lemma take_firstn d : forall n, take n d = firstn (Z.to_nat n) d.
Proof.
  induction d as [|x d IH]; intros n; cbn [take].
  - now rewrite firstn_nil.
  - destruct (n <=? 0) eqn:E.
    + replace (Z.to_nat n) with 0%nat by lia. reflexivity.
    + replace (Z.to_nat n) with (S (Z.to_nat (n - 1))) by lia. cbn [firstn]. now rewrite IH.
Qed.

Lemma drop_skipn d : forall n, drop n d = skipn (Z.to_nat n) d.
Proof.
  induction d as [|x d IH]; intros n; cbn [drop].
  - now rewrite skipn_nil.
  - destruct (n <=? 0) eqn:E.
    + replace (Z.to_nat n) with 0%nat by lia. reflexivity.
    + replace (Z.to_nat n) with (S (Z.to_nat (n - 1))) by lia. cbn [skipn]. now rewrite IH.
Qed.

Lemma take_app_exact (a b : list Z) n : n = Z.of_nat (length a) -> take n (a ++ b) = a.
Proof.
  intros ->. rewrite take_firstn. rewrite Nat2Z.id.
  induction a as [|x a IH]; [destruct b; reflexivity|]. cbn [length firstn app]. now rewrite IH.
Qed.

Lemma drop_app_exact (a b : list Z) n : n = Z.of_nat (length a) -> drop n (a ++ b) = b.
Proof.
  intros ->. rewrite drop_skipn. rewrite Nat2Z.id.
  induction a as [|x a IH]; [reflexivity|]. cbn [length skipn app]. exact IH.
Qed.

Lemma zeros_length n : 0 <= n -> Z.of_nat (length (zeros n)) = n.
Proof. intros. unfold zeros. rewrite repeat_length. lia. Qed.

Lemma pad_count_range s d : 0 < d -> 0 <= pad_count s d < d.
Proof. intros. unfold pad_count. cbn zeta. destruct (s mod d =? 0) eqn:?; lia. Qed.

Lemma pad_count_aligned s d : 0 < d -> (s + pad_count s d) mod d = 0.
Proof.
  intros. unfold pad_count. cbn zeta. destruct (s mod d =? 0) eqn:E.
  - rewrite Z.add_0_r. lia.
  - replace (s + (d - s mod d)) with ((s / d + 1) * d) by (pose proof (Z.div_mod s d); nia).
    apply Z.mod_mul. lia.
Qed.

Lemma pad_count_1 s : pad_count s 1 = 0.
Proof. unfold pad_count. cbn zeta. destruct (s mod 1 =? 0) eqn:?; lia. Qed.

(* ------------------------------------------------------------------ UTF-16 on code units *)
Definition unitb (u : Z) : bool := (0 <=? u) && (u <? 65536).

Lemma units_of_range c : valid_cpb c = true -> Forall (fun u => unitb u = true) (units_of c).
Proof.
  unfold valid_cpb, units_of, unitb. intros H.
  destruct (c <? 65536) eqn:?; repeat constructor; lia.
Qed.

Lemma utf16_units_range s : valid_str s -> Forall (fun u => unitb u = true) (utf16_units s).
Proof.
  induction 1 as [|c s Hc _ IH]; [constructor|].
  cbn [utf16_units flat_map]. apply Forall_app. split; [now apply units_of_range|exact IH].
Qed.

Definition hd_low (l : list Z) : bool := match l with x :: _ => is_low x | [] => false end.

Lemma join_units_cons_nolow c U : hd_low U = false -> join_units (c :: U) = c :: join_units U.
Proof.
  destruct U as [|x V]; [reflexivity|]. cbn [hd_low]. intros H.
  cbn [join_units]. rewrite H, andb_false_r. reflexivity.
Qed.

Lemma join_units_cons_nohigh c U : is_high c = false -> join_units (c :: U) = c :: join_units U.
Proof.
  destruct U as [|x V]; [reflexivity|]. intros H. cbn [join_units]. rewrite H. reflexivity.
Qed.

Lemma hd_low_utf16 s : valid_str s -> hd_low (utf16_units s) = hd_low s.
Proof.
  destruct s as [|d s]; [reflexivity|]. intros Hv. inversion Hv as [|? ? Hd _]; subst.
  unfold valid_cpb in Hd. cbn [utf16_units flat_map]. unfold units_of.
  destruct (d <? 65536) eqn:?; cbn [app hd_low]; [reflexivity|]. unfold is_low. lia.
Qed.

Lemma join_units_utf16_n (n : nat) : forall s, (length s <= n)%nat -> valid_str s ->
  join_units (utf16_units s) = join_units s.
Proof.
  induction n as [|n IH]; intros s Hl Hv.
  - destruct s; [reflexivity|cbn [length] in Hl; lia].
  - destruct s as [|c s']; [reflexivity|].
    inversion Hv as [|? ? Hc Hv']; subst. cbn [length] in Hl.
    cbn [utf16_units flat_map]. fold (utf16_units s').
    unfold units_of. destruct (c <? 65536) eqn:Hbmp.
    + (* BMP code point (possibly a lone surrogate) *)
      cbn [app]. destruct (is_high c) eqn:Hh.
      * destruct s' as [|d s'']; [reflexivity|].
        destruct (is_low d) eqn:Hld.
        -- (* lone high followed by lone low: both sides join them *)
           assert (Hd : d <? 65536 = true) by (unfold is_low in Hld; lia).
           cbn [utf16_units flat_map]. unfold units_of at 1. rewrite Hd. cbn [app].
           cbn [join_units]. rewrite Hh, Hld. cbn [andb]. f_equal.
           fold (utf16_units s''). inversion Hv'; subst. apply IH; [cbn [length] in Hl; lia|assumption].
        -- rewrite (join_units_cons_nolow c (utf16_units (d :: s''))) by (rewrite hd_low_utf16 by exact Hv'; exact Hld).
           rewrite (join_units_cons_nolow c (d :: s'')) by exact Hld.
           f_equal. apply IH; [lia|assumption].
      * rewrite !join_units_cons_nohigh by exact Hh. f_equal. apply IH; [lia|assumption].
    + (* astral code point: a surrogate pair that decodes to the same code point *)
      unfold valid_cpb in Hc. cbn [app].
      set (h := 55296 + (c - 65536) / 1024). set (l := 56320 + (c - 65536) mod 1024).
      assert (Hh : is_high h = true) by (unfold is_high, h; lia).
      assert (Hlo : is_low l = true) by (unfold is_low, l; lia).
      assert (Hj : join_pair h l = c) by (unfold join_pair, h, l; lia).
      rewrite (join_units_cons_nohigh c s') by (unfold is_high; lia).
      cbn [join_units]. rewrite Hh, Hlo. cbn [andb]. rewrite Hj.
      f_equal. apply IH; [lia|assumption].
Qed.

Lemma join_units_utf16 s : valid_str s -> join_units (utf16_units s) = join_units s.
Proof. apply (join_units_utf16_n (length s)). lia. Qed.

Lemma join_units_id s : joinable_free s = true -> join_units s = s.
Proof.
  induction s as [|c s IH]; [reflexivity|]. destruct s as [|d s']; [reflexivity|].
  intros H. change (joinable_free (c :: d :: s')) with
    (negb (is_high c && is_low d) && joinable_free (d :: s')) in H.
  apply andb_true_iff in H as [H1 H2]. apply negb_true_iff in H1.
  change (join_units (c :: d :: s')) with
    (if is_high c && is_low d then join_pair c d :: join_units s' else c :: join_units (d :: s')).
  rewrite H1. f_equal. apply IH. exact H2.
Qed.

Lemma join_units_length_n (n : nat) : forall s, (length s <= n)%nat ->
  (length (join_units s) <= length s)%nat /\
  (joinable_free s = false -> (length (join_units s) < length s)%nat).
Proof.
  induction n as [|n IH]; intros s Hl.
  - destruct s; [split; [cbn; lia|discriminate]|cbn [length] in Hl; lia].
  - destruct s as [|c s]; [split; [cbn; lia|discriminate]|].
    destruct s as [|d s']; [split; [cbn; lia|discriminate]|].
    cbn [length] in Hl.
    change (joinable_free (c :: d :: s')) with
      (negb (is_high c && is_low d) && joinable_free (d :: s')).
    change (join_units (c :: d :: s')) with
      (if is_high c && is_low d then join_pair c d :: join_units s' else c :: join_units (d :: s')).
    destruct (is_high c && is_low d) eqn:Hj.
    + destruct (IH s') as [A _]; [lia|]. cbn [length]. split; [lia|intros _; lia].
    + destruct (IH (d :: s')) as [A B]; [cbn [length]; lia|]. cbn [length] in *. split; [lia|].
      cbn [negb andb]. intros H. specialize (B H). lia.
Qed.

(* exact characterisation: UTF-16 carries a code point string unchanged iff it has no
   lone high surrogate immediately followed by a lone low surrogate *)
Lemma join_units_fix_iff s : join_units s = s <-> joinable_free s = true.
Proof.
  split; [|apply join_units_id]. intros H.
  destruct (joinable_free s) eqn:E; [reflexivity|].
  destruct (join_units_length_n (length s) s) as [_ B]; [lia|]. specialize (B E).
  rewrite H in B. lia.
Qed.

Lemma scalar_valid s : scalar_str s -> valid_str s.
Proof.
  unfold scalar_str, valid_str, scalarb. intros H. eapply Forall_impl; [|exact H].
  cbn beta. intros c Hc. apply andb_true_iff in Hc. tauto.
Qed.

Lemma scalar_joinable_free s : scalar_str s -> joinable_free s = true.
Proof.
  induction 1 as [|c s Hc Hs IH]; [reflexivity|]. destruct s as [|d s']; [reflexivity|].
  change (joinable_free (c :: d :: s')) with
    (negb (is_high c && is_low d) && joinable_free (d :: s')).
  rewrite IH, andb_true_r. unfold scalarb, is_surr, valid_cpb in Hc. unfold is_high. lia.
Qed.

(* ------------------------------------------------------------------ bytes *)
Lemma units_of_bytes_be16 us : Forall (fun u => unitb u = true) us ->
  units_of_bytes (flat_map be16 us) = Ok us.
Proof.
  induction 1 as [|u us Hu _ IH]; [reflexivity|].
  cbn [flat_map be16 app units_of_bytes]. rewrite IH. cbn [bind].
  unfold unitb in Hu. f_equal. f_equal. lia.
Qed.

Lemma be16_length us : length (flat_map be16 us) = (2 * length us)%nat.
Proof. induction us as [|u us IH]; [reflexivity|]. cbn [flat_map be16 app length]. lia. Qed.

Lemma be16_bytes us : Forall (fun u => unitb u = true) us -> bytes (flat_map be16 us).
Proof.
  induction 1 as [|u us Hu _ IH]; [constructor|]. cbn [flat_map be16 app].
  unfold unitb in Hu. repeat constructor; try exact IH; unfold byte; lia.
Qed.

Lemma utf16be_decode_encode s : valid_str s -> utf16be_decode (utf16be_encode s) = Ok (join_units s).
Proof.
  intros H. unfold utf16be_decode, utf16be_encode.
  rewrite units_of_bytes_be16 by now apply utf16_units_range. cbn [bind].
  now rewrite join_units_utf16.
Qed.

Lemma read_I_be32 n r : 0 <= n <= 4294967295 -> read_I (be32 n ++ r) = Ok (n, r).
Proof. intros. unfold be32. cbn [app read_I]. f_equal. f_equal. lia. Qed.

Lemma pack_I_ok n b : pack_I n = Ok b -> 0 <= n <= 4294967295 /\ b = be32 n.
Proof.
  unfold pack_I. destruct ((0 <=? n) && (n <=? 4294967295)) eqn:E; [|discriminate].
  intros [= <-]. split; [lia|reflexivity].
Qed.

Lemma be32_length n : length (be32 n) = 4%nat.
Proof. reflexivity. Qed.

(* ------------------------------------------------------------------ unicode strings *)
Lemma write_unicode_inv s p bs w : write_unicode_string s p = Ok (bs, w) ->
  let data := utf16be_encode s in
  let n := Z.of_nat (length (utf16_units s)) in
  0 <= n <= 4294967295 /\
  bs = be32 n ++ data ++ zeros (pad_count (4 + 2 * n) p) /\
  w = 4 + 2 * n + pad_count (4 + 2 * n) p /\
  Z.of_nat (length data) = 2 * n.
Proof.
  unfold write_unicode_string. cbn zeta.
  assert (L : Z.of_nat (length (utf16be_encode s)) = 2 * Z.of_nat (length (utf16_units s))).
  { unfold utf16be_encode. rewrite be16_length. lia. }
  destruct (pack_I _) as [hdr|e] eqn:E; [|discriminate]. cbn [bind]. intros [= <- <-].
  apply pack_I_ok in E as [R ->]. rewrite L in *.
  replace (2 * Z.of_nat (length (utf16_units s)) / 2) with (Z.of_nat (length (utf16_units s))) in * by lia.
  repeat split; lia.
Qed.

Lemma write_unicode_ok s p : Z.of_nat (length (utf16_units s)) <= 4294967295 ->
  exists bs w, write_unicode_string s p = Ok (bs, w).
Proof.
  intros H. unfold write_unicode_string. cbn zeta.
  assert (L : Z.of_nat (length (utf16be_encode s)) = 2 * Z.of_nat (length (utf16_units s))).
  { unfold utf16be_encode. rewrite be16_length. lia. }
  unfold pack_I. rewrite L.
  replace (2 * Z.of_nat (length (utf16_units s)) / 2) with (Z.of_nat (length (utf16_units s))) by lia.
  destruct ((0 <=? _) && (_ <=? 4294967295)) eqn:E; [|lia]. cbn [bind]. eauto.
Qed.

(* reading what was written with padding p, with a reader using padding p' *)
Lemma read_write_unicode_gen s p p' bs w rest :
  valid_str s -> 0 < p ->
  write_unicode_string s p = Ok (bs, w) ->
  let n := Z.of_nat (length (utf16_units s)) in
  read_unicode_string (bs ++ rest) p' =
    Ok (join_units s, drop (pad_count (4 + 2 * n) p') (zeros (pad_count (4 + 2 * n) p) ++ rest)).
Proof.
  intros Hv Hp Hw. cbn zeta. apply write_unicode_inv in Hw. cbn zeta in Hw.
  destruct Hw as (R & -> & _ & L).
  unfold read_unicode_string. rewrite <- !app_assoc. rewrite read_I_be32 by exact R.
  cbn [bind fst snd]. rewrite take_app_exact by lia. rewrite drop_app_exact by lia.
  rewrite utf16be_decode_encode by exact Hv. reflexivity.
Qed.

Lemma written_is_length s p bs w : 0 < p -> write_unicode_string s p = Ok (bs, w) ->
  w = Z.of_nat (length bs) /\ w mod p = 0.
Proof.
  intros Hp Hw. apply write_unicode_inv in Hw. cbn zeta in Hw. destruct Hw as (R & -> & -> & L).
  pose proof (pad_count_range (4 + 2 * Z.of_nat (length (utf16_units s))) p Hp).
  split.
  - rewrite !app_length, be32_length. rewrite !Nat2Z.inj_add, zeros_length by lia. lia.
  - apply pad_count_aligned. exact Hp.
Qed.

Lemma read_write_unicode s p bs w rest :
  valid_str s -> 0 < p ->
  write_unicode_string s p = Ok (bs, w) ->
  read_unicode_string (bs ++ rest) p = Ok (join_units s, rest).
Proof.
  intros Hv Hp Hw. rewrite (read_write_unicode_gen s p p bs w rest Hv Hp Hw). cbn zeta.
  rewrite drop_app_exact; [reflexivity|].
  rewrite zeros_length; [reflexivity|]. apply pad_count_range. exact Hp.
Qed.

Lemma unicode_roundtrip_lemma s p bs w rest :
  valid_str s -> joinable_free s = true -> 0 < p ->
  write_unicode_string s p = Ok (bs, w) ->
  read_unicode_string (bs ++ rest) p = Ok (s, rest).
Proof.
  intros Hv Hj Hp Hw. rewrite (read_write_unicode s p bs w rest Hv Hp Hw).
  now rewrite join_units_id.
Qed.

(* ------------------------------------------------------------------ pascal strings *)
Section PascalProofs.
  Variable enc : list Z -> option (list Z).
  Variable dec : list Z -> option (list Z).

  Lemma write_pascal_inv s p bs w : write_pascal_string enc s p = Ok (bs, w) ->
    exists data, enc s = Some data /\
      let n := Z.of_nat (length data) in
      n <= 255 /\ bs = n :: data ++ zeros (pad_count (1 + n) p) /\ w = 1 + n + pad_count (1 + n) p.
  Proof.
    clear dec.
    unfold write_pascal_string. destruct (enc s) as [data|]; [|discriminate]. cbn zeta.
    destruct (Z.of_nat (length data) <=? 255) eqn:E; [|discriminate]. intros [= <- <-].
    exists data. split; [reflexivity|]. cbn zeta. repeat split. lia.
  Qed.

  Lemma pascal_roundtrip_lemma s p bs w rest data :
    0 < p -> enc s = Some data -> dec data = Some s ->
    write_pascal_string enc s p = Ok (bs, w) ->
    read_pascal_string dec (bs ++ rest) p = Ok (s, rest) /\ w = Z.of_nat (length bs) /\ w mod p = 0.
  Proof.
    intros Hp He Hd Hw. apply write_pascal_inv in Hw as (data' & He' & Hn & -> & ->).
    rewrite He in He'. injection He' as <-.
    pose proof (pad_count_range (1 + Z.of_nat (length data)) p Hp).
    split; [|split].
    - unfold read_pascal_string. cbn [app]. rewrite <- app_assoc.
      rewrite take_app_exact by reflexivity. rewrite Z.eqb_refl.
      rewrite drop_app_exact by reflexivity. rewrite Hd.
      rewrite drop_app_exact; [reflexivity|]. rewrite zeros_length; lia.
    - cbn [length]. rewrite app_length, Nat2Z.inj_succ, Nat2Z.inj_add, zeros_length by lia. lia.
    - apply pad_count_aligned. exact Hp.
  Qed.

  Lemma pascal_write_ok s p data : enc s = Some data -> Z.of_nat (length data) <= 255 ->
    exists bs w, write_pascal_string enc s p = Ok (bs, w).
  Proof.
    clear dec.
    intros He Hn. unfold write_pascal_string. rewrite He. cbn zeta.
    destruct (Z.of_nat (length data) <=? 255) eqn:E; [eauto|lia].
  Qed.

  Lemma pascal_rejects_long_lemma s p data : enc s = Some data -> 255 < Z.of_nat (length data) ->
    write_pascal_string enc s p = Err StructErr.
  Proof.
    clear dec.
    intros He Hn. unfold write_pascal_string. rewrite He. cbn zeta.
    destruct (Z.of_nat (length data) <=? 255) eqn:E; [lia|reflexivity].
  Qed.

  Lemma pascal_rejects_unencodable_lemma s p : enc s = None ->
    write_pascal_string enc s p = Err ValueErr.
  Proof. intros He. unfold write_pascal_string. now rewrite He. Qed.

  (* reading never invents: what read returns is the decoding of exactly the `n` bytes after the length byte *)
  Lemma read_pascal_inv d p s rest : read_pascal_string dec d p = Ok (s, rest) ->
    exists n r1, d = n :: r1 /\ Z.of_nat (length (take n r1)) = n /\ dec (take n r1) = Some s.
  Proof.
    clear enc.
    unfold read_pascal_string. destruct d as [|n r1]; [discriminate|].
    destruct (Z.of_nat (length (take n r1)) =? n) eqn:E; [|discriminate].
    destruct (dec (take n r1)) eqn:D; [|discriminate]. intros [= <- <-].
    exists n, r1. repeat split; [lia|exact D].
  Qed.
End PascalProofs.

(* ------------------------------------------------------------------ layer name *)
Lemma set_name_ok em v r : Z.of_nat (length v) < 256 ->
  exists r', set_name em v r = Ok r' /\ get_name r' = v /\ rec_luni r' = Some v /\
             (rec_name r' = v \/ (em v = None /\ rec_name r' = [63])).
Proof.
  intros H. unfold set_name. destruct (Z.of_nat (length v) <? 256) eqn:E; [|lia].
  eexists. split; [reflexivity|]. cbn [get_name rec_luni rec_name]. repeat split.
  destruct (em v); [left; reflexivity|right; split; reflexivity].
Qed.

Lemma set_name_rejects_long em v r : 256 <= Z.of_nat (length v) -> set_name em v r = Err AssertErr.
Proof. intros H. unfold set_name. destruct (Z.of_nat (length v) <? 256) eqn:E; [lia|reflexivity]. Qed.

Lemma starts_with_app p d : starts_with p (p ++ d) = true.
Proof.
  unfold starts_with. apply list_eqb_eq.
  induction p as [|x p IH]; [reflexivity|]. cbn [length app firstn]. now rewrite IH.
Qed.

Lemma read_luni_block_app wi inner rest :
  0 <= wi <= 4294967295 -> wi = Z.of_nat (length inner) ->
  read_luni_block ((tag_8BIM ++ tag_luni ++ be32 wi ++ inner) ++ rest) =
    (do sr <- read_unicode_string inner 1; Ok (Some (fst sr), rest)).
Proof.
  intros R Hwi. unfold read_luni_block.
  replace ((tag_8BIM ++ tag_luni ++ be32 wi ++ inner) ++ rest)
    with ((tag_8BIM ++ tag_luni) ++ (be32 wi ++ inner ++ rest)) by now rewrite <- !app_assoc.
  rewrite starts_with_app.
  assert (L8 : 8 <=? Z.of_nat (length ((tag_8BIM ++ tag_luni) ++ be32 wi ++ inner ++ rest)) = true).
  { rewrite app_length. cbn [tag_8BIM tag_luni app length]. lia. }
  rewrite L8. cbn [andb].
  change (skipn 8 ((tag_8BIM ++ tag_luni) ++ be32 wi ++ inner ++ rest)) with (be32 wi ++ inner ++ rest).
  unfold read_length_block1. rewrite read_I_be32 by exact R. cbn [bind fst snd].
  rewrite take_app_exact by exact Hwi. rewrite <- Hwi, Z.eqb_refl. cbn [bind fst snd].
  rewrite drop_app_exact by exact Hwi. reflexivity.
Qed.

Lemma read_write_luni v bs w rest : valid_str v ->
  write_luni_block v = Ok (bs, w) ->
  read_luni_block (bs ++ rest) = Ok (Some (join_units v), rest) /\ w = Z.of_nat (length bs).
Proof.
  intros Hv. unfold write_luni_block.
  destruct (write_unicode_string v 4) as [[inner wi]|] eqn:Hw; [|discriminate]. cbn [bind fst snd].
  destruct (pack_I wi) as [len|] eqn:Hl; [|discriminate]. cbn [bind]. intros H.
  assert (Hb : bs = tag_8BIM ++ tag_luni ++ len ++ inner) by congruence.
  assert (Hww : w = 8 + (wi + 4 + pad_count (wi + 4) 1)) by congruence.
  clear H. subst bs w.
  apply pack_I_ok in Hl as [R ->].
  destruct (written_is_length v 4 inner wi ltac:(lia) Hw) as [Hwi _].
  split.
  - rewrite read_luni_block_app by assumption.
    pose proof (read_write_unicode_gen v 4 1 inner wi [] Hv ltac:(lia) Hw) as Hr. cbn zeta in Hr.
    rewrite app_nil_r in Hr. rewrite Hr. reflexivity.
  - rewrite pad_count_1. rewrite !app_length. cbn [tag_8BIM tag_luni length]. rewrite be32_length. lia.
Qed.

Section RecordProofs.
  Variable enc : list Z -> option (list Z).
  Variable dec : list Z -> option (list Z).

  (* a record written by _write_extra is read back by _read_extra with the same name parts
     (up to what UTF-16 does to adjacent lone surrogates in the luni string) *)
  Lemma read_write_name_part pre r bs w data :
    enc (rec_name r) = Some data -> dec data = Some (rec_name r) ->
    match rec_luni r with Some v => valid_str v | None => True end ->
    write_name_part enc pre r = Ok (bs, w) ->
    read_name_part dec bs =
      Ok {| rec_name := rec_name r; rec_luni := option_map join_units (rec_luni r) |}
    /\ w = Z.of_nat (length bs).
  Proof.
    intros He Hd Hv. unfold write_name_part.
    destruct (write_pascal_string enc (rec_name r) 4) as [[pb pw]|] eqn:Hp; [|discriminate].
    cbn [bind fst snd].
    destruct (rec_luni r) as [v|] eqn:Hl.
    - destruct (write_luni_block v) as [[bb bw]|] eqn:Hb; [|discriminate]. cbn [bind fst snd].
      intros [= <- <-].
      destruct (pascal_roundtrip_lemma enc dec _ 4 pb pw (bb ++ zeros (pad_count (pre + pw + bw) 2)) data
                  ltac:(lia) He Hd Hp) as (Hr & Hpw & _).
      destruct (read_write_luni v bb bw (zeros (pad_count (pre + pw + bw) 2)) Hv Hb) as [Hrl Hbw].
      split.
      + unfold read_name_part. rewrite Hr. cbn [bind fst snd]. rewrite Hrl. reflexivity.
      + rewrite !app_length, !Nat2Z.inj_add, zeros_length by (apply pad_count_range; lia). lia.
    - cbn [bind fst snd]. intros H.
      assert (Hb : bs = pb ++ zeros (pad_count (pre + pw + 0) 2)) by (cbn [app] in H; congruence).
      assert (Hww : w = pw + 0 + pad_count (pre + pw + 0) 2) by congruence.
      clear H. subst bs w.
      destruct (pascal_roundtrip_lemma enc dec _ 4 pb pw (zeros (pad_count (pre + pw + 0) 2)) data
                  ltac:(lia) He Hd Hp) as (Hr & Hpw & _).
      split.
      + unfold read_name_part. rewrite Hr. cbn [bind fst snd app].
        unfold read_luni_block.
        assert (S : (8 <=? Z.of_nat (length (zeros (pad_count (pre + pw + 0) 2)))) = false).
        { rewrite zeros_length by (apply pad_count_range; lia).
          pose proof (pad_count_range (pre + pw + 0) 2 ltac:(lia)). lia. }
        rewrite S. reflexivity.
      + rewrite !app_length, !Nat2Z.inj_add, zeros_length by (apply pad_count_range; lia).
        cbn [length]. lia.
  Qed.
End RecordProofs.
