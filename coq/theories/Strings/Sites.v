(* C19 - every place a string is stored, as one sum type [sval] with one writer and one reader.

   Built from the combinators of Psd/Codec.v (the container model of C01/C03; read-only here) and
   its payload models: descriptor values (Psd/Descriptor.v: String 'TEXT', Name, Class/GlobalClass,
   EnumeratedReference, Property, Offset, Descriptor / GlobalObject / ObjectArray / List / Reference,
   any nesting), DescriptorBlock, LinkedLayer, Pattern, GradientMap, tagged blocks and image
   resources holding a payload.  Modelled here because Psd/ treats them as opaque payloads:
   AlphaNamesUnicode, AlphaNamesPascal, URLList, VersionInfo, Slices (version 6) of
   psd_tools/psd/image_resources.py.

   Strings: the writers / readers of Psd/ work on UTF-16 code units.  A stored structure over
   CODE POINTS is written as [sv_write (sv_map utf16_units v)] and what is read is mapped back with
   [join_units]: Python encodes / decodes each string field where it writes / reads it and no
   reader branches on the content of a string, so mapping the fields of the result is the same
   function (Bridge.v: write_unicode_string s p = w_unicode (utf16_units s) p, and the reader).
   Pascal strings (uuid, pattern id, resource name, alpha names) stay code-point lists: their
   charset step is the codec pair enc_s / dec_s.  Definitions only. *)
From PsdV Require Import Base.Prelude Psd.Codec Psd.Model Psd.Struct Psd.Descriptor Psd.Typed
  Psd.Linked Psd.Patterns Psd.Adjust.
From PsdV Require Strings.Model.
From Coq Require Import ZArith List Bool Lia.
Import ListNotations.
Open Scope Z_scope.

Module M := Strings.Model.
Definition str := list Z.

(* ------------------------------------------------------------------ AlphaNamesUnicode / AlphaNamesPascal *)
(* def write(self, fp, **kwargs): return sum(write_unicode_string(fp, item) for item in self)
   def read(cls, fp, **kwargs): while is_readable(fp): items.append(read_unicode_string(fp)) *)
Definition write_alpha_u (l : list str) : W := w_concat (map (fun u => w_unicode u 1) l).
Fixpoint read_alpha_u (fuel : nat) (s : stream) : res (list str) :=
  match fuel with
  | O => Err OutOfFuel
  | S f =>
      if is_readable 1 s then
        do (u, s1) <- r_unicode 1 s; do r <- read_alpha_u f s1; Ok (u :: r)
      else Ok []
  end.

Section Charset.
  Variable enc_s : list Z -> res (list Z).
  Variable dec_s : list Z -> res (list Z).

  (* write_pascal_string(fp, item, padding=1) [encoding macroman] / read_pascal_string(fp, "macroman", padding=1) *)
  Definition write_alpha_p (l : list str) : W := w_concat (map (fun n => w_pascal enc_s n 1) l).
  Fixpoint read_alpha_p (fuel : nat) (s : stream) : res (list str) :=
    match fuel with
    | O => Err OutOfFuel
    | S f =>
        if is_readable 1 s then
          do (u, s1) <- r_pascal dec_s 1 s; do r <- read_alpha_p f s1; Ok (u :: r)
        else Ok []
    end.
End Charset.

(* ------------------------------------------------------------------ URLList *)
(* URLList.write: write_fmt("I", len(self)); items: write_fmt("2I", number, id); write_unicode_string(name) *)
Definition url_item := (Z * Z * str)%type.
Definition write_url_item (it : url_item) : W :=
  let '(number, id, name) := it in
  w_fmt (pk_cat [pack_u 4 number; pack_u 4 id]) +++ w_unicode name 1.
Definition read_url_item (s : stream) : res (url_item * stream) :=
  do (number, s1) <- read_u 4 s; do (id, s2) <- read_u 4 s1; do (name, s3) <- r_unicode 1 s2;
  Ok ((number, id, name), s3).
Definition write_url_list (l : list url_item) : W :=
  w_fmt (pack_u 4 (len l)) +++ w_concat (map write_url_item l).
Definition read_url_list (s : stream) : res (list url_item) :=
  do (count, s1) <- read_u 4 s;
  do (items, _) <- read_n (clampn count s1) read_url_item s1;
  if len items =? count then Ok items else Err IOErr.

(* ------------------------------------------------------------------ VersionInfo *)
(* write_fmt("I?", version, has_composite); writer; reader; write_fmt("I", file_version) *)
Record version_info := mkVI { vi_version : Z; vi_composite : bool; vi_writer : str; vi_reader : str; vi_file : Z }.
Definition write_version_info (v : version_info) : W :=
  w_fmt (pk_cat [pack_u 4 (vi_version v); pack_u 1 (if vi_composite v then 1 else 0)]) +++
  w_unicode (vi_writer v) 1 +++ w_unicode (vi_reader v) 1 +++ w_fmt (pack_u 4 (vi_file v)).
Definition read_version_info (s : stream) : res version_info :=
  do (ver, s1) <- read_u 4 s; do (hc, s2) <- read_u 1 s1;
  do (w, s3) <- r_unicode 1 s2; do (r, s4) <- r_unicode 1 s3; do (fv, _) <- read_u 4 s4;
  Ok (mkVI ver (negb (hc =? 0)) w r fv).

(* ------------------------------------------------------------------ Slices, version 6 *)
Definition L_slice_head : list fspec := [FU 4; FU 4; FU 4].                    (* slice_id, group_id, origin *)
Definition L_slice_mid : list fspec := [FU 4; FU 4; FU 4; FU 4; FU 4].         (* slice_type, bbox *)
Definition L_slice_tail : list fspec := [FU 4; FU 4; FU 1; FU 1; FU 1; FU 1].  (* h/v align, alpha red green blue *)
Record slice6 := mkSlice {
  sl_head : list Z; sl_assoc : option Z; sl_name : str; sl_mid : list Z;
  sl_url : str; sl_target : str; sl_message : str; sl_alt : str;
  sl_html : bool; sl_cell : str; sl_tail : list Z }.
Definition sl_origin (x : slice6) : Z := nth 2 (sl_head x) 0.

(* SliceV6.write with data = None (the optional trailing DescriptorBlock is not modelled) *)
Definition write_slice6 (x : slice6) : W :=
  w_fmt (pack_fields L_slice_head (sl_head x)) +++
  (if sl_origin x =? 1 then opt_w (sl_assoc x) (fun a => w_fmt (pack_u 4 a)) else w_nil) +++
  w_unicode (sl_name x) 1 +++ w_fmt (pack_fields L_slice_mid (sl_mid x)) +++
  w_unicode (sl_url x) 1 +++ w_unicode (sl_target x) 1 +++ w_unicode (sl_message x) 1 +++
  w_unicode (sl_alt x) 1 +++ w_fmt (pack_u 1 (if sl_html x then 1 else 0)) +++
  w_unicode (sl_cell x) 1 +++ w_fmt (pack_fields L_slice_tail (sl_tail x)).

(* SliceV6.read.  After the fixed fields the code peeks: `if is_readable(fp, 4)` and the next
   u32 is 16 it tries DescriptorBlock.read; that branch is outside the model: Err KeyErr. *)
Definition read_slice6 (s : stream) : res (slice6 * stream) :=
  do (hd, s1) <- unpack_fields L_slice_head s;
  do (assoc, s2) <- r_opt (nth 2 hd 0 =? 1) (read_u 4) s1;
  do (name, s3) <- r_unicode 1 s2;
  do (mid, s4) <- unpack_fields L_slice_mid s3;
  do (url, s5) <- r_unicode 1 s4; do (target, s6) <- r_unicode 1 s5;
  do (message, s7) <- r_unicode 1 s6; do (alt, s8) <- r_unicode 1 s7;
  do (html, s9) <- read_u 1 s8;
  do (cell, s10) <- r_unicode 1 s9;
  do (tl, s11) <- unpack_fields L_slice_tail s10;
  if is_readable 4 s11 && (be_val (firstn 4 s11) =? 16) then Err KeyErr
  else Ok (mkSlice hd assoc name mid url target message alt (negb (html =? 0)) cell tl, s11).

Record slices6 := mkSlices { ss_bbox : list Z; ss_name : str; ss_items : list slice6 }.
Definition L_bbox : list fspec := [FU 4; FU 4; FU 4; FU 4].
(* Slices.write: write_fmt("I", version=6); SlicesV6.write: 4I bbox, name, count, items *)
Definition write_slices (x : slices6) : W :=
  w_fmt (pack_u 4 6) +++ w_fmt (pack_fields L_bbox (ss_bbox x)) +++ w_unicode (ss_name x) 1 +++
  w_fmt (pack_u 4 (len (ss_items x))) +++ w_concat (map write_slice6 (ss_items x)).
Definition read_slices (s : stream) : res slices6 :=
  do (ver, s1) <- read_u 4 s;
  if negb ((ver =? 6) || (ver =? 7) || (ver =? 8)) then Err AssertErr else
  if negb (ver =? 6) then Err KeyErr                                   (* versions 7, 8: a DescriptorBlock, see VDescBlock *)
  else
  do (bbox, s2) <- unpack_fields L_bbox s1;
  do (name, s3) <- r_unicode 1 s2;
  do (count, s4) <- read_u 4 s3;
  do (items, _) <- read_n (clampn count s4) read_slice6 s4;
  if len items =? count then Ok (mkSlices bbox name items) else Err IOErr.

Definition wf_slice (x : slice6) : bool :=
  Bool.eqb (is_some (sl_assoc x)) (sl_origin x =? 1).
(* the slice after another one must not start with slice_id = 16 (it would be taken for a descriptor block) *)
Definition wf_slices (x : slices6) : bool :=
  forallb wf_slice (ss_items x) &&
  forallb (fun y => negb (hd 0 (sl_head y) =? 16)) (tl (ss_items x)).

(* ------------------------------------------------------------------ the sum of all modelled sites *)
Inductive sval :=
| VString (pad : Z) (s : str)                         (* StringElement.write(fp, padding) / descriptor String on its own *)
| VResString (sg key : Z) (rname : str) (s : str)     (* ImageResource whose data is a StringElement; rname: pascal *)
| VBlockString (ver pad sg key : Z) (s : str)         (* TaggedBlock whose data is a StringElement (luni) *)
| VDesc (d : dval)                                    (* any descriptor value *)
| VDescBlock (pad : Z) (b : dblock)                   (* DescriptorBlock / DescriptorBlock2 (Slices v7/v8, ...) *)
| VAlphaU (l : list str)
| VAlphaP (l : list str)                              (* pascal *)
| VURLList (l : list url_item)
| VVersionInfo (v : version_info)
| VSlices (x : slices6)
| VLinked (l : linked)                                (* filename, child id: unicode; uuid: pascal *)
| VPattern (p : pattern)                              (* name: unicode; pattern id: pascal *)
| VGradient (g : gradient).                           (* GradientMap.name *)

Inductive sshape :=
| KString (pad : Z) | KResString | KBlockString (ver pad : Z) | KDesc (os : Z) | KDescBlock (pad : Z) (two : bool)
| KAlphaU | KAlphaP | KURLList | KVersionInfo | KSlices | KLinked | KPattern | KGradient.

Definition shape_of (v : sval) : sshape :=
  match v with
  | VString pad _ => KString pad
  | VResString _ _ _ _ => KResString
  | VBlockString ver pad _ _ _ => KBlockString ver pad
  | VDesc d => KDesc (ostype_of d)
  | VDescBlock pad b => KDescBlock pad (match b with DBlock _ _ => false | DBlock2 _ _ _ => true end)
  | VAlphaU _ => KAlphaU | VAlphaP _ => KAlphaP | VURLList _ => KURLList
  | VVersionInfo _ => KVersionInfo | VSlices _ => KSlices | VLinked _ => KLinked
  | VPattern _ => KPattern | VGradient _ => KGradient
  end.

(* TaggedBlock.write: the payload is written with padding 1 when the block padding is 4, else 4 *)
Definition inner_pad (pad : Z) : Z := if pad =? 4 then 1 else 4.

Section SV.
  Variable enc_s : list Z -> res (list Z).
  Variable dec_s : list Z -> res (list Z).
  Variable units : list Z.           (* codes of terminology.Unit / Enum (descriptor UnitFloat) *)
  Variable t : terms.                (* descriptor._TERMS *)

  Definition sv_write (v : sval) : W :=
    match v with
    | VString pad s => w_unicode s pad
    | VResString sg key rname s => write_payload_resource enc_s sg key rname (w_unicode s 1)
    | VBlockString ver pad sg key s => write_payload_block ver pad sg key (w_unicode s (inner_pad pad))
    | VDesc d => write_dval t d
    | VDescBlock pad b => write_dblock t pad b
    | VAlphaU l => write_alpha_u l
    | VAlphaP l => write_alpha_p enc_s l
    | VURLList l => write_url_list l
    | VVersionInfo x => write_version_info x
    | VSlices x => write_slices x
    | VLinked l => write_linked enc_s t 1 l
    | VPattern p => write_pattern enc_s p
    | VGradient g => write_gradient g
    end.

  (* StringElement.read(fp, padding=1): frombytes never passes the padding on *)
  Definition read_string1 (s : stream) : res str := do (u, _) <- r_unicode 1 s; Ok u.

  Definition sv_read (k : sshape) (s : stream) : res sval :=
    match k with
    | KString pad => do (u, _) <- r_unicode pad s; Ok (VString pad u)
    | KResString =>
        do x <- read_payload_resource dec_s read_string1 s;
        let '(sg, key, rname, u, _) := x in Ok (VResString sg key rname u)
    | KBlockString ver pad =>
        do x <- read_payload_block read_string1 ver pad s;
        match x with
        | Some (sg, key, u, _) => Ok (VBlockString ver pad sg key u)
        | None => Err ValueErr
        end
    | KDesc os => do (r, _) <- read_dval units (S (length s)) t os s; Ok (VDesc (fst r))
    | KDescBlock pad two => do r <- read_dblock units two t s; Ok (VDescBlock pad (fst r))
    | KAlphaU => do l <- read_alpha_u (S (length s)) s; Ok (VAlphaU l)
    | KAlphaP => do l <- read_alpha_p dec_s (S (length s)) s; Ok (VAlphaP l)
    | KURLList => do l <- read_url_list s; Ok (VURLList l)
    | KVersionInfo => do x <- read_version_info s; Ok (VVersionInfo x)
    | KSlices => do x <- read_slices s; Ok (VSlices x)
    | KLinked => do (r, _) <- read_linked dec_s units t s; Ok (VLinked (fst r))
    | KPattern => do p <- read_pattern dec_s s; Ok (VPattern p)
    | KGradient => do g <- read_gradient s; Ok (VGradient g)
    end.

  Definition sv_wf (v : sval) : bool :=
    match v with
    | VString pad _ => 0 <? pad
    | VResString sg _ rname _ => memz sg model_res_sigs && wf_name enc_s dec_s rname
    | VBlockString _ pad sg _ _ => ((pad =? 1) || (pad =? 2) || (pad =? 4)) && memz sg model_tb_sigs
    | VDesc d => wf_dval units d
    | VDescBlock pad b => (0 <? pad) && wf_dblock units b
    | VAlphaU _ => true
    | VAlphaP l => forallb (wf_name enc_s dec_s) l
    | VURLList _ => true
    | VVersionInfo _ => true
    | VSlices x => wf_slices x
    | VLinked l => wf_linked enc_s dec_s units l
    | VPattern p => wf_pattern enc_s dec_s p
    | VGradient g => wf_gradient g
    end.
End SV.

(* ------------------------------------------------------------------ mapping the unicode strings *)
Section Map.
  Variable f : str -> str.

  Fixpoint dmap (d : dval) : dval :=
    match d with
    | DDesc os name cid items => DDesc os (f name) cid (map (fun kv : key * dval => (fst kv, dmap (snd kv))) items)
    | DObjArr c name cid items => DObjArr c (f name) cid (map (fun kv : key * dval => (fst kv, dmap (snd kv))) items)
    | DList os items => DList os (map dmap items)
    | DProperty name cid kid => DProperty (f name) cid kid
    | DClass os name cid => DClass os (f name) cid
    | DString u => DString (f u)
    | DEnumRef name cid tid en => DEnumRef (f name) cid tid en
    | DOffset name cid v => DOffset (f name) cid v
    | DName name cid v => DName (f name) cid (f v)
    | other => other
    end.
  Definition dbmap (b : dblock) : dblock :=
    match b with DBlock v d => DBlock v (dmap d) | DBlock2 v dv d => DBlock2 v dv (dmap d) end.
  Definition slmap (x : slice6) : slice6 :=
    mkSlice (sl_head x) (sl_assoc x) (f (sl_name x)) (sl_mid x) (f (sl_url x)) (f (sl_target x))
            (f (sl_message x)) (f (sl_alt x)) (sl_html x) (f (sl_cell x)) (sl_tail x).
  Definition llmap (l : linked) : linked :=
    mkLinked (ll_kind l) (ll_version l) (ll_uuid l) (f (ll_filename l)) (ll_filetype l) (ll_creator l)
             (ll_filesize l) (option_map dbmap (ll_open l)) (option_map dbmap (ll_linked l)) (ll_timestamp l)
             (ll_data l) (option_map f (ll_child l)) (ll_mod l) (ll_lock l).

  Definition sv_map (v : sval) : sval :=
    match v with
    | VString pad s => VString pad (f s)
    | VResString sg key rname s => VResString sg key rname (f s)
    | VBlockString ver pad sg key s => VBlockString ver pad sg key (f s)
    | VDesc d => VDesc (dmap d)
    | VDescBlock pad b => VDescBlock pad (dbmap b)
    | VAlphaU l => VAlphaU (map f l)
    | VAlphaP l => VAlphaP l
    | VURLList l => VURLList (map (fun it : url_item => (fst it, f (snd it))) l)
    | VVersionInfo x => VVersionInfo (mkVI (vi_version x) (vi_composite x) (f (vi_writer x)) (f (vi_reader x)) (vi_file x))
    | VSlices x => VSlices (mkSlices (ss_bbox x) (f (ss_name x)) (map slmap (ss_items x)))
    | VLinked l => VLinked (llmap l)
    | VPattern p => VPattern (mkPattern (pt_version p) (pt_mode p) (pt_point p) (f (pt_name p)) (pt_id p) (pt_table p) (pt_data p))
    | VGradient g => VGradient (mkGrad (gm_head g) (gm_method g) (f (gm_name g)) (gm_cstops g) (gm_tstops g) (gm_tail g))
    end.
End Map.

(* every unicode string of the structure satisfies P *)
Section All.
  Variable P : str -> bool.
  Fixpoint dall (d : dval) : bool :=
    match d with
    | DDesc _ name _ items => P name && forallb (fun kv : key * dval => dall (snd kv)) items
    | DObjArr _ name _ items => P name && forallb (fun kv : key * dval => dall (snd kv)) items
    | DList _ items => forallb dall items
    | DProperty name _ _ => P name
    | DClass _ name _ => P name
    | DString u => P u
    | DEnumRef name _ _ _ => P name
    | DOffset name _ _ => P name
    | DName name _ v => P name && P v
    | _ => true
    end.
  Definition dball (b : dblock) : bool := match b with DBlock _ d => dall d | DBlock2 _ _ d => dall d end.
  Definition oall {A} (g : A -> bool) (o : option A) : bool := match o with Some a => g a | None => true end.
  Definition slall (x : slice6) : bool :=
    P (sl_name x) && P (sl_url x) && P (sl_target x) && P (sl_message x) && P (sl_alt x) && P (sl_cell x).
  Definition sv_all (v : sval) : bool :=
    match v with
    | VString _ s => P s
    | VResString _ _ _ s => P s
    | VBlockString _ _ _ _ s => P s
    | VDesc d => dall d
    | VDescBlock _ b => dball b
    | VAlphaU l => forallb P l
    | VAlphaP _ => true
    | VURLList l => forallb (fun it : url_item => P (snd it)) l
    | VVersionInfo x => P (vi_writer x) && P (vi_reader x)
    | VSlices x => P (ss_name x) && forallb slall (ss_items x)
    | VLinked l => P (ll_filename l) && oall dball (ll_open l) && oall dball (ll_linked l) && oall P (ll_child l)
    | VPattern p => P (pt_name p)
    | VGradient g => P (gm_name g)
    end.
End All.

(* a string UTF-16 carries unchanged: valid code points, no lone high surrogate followed by a lone low one *)
Definition good (s : str) : bool := forallb M.valid_cpb s && M.joinable_free s.

(* the two directions at the code-point level *)
Section CP.
  Variable enc_s : list Z -> res (list Z).
  Variable dec_s : list Z -> res (list Z).
  Variable units : list Z.
  Variable t : terms.
  Definition sv_write_cp (v : sval) : W := sv_write enc_s t (sv_map M.utf16_units v).
  Definition sv_read_cp (k : sshape) (s : stream) : res sval :=
    do v <- sv_read dec_s units t k s; Ok (sv_map M.join_units v).
End CP.

(* the pascal strings of a structure (they can make the writer refuse) *)
Definition sv_pascal (v : sval) : list str :=
  match v with
  | VResString _ _ rname _ => [rname]
  | VAlphaP l => l
  | VLinked l => [ll_uuid l]
  | VPattern p => [pt_id p]
  | _ => []
  end.
