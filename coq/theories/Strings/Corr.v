(* Correspondence glue for C19 (mirrored in harness/vh/c19.py). *)
From PsdV Require Import Base.Prelude Strings.Model Strings.Codecs.
From Coq Require Import Uint63.
Import ListNotations.
Open Scope Z_scope.

(* compact string descriptors: literal, or a pattern cycled to n code points *)
Inductive sdesc := SLit (l : list Z) | SRep (pat : list Z) (n : Z).

Fixpoint cycle (fuel : nat) (pat cur : list Z) : list Z :=
  match fuel with
  | O => []
  | S f =>
      match cur with
      | x :: r => x :: cycle f pat r
      | [] => match pat with [] => [] | x :: r => x :: cycle f pat r end
      end
  end.

Definition sd_str (d : sdesc) : list Z :=
  match d with SLit l => l | SRep pat n => cycle (Z.to_nat n) pat pat end.

Definition canonW (r : res (list Z * Z)) : list Z :=
  match r with Ok (b, w) => 0 :: w :: b | Err e => [err_code e] end.

(* a read outcome: the position reached (fp.tell()) and the string *)
Definition canonR (d : list Z) (r : res (list Z * list Z)) : list Z :=
  match r with
  | Ok (s, rest) => 0 :: (Z.of_nat (length d) - Z.of_nat (length rest)) :: s
  | Err e => [err_code e]
  end.

Definition dg (l : list Z) : list Z := [to_Z (h63_list 0%uint63 l)].

(* the external charset codec as a one-point table supplied by the harness:
   the answer Python's codec gave on the argument the code must pass to it *)
Definition onept (k : list Z) (a : option (list Z)) : list Z -> option (list Z) :=
  fun x => if list_eqb x k then a else Some [999999].

Definition uni_write (a : sdesc * Z) : list Z :=
  dg (canonW (write_unicode_string (sd_str (fst a)) (snd a))).

Definition uni_read (a : list Z * Z) : list Z :=
  canonR (fst a) (read_unicode_string (fst a) (snd a)).

(* (string, padding, Python's value.encode(encoding) or None) *)
Definition pas_write (a : sdesc * Z * option (list Z)) : list Z :=
  let '(d, p, ans) := a in
  dg (canonW (write_pascal_string (onept (sd_str d) ans) (sd_str d) p)).

(* (data, padding, the bytes the code must hand to the codec, Python's decode of them) *)
Definition pas_read (a : list Z * Z * list Z * option (list Z)) : list Z :=
  let '(d, p, seg, ans) := a in
  canonR d (read_pascal_string (onept seg ans) d p).

(* ------------------------------------------------------------------ codec tables *)
Definition opt_canon (o : option (list Z)) : list Z :=
  match o with Some b => 1 :: b | None => [0] end.
Definition opt1 (o : option Z) : option (list Z) :=
  match o with Some b => Some [b] | None => None end.

Definition enc1_of (codec : Z) (c : Z) : option (list Z) :=
  if codec =? 0 then opt1 (table_enc1 macroman_hi c)
  else if codec =? 1 then opt1 (table_enc1 maccyrillic_hi c)
  else if codec =? 2 then opt1 (table_enc1 [] c)
  else if codec =? 3 then utf8_enc1 c
  else opt1 (sjis_frag_enc1 c).

Definition enc_of (codec : Z) : list Z -> option (list Z) :=
  if codec =? 0 then macroman_enc
  else if codec =? 1 then maccyrillic_enc
  else if codec =? 2 then ascii_enc
  else if codec =? 3 then utf8_enc
  else sjis_frag_enc.

Definition dec_of (codec : Z) : list Z -> option (list Z) :=
  if codec =? 0 then macroman_dec
  else if codec =? 1 then maccyrillic_dec
  else if codec =? 2 then ascii_dec
  else if codec =? 3 then utf8_dec
  else sjis_frag_dec.

Fixpoint range_digest (f : Z -> list Z) (n : nat) (c : Z) (h : int) : int :=
  match n with
  | O => h
  | S n' => range_digest f n' (c + 1) (h63_list h (f c))
  end.

(* (codec, first code point, count): digest of the per-code-point encodings *)
Definition enc_range (a : Z * Z * Z) : list Z :=
  let '(codec, lo, n) := a in
  [to_Z (range_digest (fun c => opt_canon (enc1_of codec c)) (Z.to_nat n) lo 0%uint63)].

Definition enc_str (a : Z * list Z) : list Z := opt_canon (enc_of (fst a) (snd a)).
Definition dec_str (a : Z * list Z) : list Z := opt_canon (dec_of (fst a) (snd a)).

(* ------------------------------------------------------------------ layer name *)
Definition empty_rec : lrec := {| rec_name := []; rec_luni := None |}.

(* (value, prefix length, Python's encoding of the legacy name under the save encoding):
   setter, then LayerRecord._write_extra *)
Definition name_write (a : sdesc * Z * option (list Z)) : list Z :=
  let '(d, pre, ans) := a in
  match set_name macroman_enc (sd_str d) empty_rec with
  | Err e => dg [err_code e]
  | Ok r =>
      dg (0 :: Z.of_nat (length (rec_name r)) :: rec_name r ++ get_name r
            ++ canonW (write_name_part (onept (rec_name r) ans) pre r))
  end.

Definition name_read (a : list Z * list Z * option (list Z)) : list Z :=
  let '(d, seg, ans) := a in
  match read_name_part (onept seg ans) d with
  | Ok r => 0 :: get_name r
  | Err e => [err_code e]
  end.

(* Group.new(name) / PixelLayer.frompil(.., name): the record state they build *)
Definition ctor_case (d : sdesc) : list Z :=
  match ctor_rec macroman_enc (sd_str d) with
  | Err e => dg [err_code e]
  | Ok r => dg (0 :: Z.of_nat (length (rec_name r)) :: rec_name r
                  ++ match rec_luni r with Some v => 1 :: v | None => [0] end)
  end.

Definition guard_case (s : list Z) : list Z :=
  [if joinable_free s then 1 else 0].
