(* Correspondence glue for the string sites (mirrored in harness/vh/c19.py: site_lit / site_strings). *)
From PsdV Require Import Base.Prelude Psd.Codec Psd.Model Psd.Descriptor Psd.Linked Psd.Patterns Psd.Adjust.
From PsdV Require Import Strings.Sites.
From PsdV Require Strings.Model Strings.Codecs Strings.Corr Strings.Bridge.
From Coq Require Import ZArith List Bool Uint63.
Import ListNotations.
Open Scope Z_scope.

(* the strings of a structure in reading order (unicode and pascal) *)
Fixpoint dstrings (d : dval) : list str :=
  match d with
  | DDesc _ name _ items => name :: flat_map (fun kv : key * dval => dstrings (snd kv)) items
  | DObjArr _ name _ items => name :: flat_map (fun kv : key * dval => dstrings (snd kv)) items
  | DList _ items => flat_map dstrings items
  | DProperty name _ _ => [name]
  | DClass _ name _ => [name]
  | DString u => [u]
  | DEnumRef name _ _ _ => [name]
  | DOffset name _ _ => [name]
  | DName name _ v => [name; v]
  | _ => []
  end.
Definition ostrings (o : option str) : list str := match o with Some s => [s] | None => [] end.
Definition sv_strings (v : sval) : list str :=
  match v with
  | VString _ s => [s]
  | VResString _ _ rname s => [rname; s]
  | VBlockString _ _ _ _ s => [s]
  | VDesc d => dstrings d
  | VDescBlock _ (DBlock _ d) => dstrings d
  | VDescBlock _ (DBlock2 _ _ d) => dstrings d
  | VAlphaU l => l
  | VAlphaP l => l
  | VURLList l => map (fun it : url_item => snd it) l
  | VVersionInfo x => [vi_writer x; vi_reader x]
  | VSlices x => ss_name x :: flat_map (fun y => [sl_name y; sl_url y; sl_target y; sl_message y; sl_alt y; sl_cell y]) (ss_items x)
  | VLinked l => [ll_uuid l; ll_filename l] ++ ostrings (ll_child l)
  | VPattern p => [pt_name p; pt_id p]
  | VGradient g => [gm_name g]
  end.
Definition flat_strings (l : list str) : list Z := flat_map (fun s => len s :: s) l.

(* (pascal codec id of Strings.Corr, descriptor terms in use, the structure over code points):
   digest of the written bytes + count, then of the strings read back from them *)
Definition site_case (a : Z * terms * sval) : list Z :=
  let '(codec, t, v) := a in
  let enc := Strings.Bridge.lift (Strings.Corr.enc_of codec) in
  let dec := Strings.Bridge.lift (Strings.Corr.dec_of codec) in
  match sv_write_cp enc t v with
  | Err e => Strings.Corr.dg [err_code e]
  | Ok (bs, n) =>
      Strings.Corr.dg (0 :: n :: bs ++
        match sv_read_cp dec [] t (shape_of v) bs with
        | Ok v' => 0 :: flat_strings (sv_strings v')
        | Err e => [err_code e]
        end)
  end.
