(* C19 - the string codecs of Strings/Model.v (code points) and the primitives of Psd/Codec.v
   (UTF-16 code units, used by every container / descriptor model of Psd/) are the same functions:

     write_unicode_string s p      =  w_unicode (utf16_units s) p
     read_unicode_string d p       =  r_unicode p d  followed by join_units on the units
     write_pascal_string enc s p   =  w_pascal (lift enc) s p
     read_pascal_string dec d p    =  r_pascal (lift dec) p d

   (for p > 0; readers on byte streams, writers on valid code points).  Through these equations
   every site model built from the Psd combinators (Strings/Sites.v) speaks about the functions
   whose correspondence with psd_tools.utils is checked in harness/vh/c19.py. *)
From PsdV Require Import Base.Prelude Psd.Codec.
From PsdV Require Strings.Model Strings.Proofs.
From Coq Require Import ZArith List Bool Lia ZifyBool.
Import ListNotations.
Open Scope Z_scope.
Ltac Zify.zify_post_hook ::= Z.to_euclidean_division_equations.

Module M := Strings.Model.
Module MP := Strings.Proofs.

(* charset codec of Strings/Model.v (option) as the codec type of Psd/ (res): an encode/decode
   error of Python is a UnicodeError, i.e. a ValueError *)
Definition lift (f : list Z -> option (list Z)) : list Z -> res (list Z) :=
  fun x => match f x with Some y => Ok y | None => Err ValueErr end.

Lemma be_bytes_4 n : be_bytes 4 n = [n / 16777216 mod 256; (n / 65536) mod 256; (n / 256) mod 256; n mod 256].
Proof. unfold be_bytes. cbn [le_bytes rev app]. rewrite !Z.div_div by lia. reflexivity. Qed.
Lemma be_bytes_2 n : be_bytes 2 n = [(n / 256) mod 256; n mod 256].
Proof. reflexivity. Qed.

Lemma pack_u4_I n : pack_u 4 n = M.pack_I n.
Proof.
  unfold pack_u, M.pack_I, in_u, pow256. change (256 ^ Z.of_nat 4) with 4294967296.
  destruct ((0 <=? n) && (n <? 4294967296)) eqn:E.
  - replace ((0 <=? n) && (n <=? 4294967295)) with true by lia. rewrite be_bytes_4. unfold M.be32.
    f_equal. f_equal. lia.
  - replace ((0 <=? n) && (n <=? 4294967295)) with false by lia. reflexivity.
Qed.

Lemma pack_units us : Forall (fun u => MP.unitb u = true) us ->
  pk_cat (map (pack_u 2) us) = Ok (flat_map M.be16 us).
Proof.
  induction 1 as [|u us Hu _ IH]; [reflexivity|]. cbn [map pk_cat flat_map].
  unfold MP.unitb in Hu. unfold pack_u at 1, in_u, pow256. change (256 ^ Z.of_nat 2) with 65536.
  replace ((0 <=? u) && (u <? 65536)) with true by lia. cbn [bind]. rewrite IH. cbn [bind].
  rewrite be_bytes_2. unfold M.be16. f_equal. cbn [app]. f_equal. lia.
Qed.

Lemma zeros_eq k : zeros (Z.to_nat k) = M.zeros k.
Proof. reflexivity. Qed.
Lemma pad_count_eq a b : pad_count a b = M.pad_count a b.
Proof. reflexivity. Qed.

Lemma len_flat_be16 us : len (flat_map M.be16 us) = 2 * len us.
Proof. unfold len. rewrite MP.be16_length. lia. Qed.

Theorem unicode_write_bridge s p : M.valid_str s -> 0 < p ->
  M.write_unicode_string s p = w_unicode (M.utf16_units s) p.
Proof.
  intros Hv Hp. unfold M.write_unicode_string, w_unicode. cbn zeta. unfold M.utf16be_encode.
  pose proof (MP.utf16_units_range s Hv) as Hr.
  rewrite (pack_units _ Hr).
  assert (L : Z.of_nat (length (flat_map M.be16 (M.utf16_units s))) = 2 * len (M.utf16_units s))
    by apply len_flat_be16.
  rewrite L. replace (2 * len (M.utf16_units s) / 2) with (len (M.utf16_units s))
    by (rewrite (Z.mul_comm 2), Z.div_mul by lia; reflexivity).
  rewrite <- pack_u4_I. unfold w_then_pad, w_seq, w_fmt, w_pad, w_bytes.
  destruct (pack_u 4 (len (M.utf16_units s))) as [hdr|e] eqn:E; [|reflexivity].
  cbn [bind fst snd]. pose proof (pack_u_len _ _ _ E) as Lh. change (Z.of_nat 4) with 4 in Lh.
  rewrite Lh, len_flat_be16.
  pose proof (pad_count_range (4 + 2 * len (M.utf16_units s)) p Hp).
  rewrite len_zeros, <- app_assoc. rewrite Z2Nat.id by lia. reflexivity.
Qed.

Lemma units_of_eq b : units_of b = M.units_of_bytes b.
Proof.
  assert (H : forall n b, (length b <= n)%nat -> units_of b = M.units_of_bytes b).
  { induction n as [|n IH]; intros b0 Hl.
    - destruct b0; [reflexivity|cbn [length] in Hl; lia].
    - destruct b0 as [|x [|y l]]; [reflexivity|reflexivity|].
      cbn [length] in Hl. cbn [units_of M.units_of_bytes]. rewrite (IH l) by lia. reflexivity. }
  apply (H (length b)). lia.
Qed.

Lemma take_eq n d : 0 <= n -> fst (read_upto n d) = M.take n d /\ snd (read_upto n d) = M.drop n d.
Proof.
  intros Hn. unfold read_upto. destruct (n <? 0) eqn:E; [lia|]. cbn [fst snd].
  rewrite MP.take_firstn, MP.drop_skipn. unfold len.
  destruct (Z_le_gt_dec n (Z.of_nat (length d))).
  - rewrite Z.min_l by lia. split; reflexivity.
  - rewrite Z.min_r by lia. rewrite Nat2Z.id. rewrite firstn_all, skipn_all.
    rewrite firstn_all2, skipn_all2 by lia. split; reflexivity.
Qed.

Lemma read_u4_I d : bytes d ->
  match read_u 4 d, M.read_I d with
  | Ok (n, r), Ok (n', r') => n = n' /\ r = r' /\ 0 <= n
  | Err IOErr, Err IOErr => True
  | _, _ => False
  end.
Proof.
  intros Hb. unfold read_u, take, M.read_I.
  destruct d as [|a [|b [|c [|e r]]]]; try (cbn; exact I).
  replace ((0 <=? Z.of_nat 4) && (Z.of_nat 4 <=? len (a :: b :: c :: e :: r))) with true.
  2:{ rewrite !len_cons. pose proof (len_nonneg r). lia. }
  change (Z.to_nat (Z.of_nat 4)) with 4%nat. cbn [bind firstn skipn fst snd].
  unfold be_val. cbn [rev app le_val].
  inversion Hb as [|? ? Ha Hb1]; subst. inversion Hb1 as [|? ? Hb' Hb2]; subst.
  inversion Hb2 as [|? ? Hc Hb3]; subst. inversion Hb3 as [|? ? He _]; subst.
  unfold byte in *. split; [lia|split; [reflexivity|lia]].
Qed.

Theorem unicode_read_bridge d p : bytes d ->
  M.read_unicode_string d p = (do ur <- r_unicode p d; Ok (M.join_units (fst ur), snd ur)).
Proof.
  intros Hb. unfold M.read_unicode_string, r_unicode.
  pose proof (read_u4_I d Hb) as H.
  destruct (read_u 4 d) as [[n r]|e1]; destruct (M.read_I d) as [[n' r']|e2]; cbn beta iota in H.
  - destruct H as (<- & <- & Hn). cbn [bind fst snd].
    destruct (take_eq (n * 2) r ltac:(lia)) as [T D].
    rewrite T, D. replace (n * 2) with (2 * n) by lia. unfold M.utf16be_decode.
    change (units_of (M.take (2 * n) r)) with (M.units_of_bytes (M.take (2 * n) r)).
    destruct (M.units_of_bytes (M.take (2 * n) r)) as [us|e]; [|reflexivity]. cbn [bind fst snd].
    unfold r_pad. rewrite MP.drop_skipn. reflexivity.
  - contradiction.
  - destruct e1; contradiction.
  - destruct e1; try contradiction. destruct e2; try contradiction. reflexivity.
Qed.

Section PascalBridge.
  Variable enc dec : list Z -> option (list Z).

  Lemma pack_u1 n : pack_u 1 n = if (0 <=? n) && (n <=? 255) then Ok [n] else Err StructErr.
  Proof.
    unfold pack_u, in_u, pow256. change (256 ^ Z.of_nat 1) with 256.
    destruct ((0 <=? n) && (n <? 256)) eqn:E.
    - replace ((0 <=? n) && (n <=? 255)) with true by lia. unfold be_bytes. cbn [le_bytes rev app].
      f_equal. f_equal. lia.
    - replace ((0 <=? n) && (n <=? 255)) with false by lia. reflexivity.
  Qed.

  Theorem pascal_write_bridge s p : 0 < p ->
    M.write_pascal_string enc s p = w_pascal (lift enc) s p.
  Proof.
    clear dec. intros Hp. unfold M.write_pascal_string, w_pascal, lift.
    destruct (enc s) as [data|]; [|reflexivity]. cbn [bind]. cbn zeta.
    rewrite pack_u1. fold (len data). pose proof (len_nonneg data).
    destruct (len data <=? 255) eqn:E.
    - replace (0 <=? len data) with true by lia. cbn [andb].
      unfold w_then_pad, w_seq, w_fmt, w_pad, w_bytes. cbn [bind fst snd app].
      rewrite len_cons, len_nil. replace (1 + 0 + len data) with (1 + len data) by lia.
      pose proof (pad_count_range (1 + len data) p Hp). rewrite len_zeros, Z2Nat.id by lia. reflexivity.
    - rewrite andb_false_r. reflexivity.
  Qed.

  Theorem pascal_read_bridge d p : bytes d ->
    M.read_pascal_string dec d p = r_pascal (lift dec) p d.
  Proof.
    clear enc. intros Hb. unfold M.read_pascal_string, r_pascal, read_u, take.
    destruct d as [|n r]; [reflexivity|].
    replace ((0 <=? Z.of_nat 1) && (Z.of_nat 1 <=? len (n :: r))) with true.
    2:{ rewrite len_cons. pose proof (len_nonneg r). lia. }
    change (Z.to_nat (Z.of_nat 1)) with 1%nat. cbn [bind fst snd firstn skipn].
    unfold be_val. cbn [rev app le_val]. replace (n + 256 * 0) with n by lia.
    inversion Hb as [|? ? Hn _]; subst. unfold byte in Hn.
    destruct (take_eq n r ltac:(lia)) as [T D]. rewrite T, D. fold (len (M.take n r)).
    destruct (len (M.take n r) =? n); [|reflexivity].
    unfold lift. destruct (dec (M.take n r)); [|reflexivity]. cbn [bind].
    unfold r_pad. rewrite MP.drop_skipn. reflexivity.
  Qed.
End PascalBridge.
