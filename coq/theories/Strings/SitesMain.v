(* C19 - every modelled string site round-trips: on code units (sv_rt), then on code points
   (all_sites_rt), and pascal strings that do not fit are refused (sv_rejects). *)
From PsdV Require Import Base.Prelude Psd.Codec Psd.Model Psd.Proofs Psd.Struct Psd.Leaf Psd.LeafProofs
  Psd.Descriptor Psd.DescriptorProofs Psd.Typed Psd.Linked Psd.LinkedProofs Psd.Patterns Psd.PatternsProofs
  Psd.Adjust Psd.AdjustProofs.
From PsdV Require Import Strings.Sites Strings.SitesProofs.
From PsdV Require Strings.Model Strings.Proofs Strings.Codecs Strings.CodecProofs Strings.Bridge.
From Coq Require Import ZArith List Bool Lia ZifyBool.
Import ListNotations.
Open Scope Z_scope.

Module MP := Strings.Proofs.

(* ------------------------------------------------------------------ code units *)
Lemma read_string1_rt s pad body m : 0 < pad -> w_unicode s pad = Ok (body, m) -> read_string1 body = Ok s.
Proof. intros Hp H. unfold read_string1. now rewrite (unicode_rt s pad body m Hp H). Qed.

Theorem sv_rt enc_s dec_s units t v bs n :
  wf_terms t = true -> sv_wf enc_s dec_s units v = true -> sv_write enc_s t v = Ok (bs, n) ->
  sv_read dec_s units t (shape_of v) bs = Ok v.
Proof.
  intros Ht Hwf H. destruct v; cbn [sv_wf sv_write shape_of sv_read] in *.
  - (* StringElement *)
    apply Z.ltb_lt in Hwf. rewrite <- (app_nil_r bs). now rewrite (unicodep_rt s pad bs n [] Hwf H).
  - (* ImageResource + StringElement *)
    apply andb_prop in Hwf as [Hsg Hname].
    rewrite <- (app_nil_r bs).
    rewrite (payload_resource_rt enc_s dec_s sg key rname (w_unicode s 1) read_string1 s bs n []
               Hsg Hname (wtruth_unicode s 1)
               (fun body m Hw => read_string1_rt s 1 body m ltac:(lia) Hw) H).
    reflexivity.
  - (* TaggedBlock + StringElement *)
    apply andb_prop in Hwf as [Hpad Hsg].
    assert (Hp : pad = 1 \/ pad = 2 \/ pad = 4) by lia.
    assert (Hip : 0 < inner_pad pad) by (unfold inner_pad; destruct (pad =? 4); lia).
    rewrite <- (app_nil_r bs).
    rewrite (payload_block_rt ver pad sg key (w_unicode s (inner_pad pad)) read_string1 s bs n []
               Hp Hsg (wtruth_unicode s _)
               (fun body m Hw => read_string1_rt s _ body m Hip Hw) H).
    reflexivity.
  - (* descriptor value *)
    pose proof (dsize_le t d bs n H) as Hsz.
    rewrite <- (app_nil_r bs) at 2.
    rewrite (dval_rt units t Ht d Hwf bs n [] (S (length bs)) H ltac:(lia)). reflexivity.
  - (* descriptor block *)
    apply andb_prop in Hwf as [Hp Hb]. apply Z.ltb_lt in Hp.
    rewrite (dblock_rt units t pad b bs n Hp Ht Hb H). reflexivity.
  - rewrite (alpha_u_rt l bs n (S (length bs)) H ltac:(lia)). reflexivity.
  - rewrite (alpha_p_rt enc_s dec_s l bs n (S (length bs)) Hwf H ltac:(lia)). reflexivity.
  - rewrite (url_list_rt l bs n H). reflexivity.
  - rewrite (version_info_rt v bs n H). reflexivity.
  - rewrite (slices_rt x bs n Hwf H). reflexivity.
  - destruct (linked_rt enc_s dec_s units t 1 l bs n [] Ht Hwf H) as (rest' & Hr).
    rewrite app_nil_r in Hr. rewrite Hr. reflexivity.
  - rewrite (pattern_rt enc_s dec_s p bs n Hwf H). reflexivity.
  - rewrite (gradient_rt g bs n Hwf H). reflexivity.
Qed.

(* ------------------------------------------------------------------ mapping strings *)
Lemma good_valid s : good s = true -> M.valid_str s /\ M.joinable_free s = true.
Proof.
  unfold good. intros H. apply andb_prop in H as [Hv Hj]. split; [|exact Hj].
  unfold M.valid_str. apply Forall_forall. intros c Hc. rewrite forallb_forall in Hv. now apply Hv.
Qed.
Lemma good_rt s : good s = true -> M.join_units (M.utf16_units s) = s.
Proof.
  intros H. destruct (good_valid s H) as [Hv Hj].
  rewrite MP.join_units_utf16 by exact Hv. now apply MP.join_units_id.
Qed.

Lemma map_id_forall {A} (h : A -> A) (P : A -> bool) (l : list A) :
  (forall a, In a l -> P a = true -> h a = a) -> forallb P l = true -> map h l = l.
Proof.
  induction l as [|a l IH]; intros Hh H; [reflexivity|]. cbn [forallb] in H. apply andb_prop in H as [Ha Hl].
  cbn [map]. rewrite (Hh a (or_introl eq_refl) Ha). f_equal. apply IH; [|exact Hl].
  intros b Hb. apply Hh. now right.
Qed.

Section MapRt.
  Local Notation u := M.utf16_units.
  Local Notation j := M.join_units.

  Lemma dmap_rt : forall d, dall good d = true -> dmap j (dmap u d) = d.
  Proof.
    apply (dval_ind' (fun d => dall good d = true -> dmap j (dmap u d) = d)).
    - intros os name cid items IH H. cbn [dall] in H. apply andb_prop in H as [Hn Hi].
      cbn [dmap]. rewrite (good_rt name Hn). f_equal. rewrite map_map. cbn [fst snd].
      rewrite Forall_forall in IH.
      apply (map_id_forall _ (fun kv : key * dval => dall good (snd kv))); [|exact Hi].
      intros [k v] Hin Hg. cbn [fst snd] in *. f_equal. exact (IH (k, v) Hin Hg).
    - intros c name cid items IH H. cbn [dall] in H. apply andb_prop in H as [Hn Hi].
      cbn [dmap]. rewrite (good_rt name Hn). f_equal. rewrite map_map. cbn [fst snd].
      rewrite Forall_forall in IH.
      apply (map_id_forall _ (fun kv : key * dval => dall good (snd kv))); [|exact Hi].
      intros [k v] Hin Hg. cbn [fst snd] in *. f_equal. exact (IH (k, v) Hin Hg).
    - intros os items IH H. cbn [dall] in H. cbn [dmap]. f_equal. rewrite map_map.
      rewrite Forall_forall in IH.
      apply (map_id_forall _ (dall good)); [|exact H]. intros v Hin Hg. exact (IH v Hin Hg).
    - intros d Hd H. destruct d; try contradiction; cbn [dall dmap] in *; try reflexivity.
      + now rewrite (good_rt _ H).
      + now rewrite (good_rt _ H).
      + now rewrite (good_rt _ H).
      + now rewrite (good_rt _ H).
      + now rewrite (good_rt _ H).
      + apply andb_prop in H as [H1 H2]. now rewrite (good_rt _ H1), (good_rt _ H2).
  Qed.

  Lemma dbmap_rt b : dball good b = true -> dbmap j (dbmap u b) = b.
  Proof. destruct b; cbn [dball dbmap]; intros H; now rewrite (dmap_rt _ H). Qed.

  Lemma omap_rt {A} (h1 h2 : A -> A) (P : A -> bool) (o : option A) :
    (forall a, P a = true -> h2 (h1 a) = a) -> oall P o = true -> option_map h2 (option_map h1 o) = o.
  Proof. intros Hh H. destruct o as [a|]; [|reflexivity]. cbn [oall option_map] in *. now rewrite Hh. Qed.

  Lemma sv_map_rt v : sv_all good v = true -> sv_map j (sv_map u v) = v.
  Proof.
    destruct v; cbn [sv_all sv_map]; intros H.
    - now rewrite (good_rt _ H).
    - now rewrite (good_rt _ H).
    - now rewrite (good_rt _ H).
    - now rewrite (dmap_rt _ H).
    - now rewrite (dbmap_rt _ H).
    - f_equal. rewrite map_map. apply (map_id_forall _ good); [|exact H]. intros a _ Ha. now apply good_rt.
    - reflexivity.
    - f_equal. rewrite map_map. cbn [fst snd].
      apply (map_id_forall _ (fun it : url_item => good (snd it))); [|exact H].
      intros [[a b] s] _ Hs. cbn [fst snd] in *. now rewrite (good_rt _ Hs).
    - destruct v as [ver hc w r fv]. cbn [vi_version vi_composite vi_writer vi_reader vi_file] in *.
      apply andb_prop in H as [H1 H2]. now rewrite (good_rt _ H1), (good_rt _ H2).
    - destruct x as [bbox name items]. cbn [ss_bbox ss_name ss_items] in *.
      apply andb_prop in H as [H1 H2]. rewrite (good_rt _ H1). f_equal. f_equal. rewrite map_map.
      apply (map_id_forall _ (slall good)); [|exact H2].
      intros [hd assoc nm mid url target message alt html cell tail] _ Hs. unfold slall, slmap in *.
      cbn [sl_head sl_assoc sl_name sl_mid sl_url sl_target sl_message sl_alt sl_html sl_cell sl_tail] in *.
      do 5 (let H := fresh in apply andb_prop in Hs as [Hs H]).
      now rewrite !good_rt by assumption.
    - destruct l as [kind version uuid fname ftype creator fsz op lf ts data child md lk]. unfold llmap.
      cbn [ll_kind ll_version ll_uuid ll_filename ll_filetype ll_creator ll_filesize ll_open ll_linked ll_timestamp
           ll_data ll_child ll_mod ll_lock] in *.
      apply andb_prop in H as [H Hc]. apply andb_prop in H as [H Hl]. apply andb_prop in H as [Hf Ho].
      rewrite (good_rt _ Hf).
      rewrite (omap_rt (dbmap u) (dbmap j) (dball good) op dbmap_rt Ho).
      rewrite (omap_rt (dbmap u) (dbmap j) (dball good) lf dbmap_rt Hl).
      destruct child as [c|]; cbn [option_map oall] in *; [rewrite (good_rt c Hc)|]; reflexivity.
    - destruct p as [pv pm pp pn pi ptb pd]. cbn [pt_version pt_mode pt_point pt_name pt_id pt_table pt_data] in *. now rewrite (good_rt _ H).
    - destruct g as [gh gme gn gc gt gtl]. cbn [gm_head gm_method gm_name gm_cstops gm_tstops gm_tail] in *. now rewrite (good_rt _ H).
  Qed.
End MapRt.

Lemma ostype_dmap f d : ostype_of (dmap f d) = ostype_of d.
Proof. destruct d; reflexivity. Qed.
Lemma shape_map f v : shape_of (sv_map f v) = shape_of v.
Proof.
  destruct v; cbn [sv_map shape_of]; try reflexivity.
  - now rewrite ostype_dmap.
  - destruct b; reflexivity.
Qed.

(* ------------------------------------------------------------------ code points: the main statement *)
Theorem all_sites_rt enc_s dec_s units t v bs n :
  wf_terms t = true ->
  sv_wf enc_s dec_s units (sv_map M.utf16_units v) = true ->
  sv_all good v = true ->
  sv_write_cp enc_s t v = Ok (bs, n) ->
  sv_read_cp dec_s units t (shape_of v) bs = Ok v.
Proof.
  intros Ht Hwf Hg H. unfold sv_write_cp in H. unfold sv_read_cp.
  rewrite <- (shape_map M.utf16_units v).
  rewrite (sv_rt enc_s dec_s units t _ bs n Ht Hwf H). cbn [bind].
  now rewrite (sv_map_rt v Hg).
Qed.

(* ------------------------------------------------------------------ well-formedness does not look at unicode strings *)
Lemma forallb_map {A B} (g : A -> B) (P : B -> bool) l : forallb P (map g l) = forallb (fun a => P (g a)) l.
Proof. induction l as [|a l IH]; [reflexivity|]. cbn [map forallb]. now rewrite IH. Qed.
Lemma forallb_ext_in {A} (P Q : A -> bool) l : (forall a, In a l -> P a = Q a) -> forallb P l = forallb Q l.
Proof.
  induction l as [|a l IH]; intros H; [reflexivity|]. cbn [forallb].
  rewrite (H a (or_introl eq_refl)), IH; [reflexivity|]. intros b Hb. apply H. now right.
Qed.

Section WfMap.
  Variable f : str -> str.
  Variable units : list Z.

  Lemma wf_dval_map : forall d, wf_dval units (dmap f d) = wf_dval units d.
  Proof.
    apply (dval_ind' (fun d => wf_dval units (dmap f d) = wf_dval units d)).
    - intros os name cid items IH. cbn [dmap wf_dval]. rewrite Forall_forall in IH.
      rewrite forallb_map, map_map. cbn [fst snd]. f_equal. f_equal.
      apply forallb_ext_in. intros [k v] Hin. cbn [fst snd]. f_equal. exact (IH (k, v) Hin).
    - intros c name cid items IH. cbn [dmap wf_dval]. rewrite Forall_forall in IH.
      rewrite forallb_map, map_map. cbn [fst snd]. f_equal. f_equal.
      apply forallb_ext_in. intros [k v] Hin. cbn [fst snd]. f_equal. exact (IH (k, v) Hin).
    - intros os items IH. cbn [dmap wf_dval]. rewrite Forall_forall in IH. f_equal.
      rewrite forallb_map. apply forallb_ext_in. exact IH.
    - intros d Hd. destruct d; try contradiction; reflexivity.
  Qed.

  Lemma wf_dblock_map b : wf_dblock units (dbmap f b) = wf_dblock units b.
  Proof. destruct b as [v d|v dv d]; cbn [dbmap wf_dblock]; rewrite wf_dval_map; destruct d; reflexivity. Qed.

  Lemma wf_opt_dblock_map o : wf_opt_dblock units (option_map (dbmap f) o) = wf_opt_dblock units o.
  Proof.
    destruct o as [[v d|v dv d]|]; cbn [option_map dbmap wf_opt_dblock]; try reflexivity.
    exact (wf_dblock_map (DBlock v d)).
  Qed.

  Lemma is_some_map {A} (h : A -> A) (o : option A) : is_some (option_map h o) = is_some o.
  Proof. destruct o; reflexivity. Qed.

  Lemma sv_wf_map enc_s dec_s v : sv_wf enc_s dec_s units (sv_map f v) = sv_wf enc_s dec_s units v.
  Proof.
    destruct v; cbn [sv_map sv_wf]; try reflexivity.
    - apply wf_dval_map.
    - now rewrite wf_dblock_map.
    - destruct x as [bbox name items]. unfold wf_slices. cbn [ss_items].
      rewrite forallb_map. destruct items as [|y items]; [reflexivity|]. cbn [map tl]. rewrite forallb_map. reflexivity.
    - unfold wf_linked, llmap.
      cbn [ll_kind ll_version ll_uuid ll_filename ll_filetype ll_creator ll_filesize ll_open ll_linked ll_timestamp
           ll_data ll_child ll_mod ll_lock].
      now rewrite !wf_opt_dblock_map, !is_some_map.
  Qed.
End WfMap.

Theorem all_sites_roundtrip_lemma enc_s dec_s units t v bs n :
  wf_terms t = true -> sv_wf enc_s dec_s units v = true -> sv_all good v = true ->
  sv_write_cp enc_s t v = Ok (bs, n) ->
  sv_read_cp dec_s units t (shape_of v) bs = Ok v.
Proof.
  intros Ht Hwf. apply all_sites_rt; [exact Ht|]. now rewrite sv_wf_map.
Qed.

(* ------------------------------------------------------------------ refusal of pascal strings that do not fit *)
Definition is_err {A} (r : res A) : Prop := match r with Err _ => True | Ok _ => False end.

Lemma is_err_seq_l a b : is_err a -> is_err (a +++ b).
Proof. destruct a; [contradiction|]. intros _. exact I. Qed.
Lemma is_err_seq_r a b : is_err b -> is_err (a +++ b).
Proof. destruct a as [x|]; [|intros _; exact I]. destruct b; [contradiction|]. intros _. exact I. Qed.
Lemma is_err_then_pad w d : is_err w -> is_err (w_then_pad w d).
Proof. destruct w; [contradiction|]. intros _. exact I. Qed.
Lemma is_err_concat {A} (w : A -> W) l a : In a l -> is_err (w a) -> is_err (w_concat (map w l)).
Proof.
  induction l as [|x l IH]; intros Hin He; [contradiction|]. cbn [map w_concat]. destruct Hin as [->|Hin].
  - now apply is_err_seq_l.
  - apply is_err_seq_r. now apply IH.
Qed.

(* the string cannot be held by a pascal field: unencodable, or longer than 255 bytes *)
Definition unfit (enc_s : list Z -> res (list Z)) (s : str) : Prop :=
  match enc_s s with Ok d => 255 < len d | Err _ => True end.

Lemma w_pascal_unfit enc_s s pad : unfit enc_s s -> is_err (w_pascal enc_s s pad).
Proof.
  unfold unfit, w_pascal. destruct (enc_s s) as [d|]; [|intros _; exact I]. intros H. cbn [bind].
  unfold pack_u, in_u, pow256. change (256 ^ Z.of_nat 1) with 256.
  replace ((0 <=? len d) && (len d <? 256)) with false by lia. exact I.
Qed.

Theorem sv_rejects enc_s t v s :
  In s (sv_pascal v) -> unfit enc_s s -> is_err (sv_write enc_s t v).
Proof.
  intros Hin Hu. destruct v; cbn [sv_pascal] in Hin; try contradiction; cbn [sv_write].
  - destruct Hin as [<-|[]]. unfold write_payload_resource.
    apply is_err_seq_l, is_err_seq_r. now apply w_pascal_unfit.
  - unfold write_alpha_p. apply (is_err_concat _ l s Hin). now apply w_pascal_unfit.
  - destruct Hin as [<-|[]]. unfold write_linked.
    destruct (negb (memz (ll_kind l) model_linked_kinds)); [exact I|].
    apply is_err_then_pad. do 7 apply is_err_seq_l. apply is_err_seq_r. now apply w_pascal_unfit.
  - destruct Hin as [<-|[]]. unfold write_pattern.
    do 2 apply is_err_seq_l. apply is_err_seq_r. now apply w_pascal_unfit.
Qed.

Lemma sv_pascal_map f v : sv_pascal (sv_map f v) = sv_pascal v.
Proof. destruct v; reflexivity. Qed.

Theorem sv_rejects_cp enc_s t v s :
  In s (sv_pascal v) -> unfit enc_s s -> is_err (sv_write_cp enc_s t v).
Proof. intros Hin. unfold sv_write_cp. apply sv_rejects. now rewrite sv_pascal_map. Qed.

(* concrete witness: a 256-character alpha name / 'Ж' with mac_roman *)
Lemma all_sites_pascal_refuted_lemma :
  let enc := Strings.Bridge.lift Strings.Codecs.macroman_enc in
  sv_all good (VAlphaP [repeat 97 256]) = true /\ sv_all good (VAlphaP [[1046]]) = true /\
  sv_write_cp enc [] (VAlphaP [repeat 97 256]) = Err StructErr /\
  sv_write_cp enc [] (VAlphaP [[1046]]) = Err ValueErr.
Proof. cbn zeta. repeat split; vm_compute; reflexivity. Qed.

(* ------------------------------------------------------------------ named corollaries *)
(* descriptor values over code points, any nesting, any following data *)
Theorem descriptor_rt_cp units t d bs n rest :
  wf_terms t = true -> wf_dval units d = true -> dall good d = true ->
  write_dval t (dmap M.utf16_units d) = Ok (bs, n) ->
  exists d', read_dval units (S (length bs)) t (ostype_of d) (bs ++ rest) = Ok (d', t, rest) /\
             dmap M.join_units d' = d.
Proof.
  intros Ht Hwf Hg H. exists (dmap M.utf16_units d). split; [|now apply dmap_rt].
  rewrite <- (wf_dval_map M.utf16_units units d) in Hwf.
  pose proof (dsize_le t _ bs n H) as Hsz.
  rewrite <- (ostype_dmap M.utf16_units d).
  exact (dval_rt units t Ht _ Hwf bs n rest (S (length bs)) H ltac:(lia)).
Qed.

(* StringElement written by the C19 model function itself (Strings/Model.v), inside its containers *)
Definition read_string_cp (body : stream) : res str :=
  do r <- M.read_unicode_string body 1; Ok (fst r).

Lemma wtruth_model_unicode s p : 0 < p -> wtruth (M.write_unicode_string s p).
Proof. intros Hp b n H. destruct (MP.written_is_length s p b n Hp H) as [-> _]. reflexivity. Qed.

Lemma read_string_cp_rt s p body m : good s = true -> 0 < p ->
  M.write_unicode_string s p = Ok (body, m) -> read_string_cp body = Ok s.
Proof.
  intros Hg Hp H. destruct (good_valid s Hg) as [Hv Hj]. unfold read_string_cp.
  pose proof (MP.read_write_unicode_gen s p 1 body m [] Hv Hp H) as R. cbn zeta in R.
  rewrite app_nil_r in R. rewrite R. cbn [bind fst]. now rewrite MP.join_units_id.
Qed.

Theorem string_element_block_rt ver pad sg key s bs n rest :
  good s = true -> (pad = 1 \/ pad = 2 \/ pad = 4) -> memz sg model_tb_sigs = true ->
  write_payload_block ver pad sg key (M.write_unicode_string s (inner_pad pad)) = Ok (bs, n) ->
  read_payload_block read_string_cp ver pad (bs ++ rest) = Ok (Some (sg, key, s, rest)).
Proof.
  intros Hg Hp Hsg H.
  assert (Hip : 0 < inner_pad pad) by (unfold inner_pad; destruct (pad =? 4); lia).
  exact (payload_block_rt ver pad sg key _ read_string_cp s bs n rest Hp Hsg
           (wtruth_model_unicode s _ Hip) (fun body m Hw => read_string_cp_rt s _ body m Hg Hip Hw) H).
Qed.

Theorem string_element_resource_rt enc_s dec_s sg key rname s bs n rest :
  good s = true -> memz sg model_res_sigs = true -> wf_name enc_s dec_s rname = true ->
  write_payload_resource enc_s sg key rname (M.write_unicode_string s 1) = Ok (bs, n) ->
  read_payload_resource dec_s read_string_cp (bs ++ rest) = Ok (sg, key, rname, s, rest).
Proof.
  intros Hg Hsg Hname H.
  exact (payload_resource_rt enc_s dec_s sg key rname _ read_string_cp s bs n rest Hsg Hname
           (wtruth_model_unicode s 1 ltac:(lia)) (fun body m Hw => read_string_cp_rt s 1 body m Hg ltac:(lia) Hw) H).
Qed.
