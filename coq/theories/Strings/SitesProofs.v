(* C19 - round trips of the string sites (Strings/Sites.v), first on UTF-16 code units. *)
From PsdV Require Import Base.Prelude Psd.Codec Psd.Model Psd.Proofs Psd.Struct Psd.Leaf Psd.LeafProofs
  Psd.Descriptor Psd.DescriptorProofs Psd.Typed Psd.Linked Psd.LinkedProofs Psd.Patterns Psd.PatternsProofs
  Psd.Adjust Psd.AdjustProofs.
From PsdV Require Import Strings.Sites.
From Coq Require Import ZArith List Bool Lia ZifyBool.
Import ListNotations.
Open Scope Z_scope.

(* ------------------------------------------------------------------ generic pieces *)
Lemma unicodep_rt u pad bs n rest : 0 < pad ->
  w_unicode u pad = Ok (bs, n) -> r_unicode pad (bs ++ rest) = Ok (u, rest).
Proof.
  intros Hp H. unfold w_unicode in H. apply w_then_pad_inv in H as (x & nx & Hx & -> & _).
  apply w_seq_inv in Hx as (a & na & b & nb & Ha & Hb & -> & ->).
  apply w_fmt_inv in Ha as [Ha ->]. apply w_fmt_inv in Hb as [Hb ->].
  unfold r_unicode. rewrite <- !app_assoc. rewrite (read_u_pack _ _ _ _ Ha). cbn [bind fst snd].
  rewrite <- (pk_cat_len2 _ _ Hb). rewrite read_upto_app. cbn [fst snd]. rewrite (units_of_pack _ _ Hb). cbn [bind].
  rewrite (pack_u_len _ _ _ Ha). change (Z.of_nat 4) with 4. rewrite r_pad_zeros. reflexivity.
Qed.

Lemma concat_len {A} (w : A -> W) (m : Z) (items : list A) :
  (forall it b n, w it = Ok (b, n) -> m <= len b) -> 0 <= m ->
  forall bs n, w_concat (map w items) = Ok (bs, n) -> len items * m <= len bs.
Proof.
  intros Hw Hm. induction items as [|it items IH]; intros bs n H.
  - inversion H. cbn. lia.
  - cbn [map w_concat] in H. apply w_seq_inv in H as (a & na & b & nb & Ha & Hb & -> & ->).
    rewrite len_cons, len_app. pose proof (Hw _ _ _ Ha). pose proof (IH _ _ Hb). lia.
Qed.

Lemma read_n_concat {A} (w : A -> W) (rd : stream -> res (A * stream)) (items : list A) :
  (forall it b n rs, In it items -> w it = Ok (b, n) -> rd (b ++ rs) = Ok (it, rs)) ->
  forall bs n rest, w_concat (map w items) = Ok (bs, n) ->
  read_n (length items) rd (bs ++ rest) = Ok (items, rest).
Proof.
  induction items as [|it items IH]; intros Hrt bs n rest H.
  - inversion H. reflexivity.
  - cbn [map w_concat] in H. apply w_seq_inv in H as (a & na & b & nb & Ha & Hb & -> & ->).
    cbn [length read_n]. rewrite <- app_assoc. rewrite (Hrt it a na _ (or_introl eq_refl) Ha). cbn [bind].
    rewrite (IH (fun it' b' n' rs Hin => Hrt it' b' n' rs (or_intror Hin)) b nb rest Hb). reflexivity.
Qed.

(* ------------------------------------------------------------------ AlphaNamesUnicode *)
Lemma alpha_u_rt l : forall bs n fuel, write_alpha_u l = Ok (bs, n) -> (length bs < fuel)%nat ->
  read_alpha_u fuel bs = Ok l.
Proof.
  induction l as [|u l IH]; intros bs n fuel H Hf.
  - inversion H. destruct fuel; [lia|]. reflexivity.
  - unfold write_alpha_u in H. cbn [map w_concat] in H.
    apply w_seq_inv in H as (a & na & b & nb & Ha & Hb & -> & ->).
    pose proof (w_unicode_len _ _ _ _ Ha) as La. rewrite app_length in Hf. unfold len in La.
    destruct fuel as [|f]; [lia|]. cbn [read_alpha_u].
    replace (is_readable 1 (a ++ b)) with true.
    2:{ unfold is_readable. rewrite len_app. pose proof (len_nonneg b). unfold len in *. lia. }
    rewrite (unicode1_rt u a na b Ha). cbn [bind].
    rewrite (IH b nb f Hb) by lia. reflexivity.
Qed.
Lemma wtruth_alpha_u l : wtruth (write_alpha_u l).
Proof. apply wtruth_concat_map. intros. apply wtruth_unicode. Qed.

(* ------------------------------------------------------------------ AlphaNamesPascal *)
Section PascalSites.
  Variable enc_s : list Z -> res (list Z).
  Variable dec_s : list Z -> res (list Z).

  Lemma w_pascal_len name pad b n : w_pascal enc_s name pad = Ok (b, n) -> 1 <= len b.
  Proof.
    unfold w_pascal. destruct (enc_s name) as [d|]; [|discriminate]. cbn [bind]. intros H.
    apply w_then_pad_inv in H as (x & nx & Hx & -> & _).
    apply w_seq_inv in Hx as (a & na & c & nc & Ha & Hc & -> & ->). apply w_fmt_inv in Ha as [Ha ->].
    rewrite !len_app. pose_lens. pose_nonneg. lia.
  Qed.

  Lemma alpha_p_rt l : forall bs n fuel, forallb (wf_name enc_s dec_s) l = true ->
    write_alpha_p enc_s l = Ok (bs, n) -> (length bs < fuel)%nat ->
    read_alpha_p dec_s fuel bs = Ok l.
  Proof.
    induction l as [|u l IH]; intros bs n fuel Hwf H Hf.
    - inversion H. destruct fuel; [lia|]. reflexivity.
    - cbn [forallb] in Hwf. apply andb_prop in Hwf as [Hu Hl].
      unfold write_alpha_p in H. cbn [map w_concat] in H.
      apply w_seq_inv in H as (a & na & b & nb & Ha & Hb & -> & ->).
      pose proof (w_pascal_len _ _ _ _ Ha) as La. rewrite app_length in Hf. unfold len in La.
      destruct fuel as [|f]; [lia|]. cbn [read_alpha_p].
      replace (is_readable 1 (a ++ b)) with true.
      2:{ unfold is_readable. rewrite len_app. pose proof (len_nonneg b). unfold len in *. lia. }
      rewrite (pascal_rt enc_s dec_s u 1 a na b ltac:(lia) (wf_name_inv enc_s dec_s u Hu) Ha). cbn [bind].
      rewrite (IH b nb f Hl Hb) by lia. reflexivity.
  Qed.
End PascalSites.

(* ------------------------------------------------------------------ URLList *)
Lemma url_item_rt it b n rs : write_url_item it = Ok (b, n) -> read_url_item (b ++ rs) = Ok (it, rs).
Proof.
  destruct it as [[number id] name]. unfold write_url_item. intros H.
  apply w_seq_inv in H as (a & na & c & nc & Ha & Hc & -> & ->). apply w_fmt_inv in Ha as [Ha ->]. open_pk Ha.
  unfold read_url_item. rewrite <- !app_assoc. steps. rewrite (unicode1_rt name c nc rs Hc). reflexivity.
Qed.
Lemma url_item_len it b n : write_url_item it = Ok (b, n) -> 1 <= len b.
Proof.
  destruct it as [[number id] name]. unfold write_url_item. intros H.
  apply w_seq_inv in H as (a & na & c & nc & Ha & Hc & -> & ->).
  pose proof (w_unicode_len _ _ _ _ Hc). rewrite len_app. pose proof (len_nonneg a). lia.
Qed.

Lemma url_list_rt l bs n : write_url_list l = Ok (bs, n) -> read_url_list bs = Ok l.
Proof.
  unfold write_url_list. intros H.
  apply w_seq_inv in H as (a & na & b & nb & Ha & Hb & -> & ->). apply w_fmt_inv in Ha as [Ha ->].
  unfold read_url_list. rewrite (read_u_pack _ _ _ _ Ha). cbn [bind].
  pose proof (concat_len write_url_item 1 l url_item_len ltac:(lia) b nb Hb) as Hl.
  rewrite <- (app_nil_r b). rewrite clampn_ok by lia.
  rewrite (read_n_concat write_url_item read_url_item l
             (fun it b0 n0 rs _ Hw => url_item_rt it b0 n0 rs Hw) b nb [] Hb).
  cbn [bind]. now rewrite Z.eqb_refl.
Qed.

(* ------------------------------------------------------------------ VersionInfo *)
Lemma version_info_rt v bs n : write_version_info v = Ok (bs, n) -> read_version_info bs = Ok v.
Proof.
  destruct v as [ver hc w r fv]. unfold write_version_info. cbn [vi_version vi_composite vi_writer vi_reader vi_file].
  intros H.
  apply w_seq_inv in H as (abc & nabc & d & nd & H & Hd & -> & ->).
  apply w_seq_inv in H as (ab & nab & c & nc & H & Hc & -> & ->).
  apply w_seq_inv in H as (a & na & b & nb & Ha & Hb & -> & ->).
  apply w_fmt_inv in Ha as [Ha ->]. open_pk Ha. apply w_fmt_inv in Hd as [Hd ->].
  unfold read_version_info. rewrite <- !app_assoc. steps.
  rewrite (unicode1_rt w b nb _ Hb). cbn [bind]. rewrite (unicode1_rt r c nc _ Hc). cbn [bind].
  rewrite <- (app_nil_r d). steps. destruct hc; reflexivity.
Qed.

(* ------------------------------------------------------------------ Slices (version 6) *)
Lemma u4_rt x b m rs : w_fmt (pack_u 4 x) = Ok (b, m) -> read_u 4 (b ++ rs) = Ok (x, rs).
Proof. intros H. apply w_fmt_inv in H as [H _]. now apply read_u_pack. Qed.

Definition no_desc_peek (rest : stream) : Prop :=
  (is_readable 4 rest && (be_val (firstn 4 rest) =? 16)) = false.

Lemma slice6_rt x bs n rest : wf_slice x = true -> no_desc_peek rest ->
  write_slice6 x = Ok (bs, n) -> read_slice6 (bs ++ rest) = Ok (x, rest).
Proof.
  intros Hwf Hpeek H. destruct x as [hd assoc name mid url target message alt html cell tail].
  unfold wf_slice, sl_origin in Hwf. unfold write_slice6, sl_origin in H.
  cbn [sl_head sl_assoc sl_name sl_mid sl_url sl_target sl_message sl_alt sl_html sl_cell sl_tail] in *.
  apply eqb_prop in Hwf.
  apply w_seq_inv in H as (x10 & n10 & b11 & n11 & H & H11 & -> & ->).
  apply w_seq_inv in H as (x9 & n9 & b10 & m10 & H & H10 & -> & ->).
  apply w_seq_inv in H as (x8 & n8 & b9 & m9 & H & H9 & -> & ->).
  apply w_seq_inv in H as (x7 & n7 & b8 & m8 & H & H8 & -> & ->).
  apply w_seq_inv in H as (x6 & n6 & b7 & m7 & H & H7 & -> & ->).
  apply w_seq_inv in H as (x5 & n5 & b6 & m6 & H & H6 & -> & ->).
  apply w_seq_inv in H as (x4 & n4 & b5 & m5 & H & H5 & -> & ->).
  apply w_seq_inv in H as (x3 & n3 & b4 & m4 & H & H4 & -> & ->).
  apply w_seq_inv in H as (x2 & n2 & b3 & m3 & H & H3 & -> & ->).
  apply w_seq_inv in H as (b1 & n1 & b2 & m2 & H1 & H2 & -> & ->).
  apply w_fmt_inv in H1 as [H1 _]. apply w_fmt_inv in H4 as [H4 _]. apply w_fmt_inv in H11 as [H11 _].
  apply w_fmt_inv in H9 as [H9 _].
  unfold read_slice6. rewrite <- !app_assoc.
  rewrite (fields_rt L_slice_head hd b1 _ (wf_fields_plain L_slice_head eq_refl hd) H1). cbn [bind].
  assert (Hassoc : r_opt (nth 2 hd 0 =? 1) (read_u 4) (b2 ++ b3 ++ b4 ++ b5 ++ b6 ++ b7 ++ b8 ++ b9 ++ b10 ++ b11 ++ rest)
                   = Ok (assoc, b3 ++ b4 ++ b5 ++ b6 ++ b7 ++ b8 ++ b9 ++ b10 ++ b11 ++ rest)).
  { destruct (nth 2 hd 0 =? 1); cbn [r_opt].
    - destruct assoc as [a|]; [|discriminate]. cbn [opt_w] in H2. now rewrite (u4_rt a b2 m2 _ H2).
    - destruct assoc; [discriminate|]. inversion H2. reflexivity. }
  rewrite Hassoc. cbn [bind].
  rewrite (unicode1_rt name b3 m3 _ H3). cbn [bind].
  rewrite (fields_rt L_slice_mid mid b4 _ (wf_fields_plain L_slice_mid eq_refl mid) H4). cbn [bind].
  rewrite (unicode1_rt url b5 m5 _ H5). cbn [bind]. rewrite (unicode1_rt target b6 m6 _ H6). cbn [bind].
  rewrite (unicode1_rt message b7 m7 _ H7). cbn [bind]. rewrite (unicode1_rt alt b8 m8 _ H8). cbn [bind].
  rewrite (read_u_pack _ _ _ _ H9). cbn [bind].
  rewrite (unicode1_rt cell b10 m10 _ H10). cbn [bind].
  rewrite (fields_rt L_slice_tail tail b11 _ (wf_fields_plain L_slice_tail eq_refl tail) H11). cbn [bind].
  unfold no_desc_peek in Hpeek. rewrite Hpeek. destruct html; reflexivity.
Qed.

Lemma slice6_len x b n : write_slice6 x = Ok (b, n) -> 1 <= len b.
Proof.
  unfold write_slice6. intros H.
  apply w_seq_inv in H as (x10 & n10 & b11 & n11 & H & H11 & -> & ->).
  apply w_seq_inv in H as (x9 & n9 & b10 & m10 & H & H10 & -> & ->).
  pose proof (w_unicode_len _ _ _ _ H10). rewrite !len_app. pose proof (len_nonneg x9). pose proof (len_nonneg b11). lia.
Qed.

Lemma pack_fields_fu_hd k sp vs b : pack_fields (FU k :: sp) vs = Ok b ->
  exists v vs' p q, vs = v :: vs' /\ pack_u k v = Ok p /\ b = p ++ q.
Proof.
  cbn [pack_fields]. destruct vs as [|v vs']; [discriminate|].
  destruct (pack_u k v) as [p|] eqn:E; [|discriminate]. cbn [bind].
  destruct (pack_fields sp vs') as [q|]; [|discriminate]. cbn [bind]. intros [= <-].
  exists v, vs', p, q. auto.
Qed.

(* the first four bytes of a written slice are its slice_id *)
Lemma slice6_first x b n rest : write_slice6 x = Ok (b, n) ->
  is_readable 4 (b ++ rest) = true /\ be_val (firstn 4 (b ++ rest)) = hd 0 (sl_head x).
Proof.
  unfold write_slice6. intros H.
  apply w_seq_inv in H as (x10 & n10 & b11 & n11 & H & _ & -> & ->).
  apply w_seq_inv in H as (x9 & n9 & b10 & m10 & H & _ & -> & ->).
  apply w_seq_inv in H as (x8 & n8 & b9 & m9 & H & _ & -> & ->).
  apply w_seq_inv in H as (x7 & n7 & b8 & m8 & H & _ & -> & ->).
  apply w_seq_inv in H as (x6 & n6 & b7 & m7 & H & _ & -> & ->).
  apply w_seq_inv in H as (x5 & n5 & b6 & m6 & H & _ & -> & ->).
  apply w_seq_inv in H as (x4 & n4 & b5 & m5 & H & _ & -> & ->).
  apply w_seq_inv in H as (x3 & n3 & b4 & m4 & H & _ & -> & ->).
  apply w_seq_inv in H as (x2 & n2 & b3 & m3 & H & _ & -> & ->).
  apply w_seq_inv in H as (b1 & n1 & b2 & m2 & H1 & _ & -> & ->).
  apply w_fmt_inv in H1 as [H1 _].
  destruct (pack_fields_fu_hd 4 _ _ _ H1) as (i0 & vs' & p0 & q & -> & E0 & ->).
  pose proof (pack_u_len _ _ _ E0) as L0. change (Z.of_nat 4) with 4 in L0.
  rewrite <- !app_assoc. split.
  - unfold is_readable. rewrite len_app. pose_nonneg. pose proof (len_nonneg (q ++ b2 ++ b3 ++ b4 ++ b5 ++ b6 ++ b7 ++ b8 ++ b9 ++ b10 ++ b11 ++ rest)). lia.
  - replace 4%nat with (Z.to_nat (len p0)) by (rewrite L0; reflexivity).
    rewrite firstn_len_app. cbn [hd]. apply (pack_u_val _ _ _ E0).
Qed.

Lemma slice_items_rt items : forall bs n,
  forallb wf_slice items = true ->
  forallb (fun y => negb (hd 0 (sl_head y) =? 16)) (tl items) = true ->
  w_concat (map write_slice6 items) = Ok (bs, n) ->
  read_n (length items) read_slice6 bs = Ok (items, []).
Proof.
  induction items as [|x items IH]; intros bs n Hwf Hid H.
  - inversion H. reflexivity.
  - cbn [forallb] in Hwf. apply andb_prop in Hwf as [Hx Hwf]. cbn [tl] in Hid.
    cbn [map w_concat] in H. apply w_seq_inv in H as (a & na & b & nb & Ha & Hb & -> & ->).
    cbn [length read_n].
    assert (Hpeek : no_desc_peek b).
    { unfold no_desc_peek. destruct items as [|y items'].
      - inversion Hb. reflexivity.
      - cbn [map w_concat] in Hb. apply w_seq_inv in Hb as (c & nc & d & nd & Hc & _ & -> & _).
        destruct (slice6_first y c nc d Hc) as [R V]. rewrite R, V. cbn [forallb] in Hid.
        apply andb_prop in Hid as [Hy _]. cbn [andb]. now apply negb_true_iff in Hy. }
    rewrite (slice6_rt x a na b Hx Hpeek Ha). cbn [bind].
    assert (Hid' : forallb (fun y => negb (hd 0 (sl_head y) =? 16)) (tl items) = true).
    { destruct items as [|y items']; [reflexivity|]. cbn [forallb tl] in *. apply andb_prop in Hid as [_ Hid]. exact Hid. }
    rewrite (IH b nb Hwf Hid' Hb). reflexivity.
Qed.

Lemma slices_rt x bs n : wf_slices x = true -> write_slices x = Ok (bs, n) -> read_slices bs = Ok x.
Proof.
  destruct x as [bbox name items]. unfold wf_slices, write_slices. cbn [ss_bbox ss_name ss_items].
  intros Hwf H. apply andb_prop in Hwf as [Hwf Hid].
  apply w_seq_inv in H as (x4 & n4 & b5 & n5 & H & H5 & -> & ->).
  apply w_seq_inv in H as (x3 & n3 & b4 & m4 & H & H4 & -> & ->).
  apply w_seq_inv in H as (x2 & n2 & b3 & m3 & H & H3 & -> & ->).
  apply w_seq_inv in H as (b1 & n1 & b2 & m2 & H1 & H2 & -> & ->).
  apply w_fmt_inv in H1 as [H1 _]. apply w_fmt_inv in H2 as [H2 _]. apply w_fmt_inv in H4 as [H4 _].
  unfold read_slices. rewrite <- !app_assoc. steps. cbn [negb orb Z.eqb Pos.eqb].
  rewrite (fields_rt L_bbox bbox b2 _ (wf_fields_plain L_bbox eq_refl bbox) H2). cbn [bind].
  rewrite (unicode1_rt name b3 m3 _ H3). cbn [bind]. steps.
  pose proof (concat_len write_slice6 1 items slice6_len ltac:(lia) b5 n5 H5) as Hl.
  rewrite <- (app_nil_r b5) at 1. rewrite clampn_ok by lia.
  rewrite (slice_items_rt items b5 n5 Hwf Hid H5). cbn [bind]. now rewrite Z.eqb_refl.
Qed.
