(* C19 - the charset-codec law  enc s = Some b -> dec b = Some s  for the concrete
   codecs of Codecs.v (and its failure for the shift_jis fragment). *)
From PsdV Require Import Base.Prelude Strings.Codecs.
From Coq Require Import ZArith List Bool Lia ZifyBool.
Import ListNotations.
Open Scope Z_scope.

Ltac Zify.zify_post_hook ::= Z.to_euclidean_division_equations.

Lemma map_opt_law {A B} (f : A -> option B) (g : B -> option A) :
  (forall x y, f x = Some y -> g y = Some x) ->
  forall s b, map_opt f s = Some b -> map_opt g b = Some s.
Proof.
  intros H. induction s as [|x s IH]; intros b; cbn [map_opt].
  - intros [= <-]. reflexivity.
  - destruct (f x) as [y|] eqn:E; [|discriminate]. destruct (map_opt f s) as [r|]; [|discriminate].
    intros [= <-]. cbn [map_opt]. rewrite (H _ _ E), (IH r eq_refl). reflexivity.
Qed.

Lemma map_opt_length {A B} (f : A -> option B) : forall s b, map_opt f s = Some b -> length b = length s.
Proof.
  induction s as [|x s IH]; intros b; cbn [map_opt].
  - intros [= <-]. reflexivity.
  - destruct (f x); [|discriminate]. destruct (map_opt f s) as [r|]; [|discriminate].
    intros [= <-]. cbn [length]. now rewrite (IH r).
Qed.

Lemma index_of_spec c : forall l i b, index_of c l i = Some b ->
  i <= b /\ nth_error l (Z.to_nat (b - i)) = Some c /\ b - i < Z.of_nat (length l).
Proof.
  induction l as [|x l IH]; intros i b; cbn [index_of]; [discriminate|].
  destruct (x =? c) eqn:E.
  - intros [= <-]. replace (i - i) with 0 by lia. cbn [length]. split; [lia|split; [|lia]].
    cbn. f_equal. lia.
  - intros H. apply IH in H as (H1 & H2 & H3). cbn [length]. split; [lia|split; [|lia]].
    replace (Z.to_nat (b - i)) with (S (Z.to_nat (b - (i + 1)))) by lia. exact H2.
Qed.

Section TableProofs.
  Variable hi : list Z.
  Hypothesis hi_len : (length hi <= 128)%nat.

  Lemma table_law1 c b : table_enc1 hi c = Some b -> table_dec1 hi b = Some c.
  Proof.
    unfold table_enc1, table_dec1. destruct ((0 <=? c) && (c <? 128)) eqn:E.
    - intros [= <-]. rewrite E. reflexivity.
    - intros H. apply index_of_spec in H as (H1 & H2 & H3).
      destruct ((0 <=? b) && (b <? 128)) eqn:E1; [lia|].
      destruct ((128 <=? b) && (b <? 256)) eqn:E2; [exact H2|lia].
  Qed.

  Lemma table_law s b : table_enc hi s = Some b -> table_dec hi b = Some s.
  Proof. apply map_opt_law. exact table_law1. Qed.

  Lemma table_single_byte s b : table_enc hi s = Some b -> length b = length s.
  Proof. apply map_opt_length. Qed.

  Lemma table_question_mark : table_enc hi [63] = Some [63].
  Proof. reflexivity. Qed.
End TableProofs.

Lemma macroman_law s b : macroman_enc s = Some b -> macroman_dec b = Some s.
Proof. apply table_law. cbn. lia. Qed.
Lemma maccyrillic_law s b : maccyrillic_enc s = Some b -> maccyrillic_dec b = Some s.
Proof. apply table_law. cbn. lia. Qed.
Lemma ascii_law s b : ascii_enc s = Some b -> ascii_dec b = Some s.
Proof. apply table_law. cbn. lia. Qed.

(* the shift_jis fragment is not injective: the law fails *)
Lemma sjis_frag_law_fails :
  exists s b, sjis_frag_enc s = Some b /\ sjis_frag_dec b <> Some s.
Proof. exists [165], [92]. split; [reflexivity|]. vm_compute. discriminate. Qed.

(* on strings avoiding the two code points the fragment satisfies the law *)
Definition sjis_safe (s : list Z) : Prop := Forall (fun c => c <> 0xA5 /\ c <> 0x203E) s.

Lemma sjis_frag_law s b : sjis_safe s -> sjis_frag_enc s = Some b -> sjis_frag_dec b = Some s.
Proof.
  revert b. induction s as [|c s IH]; intros b Hs; cbn [sjis_frag_enc map_opt].
  - intros [= <-]. reflexivity.
  - inversion Hs as [|? ? [H1 H2] Hs']; subst.
    destruct (sjis_frag_enc1 c) as [y|] eqn:E; [|discriminate].
    fold (sjis_frag_enc s). destruct (sjis_frag_enc s) as [r|]; [|discriminate].
    intros [= <-]. cbn [sjis_frag_dec map_opt]. fold (sjis_frag_dec r). rewrite (IH r Hs' eq_refl).
    unfold sjis_frag_enc1 in E. unfold sjis_frag_dec1.
    destruct ((0 <=? c) && (c <? 128)) eqn:E0.
    + injection E as <-. rewrite E0. reflexivity.
    + destruct (c =? 165) eqn:?; [lia|]. destruct (c =? 8254) eqn:?; [lia|discriminate].
Qed.

(* ------------------------------------------------------------------ UTF-8 *)
Lemma utf8_dec_1 f b0 r : 0 <= b0 < 128 ->
  utf8_dec_fuel (S f) (b0 :: r) =
  match utf8_dec_fuel f r with Some s => Some (b0 :: s) | None => None end.
Proof.
  intros. cbn [utf8_dec_fuel]. replace ((0 <=? b0) && (b0 <? 128)) with true by lia. reflexivity.
Qed.

Lemma utf8_dec_2 f b0 b1 r : 194 <= b0 <= 223 -> 128 <= b1 <= 191 ->
  utf8_dec_fuel (S f) (b0 :: b1 :: r) =
  match utf8_dec_fuel f r with Some s => Some ((b0 - 192) * 64 + (b1 - 128) :: s) | None => None end.
Proof.
  intros. cbn [utf8_dec_fuel]. unfold is_cont.
  replace ((0 <=? b0) && (b0 <? 128)) with false by lia.
  replace ((194 <=? b0) && (b0 <=? 223)) with true by lia.
  replace ((128 <=? b1) && (b1 <=? 191)) with true by lia. reflexivity.
Qed.

Lemma utf8_dec_3 f b0 b1 b2 r :
  224 <= b0 <= 239 -> 128 <= b1 <= 191 -> 128 <= b2 <= 191 ->
  let c := (b0 - 224) * 4096 + (b1 - 128) * 64 + (b2 - 128) in
  2048 <= c -> ~ (55296 <= c <= 57343) ->
  utf8_dec_fuel (S f) (b0 :: b1 :: b2 :: r) =
  match utf8_dec_fuel f r with Some s => Some (c :: s) | None => None end.
Proof.
  intros ? ? ? c ? ?. cbn [utf8_dec_fuel]. unfold is_cont. fold c.
  replace ((0 <=? b0) && (b0 <? 128)) with false by lia.
  replace ((194 <=? b0) && (b0 <=? 223)) with false by lia.
  replace ((224 <=? b0) && (b0 <=? 239)) with true by lia.
  replace ((128 <=? b1) && (b1 <=? 191)) with true by lia.
  replace ((128 <=? b2) && (b2 <=? 191)) with true by lia.
  replace (2048 <=? c) with true by lia.
  replace ((55296 <=? c) && (c <=? 57343)) with false by lia. reflexivity.
Qed.

Lemma utf8_dec_4 f b0 b1 b2 b3 r :
  240 <= b0 <= 244 -> 128 <= b1 <= 191 -> 128 <= b2 <= 191 -> 128 <= b3 <= 191 ->
  let c := (b0 - 240) * 262144 + (b1 - 128) * 4096 + (b2 - 128) * 64 + (b3 - 128) in
  65536 <= c <= 1114111 ->
  utf8_dec_fuel (S f) (b0 :: b1 :: b2 :: b3 :: r) =
  match utf8_dec_fuel f r with Some s => Some (c :: s) | None => None end.
Proof.
  intros ? ? ? ? c ?. cbn [utf8_dec_fuel]. unfold is_cont. fold c.
  replace ((0 <=? b0) && (b0 <? 128)) with false by lia.
  replace ((194 <=? b0) && (b0 <=? 223)) with false by lia.
  replace ((224 <=? b0) && (b0 <=? 239)) with false by lia.
  replace ((240 <=? b0) && (b0 <=? 244)) with true by lia.
  replace ((128 <=? b1) && (b1 <=? 191)) with true by lia.
  replace ((128 <=? b2) && (b2 <=? 191)) with true by lia.
  replace ((128 <=? b3) && (b3 <=? 191)) with true by lia.
  replace (65536 <=? c) with true by lia.
  replace (c <=? 1114111) with true by lia. reflexivity.
Qed.

Lemma Some_inj {A} (a b : A) : Some a = Some b -> a = b.
Proof. congruence. Qed.

Lemma utf8_law_fuel : forall s b f, utf8_enc s = Some b -> (length b <= f)%nat ->
  utf8_dec_fuel f b = Some s.
Proof.
  induction s as [|c s IH]; intros b f; cbn [utf8_enc].
  - intros [= <-] _. destruct f; reflexivity.
  - destruct (utf8_enc1 c) as [bc|] eqn:E; [|discriminate].
    destruct (utf8_enc s) as [r|] eqn:Er; [|discriminate].
    intros [= <-] Hl. specialize (IH r).
    unfold utf8_enc1 in E.
    destruct (c <? 0) eqn:?; [discriminate|].
    destruct (c <? 128) eqn:?.
    { apply Some_inj in E; subst bc. cbn [app length] in *. destruct f as [|f]; [lia|].
      rewrite utf8_dec_1 by lia. rewrite (IH f eq_refl) by lia. reflexivity. }
    destruct (c <? 2048) eqn:?.
    { apply Some_inj in E; subst bc. cbn [app length] in *. destruct f as [|f]; [lia|].
      rewrite utf8_dec_2 by lia. rewrite (IH f eq_refl) by lia. f_equal. f_equal. lia. }
    destruct ((55296 <=? c) && (c <=? 57343)) eqn:?; [discriminate|].
    destruct (c <? 65536) eqn:?.
    { apply Some_inj in E; subst bc. cbn [app length] in *. destruct f as [|f]; [lia|].
      rewrite utf8_dec_3 by lia. rewrite (IH f eq_refl) by lia. f_equal. f_equal. lia. }
    destruct (c <=? 1114111) eqn:?; [|discriminate].
    { apply Some_inj in E; subst bc. cbn [app length] in *. destruct f as [|f]; [lia|].
      rewrite utf8_dec_4 by lia. rewrite (IH f eq_refl) by lia. f_equal. f_equal. lia. }
Qed.

Lemma utf8_law s b : utf8_enc s = Some b -> utf8_dec b = Some s.
Proof. intros H. unfold utf8_dec. now apply utf8_law_fuel. Qed.
