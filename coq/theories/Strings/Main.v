(* C19 - the statements of Properties/C19.v, assembled from Proofs.v / CodecProofs.v. *)
From PsdV Require Import Base.Prelude Strings.Model Strings.Codecs Strings.Proofs Strings.CodecProofs.
From Coq Require Import ZArith List Bool Lia ZifyBool.
Import ListNotations.
Open Scope Z_scope.

Ltac Zify.zify_post_hook ::= Z.to_euclidean_division_equations.

(* ------------------------------------------------------------------ unicode *)
Lemma utf16_roundtrip_iff_lemma s : valid_str s ->
  (utf16be_decode (utf16be_encode s) = Ok s <-> joinable_free s = true).
Proof.
  intros Hv. rewrite utf16be_decode_encode by exact Hv. rewrite <- join_units_fix_iff.
  split; [intros [= H]; exact H|intros ->; reflexivity].
Qed.

Lemma unicode_roundtrip_full s p rest bs w :
  valid_str s -> joinable_free s = true -> 0 < p ->
  write_unicode_string s p = Ok (bs, w) ->
  read_unicode_string (bs ++ rest) p = Ok (s, rest) /\ w = Z.of_nat (length bs) /\ w mod p = 0.
Proof.
  intros Hv Hj Hp Hw. split; [now apply (unicode_roundtrip_lemma s p bs w)|].
  now apply (written_is_length s p).
Qed.

Lemma unicode_roundtrip_exact_lemma s p rest bs w :
  valid_str s -> 0 < p -> write_unicode_string s p = Ok (bs, w) ->
  (read_unicode_string (bs ++ rest) p = Ok (s, rest) <-> joinable_free s = true).
Proof.
  intros Hv Hp Hw. rewrite (read_write_unicode s p bs w rest Hv Hp Hw).
  rewrite <- join_units_fix_iff. split; [intros [= H]; exact H|intros ->; reflexivity].
Qed.

Lemma unicode_roundtrip_wellformed_lemma s p rest :
  scalar_str s -> 0 < p -> Z.of_nat (length (utf16_units s)) <= 4294967295 ->
  exists bs w, write_unicode_string s p = Ok (bs, w) /\
               read_unicode_string (bs ++ rest) p = Ok (s, rest) /\
               w = Z.of_nat (length bs).
Proof.
  intros Hs Hp Hn. destruct (write_unicode_ok s p Hn) as (bs & w & Hw).
  exists bs, w. split; [exact Hw|].
  destruct (unicode_roundtrip_full s p rest bs w (scalar_valid s Hs) (scalar_joinable_free s Hs) Hp Hw)
    as (A & B & _). split; assumption.
Qed.

Lemma unicode_read_any_padding s p p' bs w :
  valid_str s -> 0 < p -> write_unicode_string s p = Ok (bs, w) ->
  exists rest', read_unicode_string bs p' = Ok (join_units s, rest').
Proof.
  intros Hv Hp Hw. pose proof (read_write_unicode_gen s p p' bs w [] Hv Hp Hw) as H.
  cbn zeta in H. rewrite app_nil_r in H. eauto.
Qed.

Lemma unicode_lone_pair_refuted_lemma :
  exists s, valid_str s /\
    exists bs w, write_unicode_string s 1 = Ok (bs, w) /\
                 read_unicode_string bs 1 = Ok ([0x1F600], []) /\ s <> [0x1F600].
Proof.
  exists [0xD83D; 0xDE00]. split; [repeat constructor|].
  eexists. eexists. split; [vm_compute; reflexivity|]. split; [vm_compute; reflexivity|discriminate].
Qed.

(* ------------------------------------------------------------------ pascal *)
Section PascalMain.
  Variable enc : list Z -> option (list Z).
  Variable dec : list Z -> option (list Z).

  Lemma pascal_roundtrip_main s p rest data :
    0 < p -> enc s = Some data -> dec data = Some s -> Z.of_nat (length data) <= 255 ->
    exists bs w, write_pascal_string enc s p = Ok (bs, w) /\
                 read_pascal_string dec (bs ++ rest) p = Ok (s, rest) /\
                 w = Z.of_nat (length bs) /\ w mod p = 0.
  Proof.
    intros Hp He Hd Hn. destruct (pascal_write_ok enc s p data He Hn) as (bs & w & Hw).
    exists bs, w. split; [exact Hw|]. now apply (pascal_roundtrip_lemma enc dec s p bs w rest data).
  Qed.

  (* the writer's outcome is exactly one of: the whole encoding behind its length byte,
     ValueError (unencodable), struct.error (longer than 255 bytes) - never a shortened string *)
  Lemma pascal_write_outcomes s p :
    match write_pascal_string enc s p with
    | Ok (bs, w) => exists data, enc s = Some data /\ Z.of_nat (length data) <= 255 /\
                      bs = Z.of_nat (length data) :: data ++ zeros (pad_count (1 + Z.of_nat (length data)) p)
    | Err e => (e = ValueErr /\ enc s = None) \/
               (e = StructErr /\ exists data, enc s = Some data /\ 255 < Z.of_nat (length data))
    end.
  Proof.
    clear dec. destruct (write_pascal_string enc s p) as [[bs w]|e] eqn:H.
    - apply write_pascal_inv in H as (data & He & Hn & Hb & _). eauto.
    - unfold write_pascal_string in H. destruct (enc s) as [data|] eqn:He.
      + cbn zeta in H. destruct (Z.of_nat (length data) <=? 255) eqn:E; [discriminate|].
        injection H as <-. right. split; [reflexivity|]. exists data. split; [reflexivity|lia].
      + injection H as <-. left. split; reflexivity.
  Qed.
End PascalMain.

Lemma pascal_noninjective_refuted_lemma :
  exists s data bs w s',
    sjis_frag_enc s = Some data /\ Z.of_nat (length data) <= 255 /\
    write_pascal_string sjis_frag_enc s 2 = Ok (bs, w) /\
    read_pascal_string sjis_frag_dec bs 2 = Ok (s', []) /\ s' <> s.
Proof.
  exists [0xA5], [0x5C], [1; 0x5C], 2, [0x5C].
  repeat split; try reflexivity; try (vm_compute; discriminate).
Qed.

(* ------------------------------------------------------------------ layer name *)
Lemma name_keeps_unicode_lemma em v r : Z.of_nat (length v) < 256 ->
  exists r', set_name em v r = Ok r' /\ get_name r' = v /\
             (em v = None -> rec_name r' = [63]).
Proof.
  intros H. destruct (set_name_ok em v r H) as (r' & A & B & _ & D).
  exists r'. repeat split; [exact A|exact B|].
  intros E. destruct D as [D|[_ D]]; [|exact D].
  unfold set_name in A. destruct (Z.of_nat (length v) <? 256); [|discriminate].
  injection A as <-. cbn [rec_name]. now rewrite E.
Qed.

Section NameSave.
  Variable enc : list Z -> option (list Z).
  Variable dec : list Z -> option (list Z).

  Lemma name_survives_save_open_lemma em v r r' pre bs w data :
    valid_str v -> joinable_free v = true ->
    set_name em v r = Ok r' ->
    enc (rec_name r') = Some data -> dec data = Some (rec_name r') ->
    write_name_part enc pre r' = Ok (bs, w) ->
    exists r'', read_name_part dec bs = Ok r'' /\ get_name r'' = v /\ rec_name r'' = rec_name r'
                /\ w = Z.of_nat (length bs).
  Proof.
    intros Hv Hj Hs He Hd Hw.
    unfold set_name in Hs. destruct (Z.of_nat (length v) <? 256); [|discriminate].
    injection Hs as <-.
    match type of Hw with write_name_part _ _ ?R = _ => set (r1 := R) in * end.
    destruct (read_write_name_part enc dec pre r1 bs w data He Hd Hv Hw) as [A B].
    eexists. split; [exact A|]. cbn [get_name rec_luni rec_name r1 option_map].
    rewrite join_units_id by exact Hj. repeat split. exact B.
  Qed.
End NameSave.

(* with the default (mac_roman) save encoding nothing is assumed and saving cannot fail *)
Lemma macroman_question : macroman_enc [63] = Some [63].
Proof. reflexivity. Qed.

Lemma utf16_units_length_le s : (length (utf16_units s) <= 2 * length s)%nat.
Proof.
  induction s as [|c s IH]; [cbn; lia|]. cbn [utf16_units flat_map]. rewrite app_length.
  fold (utf16_units s). unfold units_of. destruct (c <? 65536); cbn [length]; lia.
Qed.

Lemma name_save_macroman_total v r r' pre :
  set_name macroman_enc v r = Ok r' -> 0 <= pre ->
  exists bs w, write_name_part macroman_enc pre r' = Ok (bs, w).
Proof.
  intros Hs Hpre. unfold set_name in Hs.
  destruct (Z.of_nat (length v) <? 256) eqn:Hl; [|discriminate]. injection Hs as <-.
  unfold write_name_part. cbn [rec_name rec_luni].
  assert (Hp : exists pb pw, write_pascal_string macroman_enc
            (match macroman_enc v with Some _ => v | None => [63] end) 4 = Ok (pb, pw)).
  { destruct (macroman_enc v) as [d|] eqn:E.
    - apply (pascal_write_ok macroman_enc v 4 d E).
      apply table_single_byte in E. lia.
    - apply (pascal_write_ok macroman_enc [63] 4 [63] macroman_question). cbn. lia. }
  destruct Hp as (pb & pw & ->). cbn [bind fst snd].
  pose proof (utf16_units_length_le v) as Hu.
  destruct (write_unicode_ok v 4 ltac:(lia)) as (ib & iw & Hi).
  unfold write_luni_block. rewrite Hi. cbn [bind fst snd].
  pose proof (write_unicode_inv v 4 ib iw Hi) as Hinv. cbn zeta in Hinv.
  destruct Hinv as (_ & _ & Hiw & _).
  pose proof (pad_count_range (4 + 2 * Z.of_nat (length (utf16_units v))) 4 ltac:(lia)).
  unfold pack_I. destruct ((0 <=? iw) && (iw <=? 4294967295)) eqn:E; [|lia].
  cbn [bind fst snd]. eauto.
Qed.

Lemma name_legacy_encodable v r r' :
  set_name macroman_enc v r = Ok r' -> exists data, macroman_enc (rec_name r') = Some data.
Proof.
  unfold set_name. destruct (Z.of_nat (length v) <? 256); [|discriminate]. intros [= <-].
  cbn [rec_name]. destruct (macroman_enc v) as [d|] eqn:E; [eauto|]. exists [63]. reflexivity.
Qed.

Lemma name_survives_save_open_macroman_lemma v r r' pre :
  valid_str v -> joinable_free v = true -> 0 <= pre ->
  set_name macroman_enc v r = Ok r' ->
  exists bs w r'', write_name_part macroman_enc pre r' = Ok (bs, w) /\
                   read_name_part macroman_dec bs = Ok r'' /\ get_name r'' = v.
Proof.
  intros Hv Hj Hpre Hs.
  destruct (name_save_macroman_total v r r' pre Hs Hpre) as (bs & w & Hw).
  destruct (name_legacy_encodable v r r' Hs) as (data & He).
  destruct (name_survives_save_open_lemma macroman_enc macroman_dec macroman_enc v r r' pre bs w data
              Hv Hj Hs He (macroman_law _ _ He) Hw) as (r'' & A & B & _).
  exists bs, w, r''. repeat split; assumption.
Qed.

(* ------------------------------------------------------------------ names given at construction *)
Section CtorNames.
  Variable enc : list Z -> option (list Z).
  Variable dec : list Z -> option (list Z).

  Lemma group_new_name_survives v pre bs w data :
    valid_str v -> joinable_free v = true ->
    enc v = Some data -> dec data = Some v ->
    write_name_part enc pre (group_new_rec_orig v) = Ok (bs, w) ->
    exists r, read_name_part dec bs = Ok r /\ get_name r = v.
  Proof.
    intros Hv Hj He Hd Hw.
    destruct (read_write_name_part enc dec pre (group_new_rec_orig v) bs w data He Hd Hv Hw) as [A _].
    eexists. split; [exact A|]. cbn [get_name rec_luni group_new_rec_orig option_map].
    now rewrite join_units_id.
  Qed.

  Lemma frompil_name_survives v pre bs w data :
    enc v = Some data -> dec data = Some v ->
    write_name_part enc pre (frompil_rec_orig v) = Ok (bs, w) ->
    exists r, read_name_part dec bs = Ok r /\ get_name r = v.
  Proof.
    intros He Hd Hw.
    destruct (read_write_name_part enc dec pre (frompil_rec_orig v) bs w data He Hd I Hw) as [A _].
    eexists. split; [exact A|]. reflexivity.
  Qed.
End CtorNames.

Lemma ctor_name_save_refuted_lemma :
  exists v, scalar_str v /\ Z.of_nat (length v) < 256 /\
    forall pre, write_name_part macroman_enc pre (group_new_rec_orig v) = Err ValueErr /\
                write_name_part macroman_enc pre (frompil_rec_orig v) = Err ValueErr.
Proof.
  exists [0x416]. split; [repeat constructor|]. split; [cbn; lia|]. intros pre. split; reflexivity.
Qed.

Lemma name_save_other_encoding_refuted_lemma :
  exists v r', scalar_str v /\ set_name macroman_enc v {| rec_name := []; rec_luni := None |} = Ok r' /\
    forall pre, write_name_part ascii_enc pre r' = Err ValueErr.
Proof.
  exists [0xE9]. eexists. split; [repeat constructor|]. split; [reflexivity|]. intros pre. reflexivity.
Qed.

(* the constructors after cc4d99c apply the rule of the setter *)
Lemma ctor_rec_is_set_name em v r : ctor_rec em v = set_name em v r.
Proof. reflexivity. Qed.

Lemma ctor_name_survives_macroman_lemma v r' pre :
  valid_str v -> joinable_free v = true -> 0 <= pre ->
  ctor_rec macroman_enc v = Ok r' ->
  exists bs w r'', write_name_part macroman_enc pre r' = Ok (bs, w) /\
                   read_name_part macroman_dec bs = Ok r'' /\ get_name r'' = v.
Proof.
  intros Hv Hj Hpre Hc.
  rewrite (ctor_rec_is_set_name macroman_enc v {| rec_name := []; rec_luni := None |}) in Hc.
  exact (name_survives_save_open_macroman_lemma v _ r' pre Hv Hj Hpre Hc).
Qed.

Lemma ctor_name_total_lemma em v : Z.of_nat (length v) < 256 ->
  exists r', ctor_rec em v = Ok r' /\ get_name r' = v /\ (em v = None -> rec_name r' = [63]).
Proof.
  intros H. rewrite (ctor_rec_is_set_name em v {| rec_name := []; rec_luni := None |}).
  now apply name_keeps_unicode_lemma.
Qed.
