(* C19 - concrete charset codecs (definitions only).

   Python's charset codecs are external to psd_tools; the pascal-string theorems are
   stated for an arbitrary codec pair (Section variables in Model.v / Proofs.v).
   Three concrete instances are given here so that the theorems can be instantiated
   without any assumption; each is compared with the live Python codec on every
   code point 0..0x10FFFF (encode) and every byte (decode) on every run of the check:
     - single-byte table codecs:  mac_roman, mac_cyrillic (128 high entries), ascii (none);
     - the fragment of Python's shift_jis on {0..127, U+00A5, U+203E}, which is NOT
       injective: U+00A5 -> 0x5C and U+203E -> 0x7E (finding F-C19-2). *)
From PsdV Require Import Base.Prelude.
From Coq Require Import ZArith List Bool Lia.
Import ListNotations.
Open Scope Z_scope.

Fixpoint index_of (c : Z) (l : list Z) (i : Z) : option Z :=
  match l with
  | [] => None
  | x :: l' => if x =? c then Some i else index_of c l' (i + 1)
  end.

Fixpoint map_opt {A B} (f : A -> option B) (l : list A) : option (list B) :=
  match l with
  | [] => Some []
  | x :: l' =>
      match f x, map_opt f l' with
      | Some y, Some r => Some (y :: r)
      | _, _ => None
      end
  end.

Section Table.
  Variable hi : list Z.     (* code points of bytes 128, 129, ... *)

  Definition table_enc1 (c : Z) : option Z :=
    if (0 <=? c) && (c <? 128) then Some c else index_of c hi 128.

  Definition table_dec1 (b : Z) : option Z :=
    if (0 <=? b) && (b <? 128) then Some b
    else if (128 <=? b) && (b <? 256) then nth_error hi (Z.to_nat (b - 128))
    else None.

  Definition table_enc (s : list Z) : option (list Z) := map_opt table_enc1 s.
  Definition table_dec (b : list Z) : option (list Z) := map_opt table_dec1 b.
End Table.

Definition macroman_hi : list Z :=
  [196; 197; 199; 201; 209; 214; 220; 225; 224; 226; 228; 227; 229; 231; 233; 232;
   234; 235; 237; 236; 238; 239; 241; 243; 242; 244; 246; 245; 250; 249; 251; 252;
   8224; 176; 162; 163; 167; 8226; 182; 223; 174; 169; 8482; 180; 168; 8800; 198; 216;
   8734; 177; 8804; 8805; 165; 181; 8706; 8721; 8719; 960; 8747; 170; 186; 937; 230; 248;
   191; 161; 172; 8730; 402; 8776; 8710; 171; 187; 8230; 160; 192; 195; 213; 338; 339;
   8211; 8212; 8220; 8221; 8216; 8217; 247; 9674; 255; 376; 8260; 8364; 8249; 8250; 64257; 64258;
   8225; 183; 8218; 8222; 8240; 194; 202; 193; 203; 200; 205; 206; 207; 204; 211; 212;
   63743; 210; 218; 219; 217; 305; 710; 732; 175; 728; 729; 730; 184; 733; 731; 711].

Definition maccyrillic_hi : list Z :=
  [1040; 1041; 1042; 1043; 1044; 1045; 1046; 1047; 1048; 1049; 1050; 1051; 1052; 1053; 1054; 1055;
   1056; 1057; 1058; 1059; 1060; 1061; 1062; 1063; 1064; 1065; 1066; 1067; 1068; 1069; 1070; 1071;
   8224; 176; 1168; 163; 167; 8226; 182; 1030; 174; 169; 8482; 1026; 1106; 8800; 1027; 1107;
   8734; 177; 8804; 8805; 1110; 181; 1169; 1032; 1028; 1108; 1031; 1111; 1033; 1113; 1034; 1114;
   1112; 1029; 172; 8730; 402; 8776; 8710; 171; 187; 8230; 160; 1035; 1115; 1036; 1116; 1109;
   8211; 8212; 8220; 8221; 8216; 8217; 247; 8222; 1038; 1118; 1039; 1119; 8470; 1025; 1105; 1103;
   1072; 1073; 1074; 1075; 1076; 1077; 1078; 1079; 1080; 1081; 1082; 1083; 1084; 1085; 1086; 1087;
   1088; 1089; 1090; 1091; 1092; 1093; 1094; 1095; 1096; 1097; 1098; 1099; 1100; 1101; 1102; 8364].

Definition macroman_enc := table_enc macroman_hi.
Definition macroman_dec := table_dec macroman_hi.
Definition maccyrillic_enc := table_enc maccyrillic_hi.
Definition maccyrillic_dec := table_dec maccyrillic_hi.
Definition ascii_enc := table_enc [].
Definition ascii_dec := table_dec [].

(* Python's shift_jis restricted to the code points {0..127, U+00A5, U+203E}
   (every other code point is treated as unencodable by the fragment). *)
Definition sjis_frag_enc1 (c : Z) : option Z :=
  if (0 <=? c) && (c <? 128) then Some c
  else if c =? 0xA5 then Some 0x5C
  else if c =? 0x203E then Some 0x7E
  else None.
Definition sjis_frag_dec1 (b : Z) : option Z :=
  if (0 <=? b) && (b <? 128) then Some b else None.
Definition sjis_frag_enc := map_opt sjis_frag_enc1.
Definition sjis_frag_dec := map_opt sjis_frag_dec1.

(* UTF-8 (errors='strict'): surrogates are unencodable; 1..4 bytes per scalar value. *)
Definition utf8_enc1 (c : Z) : option (list Z) :=
  if c <? 0 then None
  else if c <? 0x80 then Some [c]
  else if c <? 0x800 then Some [0xC0 + c / 64; 0x80 + c mod 64]
  else if (0xD800 <=? c) && (c <=? 0xDFFF) then None
  else if c <? 0x10000 then Some [0xE0 + c / 4096; 0x80 + (c / 64) mod 64; 0x80 + c mod 64]
  else if c <=? 0x10FFFF then
    Some [0xF0 + c / 262144; 0x80 + (c / 4096) mod 64; 0x80 + (c / 64) mod 64; 0x80 + c mod 64]
  else None.

Fixpoint utf8_enc (s : list Z) : option (list Z) :=
  match s with
  | [] => Some []
  | c :: s' =>
      match utf8_enc1 c, utf8_enc s' with
      | Some b, Some r => Some (b ++ r)
      | _, _ => None
      end
  end.

Definition is_cont (b : Z) : bool := (0x80 <=? b) && (b <=? 0xBF).

(* strict decoder: rejects stray continuation bytes, overlong forms, surrogates,
   values above 0x10FFFF, truncated sequences.  Fuel = number of bytes. *)
Fixpoint utf8_dec_fuel (fuel : nat) (b : list Z) : option (list Z) :=
  match fuel with
  | O => match b with [] => Some [] | _ => None end
  | S fuel' =>
      match b with
      | [] => Some []
      | b0 :: r0 =>
          if (0 <=? b0) && (b0 <? 0x80) then
            match utf8_dec_fuel fuel' r0 with Some s => Some (b0 :: s) | None => None end
          else if (0xC2 <=? b0) && (b0 <=? 0xDF) then
            match r0 with
            | b1 :: r1 =>
                if is_cont b1 then
                  match utf8_dec_fuel fuel' r1 with
                  | Some s => Some ((b0 - 0xC0) * 64 + (b1 - 0x80) :: s)
                  | None => None
                  end
                else None
            | _ => None
            end
          else if (0xE0 <=? b0) && (b0 <=? 0xEF) then
            match r0 with
            | b1 :: b2 :: r2 =>
                let c := (b0 - 0xE0) * 4096 + (b1 - 0x80) * 64 + (b2 - 0x80) in
                if is_cont b1 && is_cont b2 && (0x800 <=? c)
                   && negb ((0xD800 <=? c) && (c <=? 0xDFFF)) then
                  match utf8_dec_fuel fuel' r2 with Some s => Some (c :: s) | None => None end
                else None
            | _ => None
            end
          else if (0xF0 <=? b0) && (b0 <=? 0xF4) then
            match r0 with
            | b1 :: b2 :: b3 :: r3 =>
                let c := (b0 - 0xF0) * 262144 + (b1 - 0x80) * 4096 + (b2 - 0x80) * 64 + (b3 - 0x80) in
                if is_cont b1 && is_cont b2 && is_cont b3 && (0x10000 <=? c) && (c <=? 0x10FFFF) then
                  match utf8_dec_fuel fuel' r3 with Some s => Some (c :: s) | None => None end
                else None
            | _ => None
            end
          else None
      end
  end.

Definition utf8_dec (b : list Z) : option (list Z) := utf8_dec_fuel (length b) b.
