(* C19 - model of the string codecs of psd_tools (definitions only).

   A Python `str` is a list of code points (Z, each in 0..0x10FFFF; CPython strings
   may contain lone surrogates D800..DFFF).  A byte string / the unread remainder of
   a file object is a `list Z` of bytes.  `fp.read(n)` past the end returns what is
   left: `firstn`/`skipn` behave the same way, so truncated inputs are modelled as
   the code treats them.

   Mirrors, as the code is after commit 8e228c6:
     psd_tools/utils.py   pad, read_padding, write_padding,
                          read_unicode_string, write_unicode_string   (UTF-16-BE, surrogatepass)
                          read_pascal_string, write_pascal_string
     psd_tools/api/layers.py  Layer.name getter / setter
     psd_tools/psd/tagged_blocks.py  TaggedBlock.write/read for the `luni` block (StringElement)
     psd_tools/psd/layer_and_mask.py LayerRecord._write_extra/_read_extra, name-relevant part
   Writers return (bytes emitted, the `written` count the code accumulates). *)
From PsdV Require Import Base.Prelude.
From Coq Require Import ZArith List Bool Lia.
Import ListNotations.
Open Scope Z_scope.

(* ------------------------------------------------------------------ code points *)
Definition valid_cpb (c : Z) : bool := (0 <=? c) && (c <=? 0x10FFFF).
Definition is_high (u : Z) : bool := (0xD800 <=? u) && (u <=? 0xDBFF).
Definition is_low (u : Z) : bool := (0xDC00 <=? u) && (u <=? 0xDFFF).
Definition is_surr (c : Z) : bool := (0xD800 <=? c) && (c <=? 0xDFFF).
(* Unicode scalar value: what a well-formed Unicode string consists of *)
Definition scalarb (c : Z) : bool := valid_cpb c && negb (is_surr c).

Definition valid_str (s : list Z) : Prop := Forall (fun c => valid_cpb c = true) s.
Definition scalar_str (s : list Z) : Prop := Forall (fun c => scalarb c = true) s.

(* ------------------------------------------------------------------ UTF-16 *)
(* str.encode('utf-16-be', 'surrogatepass'): code units of one code point; a lone
   surrogate code point is passed through as the code unit of the same value. *)
Definition units_of (c : Z) : list Z :=
  if c <? 0x10000 then [c]
  else [0xD800 + (c - 0x10000) / 0x400; 0xDC00 + (c - 0x10000) mod 0x400].

Definition utf16_units (s : list Z) : list Z := flat_map units_of s.

Definition join_pair (h l : Z) : Z := 0x10000 + (h - 0xD800) * 0x400 + (l - 0xDC00).

(* bytes.decode('utf-16-be', 'surrogatepass') on code units: a high surrogate
   immediately followed by a low surrogate is one character; any other surrogate is
   passed through as a (lone) surrogate code point. *)
Fixpoint join_units (us : list Z) : list Z :=
  match us with
  | [] => []
  | u :: rest =>
      match rest with
      | l :: rest' =>
          if is_high u && is_low l then join_pair u l :: join_units rest'
          else u :: join_units rest
      | [] => [u]
      end
  end.

(* guard: no lone high surrogate immediately followed by a lone low surrogate
   (such a Python str is not a well-formed Unicode string; it is the only class of
   str that UTF-16 cannot carry: the two halves come back as ONE character). *)
Fixpoint joinable_free (s : list Z) : bool :=
  match s with
  | [] => true
  | c :: rest =>
      match rest with
      | d :: _ => negb (is_high c && is_low d) && joinable_free rest
      | [] => true
      end
  end.

Definition be16 (u : Z) : list Z := [u / 256; u mod 256].
Definition be32 (n : Z) : list Z :=
  [n / 16777216; (n / 65536) mod 256; (n / 256) mod 256; n mod 256].

Fixpoint units_of_bytes (b : list Z) : res (list Z) :=
  match b with
  | [] => Ok []
  | hi :: b1 =>
      match b1 with
      | [] => Err ValueErr            (* UnicodeDecodeError: truncated data *)
      | lo :: b' => do us <- units_of_bytes b'; Ok (hi * 256 + lo :: us)
      end
  end.

Definition utf16be_encode (s : list Z) : list Z := flat_map be16 (utf16_units s).
Definition utf16be_decode (b : list Z) : res (list Z) :=
  do us <- units_of_bytes b; Ok (join_units us).

(* ------------------------------------------------------------------ padding *)
(* pad(number, divisor) *)
Definition pad (number divisor : Z) : Z :=
  if number mod divisor =? 0 then number else (number / divisor + 1) * divisor.

(* number of padding bytes read_padding / write_padding handle for `size` *)
Definition pad_count (size divisor : Z) : Z :=
  let r := size mod divisor in if r =? 0 then 0 else divisor - r.

Definition zeros (n : Z) : list Z := repeat 0 (Z.to_nat n).
(* fp.read(n) / skipping n bytes: recursion on the data, so that an absurd count read from a
   corrupt file costs nothing (equal to firstn/skipn (Z.to_nat n): Proofs.take_firstn, drop_skipn) *)
Fixpoint take (n : Z) (d : list Z) : list Z :=
  match d with
  | [] => []
  | x :: r => if n <=? 0 then [] else x :: take (n - 1) r
  end.
Fixpoint drop (n : Z) (d : list Z) : list Z :=
  match d with
  | [] => []
  | x :: r => if n <=? 0 then d else drop (n - 1) r
  end.

(* ------------------------------------------------------------------ struct *)
Definition pack_I (n : Z) : res (list Z) :=
  if (0 <=? n) && (n <=? 0xFFFFFFFF) then Ok (be32 n) else Err StructErr.

(* read_fmt('I', fp): IOError when fewer than 4 bytes are left *)
Definition read_I (d : list Z) : res (Z * list Z) :=
  match d with
  | a :: b :: c :: e :: r => Ok (a * 16777216 + b * 65536 + c * 256 + e, r)
  | _ => Err IOErr
  end.

(* ------------------------------------------------------------------ unicode strings *)
(* def write_unicode_string(fp, value, padding=1):
       data = value.encode("utf-16-be", "surrogatepass")
       written = write_fmt(fp, "I", len(data) // 2)
       written += write_bytes(fp, data)
       written += write_padding(fp, written, padding)            *)
Definition write_unicode_string (s : list Z) (padding : Z) : res (list Z * Z) :=
  let data := utf16be_encode s in
  do hdr <- pack_I (Z.of_nat (length data) / 2);
  let written := 4 + Z.of_nat (length data) in
  let p := pad_count written padding in
  Ok (hdr ++ data ++ zeros p, written + p).

(* def read_unicode_string(fp, padding=1):
       num_chars = read_fmt("I", fp)[0]
       data = fp.read(num_chars * 2)
       read_padding(fp, struct.calcsize("I") + num_chars * 2, padding)
       return data.decode("utf-16-be", "surrogatepass")
   result: the string and the unread remainder of fp *)
Definition read_unicode_string (d : list Z) (padding : Z) : res (list Z * list Z) :=
  do nr <- read_I d;
  let n := fst nr in
  let r1 := snd nr in
  let data := take (2 * n) r1 in
  let r2 := drop (2 * n) r1 in
  let r3 := drop (pad_count (4 + 2 * n) padding) r2 in
  do s <- utf16be_decode data;
  Ok (s, r3).

(* ------------------------------------------------------------------ pascal strings *)
(* The charset codec (str.encode(encoding) / bytes.decode(encoding), errors='strict')
   is external: a pair of partial functions.  None = UnicodeEncodeError /
   UnicodeDecodeError (both are ValueError subclasses). *)
Section Pascal.
  Variable enc : list Z -> option (list Z).
  Variable dec : list Z -> option (list Z).

  (* def write_pascal_string(fp, value, encoding="macroman", padding=2):
         data = value.encode(encoding)
         written = write_fmt(fp, "B", len(data))        # struct.error above 255
         written += write_bytes(fp, data)
         written += write_padding(fp, written, padding)               *)
  Definition write_pascal_string (s : list Z) (padding : Z) : res (list Z * Z) :=
    match enc s with
    | None => Err ValueErr
    | Some data =>
        let n := Z.of_nat (length data) in
        if n <=? 255 then
          let written := 1 + n in
          let p := pad_count written padding in
          Ok (n :: data ++ zeros p, written + p)
        else Err StructErr
    end.

  (* def read_pascal_string(fp, encoding="macroman", padding=2):
         start_pos = fp.tell()
         length = read_fmt("B", fp)[0]
         data = fp.read(length)
         assert len(data) == length, (len(data), length)
         read_padding(fp, fp.tell() - start_pos, padding)
         return data.decode(encoding)                                  *)
  Definition read_pascal_string (d : list Z) (padding : Z) : res (list Z * list Z) :=
    match d with
    | [] => Err IOErr
    | n :: r1 =>
        let data := take n r1 in
        if Z.of_nat (length data) =? n then
          let r2 := drop n r1 in
          let r3 := drop (pad_count (1 + n) padding) r2 in
          match dec data with
          | None => Err ValueErr
          | Some s => Ok (s, r3)
          end
        else Err AssertErr
    end.
End Pascal.

(* ------------------------------------------------------------------ layer name *)
(* The part of a LayerRecord the name lives in: the legacy pascal field and the
   data of the UNICODE_LAYER_NAME (`luni`) tagged block, if present. *)
Record lrec := { rec_name : list Z; rec_luni : option (list Z) }.

(* @property name:  self._record.tagged_blocks.get_data(Tag.UNICODE_LAYER_NAME, self._record.name) *)
Definition get_name (r : lrec) : list Z :=
  match rec_luni r with Some v => v | None => rec_name r end.

(* @name.setter
     assert len(value) < 256
     try: value.encode("macroman"); self._record.name = value
     except UnicodeEncodeError: self._record.name = str("?")
     self._record.tagged_blocks.set_data(Tag.UNICODE_LAYER_NAME, value)   *)
Definition set_name (enc_mac : list Z -> option (list Z)) (value : list Z) (r : lrec) : res lrec :=
  if Z.of_nat (length value) <? 256 then
    Ok {| rec_name := match enc_mac value with Some _ => value | None => [63] end;
          rec_luni := Some value |}
  else Err AssertErr.

(* Names given at construction, as the code is after commit cc4d99c (fix of F-C19-3):
     Group.new(name):             assert len(name) < 256; LayerRecord(name=_legacy_name(name));
                                  set_data(UNICODE_LAYER_NAME, name)
     PixelLayer.frompil(.., name): assert len(layer_name) < 256; record.name = _legacy_name(layer_name);
                                  set_data(UNICODE_LAYER_NAME, layer_name)
   _legacy_name(v) = v if mac_roman can express it, else "?"  - the rule of the setter. *)
Definition legacy_name (enc_mac : list Z -> option (list Z)) (v : list Z) : list Z :=
  match enc_mac v with Some _ => v | None => [63] end.
Definition ctor_rec (enc_mac : list Z -> option (list Z)) (name : list Z) : res lrec :=
  if Z.of_nat (length name) <? 256 then
    Ok {| rec_name := legacy_name enc_mac name; rec_luni := Some name |}
  else Err AssertErr.

(* The constructors as they were BEFORE cc4d99c (kept as documentation of F-C19-3):
   Group.new: LayerRecord(name=name) + luni block, no '?' fallback;
   PixelLayer.frompil: layer_record.name = layer_name, no fallback, no luni block. *)
Definition group_new_rec_orig (name : list Z) : lrec := {| rec_name := name; rec_luni := Some name |}.
Definition frompil_rec_orig (name : list Z) : lrec := {| rec_name := name; rec_luni := None |}.

Definition tag_8BIM : list Z := [56; 66; 73; 77].
Definition tag_luni : list Z := [108; 117; 110; 105].

(* TaggedBlock(key=luni, data=StringElement(v)).write(fp, version=1, padding=1):
     write_fmt('4s4s'); write_length_block(fp, writer, fmt='I', padding=1) where the
     writer is StringElement.write(f, padding = 1 if padding == 4 else 4) = padding 4.
   The length field holds the writer's `written`, not a recomputed length. *)
Definition write_luni_block (v : list Z) : res (list Z * Z) :=
  do iw <- write_unicode_string v 4;
  let inner := fst iw in
  let w := snd iw in
  do len <- pack_I w;
  let written := 8 + (w + 4 + pad_count (w + 4) 1) in
  Ok (tag_8BIM ++ tag_luni ++ len ++ inner, written).

(* read_length_block(fp, 'I', padding=1): IOError when the data is short *)
Definition read_length_block1 (d : list Z) : res (list Z * list Z) :=
  do nr <- read_I d;
  let n := fst nr in
  let data := take n (snd nr) in
  if Z.of_nat (length data) =? n then Ok (data, drop n (snd nr)) else Err IOErr.

Definition starts_with (p d : list Z) : bool := list_eqb (firstn (length p) d) p.

(* TaggedBlocks.read restricted to what the name needs: an optional leading `luni`
   block (8BIM signature); StringElement.frombytes(raw) reads with padding 1. *)
Definition read_luni_block (d : list Z) : res (option (list Z) * list Z) :=
  if (8 <=? Z.of_nat (length d)) && starts_with (tag_8BIM ++ tag_luni) d then
    do rr <- read_length_block1 (skipn 8 d);
    do sr <- read_unicode_string (fst rr) 1;
    Ok (Some (fst sr), snd rr)
  else Ok (None, d).

Section Record.
  Variable enc : list Z -> option (list Z).
  Variable dec : list Z -> option (list Z).

  (* LayerRecord._write_extra after the mask / blending-range prefix of `pre_len`
     bytes:  write_pascal_string(name, encoding, padding=4); tagged_blocks.write(padding=1);
     write_padding(fp, written, 2) *)
  Definition write_name_part (pre_len : Z) (r : lrec) : res (list Z * Z) :=
    do pw <- write_pascal_string enc (rec_name r) 4;
    do bw <- match rec_luni r with
             | Some v => write_luni_block v
             | None => Ok ([], 0)
             end;
    let written := pre_len + snd pw + snd bw in
    let p := pad_count written 2 in
    Ok (fst pw ++ fst bw ++ zeros p, snd pw + snd bw + p).

  (* LayerRecord._read_extra after the prefix: the pascal name, then the blocks *)
  Definition read_name_part (d : list Z) : res lrec :=
    do nr <- read_pascal_string dec d 4;
    do br <- read_luni_block (snd nr);
    Ok {| rec_name := fst nr; rec_luni := fst br |}.
End Record.
