(* C08 end to end through the file model (definitions only).
   Connects the abstract layer records of Tree/Build.v with the container model of Psd/Model.v
   (LayerInfo / LayerRecord / TaggedBlocks) and the typed SectionDividerSetting payload of Psd/Leaf.v:

   [abs_rec]   what PSDImage._init looks at in a file-level LayerRecord: the kind inside its 'lsct' / 'lsdk'
               blocks (payload parsed with Leaf.read_leaf KSectionDivider, i.e. SectionDividerSetting.read),
               flag bit 4 (pixel_data_irrelevant), which of the 33 deciding keys its block dict contains; the
               identity of the record is taken from its 'lyid' block (Layer.layer_id; -1 without one);
   [open_psd]  PSDImage(psd): the tree of the document's layer records;  [open_bytes] = PSDImage.open;
   [file_rec]  a file-level record realising an abstract one (dividers as real lsct / lsdk blocks, artboard and
               the other deciding keys as tagged blocks with an arbitrary payload [payload]);
   [doc_with]  a minimal document around a record list.

   What stays abstract: the payloads of the deciding blocks ([payload], opaque bytes: _init only asks
   `key in blocks`), names / rectangles / masks / channel data of the constructed records (empty), and the
   16/32-bit layer info blocks Lr16 / Lr32 that PSD._get_layer_info prefers when present (not modelled:
   [open_psd] reads layer_and_mask_information.layer_info). *)
From PsdV Require Import Base.Prelude Psd.Codec Psd.Model Psd.Leaf Tree.Forest Tree.Build.

Definition KEY_LSCT : Z := 1819501428.    (* Tag.SECTION_DIVIDER_SETTING  b'lsct' *)
Definition KEY_LSDK : Z := 1819501675.    (* Tag.NESTED_SECTION_DIVIDER_SETTING  b'lsdk' *)
Definition KEY_LYID : Z := 1819896164.    (* Tag.LAYER_ID  b'lyid' *)
Definition BLEND_NORM : Z := 1852797549.  (* BlendMode.NORMAL  b'norm' *)

(* (4-character code, deciding tag code of Tree/Build.v); compared with psd_tools.constants.Tag on every run *)
Definition DECIDING_KEYS : list (Z * Z) :=
  [(1417237352, 0); (1954108264, 1); (1399802980, 2); (1399802949, 3); (1886145636, 4); (1349274724, 5);
   (1399800687, 6); (1349797484, 7); (1197753964, 8); (1130841444, 9); (1668641398, 10); (1702391873, 11);
   (1818588780, 12); (1986617921, 13); (1752524082, 14); (1651273315, 15); (1651275624, 16); (1885890156, 17);
   (1835628658, 18); (1668051532, 19); (1853256308, 20); (1886352244, 21); (1953002099, 22); (1936026723, 23);
   (1735550061, 24); (1987012459, 25); (1986884459, 26); (1987276147, 27); (1987277931, 28); (1987273575, 29);
   (1634890850, 30); (1634890852, 31); (1633838180, 32)].
Definition CODES : list Z := map snd DECIDING_KEYS.

Definition divk_of (z : Z) : option divk :=
  if z =? 0 then Some DOther else if z =? 1 then Some DOpen else if z =? 2 then Some DClosed
  else if z =? 3 then Some DBound else None.
Definition divk_code (k : divk) : Z :=
  match k with DOther => 0 | DOpen => 1 | DClosed => 2 | DBound => 3 end.

(* ---- file record -> abstract record *)
Definition has_key (k : Z) (bs : list tagged_block) : bool := existsb (fun b => tb_key b =? k) bs.
Definition get_block (k : Z) (bs : list tagged_block) : option tagged_block := find (fun b => tb_key b =? k) bs.

(* blocks.get_data(key).kind *)
Definition divider_of (k : Z) (bs : list tagged_block) : res (option divk) :=
  match get_block k bs with
  | None => Ok None
  | Some b =>
      match read_leaf Leaf.KSectionDivider (tb_data b) with
      | Ok (LSectionDivider kind _ _ _) => Ok (divk_of kind)
      | Ok _ => Err TypeErr
      | Err e => Err e
      end
  end.

(* Layer.layer_id: tagged_blocks.get_data(Tag.LAYER_ID, -1) *)
Definition layer_id (bs : list tagged_block) : Z :=
  match get_block KEY_LYID bs with
  | Some b => match read_leaf Leaf.KInteger (tb_data b) with Ok (LInteger v) => v | _ => -1 end
  | None => -1
  end.

Definition deciding_tags (bs : list tagged_block) : list Z :=
  map snd (filter (fun kc => has_key (fst kc) bs) DECIDING_KEYS).

Definition abs_rec (r : layer_record) : res rec :=
  match divider_of KEY_LSCT (r_blocks r), divider_of KEY_LSDK (r_blocks r) with
  | Ok s, Ok n => Ok (Build.mkRec (layer_id (r_blocks r)) s n (fb4 (r_flags r)) (deciding_tags (r_blocks r)))
  | Err e, _ => Err e
  | _, Err e => Err e
  end.

Fixpoint abs_recs (rs : list layer_record) : res (list rec) :=
  match rs with
  | [] => Ok []
  | r :: rs' =>
      match abs_rec r, abs_recs rs' with
      | Ok a, Ok l => Ok (a :: l)
      | Err e, _ => Err e
      | _, Err e => Err e
      end
  end.

(* PSDImage(psd): PSD._iter_layers over layer_info.layer_records, then _init *)
Definition open_psd (d : psd) : outcome :=
  match la_info (p_lami d) with
  | Some li =>
      match li_records li with
      | Some rs => match abs_recs rs with Ok s => open_doc s | Err e => Raised (err_code e) end
      | None => Opened []
      end
  | None => Opened []
  end.

Section File.
  Variable enc_s : list Z -> res (list Z).
  Variable dec_s : list Z -> res (list Z).
  Variable payload : Z -> list Z.     (* content of a deciding block, by tag code: opaque *)

  (* PSDImage.open(bytes) *)
  Definition open_bytes (bs : list Z) : outcome :=
    match read_psd dec_s bs with Ok d => open_psd d | Err e => Raised (err_code e) end.

  (* ---- abstract record -> file record *)
  Definition key_of_code (c : Z) : Z :=
    match find (fun kc => snd kc =? c) DECIDING_KEYS with Some kc => fst kc | None => 0 end.
  Definition divider_block (key : Z) (k : divk) : tagged_block := mkTB sig_8BIM key (be_bytes 4 (divk_code k)).
  Definition tag_block (c : Z) : tagged_block := mkTB sig_8BIM (key_of_code c) (payload c).
  Definition optb {A B} (f : A -> B) (o : option A) : list B := match o with Some a => [f a] | None => [] end.

  Definition file_blocks (r : rec) : list tagged_block :=
    mkTB sig_8BIM KEY_LYID (be_bytes 4 (rid r)) ::
    optb (divider_block KEY_LSCT) (sec r) ++ optb (divider_block KEY_LSDK) (nsec r) ++ map tag_block (tags r).

  Definition file_rec (r : rec) : layer_record :=
    Model.mkRec 0 0 0 0 [] sig_8BIM BLEND_NORM 255 0
                (mkFlags false true false true (pdi r) false false false)
                None (mkBR None None) [] (file_blocks r).

  Definition doc_header : header := mkHeader sig_8BPS 1 3 4 4 8 3.
  Definition doc_with (rs : list layer_record) : psd :=
    mkPSD doc_header [] []
          (mkLAMI (Some (match rs with
                         | [] => mkLI 0 None None
                         | _ => mkLI (len rs) (Some rs) (Some (map (fun _ => []) rs))
                         end))
                  (Some glmi_empty) (Some []))
          (mkCD 0 (zeros 48)).

  (* records_of_tree: the file-level records of a tree, in _build_record_tree's order *)
  Definition records_of_tree (f : lforest) : list layer_record := map file_rec (flatten f).

  (* records that a file can carry exactly: the id fits the 'lyid' field, the tag list is the canonical
     listing (deciding codes only, each once, in table order) *)
  Definition canon_tags (ts : list Z) : list Z := map snd (filter (fun kc => memz (snd kc) ts) DECIDING_KEYS).
  Definition rep (r : rec) : Prop := in_u 4 (rid r) = true /\ tags r = canon_tags (tags r).
End File.
