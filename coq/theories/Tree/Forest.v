(* Rose trees with separate leaf / node payloads and the induction principle for the
   nested [list tree] (Coq's generated one says nothing about the children). *)
From PsdV Require Import Base.Prelude.

Section Rose.
  Context {A B : Type}.

  Inductive tree := Leaf (a : A) | Node (b : B) (c : list tree).

  Definition forest := list tree.

  Section Ind.
    Variable P : tree -> Prop.
    Variable Q : forest -> Prop.
    Hypothesis Hleaf : forall a, P (Leaf a).
    Hypothesis Hnode : forall b c, Q c -> P (Node b c).
    Hypothesis Hnil : Q [].
    Hypothesis Hcons : forall t f, P t -> Q f -> Q (t :: f).

    Fixpoint tree_forest_ind (t : tree) : P t :=
      match t with
      | Leaf a => Hleaf a
      | Node b c =>
          Hnode b c ((fix go (f : forest) : Q f :=
                        match f with
                        | [] => Hnil
                        | x :: f' => Hcons x f' (tree_forest_ind x) (go f')
                        end) c)
      end.

    Fixpoint forest_tree_ind (f : forest) : Q f :=
      match f with
      | [] => Hnil
      | x :: f' => Hcons x f' (tree_forest_ind x) (forest_tree_ind f')
      end.
  End Ind.

  (* Forall-style principle *)
  Lemma tree_ind_Forall (P : tree -> Prop) :
    (forall a, P (Leaf a)) ->
    (forall b c, Forall P c -> P (Node b c)) ->
    forall t, P t.
  Proof.
    intros Hl Hn. apply (tree_forest_ind P (Forall P)); auto.
  Qed.

  Lemma forest_ind_Forall (P : tree -> Prop) :
    (forall a, P (Leaf a)) ->
    (forall b c, Forall P c -> P (Node b c)) ->
    forall f, Forall P f.
  Proof.
    intros Hl Hn. apply (forest_tree_ind P (Forall P)); auto.
  Qed.

  Fixpoint tsize (t : tree) : nat :=
    match t with
    | Leaf _ => 1
    | Node _ c => S (fold_right (fun x n => tsize x + n)%nat O c)
    end.

  Fixpoint tdepth (t : tree) : nat :=
    match t with
    | Leaf _ => O
    | Node _ c => S (fold_right (fun x n => Nat.max (tdepth x) n) O c)
    end.
End Rose.

Arguments tree : clear implicits.
Arguments forest : clear implicits.

Section Map.
  Context {A B A' B' : Type} (fa : A -> A') (fb : B -> B').
  Fixpoint tmap (t : tree A B) : tree A' B' :=
    match t with
    | Leaf a => Leaf (fa a)
    | Node b c => Node (fb b) (map tmap c)
    end.
End Map.

Lemma tmap_tmap {A B A1 B1 A2 B2} (f1 : A -> A1) (g1 : B -> B1) (f2 : A1 -> A2) (g2 : B1 -> B2) (t : tree A B) :
  tmap f2 g2 (tmap f1 g1 t) = tmap (fun a => f2 (f1 a)) (fun b => g2 (g1 b)) t.
Proof.
  induction t using tree_ind_Forall; cbn; [reflexivity|].
  f_equal. rewrite map_map. apply map_ext_Forall. exact H.
Qed.

Lemma tmap_id_ext {A B} (f : A -> A) (g : B -> B) (t : tree A B) :
  (forall a, f a = a) -> (forall b, g b = b) -> tmap f g t = t.
Proof.
  intros Hf Hg. induction t using tree_ind_Forall; cbn; [now rewrite Hf|].
  rewrite Hg. f_equal. rewrite <- (map_id c) at 2. apply map_ext_Forall. exact H.
Qed.
