(* C11's end-to-end theorem, applied to the compositor driven by the fields the C15 computation stores. *)
From Coq Require Import Reals ZArith List Bool.
From PsdV Require Import Base.Prelude Tree.Forest Tree.Clip Tree.ClipProofs Tree.ClipComposite.
From PsdV Require Import Composite.Scalar Composite.Model Composite.Geometry Composite.Doc Composite.Plane Composite.Spec Composite.SpecEval Composite.ProofsKernel Composite.ProofsLaws Composite.ProofsDoc Composite.ProofsEndToEnd.
Import ListNotations.
Open Scope R_scope.

Theorem field_driven_eq_spec (ls : list layer) (vp : rect) (cb ab : R) (x y : Z) (k : nat) :
  Forall layer_ok ls -> unit cb -> unit ab -> inside vp x y = true ->
  let '(C, f, al) := @composite_px ROps false cb ab
                       (field_driven (@sample_layer ROps vp x y k) ls (level Photoshop (embed doc_clip ls))) in
  let '(P, f', al') := pdf_composite false cb ab (@plane_list ROps x y k ls) in
  f = f' /\ al = al' /\ al * C = P.
Proof.
  intros OK Hcb Hab Hin. rewrite <- (@composite_doc_field_driven ROps vp cb ab ls x y k).
  exact (viewport_model_eq_spec ls vp cb ab x y k OK Hcb Hab Hin).
Qed.
