(* C08 through the bytes: opening what was written gives the tree of the records that were written
   (psd_rt of Psd/Proofs.v composed with the abstraction), and for a tree [f] the document built from
   [records_of_tree f] opens, after write and read, as [f] itself (build_flatten). *)
From PsdV Require Import Base.Prelude Psd.Codec Psd.Model Psd.Proofs Psd.Leaf Tree.Forest Tree.Build Tree.BuildProofs Tree.File.
From Coq Require Import ZArith List Bool Lia.

(* ------------------------------------------------------------------ A. read (write d) opens like d *)
Lemma abs_rec_set_channels r c : abs_rec (set_channels r c) = abs_rec r.
Proof. reflexivity. Qed.

Lemma abs_recs_upd rs : forall cs, abs_recs (upd_recs rs cs) = abs_recs rs.
Proof.
  induction rs as [|r rs IH]; intros [|c cs]; cbn [upd_recs]; try reflexivity.
  cbn [abs_recs]. now rewrite abs_rec_set_channels, IH.
Qed.

(* write() mutates the channel lengths inside the records; nothing _init looks at *)
Lemma open_psd_after d : open_psd (psd_after_write d) = open_psd d.
Proof.
  destruct d as [h cmd rs [[li|] g tb] img]; [|reflexivity].
  unfold open_psd, psd_after_write, lami_after_write. cbn [p_lami la_info option_map].
  unfold li_after_write. destruct (li_count li =? 0); [reflexivity|].
  unfold li_update. destruct li as [c [[|r rs']|] [[|cd cs]|]]; cbn [li_records li_chans]; try reflexivity.
  now rewrite abs_recs_upd.
Qed.

Section Saved.
  Variable enc_s : list Z -> res (list Z).
  Variable dec_s : list Z -> res (list Z).

  Theorem open_bytes_saved pad d bs n :
    0 < pad -> wf_psd enc_s dec_s d = true -> write_psd enc_s pad d = Ok (bs, n) ->
    open_bytes dec_s bs = open_psd d.
  Proof.
    intros Hp Hwf Hw. unfold open_bytes. rewrite (psd_rt enc_s dec_s pad d bs n Hp Hwf Hw).
    apply open_psd_after.
  Qed.
End Saved.

(* ------------------------------------------------------------------ B. abs_rec (file_rec r) = r *)
Lemma get_block_app k a b :
  get_block k (a ++ b) = match get_block k a with Some x => Some x | None => get_block k b end.
Proof.
  unfold get_block. induction a as [|x a IH]; [reflexivity|]. cbn [app find].
  destruct (tb_key x =? k); [reflexivity|exact IH].
Qed.

(* computed facts about the key table *)
Lemma keys_not_structural :
  forallb (fun kc => negb (fst kc =? KEY_LYID) && negb (fst kc =? KEY_LSCT) && negb (fst kc =? KEY_LSDK)) DECIDING_KEYS = true.
Proof. vm_compute. reflexivity. Qed.

Lemma keys_injective :
  forallb (fun kc => forallb (fun kc' => Bool.eqb (fst kc' =? fst kc) (snd kc =? snd kc')) DECIDING_KEYS) DECIDING_KEYS = true.
Proof. vm_compute. reflexivity. Qed.

Lemma key_of_code_table :
  forallb (fun kc => key_of_code (snd kc) =? fst kc) DECIDING_KEYS = true.
Proof. vm_compute. reflexivity. Qed.

Lemma key_of_code_in kc : In kc DECIDING_KEYS -> key_of_code (snd kc) = fst kc.
Proof.
  intro I. pose proof key_of_code_table as T. rewrite forallb_forall in T. apply Z.eqb_eq. now apply T.
Qed.

Lemma key_structural kc : In kc DECIDING_KEYS ->
  (fst kc =? KEY_LYID) = false /\ (fst kc =? KEY_LSCT) = false /\ (fst kc =? KEY_LSDK) = false.
Proof.
  intro I. pose proof keys_not_structural as T. rewrite forallb_forall in T. specialize (T kc I).
  apply andb_prop in T as [T T3]. apply andb_prop in T as [T1 T2].
  repeat split; now apply negb_true_iff.
Qed.

Lemma key_eq_code kc kc' : In kc DECIDING_KEYS -> In kc' DECIDING_KEYS ->
  (fst kc' =? fst kc) = (snd kc =? snd kc').
Proof.
  intros I I'. pose proof keys_injective as T. rewrite forallb_forall in T. specialize (T kc I).
  rewrite forallb_forall in T. specialize (T kc' I'). now apply Bool.eqb_prop in T.
Qed.

Lemma canon_in ts c : In c (canon_tags ts) -> exists kc, In kc DECIDING_KEYS /\ snd kc = c.
Proof.
  unfold canon_tags. intro I. apply in_map_iff in I as [kc [E I]]. apply filter_In in I as [I _]. eauto.
Qed.

Section AbsFile.
  Variable payload : Z -> list Z.

  Lemma tag_key r c : rep r -> In c (tags r) -> exists kc, In kc DECIDING_KEYS /\ snd kc = c /\ tb_key (tag_block payload c) = fst kc.
  Proof.
    intros [_ R] I. rewrite R in I. apply canon_in in I as [kc [Ik E]]. exists kc. repeat split; auto.
    cbn [tag_block tb_key]. rewrite <- E. now apply key_of_code_in.
  Qed.

  Lemma get_block_tags_none k ts :
    (forall c, In c ts -> (tb_key (tag_block payload c) =? k) = false) -> get_block k (map (tag_block payload) ts) = None.
  Proof.
    unfold get_block. induction ts as [|c ts IH]; intro H; [reflexivity|]. cbn [map find].
    rewrite (H c (or_introl eq_refl)). apply IH. intros x Hx. apply H. now right.
  Qed.

  Lemma tags_not_structural r : rep r ->
    forall c, In c (tags r) ->
      (tb_key (tag_block payload c) =? KEY_LYID) = false /\ (tb_key (tag_block payload c) =? KEY_LSCT) = false /\
      (tb_key (tag_block payload c) =? KEY_LSDK) = false.
  Proof.
    intros R c I. destruct (tag_key r c R I) as [kc [Ik [_ E]]]. rewrite E. now apply key_structural.
  Qed.

  Lemma read_divider k : read_leaf Leaf.KSectionDivider (be_bytes 4 (divk_code k)) = Ok (LSectionDivider (divk_code k) None None None).
  Proof. destruct k; vm_compute; reflexivity. Qed.

  Lemma divk_of_code k : divk_of (divk_code k) = Some k.
  Proof. destruct k; reflexivity. Qed.

  Lemma divider_lsct r : rep r -> divider_of KEY_LSCT (file_blocks payload r) = Ok (sec r).
  Proof.
    intro R. unfold divider_of, file_blocks.
    change (get_block KEY_LSCT (?x :: ?l)) with (get_block KEY_LSCT l).
    destruct (sec r) as [k|]; cbn [optb app].
    - unfold get_block; cbn [find divider_block tb_key]. rewrite Z.eqb_refl. unfold divider_block. cbn [tb_data].
      rewrite read_divider. now rewrite divk_of_code.
    - rewrite get_block_app.
      assert (get_block KEY_LSCT (optb (divider_block KEY_LSDK) (nsec r)) = None) as -> by (destruct (nsec r); reflexivity).
      rewrite get_block_tags_none; [reflexivity|]. intros c I. now apply (tags_not_structural r R c I).
  Qed.

  Lemma divider_lsdk r : rep r -> divider_of KEY_LSDK (file_blocks payload r) = Ok (nsec r).
  Proof.
    intro R. unfold divider_of, file_blocks.
    change (get_block KEY_LSDK (?x :: ?l)) with (get_block KEY_LSDK l).
    rewrite get_block_app.
    assert (get_block KEY_LSDK (optb (divider_block KEY_LSCT) (sec r)) = None) as -> by (destruct (sec r); reflexivity).
    destruct (nsec r) as [k|]; cbn [optb app].
    - unfold get_block; cbn [find divider_block tb_key]. rewrite Z.eqb_refl. unfold divider_block. cbn [tb_data].
      rewrite read_divider. now rewrite divk_of_code.
    - rewrite get_block_tags_none; [reflexivity|]. intros c I. now apply (tags_not_structural r R c I).
  Qed.

  Lemma layer_id_file r : rep r -> layer_id (file_blocks payload r) = rid r.
  Proof.
    intros [U _]. unfold layer_id, file_blocks, get_block. cbn [find tb_key]. rewrite Z.eqb_refl. cbn [tb_data].
    cbn [read_leaf]. rewrite <- (app_nil_r (be_bytes 4 (rid r))).
    rewrite (read_u_pack 4 (rid r) (be_bytes 4 (rid r)) [] (pack_u_ok 4 (rid r) U)). reflexivity.
  Qed.

  Lemma has_key_tags kc ts : In kc DECIDING_KEYS ->
    (forall c, In c ts -> exists kc', In kc' DECIDING_KEYS /\ snd kc' = c /\ tb_key (tag_block payload c) = fst kc') ->
    has_key (fst kc) (map (tag_block payload) ts) = memz (snd kc) ts.
  Proof.
    intros Ik H. unfold has_key, memz. induction ts as [|c ts IH]; [reflexivity|]. cbn [map existsb].
    destruct (H c (or_introl eq_refl)) as [kc' [Ik' [E K]]]. rewrite K, (key_eq_code kc kc' Ik Ik'), E.
    f_equal. apply IH. intros x Hx. apply H. now right.
  Qed.

  Lemma deciding_tags_file r : rep r -> deciding_tags (file_blocks payload r) = tags r.
  Proof.
    intro R. destruct R as [U T]. transitivity (canon_tags (tags r)); [|symmetry; exact T].
    unfold deciding_tags, canon_tags. f_equal.
    apply filter_ext_in. intros kc Ik. unfold file_blocks.
    destruct (key_structural kc Ik) as [K1 [K2 K3]].
    assert (forall a, (fst kc =? a) = false -> (a =? fst kc) = false) as Sy
      by (intros a Ha; rewrite Z.eqb_neq in *; congruence).
    unfold has_key. cbn [existsb tb_key]. rewrite (Sy _ K1). cbn [orb]. rewrite !existsb_app.
    assert (existsb (fun b => tb_key b =? fst kc) (optb (divider_block KEY_LSCT) (sec r)) = false) as ->
      by (destruct (sec r); cbn [optb existsb divider_block tb_key]; [rewrite (Sy _ K2)|]; reflexivity).
    assert (existsb (fun b => tb_key b =? fst kc) (optb (divider_block KEY_LSDK) (nsec r)) = false) as ->
      by (destruct (nsec r); cbn [optb existsb divider_block tb_key]; [rewrite (Sy _ K3)|]; reflexivity).
    cbn [orb]. apply (has_key_tags kc (tags r) Ik). intros c I. apply (tag_key r c (conj U T) I).
  Qed.

  Lemma abs_file r : rep r -> abs_rec (file_rec payload r) = Ok r.
  Proof.
    intro R. unfold abs_rec, file_rec. cbn [r_blocks r_flags fb4].
    rewrite (divider_lsct r R), (divider_lsdk r R), (layer_id_file r R), (deciding_tags_file r R).
    now destruct r.
  Qed.

  Lemma abs_files s : Forall rep s -> abs_recs (map (file_rec payload) s) = Ok s.
  Proof.
    induction 1 as [|r s R _ IH]; [reflexivity|]. cbn [map abs_recs]. now rewrite (abs_file r R), IH.
  Qed.

  Lemma open_doc_with s : Forall rep s -> open_psd (doc_with (map (file_rec payload) s)) = open_doc s.
  Proof.
    intro R. unfold open_psd, doc_with. cbn [p_lami la_info].
    destruct s as [|r s]; [reflexivity|]. pose proof (abs_files (r :: s) R) as E. cbn [map] in E.
    cbn [map li_records]. now rewrite E.
  Qed.
End AbsFile.

(* ------------------------------------------------------------------ the tree survives the bytes *)
Section EndToEnd.
  Variable enc_s : list Z -> res (list Z).
  Variable dec_s : list Z -> res (list Z).
  Variable payload : Z -> list Z.

  Theorem open_saved_records pad s bs n :
    Forall rep s -> 0 < pad ->
    wf_psd enc_s dec_s (doc_with (map (file_rec payload) s)) = true ->
    write_psd enc_s pad (doc_with (map (file_rec payload) s)) = Ok (bs, n) ->
    open_bytes dec_s bs = open_doc s.
  Proof.
    intros R Hp Hwf Hw. rewrite (open_bytes_saved enc_s dec_s pad _ bs n Hp Hwf Hw). now apply open_doc_with.
  Qed.

  Theorem open_saved_tree pad f bs n :
    Forall WFc f -> Forall rep (flatten f) -> 0 < pad ->
    wf_psd enc_s dec_s (doc_with (records_of_tree payload f)) = true ->
    write_psd enc_s pad (doc_with (records_of_tree payload f)) = Ok (bs, n) ->
    open_bytes dec_s bs = Opened f.
  Proof.
    intros W R Hp Hwf Hw. unfold records_of_tree in *.
    rewrite (open_saved_records pad (flatten f) bs n R Hp Hwf Hw). now apply open_flatten.
  Qed.
End EndToEnd.

(* ------------------------------------------------------------------ C. the constructed document is well formed
   (so the only remaining hypothesis of open_saved_tree is that write succeeds, i.e. the sizes fit their fields) *)
Lemma memz_filter_none {A} (g : A -> Z) (p : A -> bool) x l : memz x (map g l) = false -> memz x (map g (filter p l)) = false.
Proof.
  unfold memz. induction l as [|a l IH]; [reflexivity|]. cbn [map existsb filter]. intro H.
  apply orb_false_iff in H as [H1 H2]. destruct (p a); cbn [map existsb]; [rewrite H1|]; auto.
Qed.

Lemma nodupz_filter {A} (g : A -> Z) (p : A -> bool) l : nodupz (map g l) = true -> nodupz (map g (filter p l)) = true.
Proof.
  induction l as [|a l IH]; [reflexivity|]. cbn [map nodupz filter]. intro H. apply andb_prop in H as [H1 H2].
  destruct (p a); cbn [map nodupz]; [|auto]. rewrite (IH H2), andb_true_r.
  apply negb_true_iff. apply memz_filter_none. now apply negb_true_iff.
Qed.

Lemma keys_nodup : nodupz (map fst DECIDING_KEYS) = true.
Proof. vm_compute. reflexivity. Qed.

Lemma structural_not_in_keys :
  memz KEY_LYID (map fst DECIDING_KEYS) = false /\ memz KEY_LSCT (map fst DECIDING_KEYS) = false /\
  memz KEY_LSDK (map fst DECIDING_KEYS) = false.
Proof. repeat split; vm_compute; reflexivity. Qed.

Definition okeys (k : Z) {A} (o : option A) : list Z := match o with Some _ => [k] | None => [] end.

Lemma nodup_prefix {A B} (o1 : option A) (o2 : option B) K :
  memz KEY_LYID K = false -> memz KEY_LSCT K = false -> memz KEY_LSDK K = false -> nodupz K = true ->
  nodupz (KEY_LYID :: okeys KEY_LSCT o1 ++ okeys KEY_LSDK o2 ++ K) = true.
Proof.
  intros M1 M2 M3 ND.
  assert ((KEY_LYID =? KEY_LSCT) = false) as E1 by reflexivity.
  assert ((KEY_LYID =? KEY_LSDK) = false) as E2 by reflexivity.
  assert ((KEY_LSCT =? KEY_LSDK) = false) as E3 by reflexivity.
  unfold memz in *.
  destruct o1, o2; unfold okeys; cbn [app nodupz memz existsb];
    rewrite ?E1, ?E2, ?E3, ?M1, ?M2, ?M3, ND; reflexivity.
Qed.

Section WfDoc.
  Variable enc_s : list Z -> res (list Z).
  Variable dec_s : list Z -> res (list Z).
  Variable payload : Z -> list Z.
  Hypothesis empty_name_ok : wf_name enc_s dec_s [] = true.

  Lemma tag_keys r : rep r ->
    map tb_key (map (tag_block payload) (tags r)) = map fst (filter (fun kc => memz (snd kc) (tags r)) DECIDING_KEYS).
  Proof.
    intros [_ T]. rewrite T at 1. unfold canon_tags. rewrite !map_map. apply map_ext_in.
    intros kc I. apply filter_In in I as [I _]. cbn [tag_block tb_key]. now apply key_of_code_in.
  Qed.

  Lemma wf_tbs_file r : rep r -> wf_tbs (file_blocks payload r) = true.
  Proof.
    intro R. unfold wf_tbs. apply andb_true_intro. split.
    - unfold file_blocks. cbn [forallb]. apply andb_true_intro. split; [reflexivity|].
      rewrite !forallb_app. repeat (apply andb_true_intro; split).
      + destruct (sec r); reflexivity.
      + destruct (nsec r); reflexivity.
      + apply forallb_forall. intros b Ib. apply in_map_iff in Ib as [c [<- _]]. reflexivity.
    - unfold file_blocks. cbn [map tb_key]. rewrite !map_app. rewrite (tag_keys r R).
      assert (map tb_key (optb (divider_block KEY_LSCT) (sec r)) = okeys KEY_LSCT (sec r)) as -> by (destruct (sec r); reflexivity).
      assert (map tb_key (optb (divider_block KEY_LSDK) (nsec r)) = okeys KEY_LSDK (nsec r)) as -> by (destruct (nsec r); reflexivity).
      apply nodup_prefix.
      + apply memz_filter_none. apply structural_not_in_keys.
      + apply memz_filter_none. apply structural_not_in_keys.
      + apply memz_filter_none. apply structural_not_in_keys.
      + apply nodupz_filter. exact keys_nodup.
  Qed.

  Lemma wf_record_file r : rep r -> wf_record enc_s dec_s (file_rec payload r) = true.
  Proof.
    intro R. unfold wf_record, file_rec.
    cbn [r_channels r_sig r_blend r_clip r_mask r_ranges r_name r_blocks forallb].
    rewrite empty_name_ok, (wf_tbs_file r R). reflexivity.
  Qed.

  Lemma same_shape_file s : same_shape (map (file_rec payload) s) (map (fun _ => []) (map (file_rec payload) s)) = true.
  Proof.
    induction s as [|r s IH]; [reflexivity|]. cbn [map same_shape].
    change (r_channels (file_rec payload r)) with (@nil channel_info). exact IH.
  Qed.

  Lemma wf_cd_empty {A} (l : list A) : forallb (forallb wf_cd) (map (fun _ => []) l) = true.
  Proof. induction l; [reflexivity|]. cbn. exact IHl. Qed.

  Lemma wf_doc_with s : Forall rep s -> wf_psd enc_s dec_s (doc_with (map (file_rec payload) s)) = true.
  Proof.
    intro R. unfold wf_psd, doc_with. cbn [p_header p_res p_lami p_img].
    assert (header_valid doc_header = true) as -> by (vm_compute; reflexivity).
    assert (wf_resources enc_s dec_s [] = true) as -> by reflexivity.
    assert (wf_cd (mkCD 0 (zeros 48)) = true) as -> by reflexivity.
    cbn [andb]. rewrite andb_true_r. unfold wf_lami. cbn [la_info la_glmi la_blocks].
    assert (wf_glmi glmi_empty = true) as -> by reflexivity.
    assert ((wf_tbs [] && (is_some (Some glmi_empty) || negb (nonempty (@nil tagged_block))) &&
             (nonempty (@nil tagged_block) || (0 <? 2 + len (cd_data (mkCD 0 (zeros 48)))))) = true) as ->
      by (vm_compute; reflexivity).
    rewrite !andb_true_r.
    destruct s as [|r s]; [reflexivity|].
    cbn [map]. change (file_rec payload r :: map (file_rec payload) s) with (map (file_rec payload) (r :: s)).
    unfold wf_li. cbn [li_count li_records li_chans].
    assert (len (map (file_rec payload) (r :: s)) =? 0 = false) as ->
      by (apply Z.eqb_neq; unfold len; cbn [map length]; lia).
    apply andb_true_intro; split; [apply andb_true_intro; split; [apply andb_true_intro; split|]|].
    - apply Z.eqb_eq. unfold len. lia.
    - apply same_shape_file.
    - apply forallb_forall. intros y Iy. apply in_map_iff in Iy as [a [<- Ia]].
      apply wf_record_file. rewrite Forall_forall in R. auto.
    - apply wf_cd_empty.
  Qed.

  (* open_saved_tree with the well-formedness discharged: what remains is that the write succeeds *)
  Theorem open_saved_tree_wf pad f bs n :
    Forall WFc f -> Forall rep (flatten f) -> 0 < pad ->
    write_psd enc_s pad (doc_with (records_of_tree payload f)) = Ok (bs, n) ->
    open_bytes dec_s bs = Opened f.
  Proof.
    intros W R Hp Hw. apply (open_saved_tree enc_s dec_s payload pad f bs n W R Hp); [|exact Hw].
    apply wf_doc_with. exact R.
  Qed.
End WfDoc.
