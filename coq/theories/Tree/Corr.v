(* Correspondence glue for C08 and C15: compact input descriptors (mirrored in harness/vh/c08.py,
   c15.py) and the canonical serialisation of the models' results. *)
From PsdV Require Import Base.Prelude Tree.Forest Tree.Build Tree.Clip.

(* ------------------------------------------------------------------ C08 *)
(* a record descriptor: (sec, nsec, pdi, tags); divider kinds as SectionDivider values, -1 = block absent *)
Definition rdesc := (Z * Z * Z * list Z)%type.

Definition dk (z : Z) : option divk :=
  if z =? 0 then Some DOther else if z =? 1 then Some DOpen else if z =? 2 then Some DClosed
  else if z =? 3 then Some DBound else None.

Fixpoint mk_recs (i : Z) (l : list rdesc) : list rec :=
  match l with
  | [] => []
  | (s, n, p, ts) :: l' => mkRec i (dk s) (dk n) (negb (p =? 0)) ts :: mk_recs (i + 1) l'
  end.

Definition kcode (k : lkind) : Z :=
  match k with KType => 100 | KSmart => 101 | KTab i => i | KShape => 102 | KPixel => 103 end.
Definition gcode (g : gkind) : Z := match g with GGroup => 200 | GArtboard => 201 end.
Definition orid (o : option rec) : Z := match o with Some r => rid r | None => -1 end.

Fixpoint ser_t (t : ltree) : list Z :=
  match t with
  | Leaf (r, k) => [1; rid r; kcode k]
  | Node g c => [2; rid (gb g); orid (gr g); gcode (gk g); Z.of_nat (length c)] ++ flat_map ser_t c
  end.

(* outcome of PSDImage(PSD(records)) followed by _build_record_tree: tree, then the flattened ids *)
Definition c08_out (d : list rdesc) : list Z :=
  match open_doc (mk_recs 0 d) with
  | Opened f => 0 :: Z.of_nat (length f) :: flat_map ser_t f ++ (-7) :: map orid (flatten_opt f)
  | Raised c => [c]
  end.

(* ------------------------------------------------------------------ C15 *)
Definition zb (z : Z) : bool := negb (z =? 0).

(* block code: 0 absent, 1 present without blend mode, 2 present with PASS_THROUGH, 3 present with another blend mode.
   A group's own record is described by  st = code(SECTION_DIVIDER_SETTING) + 4 * code(NESTED_SECTION_DIVIDER_SETTING) *)
Definition setting_of (z : Z) : option (option bool) :=
  if z =? 0 then None else if z =? 1 then Some None else if z =? 2 then Some (Some true) else Some (Some false).

Definition L (i c rp : Z) : ctree := Leaf (mkA i (zb c) (pt_of false None None (zb rp))).
Definition N (i c st rp : Z) (ch : list ctree) : ctree :=
  Node (mkA i (zb c) (pt_of true (setting_of (st / 4)) (setting_of (st mod 4)) (zb rp))) ch.

Definition mode_of (z : Z) : compat := if z =? 1 then Sai else if z =? 2 then Csp else Photoshop.

Fixpoint ser_a (t : atree) : list Z :=
  match t with
  | Leaf (a, (cl, ht)) => [aid a; if ht then 1 else 0; Z.of_nat (length cl)] ++ cl
  | Node (a, (cl, ht)) c => [aid a; if ht then 1 else 0; Z.of_nat (length cl)] ++ cl ++ (-2) :: flat_map ser_a c ++ [-3]
  end.
Definition ser_doc (d : doc) : list Z := flat_map ser_a (lay d).

(* open a document in a mode (the constructor computes in the default mode, then the setter) *)
Definition c15_open (a : Z * list ctree) : list Z :=
  ser_doc (op_set_mode (mode_of (fst a)) (open_clip Photoshop (snd a))).

(* op codes: (0, id, v) clipping_layer setter; (1, mode, _) compatibility_mode setter;
   (2, i, _) psd[i+1].move_down() *)
Definition op_of (o : Z * Z * Z) : op :=
  let '(k, x, y) := o in
  if k =? 0 then OSetClip x (zb y) else if k =? 1 then OSetMode (mode_of x) else OSwap (Z.to_nat x).

(* the states after every operation, concatenated (separator -9) *)
Fixpoint trace (d : doc) (ops : list (Z * Z * Z)) : list Z :=
  match ops with
  | [] => []
  | o :: r => let d' := apply_op d (op_of o) in ser_doc d' ++ (-9) :: trace d' r
  end.
Definition c15_trace (a : list ctree * list (Z * Z * Z)) : list Z :=
  let d := open_clip Photoshop (fst a) in ser_doc d ++ (-9) :: trace d (snd a).

(* the compositor's draw order of the top level and of every group, preorder *)
Fixpoint draw_t (t : atree) : list Z :=
  match t with
  | Leaf _ => []
  | Node _ c => (-4) :: draw_level c ++ flat_map draw_t c
  end.
Definition c15_draw (a : Z * list ctree) : list Z :=
  let d := op_set_mode (mode_of (fst a)) (open_clip Photoshop (snd a)) in
  draw_level (lay d) ++ flat_map draw_t (lay d).

(* membership edits through the public API: the harness supplies the document's forest after the edit
   (read off the real objects' records) and its mode; the code has recomputed *)
Definition c15_edit (a : Z * list ctree) : list Z :=
  ser_doc (recompute (mode_of (fst a)) (map fresh_t (snd a))).
