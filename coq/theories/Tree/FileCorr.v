(* Correspondence glue for the file-level part of C08: the real bytes of a document (PSD.write) are read by the
   container model (Psd/Model.v read_psd), abstracted (Tree/File.v) and opened by the tree model; record
   identities are the 'lyid' values. *)
From PsdV Require Import Base.Prelude Psd.Codec Psd.Model Psd.Leaf Tree.Forest Tree.Build Tree.Corr Tree.File.

Definition c08_file (bs : list Z) : list Z :=
  match open_bytes raw_codec bs with
  | Opened f => 0 :: Z.of_nat (length f) :: flat_map ser_t f ++ (-7) :: map orid (flatten_opt f)
  | Raised c => [c]
  end.

(* the key table, for comparison with psd_tools.constants.Tag on every run *)
Definition c08_key_table : list Z := [KEY_LSCT; KEY_LSDK; KEY_LYID] ++ map fst DECIDING_KEYS ++ map snd DECIDING_KEYS.
