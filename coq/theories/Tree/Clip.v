(* C15 model (definitions only): the clipping relation.
   /repo/src/psd_tools/api/psd_image.py:594-627 _clear_clipping_layers / _compute_clipping_layers,
   :495-498 compatibility_mode setter, api/layers.py:534-538 clipping_layer setter,
   composite/__init__.py:231 and :402-415 (which layers the compositor draws where).

   A layer is abstracted to: identity, clipping flag (record.clipping == NON_BASE), whether its
   blend_mode property equals PASS_THROUGH; plus the two stored fields the pass writes:
   _clip_layers (as the list of identities, in list order) and _has_clip_target. *)
From PsdV Require Import Base.Prelude Tree.Forest.

Record attr := mkA { aid : Z; clipf : bool; pt : bool }.
Definition ann := (list Z * bool)%type.           (* (_clip_layers, _has_clip_target) *)
Definition atree := tree (attr * ann) (attr * ann).
Definition aforest := list atree.
Definition ctree := tree attr attr.               (* the tree without the stored fields *)
Definition cforest := list ctree.

(* constants.CompatibilityMode *)
Inductive compat := Photoshop | Sai | Csp.
Definition strict (m : compat) : bool := match m with Photoshop => false | Sai | Csp => true end.

Definition top (t : atree) : attr * ann := match t with Leaf p => p | Node p _ => p end.
Definition attr_of (t : atree) : attr := fst (top t).
Definition ann_of (t : atree) : ann := snd (top t).
Definition tid (t : atree) : Z := aid (attr_of t).
Definition is_clip (t : atree) : bool := clipf (attr_of t).
Definition clip_layers (t : atree) : list Z := fst (ann_of t).
Definition has_target (t : atree) : bool := snd (ann_of t).

Definition set_ann (a : ann) (t : atree) : atree :=
  match t with Leaf (x, _) => Leaf (x, a) | Node (x, _) c => Node (x, a) c end.
Definition set_target (v : bool) (t : atree) : atree := set_ann (clip_layers t, v) t.
Definition set_clips (l : list Z) (t : atree) : atree := set_ann (l, has_target t) t.

(* Group.blend_mode / Group._setting (api/layers.py) and Layer.blend_mode: how "pass-through" is read off the
   records.  A group answers with the blend mode of its divider block - since /repo bd29823 the block PSDImage._init
   uses: NESTED_SECTION_DIVIDER_SETTING when present, else SECTION_DIVIDER_SETTING - (None when that block carries
   no blend mode: never equal to PASS_THROUGH), and with the record's blend mode when it has neither block.
   A block is described as  None = absent, Some None = present without blend mode, Some (Some b) = present,
   b = "its blend mode is PASS_THROUGH". *)
Definition eff_setting (nested section : option (option bool)) : option (option bool) :=
  match nested with Some s => Some s | None => section end.
Definition pt_of (is_group : bool) (nested section : option (option bool)) (record_pt : bool) : bool :=
  if is_group then match eff_setting nested section with Some (Some b) => b | Some None => false | None => record_pt end
  else record_pt.
(* before bd29823 Group._setting looked at SECTION_DIVIDER_SETTING only (kept as documentation) *)
Definition pt_of_legacy (is_group : bool) (section : option (option bool)) (record_pt : bool) : bool :=
  if is_group then match section with Some (Some b) => b | Some None => false | None => record_pt end
  else record_pt.

(* _clear_clipping_layers: every layer of the tree gets ([], True) *)
Definition clear_t (t : atree) : atree := tmap (fun p => (fst p, ([], true))) (fun p => (fst p, ([], true))) t.
Definition erase_t (t : atree) : ctree := tmap fst fst t.
Definition fresh_t (t : ctree) : atree := tmap (fun a => (a, ([], true))) (fun a => (a, ([], true))) t.

(* in SAI / CSP mode a pass-through layer does not take clipping layers (psd_image.py:612-618) *)
Definition ineligible (m : compat) (a : attr) : bool := pt a && strict m.

(* rec_helper on one _layers list.  The code walks reversed(_layers) with a list `stack`;
   walking the reversed list left to right = fold_right over the list.  State: the stack (most
   recently visited first, i.e. already in bottom-to-top order: what stack.reverse() produces) and
   the part of the list below which nothing will change any more. *)
Definition lstep (m : compat) (x : atree) (s : list atree * list atree) : list atree * list atree :=
  let '(stack, done) := s in
  if is_clip x then (x :: stack, done)
  else if ineligible m (attr_of x) then ([], x :: map (set_target false) stack ++ done)
  else ([], set_clips (map tid stack) x :: stack ++ done).
(* the loop at :624-625: whatever is left on the stack has no target *)
Definition lfinish (s : list atree * list atree) : list atree := map (set_target false) (fst s) ++ snd s.
Definition level (m : compat) (l : list atree) : list atree := lfinish (fold_right (lstep m) ([], []) l).

(* rec_helper: the pass on this list and (independently) on the list of every sub-group *)
Fixpoint helper_t (m : compat) (t : atree) : atree :=
  match t with
  | Leaf p => Leaf p
  | Node p c => Node p (level m (map (helper_t m) c))
  end.
Definition helper (m : compat) (f : aforest) : aforest := level m (map (helper_t m) f).

(* _compute_clipping_layers: clear, then the pass from the root *)
Definition compute (m : compat) (f : aforest) : aforest := helper m (map clear_t f).

(* ---- specification: per group, scanning bottom-to-top.  [ok] = "the nearest non-clipping layer
   below exists and can be a base".  A base owns the maximal run of consecutive clipping layers
   directly above it. *)
Fixpoint takeWhile {A} (p : A -> bool) (l : list A) : list A :=
  match l with [] => [] | x :: r => if p x then x :: takeWhile p r else [] end.
Fixpoint dropWhile {A} (p : A -> bool) (l : list A) : list A :=
  match l with [] => [] | x :: r => if p x then dropWhile p r else l end.

Fixpoint spec_level (m : compat) (ok : bool) (l : list atree) : list atree :=
  match l with
  | [] => []
  | x :: rest =>
      if is_clip x then set_ann ([], ok) x :: spec_level m ok rest
      else
        let e := negb (ineligible m (attr_of x)) in
        set_ann (if e then map tid (takeWhile is_clip rest) else [], true) x :: spec_level m e rest
  end.

Fixpoint spec_t (m : compat) (t : atree) : atree :=
  match t with
  | Leaf p => Leaf p
  | Node p c => Node p (spec_level m false (map (spec_t m) c))
  end.
Definition clip_spec (m : compat) (f : aforest) : aforest :=
  spec_level m false (map (spec_t m) (map clear_t f)).

(* relational reading used by has_target_iff: an eligible base followed only by clipping layers *)
Definition base_below (m : compat) (pre : list atree) : Prop :=
  exists p1 b run, pre = p1 ++ b :: run /\ is_clip b = false /\ ineligible m (attr_of b) = false /\
                   Forall (fun t => is_clip t = true) run.

Definition cleared (t : atree) : Prop := ann_of t = ([], true).

(* ---- the compositor's use of the two fields (composite/__init__.py):
   Compositor.apply skips a layer in the ordinary pass iff it is a clipping layer that has a target
   (:231); after drawing a layer it draws layer.clip_layers on top of it (:402-415). *)
Definition skipped (t : atree) : bool := is_clip t && has_target t.
Definition draw_level (l : list atree) : list Z :=
  flat_map (fun x => if skipped x then [] else tid x :: clip_layers x) l.

(* ---- recomputation triggers (static part of "kept current") *)
Record doc := mkDoc { mode : compat; lay : aforest }.

Definition set_flag_a (i : Z) (v : bool) (p : attr * ann) : attr * ann :=
  if aid (fst p) =? i then (mkA (aid (fst p)) v (pt (fst p)), snd p) else p.
Definition set_flag_t (i : Z) (v : bool) (t : atree) : atree := tmap (set_flag_a i v) (set_flag_a i v) t.

(* layer.clipping_layer = v  (layers.py:534-538, for a layer of the document's tree) *)
Definition op_set_clip (i : Z) (v : bool) (d : doc) : doc :=
  mkDoc (mode d) (compute (mode d) (map (set_flag_t i v) (lay d))).
(* psd.compatibility_mode = m  (psd_image.py:495-498) *)
Definition op_set_mode (m : compat) (d : doc) : doc := mkDoc m (compute m (lay d)).
(* psd[i+1].move_down(): the two top-level neighbours swap (Layer.move_up = parent.remove + parent.insert) *)
Fixpoint swap_at {A} (i : nat) (l : list A) : list A :=
  match i, l with
  | O, x :: y :: r => y :: x :: r
  | S i', x :: r => x :: swap_at i' r
  | _, _ => l
  end.
(* as the code was before /repo commit edc9f34: GroupMixin.remove/insert only set _updated_layers, nothing
   was recomputed.  Kept as the record of finding F-C15-1 (Properties/C15.v stale_after_move_refuted). *)
Definition op_swap_stale (i : nat) (d : doc) : doc := mkDoc (mode d) (swap_at i (lay d)).
(* since edc9f34: remove and insert both end in _update_psd_record, which calls
   psd._compute_clipping_layers().  Each of the two recomputations clears every layer of the tree first, so
   the state after the insert is one computation on the final order (the layer that is out of the tree
   between the two calls is cleared again by the second one).  The harness issues the call only when
   psd[i+1] exists. *)
Definition op_swap (i : nat) (d : doc) : doc :=
  if (S i <? length (lay d))%nat then mkDoc (mode d) (compute (mode d) (swap_at i (lay d))) else d.
(* ANY structural edit through the public API (append, extend, insert, remove, pop, clear, del, item
   assignment, move_to_group, delete_layer, Group.new(parent=..), group_layers ...) ends in
   GroupMixin._update_psd_record, which calls psd._compute_clipping_layers().  What the mutator did to
   order and membership is not modelled here (C09's model): the new forest [f'] - with whatever stored
   fields its layers still carry from before - is given, the code recomputes. *)
Definition recompute (m : compat) (f' : aforest) : doc := mkDoc m (compute m f').

(* opening a document *)
Definition open_clip (m : compat) (f : cforest) : doc := mkDoc m (compute m (map fresh_t f)).

(* the stored fields are what a recomputation would give *)
Definition current (d : doc) : Prop := lay d = compute (mode d) (lay d).

Inductive op := OSetClip (i : Z) (v : bool) | OSetMode (m : compat) | OSwap (i : nat).
Definition apply_op (d : doc) (o : op) : doc :=
  match o with OSetClip i v => op_set_clip i v d | OSetMode m => op_set_mode m d | OSwap i => op_swap i d end.
Definition structural (o : op) : bool := match o with OSwap _ => true | _ => false end.
