(* C08 model (definitions only): layer records -> layer tree (PSDImage._init), kind dispatch,
   tree -> records (_build_record_tree).  /repo/src/psd_tools/api/psd_image.py:629-716, 747-770;
   api/layers.py Group._set_bounding_records, Artboard._move.

   A layer record is abstracted to what _init looks at: its identity, the kind of its
   SECTION_DIVIDER_SETTING / NESTED_SECTION_DIVIDER_SETTING blocks (if present), the flag
   pixel_data_irrelevant and the set of "deciding" tagged-block keys it carries.  The channel list
   paired with the record by PSD._iter_layers (zip) travels with the record (same identity). *)
From PsdV Require Import Base.Prelude Tree.Forest.

(* constants.SectionDivider *)
Inductive divk := DOther | DOpen | DClosed | DBound.

(* Deciding tag codes (harness/vh/c08.py DECIDING, same order):
   0 TYPE_TOOL_OBJECT_SETTING  1 TYPE_TOOL_INFO
   2 SMART_OBJECT_LAYER_DATA1  3 SMART_OBJECT_LAYER_DATA2  4 PLACED_LAYER1  5 PLACED_LAYER2
   6..24 the keys of api.adjustments.TYPES in registration (dict) order:
     6 SOLID_COLOR_SHEET_SETTING 7 PATTERN_FILL_SETTING 8 GRADIENT_FILL_SETTING      (FillLayer classes)
     9 CONTENT_GENERATOR_EXTRA_DATA 10 CURVES 11 EXPOSURE 12 LEVELS 13 VIBRANCE 14 HUE_SATURATION
     15 COLOR_BALANCE 16 BLACK_AND_WHITE 17 PHOTO_FILTER 18 CHANNEL_MIXER 19 COLOR_LOOKUP 20 INVERT
     21 POSTERIZE 22 THRESHOLD 23 SELECTIVE_COLOR 24 GRADIENT_MAP                    (AdjustmentLayer classes)
   25 VECTOR_ORIGINATION_DATA 26 VECTOR_MASK_SETTING1 27 VECTOR_MASK_SETTING2
   28 VECTOR_STROKE_DATA 29 VECTOR_STROKE_CONTENT_DATA
   30 ARTBOARD_DATA1 31 ARTBOARD_DATA2 32 ARTBOARD_DATA3
   any other code: a block that _init never asks about. *)
Record rec := mkRec {
  rid  : Z;                 (* identity of the (record, channels) pair *)
  sec  : option divk;       (* blocks.get_data(SECTION_DIVIDER_SETTING).kind *)
  nsec : option divk;       (* blocks.get_data(NESTED_SECTION_DIVIDER_SETTING).kind *)
  pdi  : bool;              (* record.flags.pixel_data_irrelevant *)
  tags : list Z             (* deciding tag codes present in record.tagged_blocks *)
}.

Definition TYPE_TAGS   : list Z := [0; 1].
Definition SMART_TAGS  : list Z := [2; 3; 4; 5].
Definition TABLE_TAGS  : list Z := [6; 7; 8; 9; 10; 11; 12; 13; 14; 15; 16; 17; 18; 19; 20; 21; 22; 23; 24].
Definition VECTOR_TAGS : list Z := [25; 26; 27; 28; 29].
Definition ARTB_TAGS   : list Z := [30; 31; 32].
Definition is_fill (i : Z) : bool := i <? 9.      (* TYPES[key] is a FillLayer subclass *)

Definition has (t : Z) (r : rec) : bool := existsb (Z.eqb t) (tags r).
Definition has_any (ts : list Z) (r : rec) : bool := existsb (fun t => has t r) ts.

(* psd_image.py:641-642: the nested divider block, when present, wins *)
Definition eff_div (r : rec) : option divk :=
  match nsec r with Some d => Some d | None => sec r end.

(* psd_image.py:643-678: which of the three structural roles the record plays *)
Inductive role := RBound | REnd | RLeaf.
Definition role_of (r : rec) : role :=
  match eff_div r with
  | Some DBound => RBound
  | Some DOpen | Some DClosed => REnd
  | Some DOther | None => RLeaf          (* issue 338: OTHER dividers are ignored *)
  end.

(* kinds: Layer subclasses *)
Inductive lkind := KType | KSmart | KTab (i : Z) | KShape | KPixel.
Inductive gkind := GGroup | GArtboard.

Definition first_table (r : rec) : option Z := find (fun t => has t r) TABLE_TAGS.
Definition shape_cond (r : rec) : bool := pdi r && has_any VECTOR_TAGS r.

(* psd_image.py:679-708 for a record that is not a (non-OTHER) divider, in the code's order:
   `layer` starts as None, the elif chain, the shape override of None/FillLayer, the pixel default *)
Definition classify (r : rec) : lkind :=
  let layer : option lkind :=
    if has_any TYPE_TAGS r then Some KType
    else if has_any SMART_TAGS r then Some KSmart
    else match first_table r with Some i => Some (KTab i) | None => None end in
  let layer : option lkind :=
    match layer with
    | None => if shape_cond r then Some KShape else None
    | Some (KTab i) => if is_fill i && shape_cond r then Some KShape else layer
    | Some _ => layer
    end in
  match layer with Some k => k | None => KPixel end.

(* psd_image.py:669-675: any artboard key on the closing record re-types the group *)
Definition gkind_of (r : rec) : gkind := if has_any ARTB_TAGS r then GArtboard else GGroup.

(* The tree: a leaf layer keeps its record and class; a group keeps the bounding record
   (_bounding_record), the closing record (_record; None while the group was never closed)
   and its class. *)
Record gnode := mkG { gb : rec; gr : option rec; gk : gkind }.
Definition ltree := tree (rec * lkind) gnode.
Definition lforest := list ltree.

(* ---- PSDImage._init: the stack algorithm.  A frame is a Group under construction: its bounding
   record and its _layers so far.  The PSDImage itself is the bottom of the stack ([root]). *)
Definition frame := (rec * lforest)%type.
Record bst := mkSt { root : lforest; stk : list frame }.   (* stk: top of group_stack first *)

(* current_group._layers.append(x) *)
Definition push_top (x : ltree) (st : bst) : bst :=
  match stk st with
  | [] => mkSt (root st ++ [x]) []
  | (b, ch) :: rest => mkSt (root st) ((b, ch ++ [x]) :: rest)
  end.

Definition step (st : bst) (r : rec) : res bst :=
  match role_of r with
  | RBound => Ok (mkSt (root st) ((r, []) :: stk st))
        (* Group(...); _set_bounding_records; group_stack.append; the Group object is already
           in its parent's list (appended at :714) and keeps filling through the stack reference *)
  | REnd =>
      match stk st with
      | [] => Err AssertErr            (* group_stack.pop() gives the PSDImage: assert at :665 *)
      | (b, ch) :: rest =>
          Ok (push_top (Node (mkG b (Some r) (gkind_of r)) ch) (mkSt (root st) rest))
      end
  | RLeaf => Ok (push_top (Leaf (r, classify r)) st)
  end.

Fixpoint run (st : bst) (s : list rec) : res bst :=
  match s with
  | [] => Ok st
  | r :: s' => match step st r with Ok st' => run st' s' | Err e => Err e end
  end.

(* groups still on the stack when the records end: they stay in the tree with _record = None *)
Fixpoint fin (x : list ltree) (st : list frame) (rt : lforest) : lforest :=
  match st with
  | [] => rt ++ x
  | (b, ch) :: rest => fin [Node (mkG b None GGroup) (ch ++ x)] rest rt
  end.
Definition finalize (st : bst) : lforest := fin [] (stk st) (root st).

Definition init : bst := mkSt [] [].
Definition build (s : list rec) : res lforest :=
  match run init s with Ok st => Ok (finalize st) | Err e => Err e end.

(* every group has its closing record *)
Fixpoint closed_t (t : ltree) : bool :=
  match t with
  | Leaf _ => true
  | Node g c => match gr g with Some _ => forallb closed_t c | None => false end
  end.
Definition closedF (f : lforest) : bool := forallb closed_t f.

(* PSDImage(PSD(...)): _init ends with _compute_clipping_layers (:716), which reads
   sublayer._record.clipping of every layer of the tree: a group that was never closed has
   _record = None, so the constructor raises AttributeError (harness code 99). *)
Inductive outcome := Opened (f : lforest) | Raised (code : Z).
Definition ATTRIBUTE_ERROR : Z := 99.
Definition open_doc (s : list rec) : outcome :=
  match build s with
  | Err e => Raised (err_code e)
  | Ok f => if closedF f then Opened f else Raised ATTRIBUTE_ERROR
  end.

(* ---- _build_record_tree: bounding record, children, the group's own record.
   [flatten_opt] is the code (a never-closed group contributes None);
   [flatten] is the same list without the None entries. *)
Fixpoint flatten_opt_t (t : ltree) : list (option rec) :=
  match t with
  | Leaf (r, _) => [Some r]
  | Node g c => Some (gb g) :: flat_map flatten_opt_t c ++ [gr g]
  end.
Definition flatten_opt (f : lforest) : list (option rec) := flat_map flatten_opt_t f.

Definition optl {A} (o : option A) : list A := match o with Some a => [a] | None => [] end.

Fixpoint flatten_t (t : ltree) : list rec :=
  match t with
  | Leaf (r, _) => [r]
  | Node g c => gb g :: flat_map flatten_t c ++ optl (gr g)
  end.
Definition flatten (f : lforest) : list rec := flat_map flatten_t f.

(* ---- specification side *)

(* the trees that opening can produce (closed ones): classes and roles agree with the records *)
Inductive WFc : ltree -> Prop :=
| WF_leaf r : role_of r = RLeaf -> WFc (Leaf (r, classify r))
| WF_node b r c : role_of b = RBound -> role_of r = REnd -> Forall WFc c ->
                  WFc (Node (mkG b (Some r) (gkind_of r)) c).

(* well-nestedness as a bracket grammar: a group contains exactly the records between its
   bounding divider and the matching folder record, in order *)
Inductive WN : list rec -> lforest -> Prop :=
| WN_nil : WN [] []
| WN_leaf r s f : role_of r = RLeaf -> WN s f -> WN (r :: s) (Leaf (r, classify r) :: f)
| WN_group b r s1 f1 s f :
    role_of b = RBound -> role_of r = REnd -> WN s1 f1 -> WN s f ->
    WN (b :: s1 ++ r :: s) (Node (mkG b (Some r) (gkind_of r)) f1 :: f).

(* independent bracket counter: depth after the sequence, None if it ever goes below zero *)
Fixpoint scan (d : nat) (s : list rec) : option nat :=
  match s with
  | [] => Some d
  | r :: s' =>
      match role_of r with
      | RBound => scan (S d) s'
      | REnd => match d with O => None | S d' => scan d' s' end
      | RLeaf => scan d s'
      end
  end.
Definition balanced (s : list rec) : Prop := scan 0 s = Some 0%nat.

(* declarative classification table: first matching row wins (each row carries the negation of the
   rows above it) *)
Definition first_present (ts : list Z) (r : rec) (i : Z) : Prop :=
  exists pre post, ts = pre ++ i :: post /\ has i r = true /\ Forall (fun j => has j r = false) pre.
Definition none_present (ts : list Z) (r : rec) : Prop := Forall (fun j => has j r = false) ts.

Inductive Classifies (r : rec) : lkind -> Prop :=
| C_type : has_any TYPE_TAGS r = true -> Classifies r KType
| C_smart : has_any TYPE_TAGS r = false -> has_any SMART_TAGS r = true -> Classifies r KSmart
| C_adj i : has_any TYPE_TAGS r = false -> has_any SMART_TAGS r = false ->
            first_present TABLE_TAGS r i -> is_fill i = false -> Classifies r (KTab i)
| C_fill i : has_any TYPE_TAGS r = false -> has_any SMART_TAGS r = false ->
             first_present TABLE_TAGS r i -> is_fill i = true -> shape_cond r = false -> Classifies r (KTab i)
| C_fill_shape i : has_any TYPE_TAGS r = false -> has_any SMART_TAGS r = false ->
             first_present TABLE_TAGS r i -> is_fill i = true -> shape_cond r = true -> Classifies r KShape
| C_shape : has_any TYPE_TAGS r = false -> has_any SMART_TAGS r = false ->
            none_present TABLE_TAGS r -> shape_cond r = true -> Classifies r KShape
| C_pixel : has_any TYPE_TAGS r = false -> has_any SMART_TAGS r = false ->
            none_present TABLE_TAGS r -> shape_cond r = false -> Classifies r KPixel.
