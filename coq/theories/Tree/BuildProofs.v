(* Lemmas about the C08 model: build/flatten are mutually inverse on the trees opening can produce,
   no record is lost/duplicated/reordered for ANY input on which _init succeeds, the bracket counter
   characterises the three outcomes of the constructor, classification equals its table. *)
From PsdV Require Import Base.Prelude Tree.Forest Tree.Build.

(* ------------------------------------------------------------------ flatten basics *)
Lemma flatten_app f g : flatten (f ++ g) = flatten f ++ flatten g.
Proof. unfold flatten. apply flat_map_app. Qed.

Lemma flatten_cons t f : flatten (t :: f) = flatten_t t ++ flatten f.
Proof. reflexivity. Qed.

Lemma flatten_single t : flatten [t] = flatten_t t.
Proof. unfold flatten; cbn. apply app_nil_r. Qed.

Lemma flatten_node g c : flatten_t (Node g c) = gb g :: flatten c ++ optl (gr g).
Proof. reflexivity. Qed.

(* ------------------------------------------------------------------ pushing a whole forest *)
Definition push_all (f : lforest) (st : bst) : bst := fold_left (fun s x => push_top x s) f st.

Lemma push_all_frame f : forall rt b ch rest,
  push_all f (mkSt rt ((b, ch) :: rest)) = mkSt rt ((b, ch ++ f) :: rest).
Proof.
  induction f as [|x f IH]; intros; unfold push_all; cbn [fold_left].
  - now rewrite app_nil_r.
  - change (push_top x (mkSt rt ((b, ch) :: rest))) with (mkSt rt ((b, ch ++ [x]) :: rest)).
    fold (push_all f (mkSt rt ((b, ch ++ [x]) :: rest))). rewrite IH. now rewrite <- app_assoc.
Qed.

Lemma push_all_root f : forall rt, push_all f (mkSt rt []) = mkSt (rt ++ f) [].
Proof.
  induction f as [|x f IH]; intros; unfold push_all; cbn [fold_left].
  - now rewrite app_nil_r.
  - change (push_top x (mkSt rt [])) with (mkSt (rt ++ [x]) []).
    fold (push_all f (mkSt (rt ++ [x]) [])). rewrite IH. now rewrite <- app_assoc.
Qed.

Lemma st_eta st : mkSt (root st) (stk st) = st.
Proof. now destruct st. Qed.

(* ------------------------------------------------------------------ build after flatten *)
Lemma run_flatten_tree :
  forall t : ltree, WFc t -> forall st rest, run st (flatten_t t ++ rest) = run (push_top t st) rest.
Proof.
  apply (tree_forest_ind
           (fun t => WFc t -> forall st rest, run st (flatten_t t ++ rest) = run (push_top t st) rest)
           (fun f => Forall WFc f -> forall st rest, run st (flatten f ++ rest) = run (push_all f st) rest)).
  - intros [r k] H st rest. inversion H; subst. cbn [flatten_t app run]. unfold step. now rewrite H1.
  - intros g c IHc H st rest. inversion H; subst.
    rewrite flatten_node. cbn [gb gr optl].
    cbn [app run]. unfold step at 1. rewrite H2.
    rewrite <- app_assoc. rewrite (IHc H4). rewrite push_all_frame. cbn [app run].
    unfold step. rewrite H3. cbn [stk root]. now rewrite st_eta.
  - intros _ st rest. reflexivity.
  - intros t f IHt IHf H st rest. inversion H; subst.
    rewrite flatten_cons, <- app_assoc. rewrite (IHt H2). now rewrite (IHf H3).
Qed.

Lemma run_flatten_forest :
  forall f, Forall WFc f -> forall st rest, run st (flatten f ++ rest) = run (push_all f st) rest.
Proof.
  induction f as [|t f IH]; intros H st rest; [reflexivity|].
  inversion H; subst. rewrite flatten_cons, <- app_assoc, (run_flatten_tree t H2). now rewrite (IH H3).
Qed.

Lemma build_flatten f : Forall WFc f -> build (flatten f) = Ok f.
Proof.
  intro H. unfold build. rewrite <- (app_nil_r (flatten f)).
  rewrite (run_flatten_forest f H). cbn [run]. unfold init. rewrite push_all_root.
  unfold finalize. cbn [stk root fin app]. now rewrite app_nil_r.
Qed.

(* ------------------------------------------------------------------ records consumed so far *)
Definition frame_flat (fr : frame) : list rec := fst fr :: flatten (snd fr).
Definition consumed (st : bst) : list rec :=
  flatten (root st) ++ flat_map frame_flat (rev (stk st)).

Lemma consumed_push_top x st : consumed (push_top x st) = consumed st ++ flatten_t x.
Proof.
  unfold push_top, consumed. destruct st as [rt [|[b ch] rest]]; cbn [stk root rev].
  - cbn. rewrite !app_nil_r, flatten_app, flatten_single. reflexivity.
  - rewrite !flat_map_app. cbn [flat_map]. unfold frame_flat; cbn [fst snd].
    rewrite flatten_app, flatten_single, !app_nil_r. rewrite <- !app_assoc. reflexivity.
Qed.

Lemma consumed_frame rt b ch rest :
  consumed (mkSt rt ((b, ch) :: rest)) = consumed (mkSt rt rest) ++ b :: flatten ch.
Proof.
  unfold consumed; cbn [stk root rev]. rewrite flat_map_app. cbn. rewrite app_nil_r, app_assoc. reflexivity.
Qed.

Lemma step_consumed st r st' : step st r = Ok st' -> consumed st' = consumed st ++ [r].
Proof.
  unfold step. destruct (role_of r).
  - intro H; inversion H; subst. rewrite consumed_frame, st_eta. reflexivity.
  - destruct st as [rt [|[b ch] rest]]; cbn [stk root]; intro H; [discriminate|].
    inversion H; subst. rewrite consumed_push_top, consumed_frame, flatten_node. cbn [gb gr optl].
    rewrite <- app_assoc. reflexivity.
  - intro H; inversion H; subst. rewrite consumed_push_top. reflexivity.
Qed.

Lemma run_consumed s : forall st st', run st s = Ok st' -> consumed st' = consumed st ++ s.
Proof.
  induction s as [|r s IH]; intros st st' H; cbn in H.
  - inversion H; subst. now rewrite app_nil_r.
  - destruct (step st r) as [st1|e] eqn:E; [|discriminate].
    rewrite (IH _ _ H), (step_consumed _ _ _ E), <- app_assoc. reflexivity.
Qed.

Lemma fin_flatten st : forall x rt,
  flatten (fin x st rt) = flatten rt ++ flat_map frame_flat (rev st) ++ flatten x.
Proof.
  induction st as [|[b ch] rest IH]; intros x rt; cbn [fin rev].
  - cbn. apply flatten_app.
  - rewrite IH, flatten_single, flatten_node. cbn [gb gr optl].
    rewrite flat_map_app. cbn [flat_map]. unfold frame_flat at 3; cbn [fst snd].
    rewrite flatten_app, !app_nil_r. rewrite <- !app_assoc. reflexivity.
Qed.

(* no record lost, duplicated or reordered - for every sequence on which the loop succeeds *)
Lemma build_records s f : build s = Ok f -> flatten f = s.
Proof.
  unfold build. destruct (run init s) as [st|e] eqn:E; [|discriminate].
  intro H; inversion H; subst. unfold finalize. rewrite fin_flatten.
  pose proof (run_consumed _ _ _ E) as C. unfold consumed in C. cbn in C.
  cbn [flatten flat_map]. rewrite app_nil_r. exact C.
Qed.

(* ------------------------------------------------------------------ invariants of the loop *)
Definition frame_ok (fr : frame) : Prop := role_of (fst fr) = RBound /\ Forall WFc (snd fr).
Definition st_ok (st : bst) : Prop := Forall WFc (root st) /\ Forall frame_ok (stk st).

Lemma push_top_ok x st : WFc x -> st_ok st -> st_ok (push_top x st).
Proof.
  intros Hx [Hr Hs]. unfold push_top. destruct st as [rt [|[b ch] rest]]; cbn [stk root] in *.
  - split; cbn; [|constructor]. apply Forall_app; split; auto.
  - inversion Hs; subst. destruct H1 as [Hb Hc]. split; cbn; [assumption|].
    constructor; [|assumption]. split; cbn in *; [assumption|]. apply Forall_app; split; auto.
Qed.

Lemma step_ok st r st' : st_ok st -> step st r = Ok st' -> st_ok st'.
Proof.
  intros [Hr Hs]. unfold step. destruct (role_of r) eqn:R.
  - intro H; inversion H; subst. split; cbn; [assumption|]. constructor; [|assumption]. split; cbn; auto.
  - destruct st as [rt [|[b ch] rest]]; cbn [stk root] in *; intro H; [discriminate|].
    inversion H; subst. inversion Hs; subst. destruct H2 as [Hb Hc]; cbn in Hb, Hc.
    apply push_top_ok; [now constructor|]. split; assumption.
  - intro H; inversion H; subst. apply push_top_ok; [now constructor|]. split; assumption.
Qed.

Lemma run_ok s : forall st st', st_ok st -> run st s = Ok st' -> st_ok st'.
Proof.
  induction s as [|r s IH]; intros st st' Hok H; cbn in H.
  - now inversion H; subst.
  - destruct (step st r) as [st1|e] eqn:E; [|discriminate]. eapply IH; [|exact H]. eapply step_ok; eauto.
Qed.

Lemma init_ok : st_ok init.
Proof. split; constructor. Qed.

Lemma WFc_closed : forall t, WFc t -> closed_t t = true.
Proof.
  induction t as [a|g c IH] using tree_ind_Forall; intro H; [reflexivity|].
  inversion H as [|b r c' Hb Hr Hc]; subst. cbn. apply forallb_forall. intros x Hx.
  rewrite Forall_forall in IH, Hc. auto.
Qed.

Lemma WFcF_closed f : Forall WFc f -> closedF f = true.
Proof.
  intro H. apply forallb_forall. intros x Hx. apply WFc_closed. rewrite Forall_forall in H. auto.
Qed.

Lemma fin_open st : forall x rt, closedF x = false -> closedF (fin x st rt) = false.
Proof.
  induction st as [|[b ch] rest IH]; intros x rt Hx; cbn [fin].
  - unfold closedF in *. rewrite forallb_app, Hx. apply andb_false_r.
  - apply IH. reflexivity.
Qed.

Lemma finalize_open st : stk st <> [] -> closedF (finalize st) = false.
Proof.
  unfold finalize. destruct (stk st) as [|[b ch] rest]; [congruence|]. intros _. cbn [fin].
  apply fin_open. reflexivity.
Qed.

(* ------------------------------------------------------------------ the counter decides *)
Lemma push_top_len x st : length (stk (push_top x st)) = length (stk st).
Proof. unfold push_top. destruct st as [rt [|[b ch] rest]]; reflexivity. Qed.

Lemma run_scan s : forall st,
  match scan (length (stk st)) s with
  | None => run st s = Err AssertErr
  | Some d => exists st', run st s = Ok st' /\ length (stk st') = d
  end.
Proof.
  induction s as [|r s IH]; intro st; cbn [scan run].
  - eauto.
  - unfold step. destruct (role_of r).
    + apply (IH (mkSt (root st) ((r, []) :: stk st))).
    + destruct st as [rt [|[b ch] rest]]; cbn [stk root length]; [reflexivity|].
      specialize (IH (push_top (Node (mkG b (Some r) (gkind_of r)) ch) (mkSt rt rest))).
      rewrite push_top_len in IH. exact IH.
    + specialize (IH (push_top (Leaf (r, classify r)) st)). rewrite push_top_len in IH. exact IH.
Qed.

Lemma open_balanced s : balanced s ->
  exists f, open_doc s = Opened f /\ build s = Ok f /\ Forall WFc f /\ flatten f = s.
Proof.
  intro B. pose proof (run_scan s init) as R. cbn [init stk length] in R. unfold balanced in B.
  rewrite B in R. destruct R as [st [R L]].
  assert (stk st = []) as E by (destruct (stk st); [reflexivity|discriminate]).
  pose proof (run_ok _ _ _ init_ok R) as [Hr _].
  assert (finalize st = root st) as F by (unfold finalize; rewrite E; cbn; apply app_nil_r).
  exists (root st). unfold open_doc, build. rewrite R, F.
  rewrite (WFcF_closed _ Hr). repeat split; auto.
  apply build_records. unfold build. now rewrite R, F.
Qed.

Lemma open_extra_end s : scan 0 s = None -> open_doc s = Raised 4.
Proof.
  intro B. pose proof (run_scan s init) as R. cbn [init stk length] in R. rewrite B in R.
  unfold open_doc, build. now rewrite R.
Qed.

Lemma open_missing_end s d : scan 0 s = Some (S d) -> open_doc s = Raised ATTRIBUTE_ERROR.
Proof.
  intro B. pose proof (run_scan s init) as R. cbn [init stk length] in R. rewrite B in R.
  destruct R as [st [R L]]. unfold open_doc, build. rewrite R.
  rewrite finalize_open; [reflexivity|]. destruct (stk st); [discriminate|congruence].
Qed.

(* the lenient loop alone (without the constructor's final clipping pass) keeps the open groups *)
Lemma build_missing_end s d : scan 0 s = Some (S d) ->
  exists f, build s = Ok f /\ closedF f = false /\ flatten f = s.
Proof.
  intro B. pose proof (run_scan s init) as R. cbn [init stk length] in R. rewrite B in R.
  destruct R as [st [R L]]. exists (finalize st).
  assert (build s = Ok (finalize st)) as E by (unfold build; now rewrite R).
  repeat split; [exact E| |now apply build_records].
  apply finalize_open. destruct (stk st); [discriminate|congruence].
Qed.

(* ------------------------------------------------------------------ the grammar *)
Lemma WN_sound s f : WN s f -> Forall WFc f /\ flatten f = s.
Proof.
  induction 1 as [|r s f Hr _ [IH1 IH2]|b r s1 f1 s f Hb Hr _ [IH1 IH2] _ [IH3 IH4]].
  - split; [constructor|reflexivity].
  - split; [constructor; [now constructor|assumption]|]. rewrite flatten_cons, IH2. reflexivity.
  - split; [constructor; [now constructor|assumption]|].
    rewrite flatten_cons, flatten_node, IH2, IH4. cbn [gb gr optl]. cbn. rewrite <- app_assoc. reflexivity.
Qed.

Lemma WFc_WN : forall f, Forall WFc f -> WN (flatten f) f.
Proof.
  apply (forest_tree_ind
           (fun t => WFc t -> forall s f, WN s f -> WN (flatten_t t ++ s) (t :: f))
           (fun f => Forall WFc f -> WN (flatten f) f)).
  - intros [r k] H s f W. inversion H; subst. cbn. now constructor.
  - intros g c IHc H s f W. inversion H; subst. rewrite flatten_node. cbn [gb gr optl].
    cbn [app]. rewrite <- app_assoc. cbn [app]. constructor; auto.
  - intros _. constructor.
  - intros t f IHt IHf H. inversion H; subst. rewrite flatten_cons. apply IHt; auto.
Qed.

Lemma WN_iff s f : WN s f <-> Forall WFc f /\ flatten f = s.
Proof.
  split; [apply WN_sound|]. intros [H E]. subst. now apply WFc_WN.
Qed.

Lemma flatten_build s f : WN s f -> build s = Ok f /\ flatten f = s.
Proof.
  intro W. destruct (WN_sound _ _ W) as [H E]. split; [|exact E]. subst. now apply build_flatten.
Qed.

Lemma wn_total s : balanced s -> exists f, WN s f.
Proof.
  intro B. destruct (open_balanced s B) as [f [_ [_ [H E]]]]. exists f. apply WN_iff. auto.
Qed.

Lemma wn_balanced s f : WN s f -> balanced s.
Proof.
  intro W. destruct (flatten_build _ _ W) as [Bd _]. destruct (WN_sound _ _ W) as [H _].
  unfold balanced. destruct (scan 0 s) as [[|d]|] eqn:S; [reflexivity| |].
  - destruct (build_missing_end s d S) as [f' [E [C _]]]. rewrite Bd in E. inversion E; subst.
    rewrite (WFcF_closed _ H) in C. discriminate.
  - pose proof (open_extra_end s S) as O. unfold open_doc in O. rewrite Bd in O.
    destruct (closedF f); discriminate.
Qed.

Lemma wn_functional s f f' : WN s f -> WN s f' -> f = f'.
Proof.
  intros W W'. destruct (flatten_build _ _ W) as [B _]. destruct (flatten_build _ _ W') as [B' _].
  congruence.
Qed.

(* the code's flatten (with None for a never-closed group) on closed trees *)
Lemma flatten_opt_closed : forall f, closedF f = true -> flatten_opt f = map Some (flatten f).
Proof.
  apply (forest_tree_ind
           (fun t => closed_t t = true -> flatten_opt_t t = map Some (flatten_t t))
           (fun f => closedF f = true -> flatten_opt f = map Some (flatten f))).
  - intros [r k] _. reflexivity.
  - intros g c IHc H. cbn in H. destruct (gr g) as [r|] eqn:G; [|discriminate].
    cbn [flatten_opt_t flatten_t]. rewrite G. cbn [optl map]. rewrite map_app. cbn [map].
    f_equal. f_equal. apply IHc. exact H.
  - reflexivity.
  - intros t f IHt IHf H. cbn in H. apply andb_true_iff in H as [H1 H2].
    unfold flatten_opt, flatten in *. cbn [flat_map]. rewrite map_app, IHt, IHf; auto.
Qed.

(* ------------------------------------------------------------------ classification table *)
Lemma find_some_first (p : Z -> bool) l i :
  find p l = Some i <->
  exists pre post, l = pre ++ i :: post /\ p i = true /\ Forall (fun j => p j = false) pre.
Proof.
  revert i. induction l as [|x l IH]; intro i; cbn.
  - split; [discriminate|]. intros [pre [post [E _]]]. destruct pre; discriminate.
  - destruct (p x) eqn:Px.
    + split.
      * intro H; inversion H; subst. exists [], l. repeat split; auto.
      * intros [pre [post [E [Pi F]]]]. destruct pre as [|y pre]; cbn in E; inversion E; subst; [reflexivity|].
        inversion F; subst. congruence.
    + rewrite IH. split.
      * intros [pre [post [E [Pi F]]]]. exists (x :: pre), post. subst. repeat split; auto.
      * intros [pre [post [E [Pi F]]]]. destruct pre as [|y pre]; cbn in E; inversion E; subst; [congruence|].
        inversion F; subst. exists pre, post. auto.
Qed.

Lemma find_none_all (p : Z -> bool) l : find p l = None <-> Forall (fun j => p j = false) l.
Proof.
  induction l as [|x l IH]; cbn.
  - split; auto.
  - destruct (p x) eqn:Px.
    + split; [discriminate|]. intro F; inversion F; subst. congruence.
    + rewrite IH. split; [now constructor|]. intro F; now inversion F.
Qed.

Lemma first_table_some r i : first_table r = Some i <-> first_present TABLE_TAGS r i.
Proof. apply find_some_first. Qed.

Lemma first_table_none r : first_table r = None <-> none_present TABLE_TAGS r.
Proof. apply find_none_all. Qed.

Lemma classify_table r k : Classifies r k <-> classify r = k.
Proof.
  split.
  - intro C; destruct C; unfold classify;
      repeat match goal with
             | H : first_present _ _ _ |- _ => apply first_table_some in H
             | H : none_present _ _ |- _ => apply first_table_none in H
             | H : _ = _ |- _ => rewrite H
             end; reflexivity.
  - intro E. subst k. unfold classify.
    destruct (has_any TYPE_TAGS r) eqn:T; [now constructor|].
    destruct (has_any SMART_TAGS r) eqn:S; [now constructor|].
    destruct (first_table r) as [i|] eqn:F.
    + apply first_table_some in F. destruct (is_fill i) eqn:I; cbn [andb].
      * destruct (shape_cond r) eqn:C; [now apply C_fill_shape with i|now apply C_fill].
      * now apply C_adj.
    + apply first_table_none in F. destruct (shape_cond r) eqn:C; [now apply C_shape|now apply C_pixel].
Qed.

Lemma classify_total r : exists k, Classifies r k.
Proof. exists (classify r). now apply classify_table. Qed.

Lemma classify_deterministic r k k' : Classifies r k -> Classifies r k' -> k = k'.
Proof. intros H H'. apply classify_table in H, H'. congruence. Qed.

(* ------------------------------------------------------------------ constructor-level corollaries *)
Lemma open_flatten f : Forall WFc f -> open_doc (flatten f) = Opened f.
Proof.
  intro H. unfold open_doc. rewrite (build_flatten f H). now rewrite (WFcF_closed f H).
Qed.

Lemma open_records s f : open_doc s = Opened f -> flatten_opt f = map Some s.
Proof.
  unfold open_doc. destruct (build s) as [f'|e] eqn:B; [|discriminate].
  destruct (closedF f') eqn:C; [|discriminate]. intro H; inversion H; subst.
  rewrite (flatten_opt_closed f C). now rewrite (build_records s f B).
Qed.

Lemma open_wn s f : open_doc s = Opened f <-> WN s f.
Proof.
  split.
  - intro O. assert (balanced s) as B.
    { unfold balanced. destruct (scan 0 s) as [[|d]|] eqn:S; [reflexivity| |].
      - rewrite (open_missing_end s d S) in O. discriminate.
      - rewrite (open_extra_end s S) in O. discriminate. }
    destruct (open_balanced s B) as [f' [O' [_ [H E]]]]. rewrite O in O'. inversion O'; subst.
    apply WN_iff. auto.
  - intro W. destruct (WN_sound _ _ W) as [H E]. subst. now apply open_flatten.
Qed.

Lemma ids_preserved s f : open_doc s = Opened f -> map rid (flatten f) = map rid s.
Proof.
  intro O. apply open_wn in O. destruct (WN_sound _ _ O) as [_ E]. now rewrite E.
Qed.

(* ------------------------------------------------------------------ the dispatch looks at the SET of deciding keys only
   (TaggedBlocks is an ordered dict: the order of a record's blocks, repetitions in the abstract list, and
   blocks with other keys must not matter) *)
From Coq Require Import Permutation.

Definition KIND_TAGS : list Z := TYPE_TAGS ++ SMART_TAGS ++ TABLE_TAGS ++ VECTOR_TAGS.
Definition set_tags (r : rec) (ts : list Z) : rec := mkRec (rid r) (sec r) (nsec r) (pdi r) ts.

Lemma has_any_ext_in r r' ts :
  (forall t, In t ts -> has t r = has t r') -> has_any ts r = has_any ts r'.
Proof.
  unfold has_any. induction ts as [|x ts IH]; intro H; [reflexivity|]. cbn [existsb].
  rewrite (H x (or_introl eq_refl)). f_equal. apply IH. intros t Ht. apply H. now right.
Qed.

Lemma find_has_ext_in r r' ts :
  (forall t, In t ts -> has t r = has t r') -> find (fun t => has t r) ts = find (fun t => has t r') ts.
Proof.
  induction ts as [|x ts IH]; intro H; [reflexivity|]. cbn [find].
  rewrite (H x (or_introl eq_refl)). destruct (has x r'); [reflexivity|]. apply IH. intros t Ht. apply H. now right.
Qed.

Lemma classify_depends_on_deciding r r' :
  (forall t, In t KIND_TAGS -> has t r = has t r') -> pdi r = pdi r' -> classify r = classify r'.
Proof.
  intros H P. unfold KIND_TAGS in H.
  assert (has_any TYPE_TAGS r = has_any TYPE_TAGS r') as E1
    by (apply has_any_ext_in; intros; apply H; apply in_or_app; now left).
  assert (has_any SMART_TAGS r = has_any SMART_TAGS r') as E2
    by (apply has_any_ext_in; intros; apply H; apply in_or_app; right; apply in_or_app; now left).
  assert (first_table r = first_table r') as E3
    by (apply find_has_ext_in; intros; apply H; apply in_or_app; right; apply in_or_app; right; apply in_or_app; now left).
  assert (has_any VECTOR_TAGS r = has_any VECTOR_TAGS r') as E4
    by (apply has_any_ext_in; intros; apply H; apply in_or_app; right; apply in_or_app; right; apply in_or_app; now right).
  unfold classify, shape_cond. now rewrite E1, E2, E3, E4, P.
Qed.

Lemma has_in t r : has t r = true <-> In t (tags r).
Proof.
  unfold has. rewrite existsb_exists. split.
  - intros [x [I E]]. apply Z.eqb_eq in E. now subst.
  - intro I. exists t. split; [exact I|apply Z.eqb_refl].
Qed.

Lemma has_same_members r r' : (forall t, In t (tags r) <-> In t (tags r')) -> forall t, has t r = has t r'.
Proof.
  intros H t. destruct (has t r) eqn:A, (has t r') eqn:B; try reflexivity.
  - apply has_in, H, has_in in A. congruence.
  - apply has_in, H, has_in in B. congruence.
Qed.

Lemma classify_perm r r' : Permutation (tags r) (tags r') -> pdi r = pdi r' -> classify r = classify r'.
Proof.
  intros P E. apply classify_depends_on_deciding; [|exact E]. intros t _. apply has_same_members.
  intro x. split; intro I; [eapply Permutation_in; eauto|eapply Permutation_in; [apply Permutation_sym|]; eauto].
Qed.

Lemma classify_ignores_other_blocks r pre t post :
  ~ In t KIND_TAGS -> classify (set_tags r (pre ++ t :: post)) = classify (set_tags r (pre ++ post)).
Proof.
  intro N. apply classify_depends_on_deciding; [|reflexivity]. intros x Ix.
  destruct (has x (set_tags r (pre ++ t :: post))) eqn:A, (has x (set_tags r (pre ++ post))) eqn:B; try reflexivity.
  - apply has_in in A. cbn [tags set_tags] in A. apply in_app_or in A as [A|[A|A]].
    + assert (has x (set_tags r (pre ++ post)) = true) by (apply has_in; cbn; apply in_or_app; now left). congruence.
    + subst. contradiction.
    + assert (has x (set_tags r (pre ++ post)) = true) by (apply has_in; cbn; apply in_or_app; now right). congruence.
  - apply has_in in B. cbn [tags set_tags] in B. apply in_app_or in B as [B|B].
    + assert (has x (set_tags r (pre ++ t :: post)) = true) by (apply has_in; cbn; apply in_or_app; now left). congruence.
    + assert (has x (set_tags r (pre ++ t :: post)) = true) by (apply has_in; cbn; apply in_or_app; right; now right). congruence.
Qed.

Lemma gkind_of_perm r r' : Permutation (tags r) (tags r') -> gkind_of r = gkind_of r'.
Proof.
  intro P. unfold gkind_of. rewrite (has_any_ext_in r r' ARTB_TAGS); [reflexivity|].
  intros t _. apply has_same_members. intro x.
  split; intro I; [eapply Permutation_in; eauto|eapply Permutation_in; [apply Permutation_sym|]; eauto].
Qed.

Lemma role_of_ignores_blocks r ts : role_of (set_tags r ts) = role_of r.
Proof. reflexivity. Qed.
