(* Lemmas about the C15 model: the single reversed pass equals the forward specification at every
   level of every tree; relational reading of the specification; the compositor draws every layer
   once in stacking order; recomputation triggers. *)
From PsdV Require Import Base.Prelude Tree.Forest Tree.Clip.

(* ------------------------------------------------------------------ set_ann algebra *)
Lemma attr_set_ann a x : attr_of (set_ann a x) = attr_of x.
Proof. destruct x as [[? ?]|[? ?] ?]; reflexivity. Qed.
Lemma ann_set_ann a x : ann_of (set_ann a x) = a.
Proof. destruct x as [[? ?]|[? ?] ?]; reflexivity. Qed.
Lemma is_clip_set_ann a x : is_clip (set_ann a x) = is_clip x.
Proof. unfold is_clip. now rewrite attr_set_ann. Qed.
Lemma tid_set_ann a x : tid (set_ann a x) = tid x.
Proof. unfold tid. now rewrite attr_set_ann. Qed.
Lemma has_target_set_ann a x : has_target (set_ann a x) = snd a.
Proof. unfold has_target. now rewrite ann_set_ann. Qed.
Lemma clip_layers_set_ann a x : clip_layers (set_ann a x) = fst a.
Proof. unfold clip_layers. now rewrite ann_set_ann. Qed.
Lemma set_ann_set_ann a b x : set_ann a (set_ann b x) = set_ann a x.
Proof. destruct x as [[? ?]|[? ?] ?]; reflexivity. Qed.
Lemma set_ann_self x : set_ann (ann_of x) x = x.
Proof. destruct x as [[? ?]|[? ?] ?]; reflexivity. Qed.

Lemma set_target_cleared v x : cleared x -> set_target v x = set_ann ([], v) x.
Proof. unfold cleared, set_target, clip_layers. intro H. now rewrite H. Qed.
Lemma set_clips_cleared l x : cleared x -> set_clips l x = set_ann (l, true) x.
Proof. unfold cleared, set_clips, has_target. intro H. now rewrite H. Qed.
Lemma set_ann_cleared_id x : cleared x -> set_ann ([], true) x = x.
Proof. unfold cleared. intro H. rewrite <- H. apply set_ann_self. Qed.

(* ------------------------------------------------------------------ takeWhile / dropWhile *)
Lemma take_drop {A} (p : A -> bool) l : takeWhile p l ++ dropWhile p l = l.
Proof. induction l as [|x l IH]; cbn; [reflexivity|]. destruct (p x); cbn; [now rewrite IH|reflexivity]. Qed.

Lemma takeWhile_all {A} (p : A -> bool) l : Forall (fun x => p x = true) (takeWhile p l).
Proof. induction l as [|x l IH]; cbn; [constructor|]. destruct (p x) eqn:E; constructor; auto. Qed.

Lemma takeWhile_Forall {A} (P : A -> Prop) (p : A -> bool) l : Forall P l -> Forall P (takeWhile p l).
Proof. induction 1; cbn; [constructor|]. destruct (p x); constructor; auto. Qed.

(* ------------------------------------------------------------------ the specification, run by run *)
Lemma spec_level_run m ok l :
  spec_level m ok l = map (set_ann ([], ok)) (takeWhile is_clip l) ++ spec_level m ok (dropWhile is_clip l).
Proof.
  induction l as [|x l IH]; cbn [spec_level takeWhile dropWhile]; [reflexivity|].
  destruct (is_clip x) eqn:C; cbn [map app].
  - now rewrite IH.
  - cbn [spec_level]. now rewrite C.
Qed.

Lemma spec_level_base_irrel m ok ok' l :
  spec_level m ok (dropWhile is_clip l) = spec_level m ok' (dropWhile is_clip l).
Proof.
  induction l as [|x l IH]; cbn [dropWhile]; [reflexivity|].
  destruct (is_clip x) eqn:C; [exact IH|]. cbn [spec_level]. now rewrite C.
Qed.

Lemma map_set_target_cleared v l :
  Forall cleared l -> map (set_target v) l = map (set_ann ([], v)) l.
Proof. intro H. apply map_ext_Forall. eapply Forall_impl; [|exact H]. intros; now apply set_target_cleared. Qed.

Lemma map_set_ann_cleared_id l : Forall cleared l -> map (set_ann ([], true)) l = l.
Proof.
  intro H. rewrite <- (map_id l) at 2. apply map_ext_Forall.
  eapply Forall_impl; [|exact H]. intros; now apply set_ann_cleared_id.
Qed.

(* the state of the reversed walk after the suffix [l]: the leading clip run is pending on the stack,
   everything from the first base upwards is final *)
Lemma fold_state m l : Forall cleared l ->
  fold_right (lstep m) ([], []) l = (takeWhile is_clip l, spec_level m false (dropWhile is_clip l)).
Proof.
  induction l as [|x l IH]; intro H; [reflexivity|].
  inversion H as [|? ? Hx Hl]; subst. cbn [fold_right]. rewrite (IH Hl). unfold lstep.
  cbn [takeWhile dropWhile]. destruct (is_clip x) eqn:C; [reflexivity|].
  cbn [spec_level]. rewrite C.
  pose proof (takeWhile_Forall cleared is_clip l Hl) as Hrun.
  destruct (ineligible m (attr_of x)) eqn:I; cbn [negb]; f_equal.
  - rewrite (set_ann_cleared_id x Hx). f_equal.
    rewrite (spec_level_run m false l). now rewrite map_set_target_cleared.
  - rewrite (set_clips_cleared _ x Hx). f_equal.
    rewrite (spec_level_run m true l). rewrite (map_set_ann_cleared_id _ Hrun).
    f_equal. apply spec_level_base_irrel.
Qed.

Lemma level_spec m l : Forall cleared l -> level m l = spec_level m false l.
Proof.
  intro H. unfold level, lfinish. rewrite (fold_state m l H). cbn [fst snd].
  rewrite (spec_level_run m false l).
  now rewrite (map_set_target_cleared false _ (takeWhile_Forall cleared is_clip l H)).
Qed.

(* ------------------------------------------------------------------ all levels of all trees *)
Lemma top_helper_t m t : top (helper_t m t) = top t.
Proof. destruct t; reflexivity. Qed.
Lemma top_spec_t m t : top (spec_t m t) = top t.
Proof. destruct t; reflexivity. Qed.
Lemma cleared_clear_t t : cleared (clear_t t).
Proof. destruct t; reflexivity. Qed.
Lemma cleared_spec_t m t : cleared t -> cleared (spec_t m t).
Proof. unfold cleared, ann_of. now rewrite top_spec_t. Qed.

Lemma clear_t_node p c : clear_t (Node p c) = Node (fst p, ([], true)) (map clear_t c).
Proof. reflexivity. Qed.
Lemma erase_t_node p c : erase_t (Node p c) = Node (fst p) (map erase_t c).
Proof. reflexivity. Qed.

Lemma helper_spec_clear m : forall t, helper_t m (clear_t t) = spec_t m (clear_t t).
Proof.
  induction t as [p|p c IH] using tree_ind_Forall; [reflexivity|].
  rewrite clear_t_node. cbn [helper_t spec_t]. f_equal.
  assert (map (helper_t m) (map clear_t c) = map (spec_t m) (map clear_t c)) as E.
  { rewrite !map_map. apply map_ext_Forall. exact IH. }
  rewrite E. apply level_spec.
  rewrite map_map. apply Forall_forall. intros y Hy. apply in_map_iff in Hy as [x [<- _]].
  apply cleared_spec_t, cleared_clear_t.
Qed.

Lemma compute_spec m f : compute m f = clip_spec m f.
Proof.
  unfold compute, helper, clip_spec.
  assert (map (helper_t m) (map clear_t f) = map (spec_t m) (map clear_t f)) as E.
  { rewrite !map_map. apply map_ext. intro t. apply helper_spec_clear. }
  rewrite E. apply level_spec.
  rewrite map_map. apply Forall_forall. intros y Hy. apply in_map_iff in Hy as [x [<- _]].
  apply cleared_spec_t, cleared_clear_t.
Qed.

(* ------------------------------------------------------------------ relational reading of one level *)
Definition ok_step (m : compat) (ok : bool) (x : atree) : bool :=
  if is_clip x then ok else negb (ineligible m (attr_of x)).
Definition ok_after (m : compat) (ok : bool) (pre : list atree) : bool := fold_left (ok_step m) pre ok.

Lemma ok_after_cons m ok y pre : ok_after m ok (y :: pre) = ok_after m (ok_step m ok y) pre.
Proof. reflexivity. Qed.

Lemma spec_level_split m : forall pre ok x post,
  exists pre',
    spec_level m ok (pre ++ x :: post) =
      pre' ++ set_ann (if is_clip x then ([], ok_after m ok pre)
                       else (if negb (ineligible m (attr_of x)) then map tid (takeWhile is_clip post) else [], true)) x
           :: spec_level m (ok_step m (ok_after m ok pre) x) post
    /\ length pre' = length pre.
Proof.
  induction pre as [|y pre IH]; intros ok x post.
  - exists []. split; [|reflexivity]. cbn [app spec_level ok_after fold_left]. unfold ok_step.
    destruct (is_clip x); reflexivity.
  - rewrite ok_after_cons. cbn [app spec_level].
    destruct (is_clip y) eqn:C.
    + assert (ok_step m ok y = ok) as -> by (unfold ok_step; now rewrite C).
      destruct (IH ok x post) as [pre' [E L]]. eexists (_ :: pre'). rewrite E.
      split; [reflexivity|]. cbn. now rewrite L.
    + assert (ok_step m ok y = negb (ineligible m (attr_of y))) as -> by (unfold ok_step; now rewrite C).
      destruct (IH (negb (ineligible m (attr_of y))) x post) as [pre' [E L]]. eexists (_ :: pre'). rewrite E.
      split; [reflexivity|]. cbn. now rewrite L.
Qed.

Lemma ok_after_iff m : forall pre ok,
  ok_after m ok pre = true <-> base_below m pre \/ (ok = true /\ Forall (fun t => is_clip t = true) pre).
Proof.
  induction pre as [|y pre IH]; intro ok.
  - cbn. split.
    + intro H; right; auto.
    + intros [[p1 [b [run [E _]]]]|[H _]]; [destruct p1; discriminate|exact H].
  - rewrite ok_after_cons. rewrite IH.
    unfold ok_step. split.
    + intros [[p1 [b [run [E R]]]]|[H F]].
      * left. exists (y :: p1), b, run. subst. auto.
      * destruct (is_clip y) eqn:C.
        -- right. split; [exact H|]. constructor; auto.
        -- left. exists [], y, pre. repeat split; auto. now apply negb_true_iff in H.
    + intros [[p1 [b [run [E [Cb [Ib F]]]]]]|[H F]].
      * destruct p1 as [|z p1]; cbn in E; inversion E; subst.
        -- right. rewrite Cb, Ib. auto.
        -- left. exists p1, b, run. auto.
      * inversion F; subst. right. rewrite H2. auto.
Qed.

Lemma spec_level_position m pre x post :
  exists pre' a,
    spec_level m false (pre ++ x :: post) = pre' ++ set_ann a x :: spec_level m (ok_step m (ok_after m false pre) x) post
    /\ length pre' = length pre
    /\ (snd a = true <-> (is_clip x = false \/ base_below m pre))
    /\ fst a = (if is_clip x || ineligible m (attr_of x) then [] else map tid (takeWhile is_clip post)).
Proof.
  destruct (spec_level_split m pre false x post) as [pre' [E L]].
  eexists pre', _. split; [exact E|]. split; [exact L|].
  destruct (is_clip x) eqn:C; cbn [fst snd orb].
  - split; [|reflexivity]. rewrite ok_after_iff. split.
    + intros [H|[H _]]; [now right|discriminate].
    + intros [H|H]; [discriminate|now left].
  - split; [split; auto|]. now destruct (ineligible m (attr_of x)).
Qed.

(* a list whose stored fields already are the specified ones *)
Definition level_ok (m : compat) (l : list atree) : Prop := spec_level m false l = l.

Lemma app_inv_length {A} (a b c d : list A) : a ++ b = c ++ d -> length a = length c -> a = c /\ b = d.
Proof.
  revert c. induction a as [|x a IH]; intros [|y c] E L; try discriminate; cbn in *; [auto|].
  inversion E; subst. destruct (IH c H1) as [-> ->]; auto.
Qed.

Lemma level_ok_position m pre x post : level_ok m (pre ++ x :: post) ->
  (has_target x = true <-> (is_clip x = false \/ base_below m pre)) /\
  clip_layers x = (if is_clip x || ineligible m (attr_of x) then [] else map tid (takeWhile is_clip post)).
Proof.
  unfold level_ok. intro H.
  destruct (spec_level_position m pre x post) as [pre' [a [E [L [T Cl]]]]].
  rewrite E in H. apply app_inv_length in H; [|exact L]. destruct H as [_ H]. injection H as Hx Hp.
  pose proof (ann_set_ann a x) as A. rewrite Hx in A.
  unfold has_target, clip_layers. rewrite A. split; assumption.
Qed.

(* ------------------------------------------------------------------ the specification is a fixed point *)
Lemma takeWhile_spec_ids m ok l :
  map tid (takeWhile is_clip (spec_level m ok l)) = map tid (takeWhile is_clip l).
Proof.
  revert ok. induction l as [|x l IH]; intro ok; cbn [spec_level takeWhile]; [reflexivity|].
  destruct (is_clip x) eqn:C; cbn [takeWhile]; rewrite is_clip_set_ann, C; [|reflexivity].
  cbn [map]. now rewrite tid_set_ann, IH.
Qed.

Lemma spec_level_idem m : forall l ok ok', spec_level m ok (spec_level m ok' l) = spec_level m ok l.
Proof.
  induction l as [|x l IH]; intros ok ok'; cbn [spec_level]; [reflexivity|].
  destruct (is_clip x) eqn:C; cbn [spec_level]; rewrite is_clip_set_ann, C, ?attr_set_ann, set_ann_set_ann.
  - now rewrite IH.
  - rewrite IH. now rewrite takeWhile_spec_ids.
Qed.

Lemma in_spec_level m : forall l ok y, In y (spec_level m ok l) -> exists x a, In x l /\ y = set_ann a x.
Proof.
  induction l as [|x l IH]; intros ok y H; cbn [spec_level] in H; [contradiction|].
  destruct (is_clip x); destruct H as [H|H].
  - eexists x, _. split; [now left|now rewrite <- H].
  - destruct (IH _ _ H) as [x0 [a [I E]]]. exists x0, a. split; [now right|exact E].
  - eexists x, _. split; [now left|now rewrite <- H].
  - destruct (IH _ _ H) as [x0 [a [I E]]]. exists x0, a. split; [now right|exact E].
Qed.

(* "l is the top list of f or the child list of some group inside f" *)
Inductive sublevel : aforest -> list atree -> Prop :=
| SL_here f : sublevel f f
| SL_in f p c l : In (Node p c) f -> sublevel c l -> sublevel f l.

Lemma spec_t_levels m : forall t p c, spec_t m t = Node p c -> forall l, sublevel c l -> level_ok m l.
Proof.
  induction t as [q|q c0 IH] using tree_ind_Forall; intros p c E l S; [discriminate|].
  cbn [spec_t] in E. inversion E; subst. clear E.
  remember (spec_level m false (map (spec_t m) c0)) as c eqn:Ec.
  induction S as [f|f p' c' l I S _].
  - subst f. unfold level_ok. apply spec_level_idem.
  - subst f. apply in_spec_level in I as [x [a [I E]]]. apply in_map_iff in I as [t0 [<- I0]].
    rewrite Forall_forall in IH. destruct (spec_t m t0) as [q0|q0 c1] eqn:E0.
    + destruct q0; discriminate.
    + destruct q0 as [q1 q2]. cbn in E. inversion E; subst. eapply (IH t0 I0); [exact E0|exact S].
Qed.

Lemma clip_spec_levels m f l : sublevel (clip_spec m f) l -> level_ok m l.
Proof.
  unfold clip_spec. intro S.
  remember (spec_level m false (map (spec_t m) (map clear_t f))) as c eqn:Ec.
  destruct S as [g|g p' c' l I S].
  - subst g. unfold level_ok. apply spec_level_idem.
  - subst g. apply in_spec_level in I as [x [a [I E]]]. apply in_map_iff in I as [t0 [<- I0]].
    destruct (spec_t m t0) as [q0|q0 c1] eqn:E0.
    + destruct q0; discriminate.
    + destruct q0 as [q1 q2]. cbn in E. inversion E; subst. eapply spec_t_levels; [exact E0|exact S].
Qed.

(* ------------------------------------------------------------------ the compositor's draw order *)
Lemma draw_spec m : forall l ok,
  draw_level (spec_level m ok l) = map tid (if ok then dropWhile is_clip l else l).
Proof.
  induction l as [|x l IH]; intro ok; [now destruct ok|].
  cbn [spec_level]. destruct (is_clip x) eqn:C.
  - unfold draw_level; cbn [flat_map]. fold (draw_level (spec_level m ok l)).
    unfold skipped. rewrite is_clip_set_ann, C, has_target_set_ann. cbn [snd andb].
    rewrite IH. destruct ok; cbn [dropWhile]; rewrite ?C; [reflexivity|].
    rewrite clip_layers_set_ann, tid_set_ann. reflexivity.
  - unfold draw_level; cbn [flat_map]. fold (draw_level (spec_level m (negb (ineligible m (attr_of x))) l)).
    unfold skipped. rewrite is_clip_set_ann, C. cbn [andb].
    rewrite clip_layers_set_ann, tid_set_ann, IH. cbn [fst].
    assert ((if ok then dropWhile is_clip (x :: l) else x :: l) = x :: l) as -> by (cbn; rewrite C; now destruct ok).
    cbn [map]. f_equal. destruct (ineligible m (attr_of x)); cbn [negb app]; [reflexivity|].
    rewrite <- map_app, take_drop. reflexivity.
Qed.

Lemma draw_level_ok m l : level_ok m l -> draw_level l = map tid l.
Proof. unfold level_ok. intro H. rewrite <- H at 1. apply draw_spec. Qed.

(* ------------------------------------------------------------------ shape preservation, idempotence *)
Lemma erase_set_ann a x : erase_t (set_ann a x) = erase_t x.
Proof. destruct x as [[? ?]|[? ?] ?]; reflexivity. Qed.
Lemma clear_set_ann a x : clear_t (set_ann a x) = clear_t x.
Proof. destruct x as [[? ?]|[? ?] ?]; reflexivity. Qed.

Section Preserve.
  Context {T : Type} (g : atree -> T) (Hg : forall a x, g (set_ann a x) = g x).
  Lemma map_spec_level m : forall l ok, map g (spec_level m ok l) = map g l.
  Proof.
    induction l as [|x l IH]; intro ok; cbn [spec_level map]; [reflexivity|].
    destruct (is_clip x); cbn [map]; now rewrite Hg, IH.
  Qed.
End Preserve.

Lemma erase_spec_t m : forall t, erase_t (spec_t m t) = erase_t t.
Proof.
  induction t as [p|p c IH] using tree_ind_Forall; [reflexivity|].
  cbn [spec_t]. rewrite !erase_t_node. f_equal.
  rewrite (map_spec_level erase_t erase_set_ann). rewrite map_map. apply map_ext_Forall. exact IH.
Qed.

Lemma clear_spec_t m : forall t, clear_t (spec_t m t) = clear_t t.
Proof.
  induction t as [p|p c IH] using tree_ind_Forall; [reflexivity|].
  cbn [spec_t]. rewrite !clear_t_node. f_equal.
  rewrite (map_spec_level clear_t clear_set_ann). rewrite map_map. apply map_ext_Forall. exact IH.
Qed.

Lemma erase_clear t : erase_t (clear_t t) = erase_t t.
Proof. unfold erase_t, clear_t. rewrite tmap_tmap. reflexivity. Qed.

Lemma clear_clear t : clear_t (clear_t t) = clear_t t.
Proof. unfold clear_t. rewrite tmap_tmap. reflexivity. Qed.

Lemma erase_compute m f : map erase_t (compute m f) = map erase_t f.
Proof.
  rewrite compute_spec. unfold clip_spec. rewrite (map_spec_level erase_t erase_set_ann).
  rewrite !map_map. apply map_ext. intro t. now rewrite erase_spec_t, erase_clear.
Qed.

Lemma clear_compute m f : map clear_t (compute m f) = map clear_t f.
Proof.
  rewrite compute_spec. unfold clip_spec. rewrite (map_spec_level clear_t clear_set_ann).
  rewrite !map_map. apply map_ext. intro t. now rewrite clear_spec_t, clear_clear.
Qed.

Lemma compute_idem m f : compute m (compute m f) = compute m f.
Proof. unfold compute at 1. rewrite clear_compute. reflexivity. Qed.

(* ------------------------------------------------------------------ triggers *)
Lemma current_set_clip i v d : current (op_set_clip i v d).
Proof. unfold current, op_set_clip; cbn [mode lay]. now rewrite compute_idem. Qed.

Lemma current_set_mode m d : current (op_set_mode m d).
Proof. unfold current, op_set_mode; cbn [mode lay]. now rewrite compute_idem. Qed.

Lemma current_open m f : current (open_clip m f).
Proof. unfold current, open_clip; cbn [mode lay]. now rewrite compute_idem. Qed.

Lemma current_nonstructural d o : structural o = false -> current (apply_op d o).
Proof.
  destruct o; cbn; intro H; [apply current_set_clip|apply current_set_mode|discriminate].
Qed.

Lemma current_history ops : forall d,
  current d -> forallb (fun o => negb (structural o)) ops = true -> current (fold_left apply_op ops d).
Proof.
  induction ops as [|o ops IH]; intros d C H; [exact C|].
  cbn in H. apply andb_true_iff in H as [H1 H2]. cbn [fold_left]. apply IH; [|exact H2].
  apply current_nonstructural. now apply negb_true_iff in H1.
Qed.

(* since edc9f34 the modelled structural edit recomputes as well *)
Lemma current_swap i d : current d -> current (op_swap i d).
Proof.
  intro C. unfold op_swap. destruct (S i <? length (lay d))%nat; [|exact C].
  unfold current; cbn [mode lay]. now rewrite compute_idem.
Qed.

Lemma current_apply d o : current d -> current (apply_op d o).
Proof.
  intro C. destruct o; cbn [apply_op]; [apply current_set_clip|apply current_set_mode|now apply current_swap].
Qed.

Lemma current_history_all ops : forall d, current d -> current (fold_left apply_op ops d).
Proof.
  induction ops as [|o ops IH]; intros d C; [exact C|]. cbn [fold_left]. apply IH. now apply current_apply.
Qed.

(* any structural edit, treated abstractly: the result is current whatever the new forest is and whatever
   stored fields its layers carried *)
Lemma current_recompute m f' : current (recompute m f').
Proof. unfold current, recompute; cbn [mode lay]. now rewrite compute_idem. Qed.

Lemma clear_fresh_erase t : clear_t t = fresh_t (erase_t t).
Proof. unfold clear_t, fresh_t, erase_t. rewrite tmap_tmap. reflexivity. Qed.

Lemma recompute_ignores_old_fields m f g : map erase_t f = map erase_t g -> recompute m f = recompute m g.
Proof.
  intro E. unfold recompute, compute. f_equal. f_equal.
  rewrite (map_ext clear_t (fun t => fresh_t (erase_t t)) clear_fresh_erase f).
  rewrite (map_ext clear_t (fun t => fresh_t (erase_t t)) clear_fresh_erase g).
  rewrite <- !map_map with (f := erase_t) (g := fresh_t). now rewrite E.
Qed.

Lemma current_levels d l : current d -> sublevel (lay d) l -> level_ok (mode d) l.
Proof.
  unfold current. intros C S. rewrite C, compute_spec in S. eapply clip_spec_levels; exact S.
Qed.

Lemma compute_levels m f l : sublevel (compute m f) l -> level_ok m l.
Proof. rewrite compute_spec. apply clip_spec_levels. Qed.

Lemma compute_draw m f l : sublevel (compute m f) l -> draw_level l = map tid l.
Proof. intro S. eapply draw_level_ok, compute_levels. exact S. Qed.

Lemma compute_position m f pre x post : sublevel (compute m f) (pre ++ x :: post) ->
  (has_target x = true <-> (is_clip x = false \/ base_below m pre)) /\
  clip_layers x = (if is_clip x || ineligible m (attr_of x) then [] else map tid (takeWhile is_clip post)).
Proof. intro S. eapply level_ok_position, compute_levels. exact S. Qed.
