(* C15 <-> C11: the clipping runs that the C15 model stores (clip_layers / _has_clip_target, as computed by
   _compute_clipping_layers = clip_spec) drive the compositor to exactly the grouping that the document model of
   the compositor (Composite/Doc.v: sample_runs, and the same fold inside sample_layer for the children of a
   group) builds directly from the clipping flags.

   Generic part: items [X] with a clipping flag [isc] and an arbitrary sampling function
   [S item clip_elements = elements] (Doc.v: sample_layer vp x y k).
     [runs]          the right-to-left fold of Doc.v (pending clipping elements, elements above them);
     [embed]         the sibling list as a C15 level: item i becomes a layer with identity i and its flag;
     [field_driven]  what Compositor.apply does with the STORED fields of such a level: skip a layer that is
                     clipping and has a target, otherwise sample it with the samples of the layers named in its
                     clip_layers (composite/__init__.py:231, :402-415), looked up by identity.
   Photoshop mode only: Doc.v has no compatibility mode (every non-clipping layer is a base). *)
From PsdV Require Import Base.Prelude Tree.Forest Tree.Clip Tree.ClipProofs.
From PsdV Require Import Composite.Scalar Composite.Model Composite.Geometry Composite.Doc.

Section Runs.
  Context {X E : Type} (S : X -> list E -> list E) (isc : X -> bool).

  Fixpoint runs (ls : list X) : list E * list E :=
    match ls with
    | [] => ([], [])
    | l :: tl =>
        let '(pend, res) := runs tl in
        if isc l then (S l [] ++ pend, res) else ([], S l pend ++ res)
    end.
  Definition runs_list (ls : list X) : list E := let '(pend, res) := runs ls in pend ++ res.

  Fixpoint embed_from (n : nat) (ls : list X) : list atree :=
    match ls with
    | [] => []
    | x :: r => Forest.Leaf (mkA (Z.of_nat n) (isc x) false, ([], true)) :: embed_from (Datatypes.S n) r
    end.
  Definition embed (ls : list X) : list atree := embed_from 0 ls.

  Section Driven.
    Variable all : list X.
    Definition Sx (i : Z) (clips : list E) : list E :=
      match nth_error all (Z.to_nat i) with Some x => S x clips | None => [] end.
    Definition field_driven (l' : list atree) : list E :=
      flat_map (fun t => if skipped t then [] else Sx (tid t) (flat_map (fun c => Sx c []) (clip_layers t))) l'.
  End Driven.

  Lemma field_driven_cons all t l :
    field_driven all (t :: l) =
    (if skipped t then [] else Sx all (tid t) (flat_map (fun c => Sx all c []) (clip_layers t))) ++ field_driven all l.
  Proof. reflexivity. Qed.

  Lemma runs_pending ls : fst (runs ls) = flat_map (fun c => S c []) (takeWhile isc ls).
  Proof.
    induction ls as [|x tl IH]; [reflexivity|]. cbn [runs takeWhile].
    destruct (runs tl) as [p r]. cbn [fst] in IH. destruct (isc x); cbn [fst flat_map]; [now rewrite IH|reflexivity].
  Qed.

  Lemma embed_cleared n ls : Forall cleared (embed_from n ls).
  Proof. revert n. induction ls as [|x r IH]; intro n; constructor; [reflexivity|apply IH]. Qed.

  Lemma Sx_at pre x tl clips : Sx (pre ++ x :: tl) (Z.of_nat (length pre)) clips = S x clips.
  Proof.
    unfold Sx. rewrite Nat2Z.id. rewrite nth_error_app2 by apply Nat.le_refl. now rewrite Nat.sub_diag.
  Qed.

  (* the identities of the leading clipping run of a suffix, looked up in the whole list, are that run *)
  Lemma run_lookup : forall tl pre,
    flat_map (fun c => Sx (pre ++ tl) c []) (map tid (takeWhile is_clip (embed_from (length pre) tl))) =
    flat_map (fun c => S c []) (takeWhile isc tl).
  Proof.
    induction tl as [|x tl IH]; intro pre; [reflexivity|]. cbn [embed_from takeWhile].
    unfold is_clip at 1. cbn [attr_of top fst clipf]. destruct (isc x); [|reflexivity].
    cbn [map flat_map]. unfold tid at 1. cbn [attr_of top fst aid]. rewrite Sx_at. f_equal.
    specialize (IH (pre ++ [x])). rewrite <- app_assoc in IH. cbn [app] in IH.
    rewrite app_length in IH. cbn [length] in IH. rewrite Nat.add_1_r in IH. exact IH.
  Qed.

  Lemma driven_spec : forall tl pre ok,
    field_driven (pre ++ tl) (spec_level Photoshop ok (embed_from (length pre) tl)) =
    (if ok then [] else fst (runs tl)) ++ snd (runs tl).
  Proof.
    induction tl as [|x tl IH]; intros pre ok; [now destruct ok|].
    cbn [embed_from spec_level runs].
    assert (IHs : forall ok', field_driven (pre ++ x :: tl) (spec_level Photoshop ok' (embed_from (Datatypes.S (length pre)) tl)) =
                              (if ok' then [] else fst (runs tl)) ++ snd (runs tl)).
    { intro ok'. specialize (IH (pre ++ [x]) ok'). rewrite <- app_assoc in IH. cbn [app] in IH.
      rewrite app_length in IH. cbn [length] in IH. rewrite Nat.add_1_r in IH. exact IH. }
    pose proof (run_lookup tl (pre ++ [x])) as RL. rewrite <- app_assoc in RL. cbn [app] in RL.
    rewrite app_length in RL. cbn [length] in RL. rewrite Nat.add_1_r in RL.
    pose proof (runs_pending tl) as RP.
    change (is_clip (Forest.Leaf (mkA (Z.of_nat (length pre)) (isc x) false, (@nil Z, true)))) with (isc x).
    destruct (runs tl) as [p r] eqn:Er. cbn [fst snd] in *.
    set (lf := Forest.Leaf (mkA (Z.of_nat (length pre)) (isc x) false, (@nil Z, true))).
    assert (tid lf = Z.of_nat (length pre)) as Tl by reflexivity.
    assert (is_clip lf = isc x) as Cl by reflexivity.
    destruct (isc x) eqn:Ex.
    - rewrite field_driven_cons. unfold skipped.
      rewrite is_clip_set_ann, has_target_set_ann, tid_set_ann, clip_layers_set_ann, Cl, Tl.
      cbn [fst snd andb flat_map]. rewrite IHs, Sx_at. destruct ok; cbn [app]; [reflexivity|].
      now rewrite <- app_assoc.
    - assert (ineligible Photoshop (attr_of lf) = false) as -> by reflexivity. cbn [negb].
      rewrite field_driven_cons. unfold skipped.
      rewrite is_clip_set_ann, tid_set_ann, clip_layers_set_ann, Cl, Tl.
      cbn [fst snd andb]. rewrite IHs, Sx_at, RL, <- RP. cbn [app]. now destruct ok.
  Qed.

  (* runs_agree, generic form *)
  Theorem runs_agree_generic ls :
    field_driven ls (level Photoshop (embed ls)) = runs_list ls.
  Proof.
    unfold embed, runs_list. rewrite (level_spec Photoshop _ (embed_cleared 0 ls)).
    pose proof (driven_spec ls [] false) as H. cbn [app length] in H. rewrite H.
    now destruct (runs ls).
  Qed.
End Runs.

(* ------------------------------------------------------------------ Composite/Doc.v is an instance *)
Section DocInstance.
  Context {O : Ops}.

  Definition doc_clip (l : layer) : bool := at_clip (attrs_of l).

  Lemma sample_runs_is_runs vp x y k ls :
    (@sample_runs O) vp x y k ls = runs ((@sample_layer O) vp x y k) doc_clip ls.
  Proof.
    induction ls as [|l tl IH]; [reflexivity|]. cbn [sample_runs runs]. rewrite IH. reflexivity.
  Qed.

  (* the clipping runs Composite/Doc.v groups at the top level of a document are exactly the runs stored by
     the C15 computation (Photoshop mode) and honoured by the compositor *)
  Theorem runs_agree vp x y k ls :
    (@sample_list O) vp x y k ls =
    field_driven ((@sample_layer O) vp x y k) ls (level Photoshop (embed doc_clip ls)).
  Proof.
    rewrite runs_agree_generic. unfold sample_list, runs_list. now rewrite sample_runs_is_runs.
  Qed.

  (* ... hence the document compositor of C11 is the field-driven one *)
  Corollary composite_doc_field_driven vp cb ab ls x y k :
    (@composite_doc O) vp cb ab ls x y k =
    (@composite_px O) false cb ab (field_driven ((@sample_layer O) vp x y k) ls (level Photoshop (embed doc_clip ls))).
  Proof. unfold composite_doc. now rewrite runs_agree. Qed.

  (* the same fold groups the children of a group inside (@sample_layer O) *)
  Lemma sample_group_children vp x y k pass ch at_ clips :
    negb (at_vis at_) = false ->
    is_zero_rect (intersect vp (bbox_of (Gr pass ch at_))) = false ->
    inside (intersect vp (bbox_of (Gr pass ch at_))) x y = true ->
    exists fa B,
      (@sample_layer O) vp x y k (Gr pass ch at_) clips =
      [@Group O (negb pass)
             (field_driven ((@sample_layer O) (intersect vp (bbox_of (Gr pass ch at_))) x y k) ch (level Photoshop (embed doc_clip ch)))
             fa B (at_ko at_) clips].
  Proof.
    intros Hv Hz Hin. destruct vp as [[[vl vt] vr] vb]. eexists _, _.
    rewrite runs_agree_generic. cbn [sample_layer attrs_of]. rewrite Hv, Hz.
    remember (intersect (vl, vt, vr, vb) (bbox_of (Gr pass ch at_))) as vp' eqn:Evp.
    rewrite Hin.
    match goal with |- context [let '(p, r) := ?g ch in _] =>
      assert (forall ls, g ls = runs (@sample_layer O vp' x y k) doc_clip ls) as G end.
    { clear. induction ls as [|l tl IH]; [reflexivity|]. cbn [runs]. rewrite <- IH. reflexivity. }
    rewrite G.
    unfold runs_list. destruct (runs (@sample_layer O vp' x y k) doc_clip ch) as [p r]. reflexivity.
  Qed.
End DocInstance.
