(* C02 - any file the reader accepts is re-saved without loss or drift.

   Model: Psd/Model.v (read()/write() of the container classes of psd_tools.psd, the lenient paths of
   the readers included: fp.read(n) returning fewer bytes, padding skipped past the end, seeks to
   declared end positions, is_readable probes of the rest of the FILE, assert/IOError/ValueError
   outcomes), tied to /repo on every run by harness/vh/c02.py, which evaluates [resave_outcome]
   (Psd/Resave.v) on every mutant byte string and compares it with what the implementation does.

   Every theorem quantifies over ALL byte lists b (no size bound, any damage), the charset codec (any
   pair with [codec_ok]: decode undone by encode - mac_roman, the default), both file versions, every
   layer-info padding > 0.  Payloads of tagged blocks and image resources are raw bytes in the model,
   for every key and id (the implementation side of the comparison runs with its payload-class
   registries emptied; payload classes: stage 2 at the end of this file, and the oracle stream).

   The full statement  [forall b d, read b = Ok d -> wf_psd d]  (everything the reader produces is what
   the writer hands back unchanged) is FALSE of the faithful model.  The exactly characterised classes
   ([read_wf_refuted], [resave_refuted]; each replayed on the real code by the harness):
     F-C02-1  layer count 0 in a non-empty layer-info block     -> ([], []) comes back as (None, None)
     F-C02-2  end of file met inside the section                -> tagged_blocks None comes back empty
     F-C02-5  35-byte mask block with both feathers             -> re-saved file UNREADABLE (reader-side F-C01-3)
   and, until /repo f3a2729 (reader of Psd/Legacy.v, [resave_refuted_before_f3a2729]):
     F-C02-3  empty GlobalLayerMaskInfo, < 17 bytes after it    -> dropped on re-read, second save shorter   (fixed)
     F-C02-4  tagged blocks without a GlobalLayerMaskInfo       -> re-saved file UNREADABLE                  (fixed:
              proved unreachable from any byte string for the current reader, [glmi_class_unreachable])
   (one more was in a payload class, stage 2 below: F-C02-6 SectionDividerSetting of 8..11 bytes lost its sub type;
   fixed by /repo de58475 - the stage-2 theorems are now unconditional).
   [resave_guard] is the conjunction of the three remaining guards; on the reader's range it is EQUIVALENT
   to well-formedness ([read_wf_exact]): there is no further class in the model. *)
From PsdV Require Import Base.Prelude Psd.Codec Psd.Model Psd.Proofs Psd.Legacy Psd.Leaf Psd.LeafProofs Psd.Resave Psd.ResaveProofs Psd.ResaveWrite.
From Coq Require Import ZArith List Bool Lia.
Import ListNotations.
Open Scope Z_scope.

(* ------------------------------------------------------------------ what the reader produces is writable *)
Theorem read_wf :
  forall enc_s dec_s, codec_ok enc_s dec_s ->
  forall b d, bytes b -> read_psd dec_s b = Ok d -> resave_guard d = true -> wf_resave enc_s dec_s d.
Proof. exact read_psd_wf. Qed.
Print Assumptions read_wf.

(* ... and the guards are exact: on the reader's range, well-formed = guarded *)
Theorem read_wf_exact :
  forall enc_s dec_s, codec_ok enc_s dec_s ->
  forall b d, bytes b -> read_psd dec_s b = Ok d -> (wf_psd enc_s dec_s d = true <-> resave_guard d = true).
Proof.
  intros enc_s dec_s Hc b d Hb Hr. split.
  - intros H. apply guard_of_full. exact (wf_psd_guard enc_s dec_s d H).
  - exact (read_psd_wf enc_s dec_s Hc b d Hb Hr).
Qed.
Print Assumptions read_wf_exact.

(* since f3a2729 the reader cannot produce tagged blocks without a global layer mask info (the class of F-C02-4):
   a block read in the last 1..3 bytes of the section leaves the image data starting inside its signature *)
Theorem glmi_class_unreachable :
  forall dec_s b d, bytes b -> read_psd dec_s b = Ok d -> g_glmi_before_blocks (p_lami d) = true.
Proof. exact glmi_before_blocks_reached. Qed.
Print Assumptions glmi_class_unreachable.

(* ------------------------------------------------------------------ re-saving *)
(* Under the guards, for every padding: whenever the save succeeds, the saved bytes are accepted
   again, read to an equal structure, and a second save reproduces the first byte for byte (and a
   third read gives that structure again).  No size bound here; success of the save: [save_succeeds]. *)
Theorem resave_guarded :
  forall enc_s dec_s, codec_ok enc_s dec_s ->
  forall pad b d s n, 0 < pad -> bytes b ->
    read_psd dec_s b = Ok d -> resave_guard d = true ->
    write_psd enc_s pad d = Ok (s, n) ->
    exists d', read_psd dec_s s = Ok d' /\ eqv d d' /\ write_psd enc_s pad d' = Ok (s, n) /\
               psd_after_write d' = d'.
Proof.
  intros enc_s dec_s Hc pad b d s n Hp Hb Hr Hg Hw.
  destruct (resave_of_write enc_s dec_s Hc pad b d s n Hp Hb Hr Hg Hw) as (H1 & H2 & H3).
  exists (psd_after_write d). unfold eqv. auto.
Qed.
Print Assumptions resave_guarded.

(* Saving what was read SUCCEEDS - no guard needed: every field the writer packs was read from a field of the same
   width, every length-prefixed block fits its length field (the writer's padding where the reader was lenient is
   bounded by what the element consumed: written <= 4 * consumed throughout).  For files below 1 GiB; beyond 4 GiB
   a 4-byte length field can overflow when padding is added (no witness can be computed at that size). *)
Theorem save_succeeds :
  forall enc_s dec_s, codec_ok enc_s dec_s ->
  forall pad b d, bytes b -> 0 < pad -> 4 * len b + pad + 20 < 2 ^ 32 ->
    read_psd dec_s b = Ok d -> exists s n, write_psd enc_s pad d = Ok (s, n).
Proof. exact write_psd_ok. Qed.
Print Assumptions save_succeeds.

(* THE PROPERTY, for every accepted byte string below 1 GiB outside the three classes: saving succeeds, the saved
   bytes are accepted and read to an equal structure, and saving that reproduces the bytes *)
Theorem resave :
  forall enc_s dec_s, codec_ok enc_s dec_s ->
  forall pad b d, bytes b -> 0 < pad -> 4 * len b + pad + 20 < 2 ^ 32 ->
    read_psd dec_s b = Ok d -> resave_guard d = true ->
    exists s n, write_psd enc_s pad d = Ok (s, n) /\
      exists d', read_psd dec_s s = Ok d' /\ eqv d d' /\ write_psd enc_s pad d' = Ok (s, n).
Proof.
  intros enc_s dec_s Hc pad b d Hb Hp Hs Hr Hg.
  destruct (write_psd_ok enc_s dec_s Hc pad b d Hb Hp Hs Hr) as (s & n & Hw).
  exists s, n. split; [exact Hw|].
  destruct (resave_guarded enc_s dec_s Hc pad b d s n Hp Hb Hr Hg Hw) as (d' & H1 & H2 & H3 & _).
  exists d'. auto.
Qed.
Print Assumptions resave.

(* unknown resource ids / tagged-block keys (in the model: EVERY id and key) are kept as raw bytes:
   the re-read document has the same resources, the same document-level blocks and the same blocks
   in every layer record - signature, key and payload bytes, in the same order *)
Theorem unknown_preserved :
  forall enc_s dec_s, codec_ok enc_s dec_s ->
  forall pad b d s n, 0 < pad -> bytes b ->
    read_psd dec_s b = Ok d -> resave_guard d = true -> write_psd enc_s pad d = Ok (s, n) ->
    exists d', read_psd dec_s s = Ok d' /\ p_res d' = p_res d /\ doc_blocks d' = doc_blocks d /\
               map r_blocks (doc_records d') = map r_blocks (doc_records d).
Proof.
  intros enc_s dec_s Hc pad b d s n Hp Hb Hr Hg Hw.
  destruct (resave_of_write enc_s dec_s Hc pad b d s n Hp Hb Hr Hg Hw) as (H1 & _).
  exists (psd_after_write d). split; [exact H1|].
  split; [apply after_write_res|]. split; [apply after_write_blocks|apply after_write_record_blocks].
Qed.
Print Assumptions unknown_preserved.

(* CPython's Py_ssize_t limit (8-byte lengths >= 2^63 in version-2 files raise OverflowError): the reader with
   those checks, [read_psd_py] - the function the harness evaluates - only rejects more than [read_psd], so
   everything above holds for every input IT accepts *)
Theorem reader_py_refines :
  forall dec_s b d, read_psd_py dec_s b = Ok d -> read_psd dec_s b = Ok d.
Proof. exact read_psd_py_refines. Qed.
Print Assumptions reader_py_refines.

Theorem resave_guarded_py :
  forall enc_s dec_s, codec_ok enc_s dec_s ->
  forall pad b d s n, 0 < pad -> bytes b ->
    read_psd_py dec_s b = Ok d -> resave_guard d = true ->
    write_psd enc_s pad d = Ok (s, n) ->
    exists d', read_psd dec_s s = Ok d' /\ eqv d d' /\ write_psd enc_s pad d' = Ok (s, n) /\
               psd_after_write d' = d'.
Proof.
  intros enc_s dec_s Hc pad b d s n Hp Hb Hr. apply (resave_guarded enc_s dec_s Hc pad b d s n Hp Hb).
  now apply read_psd_py_refines.
Qed.
Print Assumptions resave_guarded_py.

(* the two readers differ: a version-2 file whose layer-info length is 2^64-1 *)
Definition hdr2 : list Z := [56;66;80;83; 0;2; 0;0;0;0;0;0; 0;1; 0;0;0;1; 0;0;0;1; 0;8; 0;1].
Definition w_ovf : list Z :=
  hdr2 ++ [0;0;0;0; 0;0;0;0] ++ [0;0;0;0;0;0;0;10;  255;255;255;255;255;255;255;255;  0;0] ++ [0;0].
Example reader_py_stricter :
  (exists d, read_psd raw_codec w_ovf = Ok d) /\ read_psd_py raw_codec w_ovf = Err OverflowErr.
Proof. split; [eexists; vm_compute; reflexivity|vm_compute; reflexivity]. Qed.

(* ------------------------------------------------------------------ the hypotheses are satisfiable *)
Example codec_ok_raw : codec_ok raw_codec raw_codec.
Proof. intros b n. unfold raw_codec. destruct (forallb byteb b) eqn:E; [|discriminate]. intros H. inversion H; subst. now rewrite E. Qed.

Definition hdr1 : list Z := [56;66;80;83; 0;1; 0;0;0;0;0;0; 0;1; 0;0;0;1; 0;0;0;1; 0;8; 0;1].
(* a damaged but accepted file: 3 junk bytes at the end of the resource section, an unknown tagged block
   ('zzzz') in the layer record and one ('abcd', odd payload) at document level, 2 junk bytes
   after the channel data inside the layer-info block, a global layer mask info, 8 zero bytes after the blocks,
   2 bytes of merged image data *)
Definition ex_file : list Z :=
  hdr1 ++
  [0;0;0;0;0;0;0;19;56;66;73;77;3;233;0;0;0;0;0;3;9;8;7;0;1;2;3;0;0;0;129;0;0;0;81;0;1;0;0;0;0;0;0;0;0;0;0;0;1;0;
   0;0;1;0;1;255;255;0;0;0;5;56;66;73;77;110;111;114;109;255;0;8;0;0;0;0;32;0;0;0;0;0;0;0;0;2;97;233;0;56;66;73;
   77;122;122;122;122;0;0;0;5;1;2;3;4;5;0;0;0;0;0;7;7;7;7;7;0;0;0;16;0;0;255;255;0;0;0;0;0;0;0;50;128;0;0;0;56;
   66;73;77;97;98;99;100;0;0;0;1;42;0;0;0;0;0;0;0;0;0;0;0;0;1;5;5].
Example resave_guarded_satisfiable :
  exists d s n, bytes ex_file /\ 4 * len ex_file + 4 + 20 < 2 ^ 32 /\ read_psd raw_codec ex_file = Ok d /\ resave_guard d = true /\
    write_psd raw_codec 4 d = Ok (s, n) /\ s <> ex_file /\
    length (doc_blocks d) = 1%nat /\ length (doc_records d) = 1%nat /\ length (p_res d) = 1%nat.
Proof.
  do 3 eexists. split; [apply Forall_forall; intros x Hx; apply byteb_spec; revert x Hx; apply forallb_forall; vm_compute; reflexivity|].
  split; [vm_compute; reflexivity|].
  split; [vm_compute; reflexivity|]. split; [vm_compute; reflexivity|].
  split; [vm_compute; reflexivity|]. split; [vm_compute; discriminate|].
  split; [reflexivity|]. split; reflexivity.
Qed.

(* ------------------------------------------------------------------ the refuted classes
   Each witness: an accepted byte string b (the structure read is NOT well-formed, exactly one guard
   fails: [guard_bits] = 1, 2, 16), its first save s, and what goes wrong afterwards. *)
(* F-C02-1 (vh.c02.W1): layer-info block of 6 bytes declaring 0 layers *)
Definition w1 : list Z :=
  hdr1 ++
  [0;0;0;0;0;0;0;0;0;0;0;10;0;0;0;6;0;0;0;0;0;0;0;0;0].
(* F-C02-2: one layer record; the layer-info length (100) points past the end of the file, the section
   length (52) does not *)
Definition w2 : list Z :=
  hdr1 ++
  [0;0;0;0;0;0;0;0;0;0;0;52;0;0;0;100;0;1;0;0;0;0;0;0;0;0;0;0;0;1;0;0;0;1;0;0;56;66;73;77;110;111;114;109;255;0;
   8;0;0;0;0;12;0;0;0;0;0;0;0;0;0;0;0;0;0;0].
(* F-C02-5: a layer record whose mask block is 35 bytes: 18 fixed + parameters byte 0x0a + two feathers *)
Definition w5 : list Z :=
  hdr1 ++
  [0;0;0;0;0;0;0;0;0;0;0;96;0;0;0;92;0;1;0;0;0;0;0;0;0;0;0;0;0;1;0;0;0;1;0;1;0;0;0;0;0;3;56;66;73;77;110;111;114;
   109;255;0;8;0;0;0;0;47;0;0;0;35;0;0;0;0;0;0;0;0;0;0;0;1;0;0;0;1;0;16;10;63;240;0;0;0;0;0;0;64;0;0;0;0;0;0;0;0;
   0;0;0;0;0;0;0;0;0;5;0;0;1;1;1;1;1;1;1;1;1;1;1;1;1;1;1;1;1;1;1;1].

Theorem read_wf_refuted :
  (exists d, read_psd raw_codec w1 = Ok d /\ wf_psd raw_codec raw_codec d = false /\ guard_bits d = 1) /\
  (exists d, read_psd raw_codec w2 = Ok d /\ wf_psd raw_codec raw_codec d = false /\ guard_bits d = 2) /\
  (exists d, read_psd raw_codec w5 = Ok d /\ wf_psd raw_codec raw_codec d = false /\ guard_bits d = 16).
Proof.
  split; [|split]; eexists; (split; [vm_compute; reflexivity|]); split; vm_compute; reflexivity.
Qed.
Print Assumptions read_wf_refuted.

Theorem resave_refuted :
  (* F-C02-1, F-C02-2: the re-read structure is not equal (the bytes are stable) *)
  (exists d s n d', read_psd raw_codec w1 = Ok d /\ write_psd raw_codec 4 d = Ok (s, n) /\
     read_psd raw_codec s = Ok d' /\ d' <> psd_after_write d /\
     li_records (match la_info (p_lami d) with Some li => li | None => mkLI 0 None None end) = Some [] /\
     li_records (match la_info (p_lami d') with Some li => li | None => mkLI 0 None None end) = None /\
     write_psd raw_codec 4 d' = Ok (s, n)) /\
  (exists d s n d', read_psd raw_codec w2 = Ok d /\ write_psd raw_codec 4 d = Ok (s, n) /\
     read_psd raw_codec s = Ok d' /\ d' <> psd_after_write d /\
     la_blocks (p_lami d) = None /\ la_blocks (p_lami d') = Some [] /\
     write_psd raw_codec 4 d' = Ok (s, n)) /\
  (* F-C02-5: the saved bytes are rejected *)
  (exists d s n, read_psd raw_codec w5 = Ok d /\ write_psd raw_codec 4 d = Ok (s, n) /\
     read_psd raw_codec s = Err IOErr).
Proof.
  split; [|split].
  - do 4 eexists. split; [vm_compute; reflexivity|]. split; [vm_compute; reflexivity|].
    split; [vm_compute; reflexivity|]. split; [vm_compute; discriminate|].
    split; [reflexivity|]. split; [reflexivity|]. vm_compute; reflexivity.
  - do 4 eexists. split; [vm_compute; reflexivity|]. split; [vm_compute; reflexivity|].
    split; [vm_compute; reflexivity|]. split; [vm_compute; discriminate|].
    split; [reflexivity|]. split; [reflexivity|]. vm_compute; reflexivity.
  - do 3 eexists. split; [vm_compute; reflexivity|]. split; [vm_compute; reflexivity|vm_compute; reflexivity].
Qed.
Print Assumptions resave_refuted.

(* ------------------------------------------------------------------ the two classes repaired by /repo f3a2729 *)
(* F-C02-3: empty global layer mask info, then 11 bytes that are no tagged block, 2 bytes of image data *)
Definition w3 : list Z :=
  hdr1 ++
  [0;0;0;0;0;0;0;0;0;0;0;19;0;0;0;0;0;0;0;0;1;2;3;4;5;6;7;8;9;10;11;0;0].
(* F-C02-4: a 13-byte tagged block right after the layer info, 3 bytes of image data: 16 < 17 bytes *)
Definition w4 : list Z :=
  hdr1 ++
  [0;0;0;0;0;0;0;0;0;0;0;17;0;0;0;0;56;66;73;77;97;98;99;100;0;0;0;1;7;0;0;0].
(* the reader before the fix (Psd/Legacy.v): w3 drifts (second save 4 bytes shorter), w4 is accepted and its
   save is rejected *)
Theorem resave_refuted_before_f3a2729 :
  (exists d s n d' s' n', read_psd_v0 raw_codec w3 = Ok d /\ write_psd raw_codec 4 d = Ok (s, n) /\
     read_psd_v0 raw_codec s = Ok d' /\ la_glmi (p_lami d) = Some glmi_empty /\ la_glmi (p_lami d') = None /\
     write_psd raw_codec 4 d' = Ok (s', n') /\ n' = n - 4) /\
  (exists d s n, read_psd_v0 raw_codec w4 = Ok d /\ guard_bits d = 8 /\ write_psd raw_codec 4 d = Ok (s, n) /\
     read_psd_v0 raw_codec s = Err IOErr).
Proof.
  split.
  - do 6 eexists. split; [vm_compute; reflexivity|]. split; [vm_compute; reflexivity|].
    split; [vm_compute; reflexivity|]. split; [reflexivity|]. split; [reflexivity|].
    split; [vm_compute; reflexivity|]. reflexivity.
  - do 3 eexists. split; [vm_compute; reflexivity|]. split; [vm_compute; reflexivity|].
    split; [vm_compute; reflexivity|vm_compute; reflexivity].
Qed.
Print Assumptions resave_refuted_before_f3a2729.
(* the reader after the fix: w3 re-saves losslessly (the global layer mask info is found again), w4 is rejected *)
Example fixed_by_f3a2729 :
  (exists d s n, read_psd raw_codec w3 = Ok d /\ resave_guard d = true /\ write_psd raw_codec 4 d = Ok (s, n) /\
     read_psd raw_codec s = Ok (psd_after_write d) /\ la_glmi (p_lami d) = Some glmi_empty) /\
  read_psd raw_codec w4 = Err IOErr.
Proof.
  split; [|vm_compute; reflexivity].
  do 3 eexists. split; [vm_compute; reflexivity|]. split; [vm_compute; reflexivity|].
  split; [vm_compute; reflexivity|]. split; [vm_compute; reflexivity|reflexivity].
Qed.

(* ------------------------------------------------------------------ stage 2: the payload classes modelled in Psd/Leaf.v
   (value elements, SectionDividerSetting, SheetColorSetting, ReferencePoint, ChannelBlendingRestrictionsSetting,
   Color, FilterMask, resource Byte/Integer/ShortInteger): whatever bytes the class reader accepts - truncated,
   over-long, any content - the object read is well-formed, and it is re-written and read back equal, for every
   padding.  UNCONDITIONAL since /repo de58475 (before: F-C02-6, [leaf_resave_refuted_before_de58475]). *)
Theorem leaf_read_wf :
  forall k b l, read_leaf k b = Ok l -> kind_of l = k /\ wf_leaf l = true /\ leaf_guard l = true.
Proof. exact read_leaf_wf. Qed.
Print Assumptions leaf_read_wf.

Theorem leaf_resave :
  forall k b l pad s n, 0 < pad ->
    read_leaf k b = Ok l -> write_leaf pad l = Ok (s, n) -> read_leaf k s = Ok l.
Proof. exact ResaveProofs.leaf_resave. Qed.
Print Assumptions leaf_resave.

Example leaf_resave_satisfiable :
  exists l s n, read_leaf KSectionDivider [0;0;0;1; 56;66;73;77; 112;97;115;115; 0;0;0;9; 1;2] = Ok l /\
    write_leaf 4 l = Ok (s, n) /\ n = 16 /\
  exists l2 s2 n2, read_leaf KString [0;0;0;2; 0;65; 216;61; 9;9;9] = Ok l2 /\
    write_leaf 4 l2 = Ok (s2, n2) /\ n2 = 8.
Proof.
  do 3 eexists. split; [vm_compute; reflexivity|]. split; [vm_compute; reflexivity|].
  split; [reflexivity|]. do 3 eexists. split; [vm_compute; reflexivity|].
  split; [vm_compute; reflexivity|reflexivity].
Qed.

(* F-C02-6 (fixed by de58475).  The reader before the fix (Psd/Legacy.v): kind, then 4 more bytes - no room for
   signature + blend mode, but a sub type was read; the writer emits it only after a blend mode: lost on re-save.
   The reader after the fix reads the same 8 bytes as a bare kind, which re-saves unchanged. *)
Theorem leaf_resave_refuted_before_de58475 :
  exists b l s n l', b = [0;0;0;1; 0;0;0;7] /\ read_section_divider_v0 b = Ok l /\ leaf_guard l = false /\
    write_leaf 4 l = Ok (s, n) /\ read_section_divider_v0 s = Ok l' /\ l' <> l /\
    l = LSectionDivider 1 None None (Some 7) /\ l' = LSectionDivider 1 None None None.
Proof.
  do 5 eexists. split; [reflexivity|]. split; [vm_compute; reflexivity|]. split; [reflexivity|].
  split; [vm_compute; reflexivity|]. split; [vm_compute; reflexivity|]. split; [discriminate|]. split; reflexivity.
Qed.
Print Assumptions leaf_resave_refuted_before_de58475.
Example fixed_by_de58475 :
  read_leaf KSectionDivider [0;0;0;1; 0;0;0;7] = Ok (LSectionDivider 1 None None None).
Proof. vm_compute. reflexivity. Qed.

(* the same payload inside a file (vh.c02.W6, the former witness): a layer record with an 8-byte 'lsct' block;
   at container level the payload is raw bytes and the container guards hold *)
Definition w6 : list Z :=
  hdr1 ++
  [0;0;0;0;0;0;0;0;0;0;0;74;0;0;0;70;0;1;0;0;0;0;0;0;0;0;0;0;0;1;0;0;0;1;0;0;56;66;73;77;110;111;114;109;255;0;8;
   0;0;0;0;32;0;0;0;0;0;0;0;0;0;0;0;0;56;66;73;77;108;115;99;116;0;0;0;8;0;0;0;1;0;0;0;7;0;0;0;0;0;0;0;0;0;0;0;0;
   0;0;0;0;0;0;0;0;0;0;0;0].
Example w6_container_level :
  exists d, read_psd raw_codec w6 = Ok d /\ resave_guard d = true /\
    map (fun r => map tb_data (r_blocks r)) (doc_records d) = [[[0;0;0;1; 0;0;0;7]]].
Proof. eexists. split; [vm_compute; reflexivity|]. split; [vm_compute; reflexivity|vm_compute; reflexivity]. Qed.

(* ------------------------------------------------------------------ stage 3: the other modelled payload classes
   (Psd/ResavePayload.v over Psd/Effects.v, Adjust.v, Vector.v, Patterns.v, Descriptor.v): for EVERY byte string the class
   reader accepts, the value read is in the domain of the class round trip - so the writer's output re-reads to the same
   value (and, by the class theorems, re-writes identically).  Unconditional for EffectsLayer and its six records,
   BrightnessContrast / ColorBalance / Exposure / HueSaturation / SelectiveColor / PhotoFilter, ChannelMixer, Levels,
   Curves, GradientMap, vector paths + VectorMaskSetting, Patterns (byte lists, codec_ok).  For the descriptor family
   (DescriptorBlock / DescriptorBlock2, ColorLookup, VectorStrokeContentSetting, LinkedLayer and every descriptor value,
   any depth)
   unconditionally since /repo 708c13e (before: finding F-C02-7, [descriptor_key_refuted_before_708c13e]). *)
From PsdV Require Import Psd.Typed Psd.Effects Psd.Descriptor Psd.Adjust Psd.Vector Psd.Patterns Psd.ResavePayload.
From PsdV Require Psd.Linked Psd.Legacy.

Theorem effects_layer_resave : forall b l s n,
  read_effects b = Ok l -> write_effects l = Ok (s, n) -> read_effects s = Ok l.
Proof. exact effects_resave. Qed.
Print Assumptions effects_layer_resave.

Theorem adjustment_struct_resave : forall pad k b vals s n,
  read_astruct k b = Ok vals -> write_astruct pad k vals = Ok (s, n) -> read_astruct k s = Ok vals.
Proof. exact astruct_resave. Qed.
Print Assumptions adjustment_struct_resave.
Theorem channel_mixer_resave : forall b vals tail s n,
  read_mixer b = Ok (vals, tail) -> write_mixer vals tail = Ok (s, n) -> read_mixer s = Ok (vals, tail).
Proof. exact mixer_resave. Qed.
Theorem levels_payload_resave : forall b version recs extra s n,
  read_levels b = Ok (version, recs, extra) -> write_levels version recs extra = Ok (s, n) ->
  read_levels s = Ok (version, recs, extra).
Proof. exact levels_resave. Qed.
Theorem curves_payload_resave : forall b c s n,
  read_curves b = Ok c -> write_curves c = Ok (s, n) -> read_curves s = Ok c.
Proof. exact curves_resave. Qed.
Theorem gradient_map_resave : forall b g s n,
  read_gradient b = Ok g -> write_gradient g = Ok (s, n) -> read_gradient s = Ok g.
Proof. exact gradient_resave. Qed.
Print Assumptions curves_payload_resave.
Theorem vector_mask_resave : forall b version flags p s n,
  read_vmask b = Ok (version, flags, p) -> write_vmask version flags p = Ok (s, n) -> read_vmask s = Ok (version, flags, p).
Proof. exact vmask_resave. Qed.
Print Assumptions vector_mask_resave.
Theorem patterns_payload_resave : forall enc_s dec_s, codec_ok enc_s dec_s -> forall b l s n,
  bytes b -> read_patterns dec_s (S (length b)) b = Ok l -> write_patterns enc_s l = Ok (s, n) ->
  read_patterns dec_s (S (length s)) s = Ok l.
Proof. exact patterns_resave. Qed.
Print Assumptions patterns_payload_resave.

(* the descriptor family: every value, nested to any depth.  The value is re-written under the term set as it is AFTER
   the read (descriptor._TERMS is global and grows on read).  Since /repo 708c13e unconditional, given only that the
   term table the read starts from is well formed (every term 4 bytes: true of psd_tools.terminology) *)
Theorem descriptor_read_wf : forall units fuel t os b d t' r,
  read_dval units fuel t os b = Ok (d, t', r) ->
  ostype_of d = os /\ wf_dval units d = true /\ (wf_terms t = true -> wf_terms t' = true).
Proof.
  intros units fuel t os b d t' r H. destruct (read_dval_wf units fuel t os b d t' r H) as [H1 H2].
  destruct (read_dval_keys units fuel t os b d t' r H) as [H3 H4]. auto.
Qed.
Print Assumptions descriptor_read_wf.
Theorem descriptor_resave : forall units fuel t os b d t' r s n rest,
  read_dval units fuel t os b = Ok (d, t', r) -> wf_terms t = true ->
  write_dval t' d = Ok (s, n) -> read_dval units (S (length s)) t' os (s ++ rest) = Ok (d, t', rest).
Proof. exact dval_resave_all. Qed.
Print Assumptions descriptor_resave.
Theorem descriptor_block_resave : forall units two t b blk t' pad s n,
  0 < pad -> read_dblock units two t b = Ok (blk, t') -> wf_terms t = true ->
  write_dblock t' pad blk = Ok (s, n) -> read_dblock units two t' s = Ok (blk, t').
Proof. exact dblock_resave_all. Qed.
Print Assumptions descriptor_block_resave.
Theorem color_lookup_payload_resave : forall units t b ver dv d t' pad s n,
  read_color_lookup units t b = Ok (ver, dv, d, t') -> wf_terms t = true ->
  write_color_lookup t' pad ver dv d = Ok (s, n) -> read_color_lookup units t' s = Ok (ver, dv, d, t').
Proof. exact color_lookup_resave_all. Qed.
Theorem stroke_content_resave : forall units t b key version d t' pad s n,
  read_vscg units t b = Ok (key, version, d, t') -> wf_terms t = true ->
  write_vscg t' pad key version d = Ok (s, n) -> read_vscg units t' s = Ok (key, version, d, t').
Proof. exact vscg_resave_all. Qed.
Print Assumptions stroke_content_resave.

(* LinkedLayer (one item of 'lnkD' / 'lnk2' / 'lnk3' / 'lnkE'), versions 1..7, data / external / alias: the optional
   fields the reader takes by version are exactly the ones the writer emits; [lguard] = the descriptor conditions on its
   two descriptor blocks (they hold for every read since 708c13e, see above) and embedded data below 2^63 bytes *)
Theorem linked_layer_resave : forall enc_s dec_s, codec_ok enc_s dec_s ->
  forall units t b l t' r pad s n tail,
    Linked.read_linked dec_s units t b = Ok (l, t', r) -> lguard t' l = true ->
    Linked.write_linked enc_s t' pad l = Ok (s, n) ->
    exists rest', Linked.read_linked dec_s units t' (s ++ tail) = Ok (l, t', rest').
Proof. exact linked_resave. Qed.
Print Assumptions linked_layer_resave.

(* F-C02-7 (fixed by /repo 708c13e).  A DescriptorBlock whose input ends inside its last key (an Enumerated value
   'Ornt' . 'H': the length field of the enum key is 0 = "a 4-byte term follows", one byte is left).  The reader before the
   fix (Psd/Legacy.v read_key_v0) took the single byte as the key and ADDED it to the term set; the writer emits it as a
   term (length 0), the block is padded, and the re-read took 'H\0\0\0'.  The reader after the fix rejects the input. *)
Definition w7 : list Z :=
  [0;0;0;16; 0;0;0;0; 0;0;0;0; 110;117;108;108; 0;0;0;1; 0;0;0;0; 79;114;110;116; 101;110;117;109;
   0;0;0;0; 79;114;110;116; 0;0;0;0; 72].
Theorem descriptor_key_refuted_before_708c13e :
  exists k t' s n k' t'', Legacy.read_key_v0 [] [0;0;0;0; 72] = Ok (k, t', []) /\ k = [72] /\ wf_terms t' = false /\
    write_key t' k = Ok (s, n) /\ Legacy.read_key_v0 t' (s ++ [0;0;0]) = Ok (k', t'', []) /\ k' = [72;0;0;0] /\ k' <> k.
Proof.
  do 6 eexists. split; [vm_compute; reflexivity|]. split; [reflexivity|]. split; [reflexivity|].
  split; [vm_compute; reflexivity|]. split; [vm_compute; reflexivity|]. split; [reflexivity|discriminate].
Qed.
Print Assumptions descriptor_key_refuted_before_708c13e.
Example fixed_by_708c13e :
  read_dblock [] false [] w7 = Err IOErr /\
  exists blk t' s n, read_dblock [] false [] (w7 ++ [114;122;110]) = Ok (blk, t') /\ wf_terms t' = true /\
    write_dblock t' 4 blk = Ok (s, n) /\ read_dblock [] false t' s = Ok (blk, t').
Proof.
  split; [vm_compute; reflexivity|].
  do 4 eexists. split; [vm_compute; reflexivity|]. split; [vm_compute; reflexivity|].
  split; [vm_compute; reflexivity|vm_compute; reflexivity].
Qed.

(* the container level for free (Psd/Typed.v): any class reader [rd] / writer [w] pair whose values re-save, inside a
   TaggedBlock of either version, any block padding, any key (4- or 8-byte length), whatever follows the block *)
Theorem payload_in_block_resave : forall X (rd : stream -> res X) (w : X -> W) v pad b sg key x s' bs n rest,
  (pad = 1 \/ pad = 2 \/ pad = 4) ->
  read_payload_block rd v pad b = Ok (Some (sg, key, x, s')) ->
  wtruth (w x) -> (forall body m, w x = Ok (body, m) -> rd body = Ok x) ->
  write_payload_block v pad sg key (w x) = Ok (bs, n) ->
  read_payload_block rd v pad (bs ++ rest) = Ok (Some (sg, key, x, rest)).
Proof. intros X. exact (@payload_block_resave X). Qed.
Print Assumptions payload_in_block_resave.
(* instance: an 'lrFX' block read from ANY bytes re-saves *)
Example effects_block_resave : forall v pad b sg key l s' bs n rest,
  (pad = 1 \/ pad = 2 \/ pad = 4) ->
  read_payload_block read_effects v pad b = Ok (Some (sg, key, l, s')) ->
  write_payload_block v pad sg key (write_effects l) = Ok (bs, n) ->
  read_payload_block read_effects v pad (bs ++ rest) = Ok (Some (sg, key, l, rest)).
Proof.
  intros v pad b sg key l s' bs n rest Hp Hr Hw.
  apply (payload_block_resave read_effects write_effects v pad b sg key l s' bs n rest Hp Hr (EffectsProofs.wtruth_effects l)); [|exact Hw].
  intros body m Hb. unfold read_payload_block in Hr.
  destruct (read_tagged_block v pad b) as [[[tb s1]|]|]; try discriminate. cbn [bind] in Hr.
  destruct (read_effects (tb_data tb)) as [l0|] eqn:El; [|discriminate]. cbn [bind] in Hr. inversion Hr; subst.
  exact (effects_resave _ _ _ _ El Hb).
Qed.

(* ------------------------------------------------------------------ the PSDImage level: PSDImage.open(b) then save() without edits
   (Psd/ResaveApi.v; the tree model is C08's Tree/Build.v).  save() = _update_record (returns at once while nothing was
   edited) + PSD.write of the structure read: [api_save] is [write_psd] (of the structure with its section-divider payloads
   re-serialised by their class, [api_norm]), so whenever the constructor succeeds everything above applies.  What is proved here: when the constructor succeeds and when not, that opening (and even a
   forced rebuild of the record list) keeps every record in place, and that the saved file opens again with the same tree. *)
From PsdV Require Import Psd.ResaveApi Psd.ResaveApiProofs.
From PsdV Require Tree.Build.

(* the constructor's outcome is decided by the bracket structure of the divider blocks: well nested -> a tree whose
   flattening is the record list read; an unmatched folder record -> AssertionError (4); an unclosed group ->
   AttributeError (99, raised by the clipping pass).  In the last two cases the PSDImage reader does not accept the
   file: the property says nothing. *)
Theorem api_open_outcomes :
  forall d rs, api_records d = Ok rs ->
    (Tree.Build.balanced rs /\ exists f, api_open d = ApiOpened f /\ Tree.Build.build rs = Ok f /\ Tree.Build.flatten f = rs) \/
    (Tree.Build.scan 0 rs = None /\ api_open d = ApiRaised 4) \/
    (exists k, Tree.Build.scan 0 rs = Some (S k) /\ api_open d = ApiRaised Tree.Build.ATTRIBUTE_ERROR).
Proof. exact api_open_cases. Qed.
Print Assumptions api_open_outcomes.

(* _build_record_tree (Tree.Build.flatten) on the opened tree returns the (record, channels) pairs that were read, each
   once, in their order: a rebuilt record list is the list read *)
Theorem api_rebuild_is_identity :
  forall d f, api_open d = ApiOpened f ->
    pick (doc_records d) (map Tree.Build.rid (Tree.Build.flatten f)) = map Some (doc_records d).
Proof. exact api_rebuild_identity. Qed.
Print Assumptions api_rebuild_is_identity.

(* the property at the PSDImage level: accepted by PSDImage.open, below 1 GiB, outside the three classes: save()
   succeeds, the saved bytes are accepted by PSDImage.open again with the SAME layer tree, the structure is equal,
   and a second save() reproduces the bytes.  [lsct_canonical]: the section-divider payloads are what their class writes
   (4 / 12 / 16 bytes, no stray tail) - the one payload PSDImage re-serialises; the correspondence covers the rest *)
Theorem api_resave :
  forall enc_s dec_s, codec_ok enc_s dec_s ->
  forall pad b d f, bytes b -> 0 < pad -> 4 * len b + pad + 20 < 2 ^ 32 ->
    read_psd dec_s b = Ok d -> api_open d = ApiOpened f -> resave_guard d = true -> lsct_canonical d ->
    exists s n, api_save enc_s pad d = Ok (s, n) /\
      exists d', read_psd dec_s s = Ok d' /\ eqv d d' /\ api_open d' = ApiOpened f /\ lsct_canonical d' /\
                 api_save enc_s pad d' = Ok (s, n).
Proof.
  intros enc_s dec_s Hc pad b d f Hb Hp Hs Hr Ho Hg Hcan.
  destruct (resave enc_s dec_s Hc pad b d Hb Hp Hs Hr Hg) as (s & n & Hw & d' & H1 & H2 & H3).
  unfold api_save. rewrite Hcan. exists s, n. split; [exact Hw|]. exists d'. split; [exact H1|]. split; [exact H2|].
  unfold eqv in H2. subst d'. pose proof (lsct_canonical_after_write d Hcan) as Hcan'.
  split; [now rewrite api_open_after_write|]. split; [exact Hcan'|]. now rewrite Hcan'.
Qed.
Print Assumptions api_resave.

(* two nested groups around one layer / a folder record without its bounding record / a bounding record never closed *)
Definition w_api_rec (name_blocks : list Z) : list Z :=
  [0;0;0;0; 0;0;0;0; 0;0;0;1; 0;0;0;1;  0;0;  56;66;73;77; 110;111;114;109; 255; 0; 8; 0] ++
  be_bytes 4 (12 + len name_blocks) ++ [0;0;0;0;  0;0;0;0;  0;0;0;0] ++ name_blocks.
Definition w_lsct (kind : Z) : list Z := [56;66;73;77; 108;115;99;116; 0;0;0;4; 0;0;0;kind].
Definition w_api (recs : list (list Z)) : list Z :=
  let body := be_bytes 2 (len recs) ++ concat recs in
  let body := body ++ zeros (Z.to_nat (pad_count (len body) 4)) in
  hdr1 ++ [0;0;0;0; 0;0;0;0] ++ be_bytes 4 (4 + len body + 4) ++ be_bytes 4 (len body) ++ body ++ [0;0;0;0] ++ [0;0; 0].
Definition wa1 : list Z := w_api [w_api_rec (w_lsct 3); w_api_rec (w_lsct 3); w_api_rec []; w_api_rec (w_lsct 1); w_api_rec (w_lsct 2)].
Definition wa2 : list Z := w_api [w_api_rec []; w_api_rec (w_lsct 1)].
Definition wa3 : list Z := w_api [w_api_rec (w_lsct 3); w_api_rec []].
Example api_open_outcomes_witnesses :
  (exists d f, read_psd raw_codec wa1 = Ok d /\ api_open d = ApiOpened f /\ length f = 1%nat /\ resave_guard d = true /\ lsct_canonical d) /\
  (exists d, read_psd raw_codec wa2 = Ok d /\ api_open d = ApiRaised 4) /\
  (exists d, read_psd raw_codec wa3 = Ok d /\ api_open d = ApiRaised 99).
Proof.
  split; [|split].
  - do 2 eexists. split; [vm_compute; reflexivity|]. split; [vm_compute; reflexivity|]. split; [reflexivity|].
    split; [reflexivity|vm_compute; reflexivity].
  - eexists. split; [vm_compute; reflexivity|vm_compute; reflexivity].
  - eexists. split; [vm_compute; reflexivity|vm_compute; reflexivity].
Qed.
