(* C20 - no cross-document state.  The descriptor term set is the only process-wide object the
   writers consult (inventory of the others: harness, evidence/C20.json).  T0 = any initial term set,
   h = any history of byte strings read earlier in the process (other documents). *)
From PsdV Require Import Base.Prelude State.Model State.Proofs.

(* The key writer sees the term set only through membership of the key written. *)
Theorem write_key_frame : forall T T' k, mem k T = mem k T' -> write_key T k = write_key T' k.
Proof. exact Proofs.write_key_frame. Qed.
Print Assumptions write_key_frame.

(* Earlier reads only ever add terms. *)
Theorem history_monotone : forall h T k, mem k T = true -> mem k (run_history T h) = true.
Proof. exact Proofs.run_history_mono. Qed.
Print Assumptions history_monotone.

(* Full statement "bytes written for a key do not depend on the history" is false of the faithful model: *)
Theorem terms_leak_refuted : exists T0 h k,
  write_key (run_history T0 h) k <> write_key T0 k.
Proof. exists [], [[0;0;0;0;122;122;122;113]], [122;122;122;113]. vm_compute. discriminate. Qed.
Print Assumptions terms_leak_refuted.

(* ... and it fails exactly on the keys the history added (finding F-C20-1): *)
Theorem history_independent : forall T0 h k,
  mem k (added T0 h) = false -> write_key (run_history T0 h) k = write_key T0 k.
Proof. exact Proofs.history_independent. Qed.
Print Assumptions history_independent.

Theorem history_dependent : forall T0 h k,
  mem k (added T0 h) = true -> (0 < length k)%nat -> Z.of_nat (length k) <= 4294967295 ->
  exists b b', write_key (run_history T0 h) k = Ok b /\ write_key T0 k = Ok b' /\ fst b <> fst b'.
Proof. exact Proofs.history_dependent. Qed.
Print Assumptions history_dependent.

Example history_independent_hyp :
  mem [65;66;67;68] (added [[110;117;108;108]] [[0;0;0;0;122;122;122;113]]) = false
  /\ mem [122;122;122;113] (added [[110;117;108;108]] [[0;0;0;0;122;122;122;113]]) = true.
Proof. split; reflexivity. Qed.

(* Lifted to a structure: a descriptor none of whose keys was added by the history is written identically. *)
Theorem desc_history_independent : forall T0 h d,
  (forall k, In k (desc_keys d) -> mem k (added T0 h) = false) ->
  write_desc (run_history T0 h) d = write_desc T0 d.
Proof. exact Proofs.desc_history_independent. Qed.
Print Assumptions desc_history_independent.

(* What was written is read back as the same key whatever term set the reader holds
   (re-read structures compare equal despite the leak). *)
Theorem reread_equal_despite_terms : forall T T' k rest b,
  wfkey T k -> write_key T k = Ok b ->
  exists T'', read_key T' (fst b ++ rest) = Ok (k, T'', rest) /\
              (mem k T' = true \/ mem k T = false -> T'' = T').
Proof. exact Proofs.read_write_key_any. Qed.
Print Assumptions reread_equal_despite_terms.

Theorem read_write_key : forall T k rest b,
  wfkey T k -> write_key T k = Ok b -> read_key T (fst b ++ rest) = Ok (k, T, rest).
Proof. exact Proofs.read_write_key. Qed.
Print Assumptions read_write_key.

Example wfkey_hyp : wfkey [[110;117;108;108]] [110;117;108;108] /\ wfkey [[110;117;108;108]] [65;66;67;68;69].
Proof. split; split; cbn; intros; try discriminate; try reflexivity; split; cbn; lia. Qed.

Theorem write_key_truthful : forall T k b, write_key T k = Ok b -> snd b = Z.of_nat (length (fst b)).
Proof. exact Proofs.write_key_truthful. Qed.
Print Assumptions write_key_truthful.

(* The "every term has 4 bytes" invariant, which wfkey needs, survives EVERY read and every history
   (since 708c13e a key cut short by the end of the data is rejected) ... *)
Theorem read_keeps_all4 : forall T s, all4 T = true -> all4 (read_terms T s) = true.
Proof. exact Proofs.read_terms_all4. Qed.
Print Assumptions read_keeps_all4.

Theorem history_keeps_all4 : forall h T, all4 T = true -> all4 (run_history T h) = true.
Proof. exact Proofs.run_history_all4. Qed.
Print Assumptions history_keeps_all4.

(* ... while the reader before 708c13e let a truncated read put a short key into the process-wide set
   (recorded as fixed in known_findings/C20.json, F-C20-2). *)
Theorem short_key_poison_refuted_before_708c13e :
  exists T s, all4 T = true /\ all4 (read_terms_v0 T s) = false.
Proof. exists [], [0;0;0;0;97;98]. split; reflexivity. Qed.
Print Assumptions short_key_poison_refuted_before_708c13e.

Example short_key_now_rejected : read_key [] [0;0;0;0;97;98] = Err IOErr.
Proof. reflexivity. Qed.
