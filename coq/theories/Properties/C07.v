(* C07 - imported pixels come back unchanged (plane plumbing of frompil / save / export).
   Only the property theorems; every proof is [exact] of a lemma of Pixels/Proofs.v or a computation.
   All statements hold for every width, height and content.  [conv] is PIL's Image.convert, about
   which only the two stated laws are assumed (both are tested on every generated image).
   The configuration [c : cfg] says which corrections are in the tree (Pixels/Model.v); the harness
   derives it from known_findings/C07.json. *)
From PsdV Require Import Base.Prelude Pixels.Model Pixels.Corr Pixels.Proofs Pixels.File.
Open Scope Z_scope.

(* ---------------------------------------------------------------- CMYK inversion *)
(* 1. 255 - (255 - x) = x, lifted to planes and rasters: inverting on import and on export cancels *)
Theorem inversion_involution : forall p, inv_plane (inv_plane p) = p.
Proof. exact Proofs.inv_plane_inv. Qed.
Print Assumptions inversion_involution.

Theorem inversion_involution_raster : forall r, invert (invert r) = r.
Proof. exact Proofs.invert_invert. Qed.
Print Assumptions inversion_involution_raster.

Theorem inversion_bytes : forall p, bytes p -> bytes (inv_plane p) /\ length (inv_plane p) = length p.
Proof. intros p H. split; [now apply Proofs.inv_plane_bytes | apply Proofs.inv_plane_length]. Qed.
Print Assumptions inversion_bytes.

(* ---------------------------------------------------------------- layers *)
(* 2. an image of mode L, LA, RGB, RGBA or CMYK imported as a layer of a document of the same PIL
   mode and exported with topil() comes back sample for sample (with an opaque alpha band added
   where the image had none); any size, any offset, both before and after correction F-C07-2 *)
Theorem layer_roundtrip : forall conv,
  (forall r, conv (r_mode r) r = r) ->
  (forall r, has_alpha (r_mode r) = true -> last_band (conv MRGBA r) = last_band r) ->
  forall c img top left,
  wf_raster img -> 1 <= r_w img -> 1 <= r_h img -> r_mode img <> M1 ->
  layer_topil (color_mode_of (r_mode img)) (layer_frompil conv c (Some (r_mode img)) img top left)
  = Ok (Some (with_opaque img)).
Proof. exact Proofs.layer_roundtrip. Qed.
Print Assumptions layer_roundtrip.
Example layer_roundtrip_hyp :
  let img := gen_raster MCMYK 3 2 7 5 2 in
  wf_raster img /\ 1 <= r_w img /\ 1 <= r_h img /\ r_mode img <> M1 /\
  (forall r, conv_simple (r_mode r) r = r) /\
  (forall r, has_alpha (r_mode r) = true -> last_band (conv_simple MRGBA r) = last_band r).
Proof.
  split; [|split; [|split; [|split; [|split]]]]; try (cbn; lia); try discriminate.
  - split; [cbn; lia|]. split; [cbn; lia|]. split; [reflexivity|].
    repeat constructor; vm_compute; intuition discriminate.
  - exact conv_simple_same.
  - exact conv_simple_alpha.
Qed.

(* 3. the NumPy export of that layer: the stored colour planes (CMYK is stored inverted) and alpha *)
Theorem layer_numpy_roundtrip : forall conv,
  (forall r, conv (r_mode r) r = r) ->
  (forall r, has_alpha (r_mode r) = true -> last_band (conv MRGBA r) = last_band r) ->
  forall c img top left, wf_raster img -> r_mode img <> M1 ->
  layer_numpy (color_mode_of (r_mode img)) (layer_frompil conv c (Some (r_mode img)) img top left)
  = (if mode_eqb (r_mode img) MCMYK then map inv_plane (r_bands img) else color_bands img)
    ++ [if has_alpha (r_mode img) then last_band img else opaque (r_w img) (r_h img)].
Proof. exact Proofs.layer_numpy_roundtrip. Qed.
Print Assumptions layer_numpy_roundtrip.

(* 4. PIL export and NumPy export of ANY layer record agree on the integer samples: identical for
   grayscale and RGB; for CMYK the PIL image is the stored planes inverted (PIL's CMYK convention,
   pil_io.post_process) while NumPy returns the stored planes - the same channels, read as
   "agree" up to that documented inversion *)
Theorem pil_numpy_agree_layer : forall cm l r,
  layer_topil cm l = Ok (Some r) ->
  match cm with
  | CGray | CRgb => r_bands r = layer_numpy cm l
  | CCmyk => map inv_plane (r_bands r) ++
             match find_chan (-1) l with Some a => [a] | None => [] end = layer_numpy cm l
  | CBitmap => True
  end.
Proof. exact Proofs.pil_numpy_agree_layer. Qed.
Print Assumptions pil_numpy_agree_layer.
Example pil_numpy_agree_layer_hyp :
  exists r, layer_topil CCmyk (layer_frompil conv_simple fixed (Some MCMYK) (gen_raster MCMYK 2 2 1 5 0) 3 (-1))
            = Ok (Some r).
Proof. eexists. vm_compute. reflexivity. Qed.

(* 5. with correction F-C07-2 the layer's transparency channel is the image's alpha band whatever
   the document's mode is (3-channel RGB, 1-channel grayscale, CMYK, or no document at all) *)
Theorem layer_alpha_kept : forall conv,
  (forall r, has_alpha (r_mode r) = true -> last_band (conv MRGBA r) = last_band r) ->
  forall c docpm img top left,
  fx_alpha c = true -> r_mode img <> M1 -> has_alpha (r_mode img) = true ->
  find_chan (-1) (layer_frompil conv c docpm img top left) = Some (last_band img).
Proof. intros conv H. exact (Proofs.layer_alpha_kept conv H). Qed.
Print Assumptions layer_alpha_kept.

(* without it (the tree before 51041e9) the full statement is false: an RGBA image placed in a
   3-channel RGB document comes back opaque.  Witness replayed on the code: harness F-C07-2 *)
Theorem rgba_into_rgb3_drops_alpha_refuted : exists conv img,
  (forall r, conv (r_mode r) r = r) /\
  (forall r, has_alpha (r_mode r) = true -> last_band (conv MRGBA r) = last_band r) /\
  wf_raster img /\ r_mode img = MRGBA /\
  find_chan (-1) (layer_frompil conv unfixed (Some MRGB) img 0 0) = Some (opaque (r_w img) (r_h img)) /\
  opaque (r_w img) (r_h img) <> last_band img.
Proof.
  exists conv_simple, (mkR MRGBA 1 1 [[7]; [20]; [33]; [46]]).
  split; [exact conv_simple_same|]. split; [exact conv_simple_alpha|].
  split; [|split; [reflexivity|split; [reflexivity|discriminate]]].
  split; [cbn; lia|]. split; [cbn; lia|]. split; [reflexivity|].
  repeat constructor; vm_compute; intuition discriminate.
Qed.
Print Assumptions rgba_into_rgb3_drops_alpha_refuted.

(* ---------------------------------------------------------------- documents *)
(* 6. PSDImage.frompil, any compression, then topil(): what comes back, mode by mode.  L, LA, RGB:
   the image.  CMYK: the image iff correction F-C07-1 is in, its inverse otherwise.  RGBA: the
   readers remove a white background, so the image comes back through [unmatte], preceded by
   [matte] only if correction F-C07-4 is in. *)
Theorem doc_roundtrip : forall conv c cmp img,
  wf_raster img -> 1 <= r_w img -> 1 <= r_h img -> r_mode img <> M1 ->
  doc_export conv c cmp img =
  Ok (match r_mode img with
      | MCMYK => if fx_cmyk c then img else invert img
      | MRGBA => if fx_matte c then unmatte (matte img) else unmatte img
      | _ => img
      end).
Proof. exact Proofs.doc_export_spec. Qed.
Print Assumptions doc_roundtrip.

(* F-C07-1 (corrected by 4645852): before the correction every CMYK document came back inverted *)
Theorem doc_cmyk_inverted_refuted : exists img cmp,
  wf_raster img /\ r_mode img = MCMYK /\
  doc_export conv_simple unfixed cmp img = Ok (invert img) /\ invert img <> img.
Proof.
  exists (mkR MCMYK 1 1 [[7]; [20]; [33]; [46]]), RLE.
  split; [|split; [reflexivity|split; [vm_compute; reflexivity|discriminate]]].
  split; [cbn; lia|]. split; [cbn; lia|]. split; [reflexivity|].
  repeat constructor; vm_compute; intuition discriminate.
Qed.
Print Assumptions doc_cmyk_inverted_refuted.

(* the white matte: exact on opaque pixels, alpha always exact, and on a partially transparent pixel
   off by at most 127/a + 1 (the 8-bit quantisation of the matte; no exact storage exists) *)
Theorem matte_roundtrip_alpha : forall r, r_mode r = MRGBA -> last_band (unmatte (matte r)) = last_band r.
Proof. exact Proofs.unmatte_matte_alpha. Qed.
Print Assumptions matte_roundtrip_alpha.

Theorem matte_roundtrip_opaque : forall p a,
  bytes p -> length a = length p -> Forall (fun x => x = 255) a ->
  zipw unmatte_px (zipw matte_px p a) a = p.
Proof. exact Proofs.zipw_matte_unmatte_opaque. Qed.
Print Assumptions matte_roundtrip_opaque.

Theorem matte_roundtrip_bound : forall x a, byte x -> 0 < a <= 255 ->
  Z.abs (unmatte_px (matte_px x a) a - x) <= 127 / a + 1.
Proof. exact Proofs.matte_unmatte_bound. Qed.
Print Assumptions matte_roundtrip_bound.

(* F-C07-4 (open): the tree stores the straight colour, and the error is not a quantisation effect:
   a pixel (200, alpha 100) comes back as 114 *)
Theorem doc_rgba_straight_refuted : exists img cmp r,
  wf_raster img /\ r_mode img = MRGBA /\
  doc_export conv_simple (mkCfg true true false false false false) cmp img = Ok r /\
  last_band r = last_band img /\
  exists x y a, r_bands img = [[x]; [x]; [x]; [a]] /\ r_bands r = [[y]; [y]; [y]; [a]] /\
                Z.abs (y - x) > 127 / a + 1.
Proof.
  exists (mkR MRGBA 1 1 [[200]; [200]; [200]; [100]]), ZIP. eexists.
  split; [|split; [reflexivity|split; [vm_compute; reflexivity|split; [reflexivity|]]]].
  - split; [cbn; lia|]. split; [cbn; lia|]. split; [reflexivity|].
    repeat constructor; vm_compute; intuition discriminate.
  - exists 200, 114, 100. repeat split; vm_compute; reflexivity.
Qed.
Print Assumptions doc_rgba_straight_refuted.

(* F-C07-5 (open): a mode "1" image gives a Bitmap header of depth 8 over bit-packed planes; nothing
   can be read back from it (3x2 pixels: 2 bytes stored, 6 expected) *)
Theorem doc_bitmap_unreadable_refuted : exists img,
  wf_raster img /\ r_mode img = M1 /\
  (forall cmp, exists e, doc_export conv_simple (mkCfg true true false false false false) cmp img = Err e) /\
  exists r, doc_export conv_simple fixed RLE img = Ok r.
Proof.
  exists (gen_raster M1 3 2 0 5 0).
  split; [|split; [reflexivity|split]].
  - split; [cbn; lia|]. split; [cbn; lia|]. split; [reflexivity|].
    repeat constructor; vm_compute; intuition discriminate.
  - intros []; eexists; vm_compute; reflexivity.
  - eexists. vm_compute. reflexivity.
Qed.
Print Assumptions doc_bitmap_unreadable_refuted.

(* 7. the NumPy export of such a document returns the stored planes; with [doc_roundtrip]: PIL and
   NumPy agree sample for sample on L, LA, RGB, and up to PIL's CMYK inversion on CMYK *)
Theorem doc_numpy_export : forall conv c cmp img,
  wf_raster img -> 1 <= r_w img -> 1 <= r_h img ->
  r_mode img = ML \/ r_mode img = MLA \/ r_mode img = MRGB \/ r_mode img = MCMYK ->
  doc_export_np conv c cmp img =
  Ok (if mode_eqb (r_mode img) MCMYK && fx_cmyk c then map inv_plane (r_bands img) else r_bands img).
Proof. exact Proofs.doc_export_np_spec. Qed.
Print Assumptions doc_numpy_export.

Theorem pil_numpy_agree_doc : forall conv c cmp img r ps,
  wf_raster img -> 1 <= r_w img -> 1 <= r_h img ->
  r_mode img = ML \/ r_mode img = MLA \/ r_mode img = MRGB \/ r_mode img = MCMYK ->
  doc_export conv c cmp img = Ok r -> doc_export_np conv c cmp img = Ok ps ->
  ps = if mode_eqb (r_mode img) MCMYK then map inv_plane (r_bands r) else r_bands r.
Proof.
  intros conv c cmp img r ps Hwf Hw Hh Hm Hr Hp.
  rewrite Proofs.doc_export_np_spec in Hp by assumption.
  rewrite Proofs.doc_export_spec in Hr
    by (try assumption; destruct Hm as [E|[E|[E|E]]]; rewrite E; discriminate).
  inversion Hp; inversion Hr; subst; clear Hp Hr.
  destruct Hm as [E|[E|[E|E]]]; rewrite E; cbn [mode_eqb mode_code Z.eqb Pos.eqb andb]; try reflexivity.
  destruct (fx_cmyk c); cbn [invert r_bands]; [reflexivity|].
  now rewrite Proofs.inv_planes_inv.
Qed.
Print Assumptions pil_numpy_agree_doc.

(* ---------------------------------------------------------------- ImageData container *)
(* 8. set_data then get_data is the identity when the planes fit the header (one plane per declared
   channel, each of height*width*bytes-per-sample), for all four compression methods *)
Theorem set_get_inverse : forall c hd ps, header_ok hd -> planes_fit hd ps ->
  (do st <- set_data c hd ps; get_data st hd) = Ok ps.
Proof. exact Proofs.set_get_inverse. Qed.
Print Assumptions set_get_inverse.
Example set_get_inverse_hyp :
  header_ok (mkH CRgb 3 2 1 16) /\ planes_fit (mkH CRgb 3 2 1 16) [[0;1;2;3]; [4;5;6;7]; [8;9;10;11]].
Proof.
  split; [unfold header_ok, depth_ok; cbn; lia|].
  split; [reflexivity| repeat constructor].
Qed.

(* ... and not otherwise: four planes into a three-channel header are silently cut to three with
   RAW and RLE and cannot be read back at all with ZIP *)
Theorem set_get_mismatch_refuted : exists hd ps,
  header_ok hd /\ zlen ps <> h_channels hd /\
  (do st <- set_data RAW hd ps; get_data st hd) = Ok (firstn 3 ps) /\
  (do st <- set_data RLE hd ps; get_data st hd) = Ok (firstn 3 ps) /\
  (do st <- set_data ZIP hd ps; get_data st hd) = Err AssertErr /\
  (do st <- set_data ZIPP hd ps; get_data st hd) = Err AssertErr.
Proof.
  exists (mkH CRgb 3 2 1 8), [[1;2]; [3;4]; [5;6]; [7;8]].
  split; [unfold header_ok, depth_ok; cbn; lia|].
  split; [discriminate|]. repeat split; vm_compute; reflexivity.
Qed.
Print Assumptions set_get_mismatch_refuted.

(* 9. every channel of a layer (one plane of width*height 8-bit samples, stored through
   ChannelData.set_data = the same container with a single plane) survives storage with each of
   the four compression methods *)
Theorem layer_channel_storage : forall c cm w h p,
  1 <= w -> 1 <= h -> zlen p = w * h ->
  (do st <- set_data c (mkH cm 1 w h 8) [p]; get_data st (mkH cm 1 w h 8)) = Ok [p].
Proof.
  intros c cm w h p Hw Hh Hp. apply Proofs.set_get_inverse.
  - unfold header_ok, depth_ok; cbn; lia.
  - split; [reflexivity|]. constructor; [|constructor].
    unfold plane_bytes. cbn [h_w h_h h_depth]. change (bps 8) with 1. lia.
Qed.
Print Assumptions layer_channel_storage.

Example layer_alpha_kept_hyp :
  fx_alpha fixed = true /\ r_mode (gen_raster MLA 2 2 9 5 2) <> M1 /\
  has_alpha (r_mode (gen_raster MLA 2 2 9 5 2)) = true /\
  find_chan (-1) (layer_frompil conv_simple fixed (Some MCMYK) (gen_raster MLA 2 2 9 5 2) 0 0)
    = Some (last_band (gen_raster MLA 2 2 9 5 2)).
Proof. repeat split; try discriminate; vm_compute; reflexivity. Qed.

Example doc_roundtrip_hyp :
  doc_export conv_simple (mkCfg true true false false false false) ZIPP (gen_raster MCMYK 3 2 1 7 0)
  = Ok (gen_raster MCMYK 3 2 1 7 0).
Proof. vm_compute. reflexivity. Qed.

(* ---------------------------------------------------------------- every channel selector *)
(* 10. single channels: topil(k) is plane k of numpy(), numpy("shape") is the plane that
   topil(TRANSPARENCY_MASK) returns, and a layer's numpy() is numpy("color") followed by numpy("shape") *)
Theorem doc_channel_agree : forall hd st k p ps, h_cm hd <> CRgb -> 0 <= k ->
  doc_topil_chan hd st k = Ok (Some p) -> doc_numpy_sel hd st true 0 = Ok ps ->
  nth_error ps (Z.to_nat k) = Some p.
Proof. exact Proofs.doc_channel_agree. Qed.
Print Assumptions doc_channel_agree.

Theorem doc_shape_agree : forall hd st a b,
  h_cm hd <> CRgb -> h_cm hd <> CBitmap -> h_channels hd = cm_channels (h_cm hd) + 1 -> header_ok hd ->
  doc_numpy_sel hd st true 2 = Ok [a] -> doc_topil_transparency hd st = Ok (Some b) -> a = b.
Proof. exact Proofs.doc_shape_agree. Qed.
Print Assumptions doc_shape_agree.
Example doc_shape_agree_hyp :
  let hd := mkH CGray 2 2 1 8 in let st := mkI ZIP [1;2;9;8] in
  header_ok hd /\ doc_numpy_sel hd st true 2 = Ok [[9;8]] /\ doc_topil_transparency hd st = Ok (Some [9;8]).
Proof. cbv zeta. split; [unfold header_ok, depth_ok; cbn; lia|]. split; vm_compute; reflexivity. Qed.

Theorem layer_numpy_is_color_then_shape : forall cm l,
  layer_numpy cm l = layer_numpy_color cm l ++ layer_numpy_shape l.
Proof. exact Proofs.layer_numpy_split. Qed.
Print Assumptions layer_numpy_is_color_then_shape.

(* ---------------------------------------------------------------- through the codecs and the file *)
(* 11. END TO END with the modelled codecs (C04/C05) and the modelled file (C01): the image is imported
   with PixelLayer.frompil, every channel goes through ChannelData.set_data with any of the four
   compression methods, the document (8-bit, file version 1 or 2, any other content) is written to
   bytes, the bytes are read, the channels decoded with the depth and version of the re-read header,
   and the layer is exported.  zlib is any pair with the inverse law, the RLE decoder any conforming
   decoder (both implementations are, C05); the charset codec of the file model is arbitrary. *)
Theorem layer_import_export_through_file :
  forall zc zd, (forall x, zd (zc x) = Some x) ->
  forall rdec, CPr.conforming_decoder rdec ->
  forall enc_s dec_s conv,
  (forall r, conv (r_mode r) r = r) ->
  (forall r, has_alpha (r_mode r) = true -> last_band (conv MRGBA r) = last_band r) ->
  forall pad d i cfg0 img top left c cds bs n,
  0 < pad -> PM.wf_psd enc_s dec_s d = true -> PM.h_depth (PM.p_header d) = 8 ->
  wf_raster img -> 1 <= r_w img -> 1 <= r_h img -> r_mode img <> M1 ->
  let l := layer_frompil conv cfg0 (Some (r_mode img)) img top left in
  store_layer zc c (PM.h_version (PM.p_header d)) l = Ok cds ->
  nth_error (CF.chans_of d) i = Some cds ->
  PM.write_psd enc_s pad d = Ok (bs, n) ->
  exists d2 l2, PM.read_psd dec_s bs = Ok d2 /\
    nth_error (CF.chans_of d2) i = Some cds /\
    load_layer zd rdec l (PM.h_depth (PM.p_header d2)) (PM.h_version (PM.p_header d2)) cds = Ok l2 /\
    layer_topil (color_mode_of (r_mode img)) l2 = Ok (Some (with_opaque img)) /\
    layer_numpy (color_mode_of (r_mode img)) l2 = stored_color img ++ [stored_alpha img].
Proof.
  intros zc zd Hz rdec Hr enc_s dec_s conv H1 H2.
  exact (File.layer_import_export_through_file zc zd Hz rdec Hr enc_s dec_s conv H1 H2).
Qed.
Print Assumptions layer_import_export_through_file.

(* 12. the same for PSDImage.frompil: planes -> ImageData.set_data (any compression) -> image-data
   section of a well-formed document with the header frompil made (any file version) -> bytes ->
   read -> ImageData.get_data -> topil() *)
Theorem doc_import_export_through_file :
  forall zc zd, (forall x, zd (zc x) = Some x) ->
  forall rdec, CPr.conforming_decoder rdec ->
  forall enc_s dec_s conv pad cfg0 img c d d1 bs n,
  0 < pad ->
  wf_raster img -> 1 <= r_w img -> 1 <= r_h img -> r_mode img <> M1 ->
  let hp := doc_frompil_planes conv cfg0 img in
  PM.h_width (PM.p_header d) = h_w (fst hp) -> PM.h_height (PM.p_header d) = h_h (fst hp) ->
  PM.h_channels (PM.p_header d) = h_channels (fst hp) -> PM.h_depth (PM.p_header d) = 8 ->
  CF.store_image zc c (snd hp) d = Ok d1 ->
  PM.wf_psd enc_s dec_s d1 = true ->
  PM.write_psd enc_s pad d1 = Ok (bs, n) ->
  exists d2, PM.read_psd dec_s bs = Ok d2 /\
    CF.image_pixels zd rdec d2 = Ok (snd hp) /\
    topil_of_planes (fst hp) (snd hp) (doc_has_transparency (fst hp) 0) =
      match r_mode img with
      | MCMYK => if fx_cmyk cfg0 then img else invert img
      | MRGBA => if fx_matte cfg0 then unmatte (matte img) else unmatte img
      | _ => img
      end.
Proof.
  intros zc zd Hz rdec Hr enc_s dec_s conv.
  exact (File.doc_import_export_through_file zc zd Hz rdec Hr enc_s dec_s conv).
Qed.
Print Assumptions doc_import_export_through_file.

(* any layer of 8-bit planes, whatever produced it, survives the file with every codec and version *)
Theorem layer_survives_file :
  forall zc zd, (forall x, zd (zc x) = Some x) ->
  forall rdec, CPr.conforming_decoder rdec ->
  forall enc_s dec_s pad d i l c cds bs n,
  0 < pad -> PM.wf_psd enc_s dec_s d = true -> PM.h_depth (PM.p_header d) = 8 ->
  Forall (fun p => CP.raster p (l_right l - l_left l) (l_bottom l - l_top l) 8) (map snd (l_chans l)) ->
  store_layer zc c (PM.h_version (PM.p_header d)) l = Ok cds ->
  nth_error (CF.chans_of d) i = Some cds ->
  PM.write_psd enc_s pad d = Ok (bs, n) ->
  exists d2, PM.read_psd dec_s bs = Ok d2 /\
    nth_error (CF.chans_of d2) i = Some cds /\
    load_layer zd rdec l (PM.h_depth (PM.p_header d2)) (PM.h_version (PM.p_header d2)) cds = Ok l.
Proof.
  intros zc zd Hz rdec Hr enc_s dec_s.
  exact (File.layer_survives_file zc zd Hz rdec Hr enc_s dec_s).
Qed.
Print Assumptions layer_survives_file.

(* ---------------------------------------------------------------- 16 / 32-bit documents (F-C07-7) *)
(* 13. with the proposed correction the samples of a layer are widened to the depth of the document:
   a 16-bit sample is the byte twice (x * 257), which both readers map back to x exactly *)
Theorem deep16_numpy_exact : forall v, byte v -> dec16_np v v = v.
Proof. exact Proofs.dec16_np_enc. Qed.
Print Assumptions deep16_numpy_exact.
Theorem deep16_pil_exact : forall v, byte v -> dec16_pil v v = v.
Proof. exact Proofs.dec16_pil_enc. Qed.
Print Assumptions deep16_pil_exact.

(* the tree as it is stores 8-bit planes, which a 16/32-bit document cannot decode: the export fails
   for every layer; with the correction it is the 8-bit export *)
Theorem deep_layer_export_refuted : forall c depth cm l,
  fx_deep c = false -> depth <> 8 -> exists e, layer_topil_depth c depth cm l = Err e.
Proof.
  intros c depth cm l Hf Hd. unfold layer_topil_depth. rewrite Hf.
  destruct (depth =? 8) eqn:E; [lia|]. eexists. reflexivity.
Qed.
Print Assumptions deep_layer_export_refuted.
Theorem deep_layer_export : forall c depth cm l,
  fx_deep c = true -> layer_topil_depth c depth cm l = layer_topil cm l.
Proof. intros c depth cm l Hf. unfold layer_topil_depth. rewrite Hf. now rewrite orb_true_r. Qed.
Print Assumptions deep_layer_export.
