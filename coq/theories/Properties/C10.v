(* C10 -- the layer tree stays well-formed under every edit history.

   Model: Edit/Model.v (state = forest of ids + the stored fields of every object; operations mirror
   the code's order of effects; [conf] selects the code variant, all false = the pinned tree).
   Invariant (Edit/Inv.v):  Inv s = I1 (a listed child's stored _parent is its lister)
                                 /\ I2 (no object is listed twice, anywhere: NoDup of all listed ids)
                                 /\ I3 (the stored _psd is inherited along every listing edge)
                                 /\ W  (containers list layers; exactly the allocated ids occur; no cycle flag).
   No cycle can be expressed in the forest: "no group is its own ancestor" is I2 on rose trees. *)
From PsdV Require Import Base.Prelude Edit.Model Edit.Corr Edit.Inv Edit.Forest Edit.ProofsInv Edit.ProofsTree Edit.ProofsRefuse Edit.Spec Edit.ProofsMoves Edit.ProofsCoh Edit.ProofsClip.
Open Scope Z_scope.

(* ---------------------------------------------------------------- the invariant, for all states and operations *)

(* One step.  [guard] (Edit/ProofsInv.v): the operation names existing objects; a layer handed to
   append / extend / insert / item assignment is detached; an extend list has no repetition and (before
   repair 543e601) does not contain the group itself; the clipping flag is only assigned on the variant
   where descendants() ignores clip_layers.  [quiet]: descendants() does not walk clip lists (variant
   b1bb75f) or all clip lists are empty.  delete_layer / move_to_group / move_up / move_down / Group.new /
   group_layers / remove / pop / clear / del need no guard beyond existing objects. *)
Theorem step_inv : forall s o, Inv s -> quiet s -> guard s o -> Inv (fst (step s o)) /\ quiet (fst (step s o)).
Proof. intros s o HI Q G. destruct (step_ok s o (conj HI Q) G) as [[A B] _]. split; assumption. Qed.
Print Assumptions step_inv.

(* All histories, all lengths: every state reached from the empty state through guarded operations *)
Theorem reachable_inv : forall c h, cfg_ok c -> guards (empty_state_v c) h -> Inv (run (empty_state_v c) h).
Proof. intros c h Hc Hg. apply (reachable_good c h Hc Hg). Qed.
Print Assumptions reachable_inv.

Theorem history_inv : forall h s, Inv s -> quiet s -> guards s h -> Inv (run s h).
Proof. intros h s HI Q Hg. apply (run_good h s (conj HI Q) Hg). Qed.
Print Assumptions history_inv.

(* the hypotheses are satisfiable by non-trivial values: scene 1 (nested groups) and a guarded history on it *)
Definition cfg_now : cfg := mkCfg true true true true true.   (* /repo at the time of writing *)
Example inv_scene1 : Inv (run (empty_state_v cfg_now) init1) /\ quiet (run (empty_state_v cfg_now) init1).
Proof. split; [apply Invb_iff; vm_compute; reflexivity | left; reflexivity]. Qed.
Example guarded_history_scene1 :
  guards (run (empty_state_v cfg_now) init1) [MoveToGroup 3 0; Insert 2 (-1) 6; GroupLayers [4; 5] None; MoveUp 7 (-2)].
Proof. apply guardsb_ok. vm_compute. reflexivity. Qed.

(* what Inv means for the user-visible statements of the property *)
Theorem listed_child_reports_lister : forall s g c,
  Inv s -> In g (ids_l (roots s)) -> In c (kid_ids s g) -> oparent (objs s c) = Some g.
Proof. intros s g c HI Hg Hc. apply (I1_parent s g c HI Hc Hg). Qed.
Print Assumptions listed_child_reports_lister.

Theorem layer_reports_root_document : forall s d x,
  Inv s -> kind s d = KDoc -> In x (ids_l (kids_of s d)) -> opsd (objs s x) = Some d.
Proof. exact I3_global. Qed.
Print Assumptions layer_reports_root_document.

Theorem no_layer_reachable_twice : forall s, Inv s -> NoDup (ids_l (roots s)).
Proof. exact inv_nodup. Qed.
Print Assumptions no_layer_reachable_twice.

(* ---------------------------------------------------------------- traversal and search *)
Theorem traversal_once : forall s g, Inv s -> quiet s ->
  descendants s g = ids_l (kids_of s g) /\ NoDup (descendants s g).
Proof. exact ProofsTree.traversal_once. Qed.
Print Assumptions traversal_once.

Theorem find_visits_once : forall s g x, Inv s -> quiet s ->
  count_z x (descendants s g) = if memz x (ids_l (kids_of s g)) then 1 else 0.
Proof. exact find_once. Qed.
Print Assumptions find_visits_once.

(* ---------------------------------------------------------------- refused operations *)
(* [same_tree s s']: forest, allocation and every stored field except bbox caches and the dirty flag agree.
   An operation of the list protocol (append, extend, insert, item assignment / deletion, remove, pop),
   delete_layer, a setter or a read-only operation that answers an error -- AssertionError for the group
   itself / a non-layer / a reference loop, IndexError, ValueError, AttributeError -- leaves the tree
   unchanged, from ANY state (no invariant needed).  The side condition excludes exactly the class of
   extend_self_refuted (the list cycle). *)
Theorem refused_unchanged : forall s o c,
  early_refusing o = true -> snd (step s o) = Fail c -> corrupt (fst (step s o)) = corrupt s ->
  same_tree s (fst (step s o)).
Proof. exact refused_unchanged_l. Qed.
Print Assumptions refused_unchanged.

Theorem move_into_self_or_descendant_refused : forall s x g,
  corrupt s = false -> is_layer s x = true ->
  (is_container s g = false \/ g = x \/ (kind s x = KGroup /\ In g (descendants s x))) ->
  (exists c, snd (step s (MoveToGroup x g)) = Fail c) /\ same_tree s (fst (step s (MoveToGroup x g))).
Proof. exact move_to_group_refused_unchanged. Qed.
Print Assumptions move_into_self_or_descendant_refused.

(* From states satisfying the invariant, move_to_group / move_up / move_down cannot fail once they have
   removed the layer from its list (the second validity check sees the same subtree as the first; a
   lister is never below its member): every error of these operations leaves the tree unchanged. *)
Theorem move_to_group_refused_unchanged : forall s x g c,
  Inv s -> quiet s -> alloc_ok s x -> alloc_ok s g -> snd (step s (MoveToGroup x g)) = Fail c ->
  same_tree s (fst (step s (MoveToGroup x g))).
Proof. intros s x g c HI Q. apply move_to_group_refused_unchanged_all. split; assumption. Qed.
Print Assumptions move_to_group_refused_unchanged.

Theorem move_up_down_refused_unchanged : forall s x off c,
  Inv s -> quiet s -> alloc_ok s x ->
  (snd (step s (MoveUp x off)) = Fail c -> same_tree s (fst (step s (MoveUp x off))))
  /\ (snd (step s (MoveDown x off)) = Fail c -> same_tree s (fst (step s (MoveDown x off)))).
Proof.
  intros s x off c HI Q Hx. split; intro H;
    [apply (move_up_refused_unchanged s x off c (conj HI Q) Hx H) | apply (move_down_refused_unchanged s x off c (conj HI Q) Hx H)].
Qed.
Print Assumptions move_up_down_refused_unchanged.

(* Group.group_layers of existing layers (finding F-C10-4, characterised): whenever it answers an error,
   (a) the error comes from the final parent.append(group), raised exactly because the resolved parent
   (explicit, or layers[0]._parent) lies inside the new group after the moves, and (b) ALL the layers have
   already been moved: every child list is what moving them into the new group gives.  So the refusal
   never leaves the tree unchanged (see group_layers_late_refusal_refuted for a witness on every variant). *)
Theorem group_layers_refusal_characterised : forall s x0 r parent c,
  Inv s -> quiet s ->
  Forall (fun x => alloc_ok s x /\ is_layer s x = true) (x0 :: r) -> (forall p, parent = Some p -> alloc_ok s p) ->
  snd (step s (GroupLayers (x0 :: r) parent)) = Fail c ->
  let n := next s in
  let s2 := fst (move_all (alloc s new_group_obj) (x0 :: r) n) in
  (exists p, match parent with Some q => Some q | None => oparent (objs s x0) end = Some p
             /\ is_container s p = true /\ In p (descendants s2 n))
  /\ (forall a, kid_ids (fst (step s (GroupLayers (x0 :: r) parent))) a
                = sp_move_all (all_ids s ++ [n]) (kid_ids s) (x0 :: r) n a).
Proof. intros s x0 r parent c HI Q. apply group_layers_refusal. split; assumption. Qed.
Print Assumptions group_layers_refusal_characterised.

Example refusal_example :
  let s := run (empty_state_v cfg_now) init1 in
  snd (step s (MoveToGroup 1 2)) = Fail E_ASSERT /\ snd (step s (Insert 2 0 1)) = Fail E_ASSERT
  /\ snd (step s (Pop 2 5)) = Fail E_INDEX.
Proof. repeat split; vm_compute; reflexivity. Qed.

(* ---------------------------------------------------------------- what the faithful model refutes *)
(* each witness is replayed on the real code by harness/vh/c10.py; variants: cfg0 = the pinned tree *)

(* F-C10-1 (open): a layer that is still listed elsewhere is accepted and breaks parent/uniqueness *)
Theorem insert_listed_refuted :
  exists s o, Inv s /\ snd (step s o) = Done [] /\ ~ I1 (fst (step s o)) /\ ~ I2 (fst (step s o)).
Proof.
  exists (run empty_state init4), (Append 0 3).
  split; [apply Invb_iff; vm_compute; reflexivity|].
  split; [vm_compute; reflexivity|].
  split; intro H; [apply I1b_iff in H | apply I2b_iff in H]; vm_compute in H; discriminate.
Qed.
Print Assumptions insert_listed_refuted.

(* ... on every variant, also the current one *)
Theorem insert_listed_refuted_all_variants : forall c : cfg,
  exists s o, Inv s /\ snd (step s o) = Done [] /\ ~ I2 (fst (step s o)).
Proof.
  intro c. exists (run (empty_state_v c) init4), (Append 0 3).
  destruct c as [[] [] [] [] []];
    (split; [apply Invb_iff; vm_compute; reflexivity|];
     split; [vm_compute; reflexivity|];
     intro H; apply I2b_iff in H; vm_compute in H; discriminate).
Qed.
Print Assumptions insert_listed_refuted_all_variants.

(* F-C10-2 (fixed by 543e601): g.extend([g]) passes the validity check, mutates, then RecursionError *)
Theorem extend_self_refuted :
  exists s o, Inv s /\ snd (step s o) = Fail E_RECURSION /\ corrupt (fst (step s o)) = true.
Proof.
  exists (run empty_state init0), (Extend 5 [5]).
  split; [apply Invb_iff; vm_compute; reflexivity|].
  split; vm_compute; reflexivity.
Qed.
Print Assumptions extend_self_refuted.
(* with the repair the same call is refused with AssertionError and the forest is untouched *)
Theorem extend_self_refused_after_repair :
  let s := run (empty_state_v (mkCfg false true false false false)) init0 in
  snd (step s (Extend 5 [5])) = Fail E_ASSERT /\ roots (fst (step s (Extend 5 [5]))) = roots s.
Proof. split; vm_compute; reflexivity. Qed.

(* F-C10-3 (fixed by b1bb75f): descendants() yields every clipping layer twice *)
Theorem descendants_twice_refuted :
  exists s g, Inv s /\ ~ NoDup (descendants s g).
Proof.
  exists (run empty_state init2), 0.
  split; [apply Invb_iff; vm_compute; reflexivity|].
  intro H. apply nodupb_NoDup in H. vm_compute in H. discriminate.
Qed.
Print Assumptions descendants_twice_refuted.

(* F-C10-4 (open): Group.group_layers with the parent inside the grouped layers is refused
   (AssertionError) only after the layers were moved into the new group -- on every variant *)
Theorem group_layers_late_refusal_refuted : forall c : cfg,
  exists s o, Inv s /\ snd (step s o) = Fail E_ASSERT /\ kid_ids (fst (step s o)) 0 <> kid_ids s 0.
Proof.
  intro c. exists (run (empty_state_v c) init4), (GroupLayers [2] (Some 2)).
  destruct c as [[] [] [] [] []];
    (split; [apply Invb_iff; vm_compute; reflexivity|];
     split; [vm_compute; reflexivity|]; vm_compute; discriminate).
Qed.
Print Assumptions group_layers_late_refusal_refuted.

(* F-C10-6 (fixed by b1bb75f): a stale _clip_layers entry lets _update_layer_metadata re-point the
   _psd of a layer that meanwhile lives in another document *)
Theorem stale_clip_repoints_psd_refuted :
  exists s o, Inv s /\ snd (step s o) = Done [6] /\ ~ I3 (fst (step s o)).
Proof.
  exists (run empty_state (init6 ++ [MoveToGroup 3 1])), (NewGroup (Some 0)).
  split; [apply Invb_iff; vm_compute; reflexivity|].
  split; [vm_compute; reflexivity|].
  intro H. apply I3b_iff in H. vm_compute in H. discriminate.
Qed.
Print Assumptions stale_clip_repoints_psd_refuted.

(* ---------------------------------------------------------------- clip lists after every history (C15 inside this state machine) *)
(* Current s (Edit/ProofsClip.v): below every document, for every container a and every position of its list,
   a non-clipping layer owns exactly the run of clipping layers listed directly above it and a clipping layer
   owns none -- the specification of _compute_clipping_layers in the default compatibility mode, read off the
   lists and flags of the state (KidsCur).  compute_clipping_result: the model of _compute_clipping_layers
   achieves it for the whole tree below the document, for every tree.  With repair edc9f34 (every structural
   mutator recomputes through _update_psd_record) it holds after EVERY operation, hence after every guarded
   history of any length, on the variant with all repairs.  Objects that do not hang below a document keep
   whatever lists they had (they are recomputed when they are attached). *)
Theorem clip_layers_current_step : forall s o,
  Inv s -> quiet s -> fixedv s -> guard s o -> Current s -> Current (fst (step s o)).
Proof. intros s o HI Q. apply step_current. split; assumption. Qed.
Print Assumptions clip_layers_current_step.

Theorem clip_layers_current_after_history : forall c h,
  cachefix c = true -> clipsfix c = true -> descfix c = true ->
  guards (empty_state_v c) h -> Current (run (empty_state_v c) h).
Proof.
  intros c h C1 C2 C3 Hg. apply run_current; [apply empty_good; left; exact C3 | split; assumption | exact Hg | apply empty_current].
Qed.
Print Assumptions clip_layers_current_after_history.

Theorem clip_layers_current_history : forall h s,
  Inv s -> quiet s -> fixedv s -> guards s h -> Current s -> Current (run s h).
Proof. intros h s HI Q. apply run_current. split; assumption. Qed.
Print Assumptions clip_layers_current_history.

(* F-C15-1 (fixed by edc9f34): before the repair a move left the lists stale: doc = [p2, p3^]; p3.move_down():
   p2 still names p3 although no clipping layer is listed above p2 any more *)
Definition cs_s : state := run (empty_state_v (mkCfg true true true false false)) (init6 ++ [MoveDown 3 1]).
Lemma cs_kids : kid_ids cs_s 0 = [3] ++ 2 :: []. Proof. vm_compute. reflexivity. Qed.
Lemma cs_clips : oclips (objs cs_s 2) = [3]. Proof. vm_compute. reflexivity. Qed.
Lemma cs_flag : cfl cs_s 2 = false. Proof. vm_compute. reflexivity. Qed.
Lemma cs_doc : kind cs_s 0 = KDoc /\ In 0 (ids_l (roots cs_s)).
Proof. split; [vm_compute; reflexivity | apply (proj1 (memz_In 0 (ids_l (roots cs_s)))); vm_compute; reflexivity]. Qed.
Theorem clip_layers_stale_after_move_refuted : exists s, Inv s /\ ~ Current s.
Proof.
  exists cs_s. split; [apply Invb_iff; vm_compute; reflexivity|]. intro C.
  pose proof (C 0 (proj1 cs_doc) (proj2 cs_doc) 0 (or_introl eq_refl) [3] 2 [] cs_kids) as E.
  rewrite cs_clips, cs_flag in E. discriminate.
Qed.
Print Assumptions clip_layers_stale_after_move_refuted.
