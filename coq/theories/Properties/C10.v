(* C10 -- the layer tree stays well-formed under every edit history. *)
From PsdV Require Import Base.Prelude Edit.Model Edit.Corr Edit.Inv.
Open Scope Z_scope.

(* ---- what the faithful model refutes (each witness is replayed on the real code by harness/vh/c10.py) *)

(* F-C10-1: appending a layer that is still listed elsewhere is accepted and breaks parent/uniqueness *)
Theorem insert_listed_refuted :
  exists s o, Inv s /\ snd (step s o) = Done [] /\ ~ I1 (fst (step s o)) /\ ~ I2 (fst (step s o)).
Proof.
  exists (run empty_state init4), (Append 0 3).
  split; [apply Invb_iff; vm_compute; reflexivity|].
  split; [vm_compute; reflexivity|].
  split; intro H; [apply I1b_iff in H | apply I2b_iff in H]; vm_compute in H; discriminate.
Qed.
Print Assumptions insert_listed_refuted.

(* F-C10-2: g.extend([g]) passes the validity check, mutates the list, then raises RecursionError *)
Theorem extend_self_refuted :
  exists s o, Inv s /\ snd (step s o) = Fail E_RECURSION /\ corrupt (fst (step s o)) = true.
Proof.
  exists (run empty_state init0), (Extend 5 [5]).
  split; [apply Invb_iff; vm_compute; reflexivity|].
  split; vm_compute; reflexivity.
Qed.
Print Assumptions extend_self_refuted.

(* F-C10-3: descendants() yields every clipping layer twice *)
Theorem descendants_twice_refuted :
  exists s g, Inv s /\ ~ NoDup (descendants s g).
Proof.
  exists (run empty_state init2), 0.
  split; [apply Invb_iff; vm_compute; reflexivity|].
  intro H. apply nodupb_NoDup in H. vm_compute in H. discriminate.
Qed.
Print Assumptions descendants_twice_refuted.

(* F-C10-4: Group.group_layers with the parent inside the grouped layers is refused (AssertionError)
   only after the layers were moved into the new group *)
Theorem group_layers_late_refusal_refuted :
  exists s o, Inv s /\ snd (step s o) = Fail E_ASSERT /\ kid_ids (fst (step s o)) 0 <> kid_ids s 0.
Proof.
  exists (run empty_state init4), (GroupLayers [2] (Some 2)).
  split; [apply Invb_iff; vm_compute; reflexivity|].
  split; [vm_compute; reflexivity|].
  vm_compute. discriminate.
Qed.
Print Assumptions group_layers_late_refusal_refuted.

(* F-C10-6: a stale _clip_layers entry lets _update_layer_metadata re-point the _psd of a layer
   that meanwhile lives in another document *)
Theorem stale_clip_repoints_psd_refuted :
  exists s o, Inv s /\ snd (step s o) = Done [6] /\ ~ I3 (fst (step s o)).
Proof.
  exists (run empty_state (init6 ++ [MoveToGroup 3 1])), (NewGroup (Some 0)).
  split; [apply Invb_iff; vm_compute; reflexivity|].
  split; [vm_compute; reflexivity|].
  intro H. apply I3b_iff in H. vm_compute in H. discriminate.
Qed.
Print Assumptions stale_clip_repoints_psd_refuted.
