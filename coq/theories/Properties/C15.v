(* C15 - clipping relationships are resolved correctly and kept current.
   Model: Tree/Clip.v (_clear_clipping_layers + _compute_clipping_layers, the two setters that
   recompute, a structural edit that does not, the compositor's use of the stored fields).
   Static part in full (all list lengths, all nestings, all three modes); the history part is limited
   to what this model can say: the two setters and the modelled structural edit (move_down at the top level)
   recompute from scratch; finding F-C15-1 (structural edits did not, repaired by /repo edc9f34) is kept as
   [stale_after_move_refuted] about the old definition; arbitrary edit histories belong to C09's model. *)
From PsdV Require Import Base.Prelude Tree.Forest Tree.Clip Tree.ClipProofs Tree.Corr Tree.ClipComposite Tree.ClipCompositeSpec.
From PsdV Require Composite.Scalar Composite.Model Composite.Geometry Composite.Doc Composite.Plane Composite.Spec Composite.SpecEval Composite.ProofsKernel Composite.ProofsDoc.

(* ---- the reversed single pass with a stack equals the forward specification *)
Theorem compute_spec : forall m f, compute m f = clip_spec m f.
Proof. exact compute_spec. Qed.
Print Assumptions compute_spec.

(* the pass only writes the two stored fields: the tree itself (order, membership, flags) is unchanged *)
Theorem compute_preserves_tree : forall m f, map erase_t (compute m f) = map erase_t f.
Proof. exact erase_compute. Qed.
Print Assumptions compute_preserves_tree.

(* ---- relational reading, for every position of every sibling list at any depth of the computed tree:
   a layer has a target iff it is not a clipping layer or an eligible base lies below it with only
   clipping layers in between; a base that may take clips owns exactly the maximal run of clipping
   layers directly above it, in stacking order; everything else owns none.  In SAI/CSP modes a
   pass-through layer is not eligible ([ineligible]). *)
Theorem has_target_iff : forall m f pre x post,
  sublevel (compute m f) (pre ++ x :: post) ->
  (has_target x = true <-> (is_clip x = false \/ base_below m pre)) /\
  clip_layers x = (if is_clip x || ineligible m (attr_of x) then [] else map tid (takeWhile is_clip post)).
Proof. exact compute_position. Qed.
Print Assumptions has_target_iff.

Theorem computed_levels_ok : forall m f l, sublevel (compute m f) l -> level_ok m l.
Proof. exact compute_levels. Qed.
Print Assumptions computed_levels_ok.

(* a non-trivial instance: [base; clip; clip; pass-through group {clip; base; clip}; clip] *)
Definition lf (i : Z) (c : bool) : ctree := Leaf (mkA i c false).
Definition ex_tree : cforest :=
  [ lf 0 false; lf 1 true; lf 2 true;
    Node (mkA 3 false true) [ lf 4 true; lf 5 false; lf 6 true ];
    lf 7 true ].
Example ex_photoshop :
  flat_map ser_a (lay (open_clip Photoshop ex_tree)) =
  [0;1;2;1;2; 1;1;0; 2;1;0; 3;1;1;7; -2; 4;0;0; 5;1;1;6; 6;1;0; -3; 7;1;0].
Proof. reflexivity. Qed.
Example ex_sai :     (* the group is no base in SAI mode: layer 7 loses its target, the group owns nothing *)
  flat_map ser_a (lay (open_clip Sai ex_tree)) =
  [0;1;2;1;2; 1;1;0; 2;1;0; 3;1;0; -2; 4;0;0; 5;1;1;6; 6;1;0; -3; 7;0;0].
Proof. reflexivity. Qed.
Example ex_sublevel : sublevel (compute Sai (map fresh_t ex_tree)) (compute Sai (map fresh_t ex_tree)).
Proof. constructor. Qed.

(* ---- the compositor (composite/__init__.py:231, :402-415): skipping "clipping and has a target" in the
   ordinary pass and drawing clip_layers on their base draws every layer of every sibling list exactly
   once, in stacking order *)
Theorem compositor_target_rule : forall m f l, sublevel (compute m f) l -> draw_level l = map tid l.
Proof. exact compute_draw. Qed.
Print Assumptions compositor_target_rule.

Theorem compositor_target_rule_level : forall m l, level_ok m l -> draw_level l = map tid l.
Proof. exact draw_level_ok. Qed.
Print Assumptions compositor_target_rule_level.

(* ---- kept current.  The two setters recompute from scratch, whatever the state was before *)
Theorem recomputed_after_flag_or_mode : forall d o, structural o = false -> current (apply_op d o).
Proof. exact current_nonstructural. Qed.
Print Assumptions recomputed_after_flag_or_mode.

Theorem current_on_open : forall m f, current (open_clip m f).
Proof. exact current_open. Qed.
Print Assumptions current_on_open.

(* since /repo commit edc9f34 every structural mutator recomputes too (modelled edit: move_down at the top
   level): every operation of the model keeps the relation current, so every history does - no guard *)
Theorem recomputed_after_move : forall i d, current d -> current (op_swap i d).
Proof. exact current_swap. Qed.
Print Assumptions recomputed_after_move.

Theorem current_after_history : forall ops d, current d -> current (fold_left apply_op ops d).
Proof. exact current_history_all. Qed.
Print Assumptions current_after_history.

(* every structural edit of the public API ends in the same recomputation (GroupMixin._update_psd_record):
   whatever forest the edit leaves and whatever fields its layers carried, the result is current, and it
   depends on the tree only *)
Theorem current_after_any_structural_edit : forall m f', current (recompute m f').
Proof. exact current_recompute. Qed.
Print Assumptions current_after_any_structural_edit.

Theorem recompute_depends_on_tree_only : forall m f g,
  map erase_t f = map erase_t g -> recompute m f = recompute m g.
Proof. exact recompute_ignores_old_fields. Qed.
Print Assumptions recompute_depends_on_tree_only.

Theorem current_means_spec : forall d l, current d -> sublevel (lay d) l -> level_ok (mode d) l.
Proof. exact current_levels. Qed.
Print Assumptions current_means_spec.

Example ex_history :
  current (fold_left apply_op [OSetClip 5 true; OSwap 2; OSetMode Csp; OSwap 0; OSetClip 1 false] (open_clip Photoshop ex_tree)).
Proof. apply current_history_all. apply current_open. Qed.

(* ---- record of finding F-C15-1 (repaired by edc9f34): with the structural edit as it was before the fix
   ([op_swap_stale]: order changes, nothing recomputed) the statement was false.
   Witness: [A; B(clipping)], B.move_down(). *)
Definition ex_two : doc := open_clip Photoshop [lf 0 false; lf 1 true].
Theorem stale_after_move_refuted :
  exists d i, current d /\ ~ current (op_swap_stale i d).
Proof.
  exists ex_two, O. split; [apply current_open|].
  unfold current. vm_compute. intro H. discriminate H.
Qed.
Print Assumptions stale_after_move_refuted.

(* ... and the compositor then drew in the old order: A, then B on top of it, although B is below A *)
Theorem stale_draw_order_refuted :
  exists d i, current d /\ draw_level (lay (op_swap_stale i d)) <> map tid (lay (op_swap_stale i d)).
Proof.
  exists ex_two, O. split; [apply current_open|]. vm_compute. intro H. discriminate H.
Qed.
Print Assumptions stale_draw_order_refuted.

(* the same witness on the current model: current, and drawn in stacking order *)
Example ex_repaired :
  current (op_swap 0 ex_two) /\ draw_level (lay (op_swap 0 ex_two)) = map tid (lay (op_swap 0 ex_two)).
Proof. split; [apply current_swap, current_open|reflexivity]. Qed.

(* ---- C15 <-> C11.  The compositor model of Composite/Doc.v groups clipping runs itself, by a right-to-left fold
   over the clipping flags ([runs], literally Doc.sample_runs and the fold inside Doc.sample_layer).  The real
   compositor instead reads the STORED fields.  [field_driven S ls l'] is that reading: walk the level l', skip
   a layer that is clipping and has a target, otherwise sample it together with the samples of the layers its
   clip_layers name.  With the fields computed by the C15 model (Photoshop mode: Doc.v has no compatibility
   mode) both give the same element list, for every sampling function S and every sibling list *)
Theorem runs_agree_generic : forall (X E : Type) (S : X -> list E -> list E) (isc : X -> bool) (ls : list X),
  field_driven S ls (level Photoshop (embed isc ls)) = runs_list S isc ls.
Proof. exact @ClipComposite.runs_agree_generic. Qed.
Print Assumptions runs_agree_generic.

(* the document compositor of C11 at the top level of a document ... *)
Theorem runs_agree : forall (O : Scalar.Ops) vp x y k (ls : list Doc.layer),
  @Doc.sample_list O vp x y k ls =
  field_driven (@Doc.sample_layer O vp x y k) ls (level Photoshop (embed doc_clip ls)).
Proof. exact @ClipComposite.runs_agree. Qed.
Print Assumptions runs_agree.

(* ... and for the children of every group it descends into (any depth: sample_layer is recursive) *)
Theorem runs_agree_in_groups : forall (O : Scalar.Ops) vp x y k pass ch at_ clips,
  negb (Doc.at_vis at_) = false ->
  Geometry.is_zero_rect (Geometry.intersect vp (Doc.bbox_of (Doc.Gr pass ch at_))) = false ->
  Geometry.inside (Geometry.intersect vp (Doc.bbox_of (Doc.Gr pass ch at_))) x y = true ->
  exists fa B,
    @Doc.sample_layer O vp x y k (Doc.Gr pass ch at_) clips =
    [@Model.Group O (negb pass)
       (field_driven (@Doc.sample_layer O (Geometry.intersect vp (Doc.bbox_of (Doc.Gr pass ch at_))) x y k) ch
                     (level Photoshop (embed doc_clip ch)))
       fa B (Doc.at_ko at_) clips].
Proof. exact @ClipComposite.sample_group_children. Qed.
Print Assumptions runs_agree_in_groups.

(* hence C11's viewport_model_eq_spec speaks about the compositor that is driven by the fields whose correctness
   the theorems above establish: at every pixel of any viewport it computes the whole-plane PDF group formula
   (uses the axioms of Coq's classical real numbers, through Composite/ProofsEndToEnd.v) *)
Theorem field_driven_eq_spec : forall (ls : list Doc.layer) (vp : Geometry.rect) (cb ab : Rdefinitions.R) (x y : Z) (k : nat),
  Forall ProofsDoc.layer_ok ls -> ProofsKernel.unit cb -> ProofsKernel.unit ab -> Geometry.inside vp x y = true ->
  let '(C, f, al) := @Model.composite_px Scalar.ROps false cb ab
                       (field_driven (@Doc.sample_layer Scalar.ROps vp x y k) ls (level Photoshop (embed doc_clip ls))) in
  let '(P, f', al') := SpecEval.pdf_composite false cb ab (@Plane.plane_list Scalar.ROps x y k ls) in
  f = f' /\ al = al' /\ Rdefinitions.Rmult al C = P.
Proof. exact ClipCompositeSpec.field_driven_eq_spec. Qed.
Print Assumptions field_driven_eq_spec.

Example ex_runs :      (* items = (name, clipping flag); the sampling function just records what it is given *)
  let S := fun (x : Z * bool) (clips : list (Z * list Z)) => [(fst x, map fst clips)] in
  field_driven S [(0, false); (1, true); (2, true); (3, false); (4, true)]
               (level Photoshop (embed snd [(0, false); (1, true); (2, true); (3, false); (4, true)]))
  = [(0, [1; 2]); (3, [4])].
Proof. reflexivity. Qed.
