(* C19 - Unicode text survives storage.

   Strings are lists of code points; "valid" = every element in 0..0x10FFFF (what a CPython
   str can hold, lone surrogates included); "scalar" = valid and no surrogates (a well-formed
   Unicode string).  All theorems are about the executable model Strings/Model.v of
   utils.read/write_unicode_string, read/write_pascal_string, read/write_padding, the Layer.name
   accessor pair and the name-carrying part of LayerRecord (pascal field + `luni` block), tied to
   /repo/src by harness/vh/c19.py.  No length bound other than the 32-bit count field of the format. *)
From PsdV Require Import Base.Prelude Strings.Model Strings.Codecs Strings.Proofs
  Strings.CodecProofs Strings.Main.
From Coq Require Import ZArith List Bool Lia.
Import ListNotations.
Open Scope Z_scope.

(* =========================================================== UTF-16 codec *)

(* decoding the encoding joins exactly the adjacent (lone high, lone low) pairs and changes nothing else *)
Theorem utf16_decode_encode : forall s, valid_str s ->
  utf16be_decode (utf16be_encode s) = Ok (join_units s).
Proof. exact utf16be_decode_encode. Qed.
Print Assumptions utf16_decode_encode.

(* ... hence the codec is the identity on s exactly when s has no such pair *)
Theorem utf16_roundtrip_iff : forall s, valid_str s ->
  (utf16be_decode (utf16be_encode s) = Ok s <-> joinable_free s = true).
Proof. exact utf16_roundtrip_iff_lemma. Qed.
Print Assumptions utf16_roundtrip_iff.

Theorem wellformed_is_joinable_free : forall s, scalar_str s -> valid_str s /\ joinable_free s = true.
Proof. exact (fun s H => conj (scalar_valid s H) (scalar_joinable_free s H)). Qed.
Print Assumptions wellformed_is_joinable_free.

Example scalar_example : scalar_str [97; 0; 0x301; 0xE9; 0x416; 0xFFFF; 0x1F600; 0x10FFFF].
Proof. repeat constructor. Qed.
(* lone surrogates that do not form a pair are within the guard too *)
Example lone_surrogates_in_guard :
  valid_str [0xDE00; 0xD83D; 97; 0xD83D] /\ joinable_free [0xDE00; 0xD83D; 97; 0xD83D] = true.
Proof. split; [repeat constructor|reflexivity]. Qed.

(* =========================================================== unicode strings *)

(* FULL statement "every str round-trips" is false of the faithful model: *)
Theorem unicode_roundtrip_all_str_refuted :
  exists s, valid_str s /\
    exists bs w, write_unicode_string s 1 = Ok (bs, w) /\
                 read_unicode_string bs 1 = Ok ([0x1F600], []) /\ s <> [0x1F600].
Proof. exact unicode_lone_pair_refuted_lemma. Qed.
Print Assumptions unicode_roundtrip_all_str_refuted.
(* witness [0xD83D; 0xDE00]: a str holding a lone high surrogate followed by a lone low
   surrogate (not a well-formed Unicode string, so outside the property) reads back as U+1F600;
   replayed on the implementation by the check (stream "guard"). *)

(* The positive theorem under the exact guard: any padding, any following data, any length. *)
Theorem unicode_roundtrip : forall s p rest bs w,
  valid_str s -> joinable_free s = true -> 0 < p ->
  write_unicode_string s p = Ok (bs, w) ->
  read_unicode_string (bs ++ rest) p = Ok (s, rest) /\ w = Z.of_nat (length bs) /\ w mod p = 0.
Proof. exact unicode_roundtrip_full. Qed.
Print Assumptions unicode_roundtrip.

Example unicode_roundtrip_hyp :
  exists bs w, write_unicode_string [0x1F600; 0; 0x301] 4 = Ok (bs, w) /\ w = 12.
Proof. eexists. eexists. split; vm_compute; reflexivity. Qed.

(* the guard is exact: outside it the string read back differs *)
Theorem unicode_roundtrip_exact : forall s p rest bs w,
  valid_str s -> 0 < p -> write_unicode_string s p = Ok (bs, w) ->
  (read_unicode_string (bs ++ rest) p = Ok (s, rest) <-> joinable_free s = true).
Proof. exact unicode_roundtrip_exact_lemma. Qed.
Print Assumptions unicode_roundtrip_exact.

(* the property as worded: every well-formed Unicode string (astral, combining, NUL ...) is
   written (no error while the 32-bit count suffices) and returned unchanged; the reader stops
   exactly at the end of what the writer emitted *)
Theorem unicode_roundtrip_wellformed : forall s p rest,
  scalar_str s -> 0 < p -> Z.of_nat (length (utf16_units s)) <= 4294967295 ->
  exists bs w, write_unicode_string s p = Ok (bs, w) /\
               read_unicode_string (bs ++ rest) p = Ok (s, rest) /\
               w = Z.of_nat (length bs).
Proof. exact unicode_roundtrip_wellformed_lemma. Qed.
Print Assumptions unicode_roundtrip_wellformed.

(* a string written with one padding and read with another (the `luni` block is written with
   padding 4 and parsed with padding 1) still yields the same string *)
Theorem unicode_read_other_padding : forall s p p' bs w,
  valid_str s -> 0 < p -> write_unicode_string s p = Ok (bs, w) ->
  exists rest', read_unicode_string bs p' = Ok (join_units s, rest').
Proof. exact unicode_read_any_padding. Qed.
Print Assumptions unicode_read_other_padding.

(* =========================================================== pascal strings *)
(* enc / dec: the external charset codec (Python str.encode / bytes.decode, errors='strict').
   The codec hypothesis is pointwise: `dec data = Some s` for the string at hand. *)

Theorem pascal_roundtrip : forall enc dec s p rest data,
  0 < p -> enc s = Some data -> dec data = Some s -> Z.of_nat (length data) <= 255 ->
  exists bs w, write_pascal_string enc s p = Ok (bs, w) /\
               read_pascal_string dec (bs ++ rest) p = Ok (s, rest) /\
               w = Z.of_nat (length bs) /\ w mod p = 0.
Proof. exact pascal_roundtrip_main. Qed.
Print Assumptions pascal_roundtrip.

Theorem pascal_rejects_long : forall enc s p data,
  enc s = Some data -> 255 < Z.of_nat (length data) ->
  write_pascal_string enc s p = Err StructErr.
Proof. exact pascal_rejects_long_lemma. Qed.
Print Assumptions pascal_rejects_long.

Theorem pascal_rejects_unencodable : forall enc s p,
  enc s = None -> write_pascal_string enc s p = Err ValueErr.
Proof. exact pascal_rejects_unencodable_lemma. Qed.
Print Assumptions pascal_rejects_unencodable.

(* no truncation, no corruption: the only outcomes of the writer *)
Theorem pascal_write_never_truncates : forall enc s p,
  match write_pascal_string enc s p with
  | Ok (bs, w) => exists data, enc s = Some data /\ Z.of_nat (length data) <= 255 /\
                    bs = Z.of_nat (length data) :: data ++ zeros (pad_count (1 + Z.of_nat (length data)) p)
  | Err e => (e = ValueErr /\ enc s = None) \/
             (e = StructErr /\ exists data, enc s = Some data /\ 255 < Z.of_nat (length data))
  end.
Proof. exact pascal_write_outcomes. Qed.
Print Assumptions pascal_write_never_truncates.

(* without the pointwise codec hypothesis the statement is false: Python's shift_jis encodes
   U+00A5 as 0x5C (and U+203E as 0x7E), which decode as '\' and '~'  (finding F-C19-2) *)
Theorem pascal_roundtrip_any_codec_refuted :
  exists s data bs w s',
    sjis_frag_enc s = Some data /\ Z.of_nat (length data) <= 255 /\
    write_pascal_string sjis_frag_enc s 2 = Ok (bs, w) /\
    read_pascal_string sjis_frag_dec bs 2 = Ok (s', []) /\ s' <> s.
Proof. exact pascal_noninjective_refuted_lemma. Qed.
Print Assumptions pascal_roundtrip_any_codec_refuted.

(* the guard that excludes exactly that class for the fragment *)
Theorem sjis_fragment_law_guarded : forall s b,
  sjis_safe s -> sjis_frag_enc s = Some b -> sjis_frag_dec b = Some s.
Proof. exact sjis_frag_law. Qed.
Print Assumptions sjis_fragment_law_guarded.

(* codecs modelled concretely: the hypothesis `dec data = Some s` is a theorem *)
Theorem macroman_codec_law : forall s b, macroman_enc s = Some b -> macroman_dec b = Some s.
Proof. exact macroman_law. Qed.
Print Assumptions macroman_codec_law.
Theorem maccyrillic_codec_law : forall s b, maccyrillic_enc s = Some b -> maccyrillic_dec b = Some s.
Proof. exact maccyrillic_law. Qed.
Print Assumptions maccyrillic_codec_law.
Theorem ascii_codec_law : forall s b, ascii_enc s = Some b -> ascii_dec b = Some s.
Proof. exact ascii_law. Qed.
Print Assumptions ascii_codec_law.
Theorem utf8_codec_law : forall s b, utf8_enc s = Some b -> utf8_dec b = Some s.
Proof. exact utf8_law. Qed.
Print Assumptions utf8_codec_law.

Theorem pascal_roundtrip_macroman : forall s p rest data,
  0 < p -> macroman_enc s = Some data -> Z.of_nat (length data) <= 255 ->
  exists bs w, write_pascal_string macroman_enc s p = Ok (bs, w) /\
               read_pascal_string macroman_dec (bs ++ rest) p = Ok (s, rest) /\
               w = Z.of_nat (length bs) /\ w mod p = 0.
Proof.
  exact (fun s p rest data Hp He Hn =>
    pascal_roundtrip_main macroman_enc macroman_dec s p rest data Hp He (macroman_law s data He) Hn).
Qed.
Print Assumptions pascal_roundtrip_macroman.

Theorem pascal_roundtrip_utf8 : forall s p rest data,
  0 < p -> utf8_enc s = Some data -> Z.of_nat (length data) <= 255 ->
  exists bs w, write_pascal_string utf8_enc s p = Ok (bs, w) /\
               read_pascal_string utf8_dec (bs ++ rest) p = Ok (s, rest) /\
               w = Z.of_nat (length bs) /\ w mod p = 0.
Proof.
  exact (fun s p rest data Hp He Hn =>
    pascal_roundtrip_main utf8_enc utf8_dec s p rest data Hp He (utf8_law s data He) Hn).
Qed.
Print Assumptions pascal_roundtrip_utf8.

Example pascal_hyp_macroman : macroman_enc [0xE9; 97; 0x2014] = Some [142; 97; 209].
Proof. reflexivity. Qed.
Example pascal_hyp_utf8 : utf8_enc [0x1F600; 0; 0x301] = Some [240; 159; 152; 128; 0; 204; 129].
Proof. reflexivity. Qed.
Example pascal_long_example :
  write_pascal_string ascii_enc (repeat 97 256) 2 = Err StructErr /\
  write_pascal_string macroman_enc [0x416] 2 = Err ValueErr.
Proof. split; vm_compute; reflexivity. Qed.

(* =========================================================== layer name *)

(* whatever the legacy field can express, the name read back is the full Unicode string;
   when mac_roman cannot express it the legacy field holds "?" *)
Theorem name_keeps_unicode : forall em v r, Z.of_nat (length v) < 256 ->
  exists r', set_name em v r = Ok r' /\ get_name r' = v /\ (em v = None -> rec_name r' = [63]).
Proof. exact name_keeps_unicode_lemma. Qed.
Print Assumptions name_keeps_unicode.

Theorem name_rejects_long : forall em v r, 256 <= Z.of_nat (length v) -> set_name em v r = Err AssertErr.
Proof. exact set_name_rejects_long. Qed.
Print Assumptions name_rejects_long.

Example name_degrades_example :
  exists r', set_name macroman_enc [0x1F600; 0x416] {| rec_name := [97]; rec_luni := None |} = Ok r'
             /\ rec_name r' = [63] /\ get_name r' = [0x1F600; 0x416].
Proof. eexists. repeat split. Qed.

(* ... and it survives LayerRecord._write_extra / _read_extra: pascal field with padding 4,
   `luni` block written with inner padding 4 and parsed with padding 1, trailing pad to 2.
   enc/dec = codec of the save encoding, pointwise hypothesis on the legacy field only. *)
Theorem name_survives_save_open : forall enc dec em v r r' pre bs w data,
  valid_str v -> joinable_free v = true ->
  set_name em v r = Ok r' ->
  enc (rec_name r') = Some data -> dec data = Some (rec_name r') ->
  write_name_part enc pre r' = Ok (bs, w) ->
  exists r'', read_name_part dec bs = Ok r'' /\ get_name r'' = v /\ rec_name r'' = rec_name r'
              /\ w = Z.of_nat (length bs).
Proof. exact name_survives_save_open_lemma. Qed.
Print Assumptions name_survives_save_open.

(* default encoding (mac_roman): no hypothesis, and saving cannot fail *)
Theorem name_survives_save_open_macroman : forall v r r' pre,
  valid_str v -> joinable_free v = true -> 0 <= pre ->
  set_name macroman_enc v r = Ok r' ->
  exists bs w r'', write_name_part macroman_enc pre r' = Ok (bs, w) /\
                   read_name_part macroman_dec bs = Ok r'' /\ get_name r'' = v.
Proof. exact name_survives_save_open_macroman_lemma. Qed.
Print Assumptions name_survives_save_open_macroman.

(* =========================================================== names given at construction *)
(* F-C19-3 (fixed by cc4d99c).  BEFORE the fix Group.new / PixelLayer.frompil put the name into
   the legacy field with no '?' fallback; for those original constructors (Model: *_rec_orig)
   "every name survives" was false - kept as documentation, witness U+0416: *)
Theorem ctor_name_save_refuted :
  exists v, scalar_str v /\ Z.of_nat (length v) < 256 /\
    forall pre, write_name_part macroman_enc pre (group_new_rec_orig v) = Err ValueErr /\
                write_name_part macroman_enc pre (frompil_rec_orig v) = Err ValueErr.
Proof. exact ctor_name_save_refuted_lemma. Qed.
Print Assumptions ctor_name_save_refuted.

(* The constructors as they are now (Model.ctor_rec) apply the rule of the setter: *)
Theorem ctor_keeps_unicode : forall em v, Z.of_nat (length v) < 256 ->
  exists r', ctor_rec em v = Ok r' /\ get_name r' = v /\ (em v = None -> rec_name r' = [63]).
Proof. exact ctor_name_total_lemma. Qed.
Print Assumptions ctor_keeps_unicode.

(* ... so with the default encoding a document holding such a layer can always be saved and
   the name read back is the full Unicode string - no guard left *)
Theorem ctor_name_survives_save_open_macroman : forall v r' pre,
  valid_str v -> joinable_free v = true -> 0 <= pre ->
  ctor_rec macroman_enc v = Ok r' ->
  exists bs w r'', write_name_part macroman_enc pre r' = Ok (bs, w) /\
                   read_name_part macroman_dec bs = Ok r'' /\ get_name r'' = v.
Proof. exact ctor_name_survives_macroman_lemma. Qed.
Print Assumptions ctor_name_survives_save_open_macroman.

Example ctor_hyp : exists r', ctor_rec macroman_enc [0x416; 0x1F600] = Ok r' /\ rec_name r' = [63].
Proof. eexists. split; reflexivity. Qed.

(* the setter decides the fallback with mac_roman; saving with another encoding can still fail
   (finding F-C19-4; witness U+00E9 saved with encoding ascii) - which is why name_survives_save_open
   carries the hypothesis enc (rec_name r') = Some data *)
Theorem name_save_other_encoding_refuted :
  exists v r', scalar_str v /\ set_name macroman_enc v {| rec_name := []; rec_luni := None |} = Ok r' /\
    forall pre, write_name_part ascii_enc pre r' = Err ValueErr.
Proof. exact name_save_other_encoding_refuted_lemma. Qed.
Print Assumptions name_save_other_encoding_refuted.

(* =========================================================== every storage site *)
(* Strings/Sites.v: one sum type [sval] of the places a string is stored, written and read with the
   container / descriptor models of Psd/ (C01's model, on UTF-16 code units) composed with the
   code-point codec above.  The two layers are the same functions: *)
From PsdV Require Psd.Codec Psd.Model Psd.Descriptor Psd.Typed.
From PsdV Require Import Strings.Bridge Strings.Sites Strings.SitesProofs Strings.SitesMain.

Theorem unicode_writer_is_psd_codec : forall s p, valid_str s -> 0 < p ->
  write_unicode_string s p = Psd.Codec.w_unicode (utf16_units s) p.
Proof. exact unicode_write_bridge. Qed.
Print Assumptions unicode_writer_is_psd_codec.

Theorem unicode_reader_is_psd_codec : forall d p, bytes d ->
  read_unicode_string d p =
  (do ur <- Psd.Codec.r_unicode p d; Ok (join_units (fst ur), snd ur)).
Proof. exact unicode_read_bridge. Qed.
Print Assumptions unicode_reader_is_psd_codec.

Theorem pascal_writer_is_psd_codec : forall enc s p, 0 < p ->
  write_pascal_string enc s p = Psd.Codec.w_pascal (lift enc) s p.
Proof. exact pascal_write_bridge. Qed.
Print Assumptions pascal_writer_is_psd_codec.

Theorem pascal_reader_is_psd_codec : forall dec d p, bytes d ->
  read_pascal_string dec d p = Psd.Codec.r_pascal (lift dec) p d.
Proof. exact pascal_read_bridge. Qed.
Print Assumptions pascal_reader_is_psd_codec.

(* (1) descriptor values - String ('TEXT'), Name, Class / GlobalClass, EnumeratedReference, Property,
   Offset, and Descriptor / GlobalObject / ObjectArray / List / Reference holding them at ANY depth:
   every string of the value comes back unchanged, the reader stops where the writer did, the
   _TERMS state is unchanged.  [good] = valid code points without a lone high+low surrogate pair. *)
Theorem descriptor_string_roundtrip : forall units t d bs n rest,
  Psd.Descriptor.wf_terms t = true -> Psd.Descriptor.wf_dval units d = true -> dall good d = true ->
  Psd.Descriptor.write_dval t (dmap utf16_units d) = Ok (bs, n) ->
  exists d', Psd.Descriptor.read_dval units (S (length bs)) t (Psd.Descriptor.ostype_of d) (bs ++ rest)
             = Ok (d', t, rest) /\ dmap join_units d' = d.
Proof. exact descriptor_rt_cp. Qed.
Print Assumptions descriptor_string_roundtrip.

Example descriptor_hyp :
  let d := Psd.Descriptor.DDesc Psd.Descriptor.OS_Objc [0x1F600] [110;117;108;108]
             [([78;109;32;32], Psd.Descriptor.DString [0x416; 0; 0x301]);
              ([1;2;3;4;5], Psd.Descriptor.DList Psd.Descriptor.OS_VlLs
                 [Psd.Descriptor.DName [0x10FFFF] [76;121;114;32] [97];
                  Psd.Descriptor.DClass Psd.Descriptor.OS_Clss [0xE9] [76;121;114;32]])] in
  Psd.Descriptor.wf_dval [] d = true /\ dall good d = true /\
  exists bs n, Psd.Descriptor.write_dval [] (dmap utf16_units d) = Ok (bs, n).
Proof. cbn zeta. split; [reflexivity|]. split; [reflexivity|]. eexists. eexists. vm_compute. reflexivity. Qed.

(* (2) a StringElement written by write_unicode_string itself inside a TaggedBlock (block padding
   1/2/4, payload written with padding 4/4/1, parsed with padding 1) and inside an ImageResource *)
Theorem string_element_in_tagged_block_roundtrip : forall ver pad sg key s bs n rest,
  good s = true -> (pad = 1 \/ pad = 2 \/ pad = 4) -> Psd.Model.memz sg Psd.Model.model_tb_sigs = true ->
  Psd.Typed.write_payload_block ver pad sg key (write_unicode_string s (inner_pad pad)) = Ok (bs, n) ->
  Psd.Typed.read_payload_block read_string_cp ver pad (bs ++ rest) = Ok (Some (sg, key, s, rest)).
Proof. exact string_element_block_rt. Qed.
Print Assumptions string_element_in_tagged_block_roundtrip.

Theorem string_element_in_resource_roundtrip : forall enc_s dec_s sg key rname s bs n rest,
  good s = true -> Psd.Model.memz sg Psd.Model.model_res_sigs = true ->
  Psd.Model.wf_name enc_s dec_s rname = true ->
  Psd.Typed.write_payload_resource enc_s sg key rname (write_unicode_string s 1) = Ok (bs, n) ->
  Psd.Typed.read_payload_resource dec_s read_string_cp (bs ++ rest) = Ok (sg, key, rname, s, rest).
Proof. exact string_element_resource_rt. Qed.
Print Assumptions string_element_in_resource_roundtrip.

(* (3) ALL modelled sites at once: StringElement (any padding), StringElement in a resource / tagged
   block, descriptor value, DescriptorBlock(2) (Slices v7/v8, ...), AlphaNamesUnicode (reader runs until
   the data is exhausted), AlphaNamesPascal, URLList, VersionInfo, Slices v6 (name + per slice name, url,
   target, message, alt tag, cell text), LinkedLayer (file name, child id, uuid), Pattern (name, id),
   GradientMap (name).  For every structure v over code points whose unicode strings are [good] and
   which is well formed ([sv_wf]: enum members valid, presence flags coherent, pascal strings inside the
   domain where the codec round-trips, no slice after the first with id 16), what is read back from
   the written bytes is v: every string at every site unchanged. *)
Theorem all_sites_roundtrip : forall enc_s dec_s units t v bs n,
  Psd.Descriptor.wf_terms t = true -> sv_wf enc_s dec_s units v = true -> sv_all good v = true ->
  sv_write_cp enc_s t v = Ok (bs, n) ->
  sv_read_cp dec_s units t (shape_of v) bs = Ok v.
Proof. exact all_sites_roundtrip_lemma. Qed.
Print Assumptions all_sites_roundtrip.

(* on code units nothing is assumed about the strings at all (lone surrogates included) *)
Theorem all_sites_code_unit_roundtrip : forall enc_s dec_s units t v bs n,
  Psd.Descriptor.wf_terms t = true -> sv_wf enc_s dec_s units v = true ->
  sv_write enc_s t v = Ok (bs, n) -> sv_read dec_s units t (shape_of v) bs = Ok v.
Proof. exact sv_rt. Qed.
Print Assumptions all_sites_code_unit_roundtrip.

Example all_sites_hyp :
  let enc := lift macroman_enc in let dec := lift macroman_dec in
  let v := VSlices (mkSlices [0;0;2;2] [0x1F600]
             [mkSlice [1;0;1] (Some 7) [0x416] [0;0;0;1;1] [97;0] [] [0x301] [0xFFFF] true [0x10FFFF] [0;0;255;1;2;3];
              mkSlice [2;0;0] None [] [0;0;0;1;1] [] [] [] [] false [] [0;0;0;0;0;0]]) in
  sv_wf enc dec [] v = true /\ sv_all good v = true /\ exists bs n, sv_write_cp enc [] v = Ok (bs, n).
Proof. cbn zeta. split; [reflexivity|]. split; [reflexivity|]. eexists. eexists. vm_compute. reflexivity. Qed.

(* the guard on pascal strings cannot be dropped: sites with a pascal field REFUSE what it cannot
   hold (unencodable, or longer than 255 bytes) - an error, never a shortened or altered string *)
Theorem site_rejects_unfit_pascal : forall enc_s t v s,
  In s (sv_pascal v) -> unfit enc_s s -> is_err (sv_write_cp enc_s t v).
Proof. exact sv_rejects_cp. Qed.
Print Assumptions site_rejects_unfit_pascal.

Theorem all_sites_without_pascal_guard_refuted :
  let enc := lift macroman_enc in
  sv_all good (VAlphaP [repeat 97 256]) = true /\ sv_all good (VAlphaP [[1046]]) = true /\
  sv_write_cp enc [] (VAlphaP [repeat 97 256]) = Err StructErr /\
  sv_write_cp enc [] (VAlphaP [[1046]]) = Err ValueErr.
Proof. exact all_sites_pascal_refuted_lemma. Qed.
Print Assumptions all_sites_without_pascal_guard_refuted.
