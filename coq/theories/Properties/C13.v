(* C13 - compositing obeys viewport, no-op and grouping laws; results stay in [0,1].

   Same model as C11 (Composite/Model.v kernel + Composite/Doc.v document sampling, instance over the reals).
   Results are compared modulo colour where alpha is 0: the code's 0/0 -> 1 convention makes that colour
   arbitrary ([peq] on states, [result_eq] on results: shape, alpha and alpha*colour).
   Compression independence and save+reopen independence are facts about the codecs (C04/C01) composed with
   the observation that the model is a function of the DECODED planes only; they are checked by two runs of
   the implementation in harness/vh/c13.py and are not theorems here. *)
From Coq Require Import ZArith Reals List Bool.
From PsdV Require Import Composite.Scalar Composite.Model Composite.Spec Composite.Geometry Composite.Doc
  Composite.ProofsKernel Composite.ProofsGeometry Composite.ProofsLaws Composite.ProofsLawsNS Composite.ProofsSim
  Composite.ProofsDoc Composite.ProofsViewport
  Composite.ProofsInsert Composite.ProofsWrap Composite.Plane Composite.ProofsPlane Composite.ProofsNoopDoc Composite.ProofsWrapDoc.
Import ListNotations.

(* ---------------- geometry: _intersect and paste (index arithmetic on Z) *)
Open Scope Z_scope.
Theorem inside_intersect a b x y : inside (intersect a b) x y = inside a x y && inside b x y.
Proof. exact (ProofsGeometry.inside_intersect a b x y). Qed.
Print Assumptions inside_intersect.

Theorem intersect_sentinel a b :
  is_zero_rect (intersect a b) = true <-> forall x y, inside a x y && inside b x y = false.
Proof. exact (intersect_zero_iff a b). Qed.
Print Assumptions intersect_sentinel.

Theorem paste_absolute {A : Type} (vp bb : rect) (values : Z -> Z -> A) (bg : A) (x y : Z) :
  inside vp x y = true ->
  let '(vl, vt, _, _) := vp in let '(bl, bt, _, _) := bb in
  paste vp bb values bg (y - vt) (x - vl) = if inside bb x y then values (y - bt) (x - bl) else bg.
Proof. exact (paste_abs vp bb values bg x y). Qed.
Print Assumptions paste_absolute.

Theorem paste_subviewport_is_crop {A : Type} (vp vp' bb : rect) (values : Z -> Z -> A) (bg : A) (x y : Z) :
  inside vp x y = true -> inside vp' x y = true ->
  let '(vl, vt, _, _) := vp in let '(vl', vt', _, _) := vp' in
  paste vp' bb values bg (y - vt') (x - vl') = paste vp bb values bg (y - vt) (x - vl).
Proof. exact (paste_crop vp vp' bb values bg x y). Qed.
Print Assumptions paste_subviewport_is_crop.

Open Scope R_scope.

(* ---------------- viewport = crop, for whole documents (any nesting, masks, clipping runs, groups) *)
Theorem viewport_crop (ls : list layer) (vp' vp : rect) (cb ab : R) (x y : Z) (k : nat) :
  Forall layer_ok ls -> unit cb -> unit ab ->
  subrect vp' vp -> inside vp' x y = true ->
  result_eq (@composite_doc ROps vp' cb ab ls x y k) (@composite_doc ROps vp cb ab ls x y k).
Proof. exact (ProofsViewport.viewport_crop ls vp' vp cb ab x y k). Qed.
Print Assumptions viewport_crop.

Theorem viewport_independent (ls : list layer) (vp1 vp2 : rect) (cb ab : R) (x y : Z) (k : nat) :
  Forall layer_ok ls -> unit cb -> unit ab ->
  inside vp1 x y = true -> inside vp2 x y = true ->
  result_eq (@composite_doc ROps vp1 cb ab ls x y k) (@composite_doc ROps vp2 cb ab ls x y k).
Proof. exact (ProofsViewport.viewport_independent ls vp1 vp2 cb ab x y k). Qed.
Print Assumptions viewport_independent.

Example viewport_hypotheses_example :
  subrect (1, 0, 3, 2)%Z (0, 0, 4, 2)%Z /\ inside (1, 0, 3, 2)%Z 2 1 = true.
Proof. split; [cbn; Lia.lia | reflexivity]. Qed.

(* ---------------- no-op layers *)
(* hidden: filtered out before anything is computed *)
Theorem noop_hidden vp x y k (L : layer) clips :
  at_vis (attrs_of L) = false -> @sample_layer ROps vp x y k L clips = [].
Proof. exact (sample_hidden vp x y k L clips). Qed.
Print Assumptions noop_hidden.

(* outside the viewport: the early exit *)
Theorem noop_outside vp x y k (L : layer) clips :
  is_zero_rect (intersect vp (bbox_of L)) = true -> @sample_layer ROps vp x y k L clips = [].
Proof. exact (sample_outside vp x y k L clips). Qed.
Print Assumptions noop_outside.

(* shape 0 at the pixel (outside the layer's box, or alpha 0 there), whatever its colour, blend function,
   knockout flag, mask and clip layers: the state is equivalent to the state before *)
Theorem noop_zero_alpha cs fa B ko clips (s : state ROps) :
  Inv s -> peq (apply_elem (@Leaf ROps cs 0 fa B ko clips) s) s.
Proof. exact (leaf_null_noop cs fa B ko clips s). Qed.
Print Assumptions noop_zero_alpha.

(* opacity 0: group alpha, total alpha and premultiplied colour are unchanged (the SHAPE grows, as PDF
   prescribes; it only matters inside knockout groups, which is why the statement is not [peq]) *)
Theorem noop_zero_opacity cs f fa B clips (s : state ROps) :
  Inv s -> unit f -> fa_ok fa -> fq fa = 0 ->
  let s' := apply_elem (@Leaf ROps cs f fa B false clips) s in
  ag s' = ag s /\ a s' = a s /\ a s' * c s' = a s * c s.
Proof. exact (leaf_zero_opacity_noop cs f fa B clips s). Qed.
Print Assumptions noop_zero_opacity.

(* colour under zero alpha never leaks: every element, every list and finish respect the equivalence *)
Theorem equivalence_is_a_congruence (l : list (elem ROps)) : Forall wf l ->
  forall s t, Inv s -> Inv t -> peq s t -> peq (apply_list l s) (apply_list l t).
Proof. exact (apply_list_peq l). Qed.
Print Assumptions equivalence_is_a_congruence.

Theorem finish_respects_equivalence (s t : state ROps) : Inv s -> Inv t -> peq s t ->
  let '(C, f, al) := @finish ROps s in let '(C', f', al') := @finish ROps t in
  f = f' /\ al = al' /\ al * C = al' * C'.
Proof. exact (finish_peq s t). Qed.
Print Assumptions finish_respects_equivalence.

(* removing shape-0 leaves anywhere in an element tree (inside groups, inside clipping runs) is sound *)
Theorem dropping_null_elements_is_sound (l' l : list (elem ROps)) :
  ProofsSim.sim true l' l -> Forall wf l' -> Forall wf l ->
  forall s t, Inv s -> Inv t -> peq s t -> peq (apply_list l' s) (apply_list l t).
Proof. exact (sim_sound_peq l' l). Qed.
Print Assumptions dropping_null_elements_is_sound.

(* ---------------- pass-through wrapping *)
Theorem passthrough_wrap (l : list (elem ROps)) (s : state ROps) :
  Forall wf l -> Forall (fun e => elem_ko e = false) l -> Inv s ->
  peq (apply_elem (@Group ROps false l ones normal_fn false []) s) (apply_list l s).
Proof. exact (ProofsLaws.passthrough_wrap l s). Qed.
Print Assumptions passthrough_wrap.

Example passthrough_wrap_example :
  let e1 := @Leaf ROps (1/5) (1/2) ones (@blend_fn ROps BMultiply) false [] in
  let e2 := @Group ROps true [@Leaf ROps (4/5) 1 ones (@blend_fn ROps BScreen) false []] ones normal_fn false
              [@Leaf ROps (1/2) (1/4) ones normal_fn false []] in
  Forall wf [e1; e2] /\ Forall (fun e => elem_ko e = false) [e1; e2] /\ Inv (@init ROps false (3/4) (1/2)).
Proof.
  assert (U : forall x : R, 0 <= x <= 1 -> unit x) by (intros; assumption).
  assert (O : fa_ok ones) by (unfold fa_ok, ones, unit; cbn; Lra.lra).
  assert (N : blend_ok normal_fn) by (intros ? ? _ H; exact H).
  split; [|split; [repeat constructor | apply init_Inv; unfold unit; Lra.lra]].
  repeat (constructor; try assumption; try apply ProofsBlend.blend_fn_range; try (unfold unit; Lra.lra)).
Qed.

(* a pass-through group WITH mask m, density d, fill k and opacity q (t = m*d*q*k): the parent ends in the
   premultiplied linear interpolation between its state before the group and the state reached by painting
   the children directly - what "opacity of a pass-through group" means *)
Theorem passthrough_opacity_is_lerp (l : list (elem ROps)) (fa : factors ROps) (s : state ROps) :
  Forall wf l -> Forall (fun e => elem_ko e = false) l -> fa_ok fa -> Inv s ->
  let t := fm fa * fd fa * fq fa * fk fa in
  let w := apply_elem (@Group ROps false l fa normal_fn false []) s in
  let d := apply_list l s in
  a w = Spec.lerp t (a s) (a d) /\ a w * c w = Spec.lerp t (a s * c s) (a d * c d).
Proof. exact (ProofsLaws.passthrough_lerp l fa s). Qed.
Print Assumptions passthrough_opacity_is_lerp.

(* ---------------- the same laws on whole documents *)
(* a hidden layer, or a layer whose box misses the viewport, inserted anywhere in a sibling list: the sampled
   element list is literally the same, provided the insertion does not re-parent the clipping layers that
   follow (the inserted layer is a clipping layer itself, or the next sibling is not one) *)
Theorem noop_insert_hidden vp x y k (N : layer) (l1 l2 : list layer) :
  at_vis (attrs_of N) = false ->
  at_clip (attrs_of N) = true \/ next_not_clipping l2 ->
  @sample_list ROps vp x y k (l1 ++ N :: l2) = @sample_list ROps vp x y k (l1 ++ l2).
Proof. intros H. apply sample_list_insert. apply hidden_vanishes. exact H. Qed.
Print Assumptions noop_insert_hidden.

Theorem noop_insert_outside vp x y k (N : layer) (l1 l2 : list layer) :
  is_zero_rect (intersect vp (bbox_of N)) = true ->
  at_clip (attrs_of N) = true \/ next_not_clipping l2 ->
  @sample_list ROps vp x y k (l1 ++ N :: l2) = @sample_list ROps vp x y k (l1 ++ l2).
Proof. intros H. apply sample_list_insert. apply outside_vanishes. exact H. Qed.
Print Assumptions noop_insert_outside.

(* inside a group the hidden layer does not even change the group's bounding box *)
Theorem noop_insert_hidden_in_group vp x y k pass (N : layer) (l1 l2 : list layer) at_ clips :
  at_vis (attrs_of N) = false ->
  at_clip (attrs_of N) = true \/ next_not_clipping l2 ->
  @sample_layer ROps vp x y k (Gr pass (l1 ++ N :: l2) at_) clips =
  @sample_layer ROps vp x y k (Gr pass (l1 ++ l2) at_) clips.
Proof. exact (sample_group_insert_hidden vp x y k pass N l1 l2 at_ clips). Qed.
Print Assumptions noop_insert_hidden_in_group.

(* wrapping a range of whole clipping runs of a sibling list in a visible, full-opacity, full-fill, unmasked,
   non-knockout pass-through group: equivalent state at every pixel of the viewport, from every state
   (so the law holds at any depth), the group's own viewport restriction and early exits included *)
Theorem passthrough_wrap_document vp x y k (l1 run l2 : list layer) (s : state ROps) :
  inside vp x y = true ->
  Forall layer_ok l1 -> Forall layer_ok run -> Forall layer_ok l2 ->
  starts_with_base run -> next_not_clipping l2 ->
  Forall (fun L => at_ko (attrs_of L) = false) run -> Inv s ->
  peq (apply_list (@sample_list ROps vp x y k (l1 ++ [Gr true run wrap_attrs] ++ l2)) s)
      (apply_list (@sample_list ROps vp x y k (l1 ++ run ++ l2)) s).
Proof. exact (ProofsWrap.passthrough_wrap_document vp x y k l1 run l2 s). Qed.
Print Assumptions passthrough_wrap_document.

Example passthrough_wrap_document_example :
  let base := Px (0, 0, 2, 1)%Z [[51; 204]%Z] [255; 128]%Z (MkAttrs true 255 255 BMultiply false None false 255) in
  let clipl := Px (1, 0, 3, 1)%Z [[10; 20]%Z] [64; 255]%Z (MkAttrs true 128 64 BScreen true None false 255) in
  starts_with_base [base; clipl] /\ next_not_clipping [base] /\
  Forall (fun L => at_ko (attrs_of L) = false) [base; clipl] /\ Forall layer_ok [base; clipl].
Proof.
  repeat split; try reflexivity; repeat constructor;
    unfold is_byte, attrs_ok, vals_ok; cbn; repeat constructor; unfold is_byte; try Lia.lia.
Qed.

(* wrapping at ANY depth and in several places at once: [wrapped l' l] = l' is l with ranges of whole clipping
   runs - top level, inside groups, inside the wrapped ranges themselves - put into visible full-opacity
   unmasked non-knockout pass-through groups.  Same shape, alpha and alpha*colour for every viewport. *)
Theorem passthrough_wrap_anywhere (l' l : list layer) vp cb ab x y k :
  wrapped l' l -> Forall layer_ok l' -> Forall layer_ok l -> unit cb -> unit ab -> inside vp x y = true ->
  result_eq (@composite_doc ROps vp cb ab l' x y k) (@composite_doc ROps vp cb ab l x y k).
Proof. exact (ProofsWrapDoc.passthrough_wrap_anywhere l' l vp cb ab x y k). Qed.
Print Assumptions passthrough_wrap_anywhere.

Example wrapped_example :
  let at0 := MkAttrs true 200 255 BMultiply false None false 255 in
  let base := Px (0, 0, 2, 1)%Z [[51; 204]%Z] [255; 128]%Z at0 in
  let clipl := Px (1, 0, 3, 1)%Z [[10; 20]%Z] [64; 255]%Z (MkAttrs true 128 64 BScreen true None false 255) in
  let top := Px (0, 0, 1, 1)%Z [[7]%Z] [99]%Z at0 in
  (* inside an isolated group, the run [base; clipl] is wrapped; at the top level [group; top] is wrapped too *)
  wrapped [Gr true [Gr false [Gr true [base; clipl] wrap_attrs; top] at0; top] wrap_attrs]
          [Gr false [base; clipl; top] at0; top].
Proof.
  cbv zeta.
  apply (wr_wrap _ [Gr false [_; _; _] _; _] [] []); [reflexivity | exact I | repeat constructor | | apply wr_nil].
  apply wr_group; [|apply wr_keep; apply wr_nil].
  apply (wr_wrap _ [_; _] [_] [_]); [reflexivity | reflexivity | repeat constructor | | apply wr_keep; apply wr_nil].
  apply wr_keep. apply wr_keep. apply wr_nil.
Qed.

(* ---------------- no-op layers inserted ANYWHERE: any positions of any sibling lists, inside groups at any
   depth, inside clipping runs (as clipping layers); [ins b x y k l' l] = l' is l with layers inserted that
   are null at the pixel (x, y).  The one side condition, built into [ins]: a non-clipping layer is not
   inserted directly below clipping layers (it would become their base - a restructuring, not a no-op). *)
(* strength b = true: hidden, pixel outside the layer's (group's) box - e.g. outside the viewport -, alpha 0
   at the pixel.  Every document, every viewport containing the pixel: shape, alpha and alpha*colour agree. *)
Theorem noop_insert_document (l' l : list layer) vp cb ab x y k :
  ins true x y k l' l -> Forall layer_ok l' -> Forall layer_ok l -> unit cb -> unit ab -> inside vp x y = true ->
  result_eq (@composite_doc ROps vp cb ab l' x y k) (@composite_doc ROps vp cb ab l x y k).
Proof. exact (ProofsNoopDoc.noop_insert_document l' l vp cb ab x y k). Qed.
Print Assumptions noop_insert_document.

(* strength b = false: additionally opacity 0 / fill opacity 0 layers and groups (they keep their SHAPE, which
   only the knockout formulas read): knockout-free documents, alpha and alpha*colour agree. *)
Theorem noop_insert_document_alpha (l' l : list layer) vp cb ab x y k :
  ins false x y k l' l -> Forall layer_ok l' -> Forall layer_ok l ->
  Forall layer_kofree l' -> Forall layer_kofree l -> unit cb -> unit ab -> inside vp x y = true ->
  let '(C', _, al') := @composite_doc ROps vp cb ab l' x y k in
  let '(C, _, al) := @composite_doc ROps vp cb ab l x y k in
  al' = al /\ al' * C' = al * C.
Proof. exact (ProofsNoopDoc.noop_insert_document_alpha l' l vp cb ab x y k). Qed.
Print Assumptions noop_insert_document_alpha.

(* which layers are null at a pixel *)
Theorem null_if_hidden b x y k (N : layer) : at_vis (attrs_of N) = false -> noop_at b x y k N.
Proof. exact (ProofsNoopDoc.noop_hidden b x y k N). Qed.
Theorem null_if_outside_box b x y k (N : layer) : inside (bbox_of N) x y = false -> noop_at b x y k N.
Proof. exact (ProofsNoopDoc.noop_outside_box b x y k N). Qed.
Theorem null_if_alpha0 b x y k rc chans alpha at_ :
  Forall (fun z => z = 0%Z) alpha -> noop_at b x y k (Px rc chans alpha at_).
Proof. exact (noop_alpha0 b x y k rc chans alpha at_). Qed.
Theorem null_if_opacity0 x y k (N : layer) :
  at_op (attrs_of N) = 0%Z \/ at_fill (attrs_of N) = 0%Z -> noop_at false x y k N.
Proof. exact (noop_opacity0 x y k N). Qed.
Print Assumptions null_if_opacity0.

(* a transparent CLIPPING layer inserted into the clipping run of a layer inside a group, and an opacity-0
   group on top of the document *)
Example ins_example :
  let at0 := MkAttrs true 255 255 BNormal false None false 255 in
  let base := Px (0, 0, 2, 1)%Z [[51; 204]%Z] [255; 128]%Z at0 in
  let clipl := Px (1, 0, 3, 1)%Z [[10; 20]%Z] [64; 255]%Z (MkAttrs true 128 64 BScreen true None false 255) in
  let transparent := Px (0, 0, 2, 1)%Z [[9; 9]%Z] [0; 0]%Z (MkAttrs true 255 255 BMultiply true None false 255) in
  let ghost := Gr false [base] (MkAttrs true 0 255 BNormal false None false 255) in
  ins false 1 0 0 [Gr true [base; transparent; clipl] at0; ghost] [Gr true [base; clipl] at0].
Proof.
  cbv zeta. apply ins_group.
  - apply ins_keep. apply ins_new; [apply noop_alpha0; repeat constructor | left; reflexivity |].
    apply ins_keep. apply ins_nil.
  - apply ins_new; [apply noop_opacity0; left; reflexivity | right; exact I | apply ins_nil].
Qed.

(* ---------------- range *)
Theorem results_in_unit_interval (ls : list layer) vp cb ab x y k :
  Forall layer_ok ls -> unit cb -> unit ab ->
  let '(C, f, al) := @composite_doc ROps vp cb ab ls x y k in unit C /\ unit f /\ unit al.
Proof. exact (composite_doc_in_range ls vp cb ab x y k). Qed.
Print Assumptions results_in_unit_interval.

(* Not proved (the harness checks these relations on the implementation):
   - opacity-0 insertion inside documents that use the knockout flag (there the law is false in general: an
     opacity-0 layer still knocks out, which is what the flag is for; the harness does not insert there either);
   - compression / reopen independence: two-run tests (see header). *)
