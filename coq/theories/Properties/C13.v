(* C13 - viewport, no-op and grouping laws (placeholder header; theorems below). *)
From PsdV Require Import Composite.Scalar Composite.Model Composite.Geometry Composite.ProofsGeometry.
