From PsdV Require Import Base.Prelude Rle.Model.
