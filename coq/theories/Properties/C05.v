(* C05 - PackBits codec contract, both implementations (rle.py and _rle.pyx).
   Only the property theorems; every proof is [exact] of a lemma of Rle/Proofs.v.
   All statements are unbounded: every list, every size. *)
From PsdV Require Import Base.Prelude Rle.Model Rle.Corr Rle.Proofs.

(* ---------------------------------------------------------------- encoder *)
(* 1. the encoder's output is a PackBits stream that the textbook expander maps back to the input *)
Theorem encode_expand : forall l, expand (encode l) = Some l.
Proof. exact Proofs.encode_expand. Qed.
Print Assumptions encode_expand.

(* 2. no no-op header (128) is ever emitted *)
Theorem encode_no_noop : forall l, ~ In 128 (headers (encode l)).
Proof. exact Proofs.encode_no_noop. Qed.
Print Assumptions encode_no_noop.

(* 3. worst-case size: length (encode l) <= n + ceil (n / 127), n = length l *)
Theorem encode_bound : forall l,
  127 * Z.of_nat (length (encode l)) <= 128 * Z.of_nat (length l) + 126.
Proof. exact Proofs.encode_bound. Qed.
Print Assumptions encode_bound.

(* Apple's figure n + ceil (n / 128) assumes 128-byte literal packets; this encoder's hold 127
   (MAX_LEN = 0xFF >> 1), so that figure is not met: 128 pairwise-distinct-adjacent bytes -> 130 *)
Theorem encode_apple_bound_refuted : exists l,
  Z.of_nat (length (encode l)) > Z.of_nat (length l) + (Z.of_nat (length l) + 127) / 128.
Proof. exists (ramp 128 0). vm_compute. reflexivity. Qed.
Print Assumptions encode_apple_bound_refuted.

(* the encoder's output consists of bytes *)
Theorem encode_bytes : forall l, bytes l -> bytes (encode l).
Proof. exact Proofs.encode_bytes. Qed.
Print Assumptions encode_bytes.
Example encode_bytes_hyp : bytes [1; 2; 2; 2; 3].
Proof. apply bytes_dec. reflexivity. Qed.

(* ---------------------------------------------------------------- python decoder *)
(* 4. the only failure of rle.decode is ValueError (never an index error, never out of fuel) *)
Theorem py_decode_total : forall d n,
  (exists r, py_decode d n = Ok r) \/ py_decode d n = Err ValueErr.
Proof. exact Proofs.py_decode_total. Qed.
Print Assumptions py_decode_total.

(* 5. a successful decode has exactly [n] bytes; the only exception is the lone no-op byte *)
Theorem py_decode_exact : forall d n r, bytes d -> py_decode d n = Ok r ->
  Z.of_nat (length r) = n \/ (d = [128] /\ r = []).
Proof. exact Proofs.py_decode_exact. Qed.
Print Assumptions py_decode_exact.
Example py_decode_exact_hyp : bytes [1; 7; 8; 254; 9] /\ py_decode [1; 7; 8; 254; 9] 5 = Ok [7; 8; 9; 9; 9].
Proof. split; [apply bytes_dec|]; reflexivity. Qed.
Example py_decode_exact_lone : bytes [128] /\ py_decode [128] 5 = Ok [].
Proof. split; [apply bytes_dec|]; reflexivity. Qed.

(* ---------------------------------------------------------------- cython decoder *)
(* 6. every fill_n / copy_n of _rle.decode stays inside the [n]-byte result buffer *)
Theorem cy_decode_no_oob_write : forall d n, bytes d -> 0 <= n -> cy_decode d n <> Err OOBWrite.
Proof. exact Proofs.cy_decode_no_oob_write. Qed.
Print Assumptions cy_decode_no_oob_write.

Theorem cy_decode_total : forall d n, bytes d -> 0 <= n ->
  (exists r, cy_decode d n = Ok r) \/ cy_decode d n = Err ValueErr \/ cy_decode d n = Err IndexErr.
Proof. exact Proofs.cy_decode_total. Qed.
Print Assumptions cy_decode_total.
Example cy_decode_hyp : bytes [254; 9; 0; 4] /\ 0 <= 4 /\ cy_decode [254; 9; 0; 4] 4 = Ok [9; 9; 9; 4].
Proof. split; [apply bytes_dec; reflexivity|]. split; [lia|reflexivity]. Qed.

(* 7. the two decoders agree except on the class [trailing_replicate] (finding F-C05-1) *)
Theorem cy_py_agree : forall d n, bytes d -> 0 <= n ->
  cy_decode d n = py_decode d n \/
  (trailing_replicate d n = true /\ cy_decode d n = Err IndexErr /\ py_decode d n = Err ValueErr).
Proof. exact Proofs.cy_py_agree. Qed.
Print Assumptions cy_py_agree.

(* ... and that class is exact: on every member the decoders do differ, in this way *)
Theorem trailing_replicate_differ : forall d n, bytes d -> 0 <= n -> trailing_replicate d n = true ->
  cy_decode d n = Err IndexErr /\ py_decode d n = Err ValueErr.
Proof. exact Proofs.trailing_replicate_differ. Qed.
Print Assumptions trailing_replicate_differ.
Example trailing_replicate_hyp : bytes [0; 5; 255] /\ 0 <= 3 /\ trailing_replicate [0; 5; 255] 3 = true.
Proof. split; [apply bytes_dec; reflexivity|]. split; [lia|reflexivity]. Qed.

Theorem differ_trailing_replicate : forall d n, bytes d -> 0 <= n ->
  cy_decode d n <> py_decode d n -> trailing_replicate d n = true.
Proof. exact Proofs.differ_trailing_replicate. Qed.
Print Assumptions differ_trailing_replicate.

(* unguarded agreement is false of the faithful model: witness of F-C05-1 *)
Theorem cy_py_agree_refuted : exists d n, cy_decode d n <> py_decode d n.
Proof. exists [0; 5; 255], 3. vm_compute. discriminate. Qed.
Print Assumptions cy_py_agree_refuted.

(* ---------------------------------------------------------------- round trip *)
(* 8. any conforming stream (not only this encoder's) decodes to its expansion *)
Theorem decode_conforming : forall d n r, bytes d -> expand d = Some r ->
  Z.of_nat (length r) = n -> 0 < n -> length d <> 1%nat -> py_decode d n = Ok r.
Proof. exact Proofs.decode_conforming. Qed.
Print Assumptions decode_conforming.
Example decode_conforming_hyp :
  bytes [254; 9; 128; 1; 4; 5] /\ expand [254; 9; 128; 1; 4; 5] = Some [9; 9; 9; 4; 5] /\
  Z.of_nat (length [9; 9; 9; 4; 5]) = 5 /\ 0 < 5 /\ length [254; 9; 128; 1; 4; 5] <> 1%nat.
Proof.
  split; [apply bytes_dec; reflexivity|]. split; [reflexivity|]. split; [reflexivity|].
  split; [lia|discriminate].
Qed.

(* 9. decode (encode l) = l for both decoders *)
Theorem decode_encode : forall l, bytes l -> py_decode (encode l) (Z.of_nat (length l)) = Ok l.
Proof. exact Proofs.decode_encode. Qed.
Print Assumptions decode_encode.

Theorem decode_encode_cy : forall l, bytes l -> cy_decode (encode l) (Z.of_nat (length l)) = Ok l.
Proof. exact Proofs.decode_encode_cy. Qed.
Print Assumptions decode_encode_cy.

Theorem encode_not_trailing : forall l, bytes l ->
  trailing_replicate (encode l) (Z.of_nat (length l)) = false.
Proof. exact Proofs.encode_not_trailing. Qed.
Print Assumptions encode_not_trailing.
Example decode_encode_hyp : bytes (ramp 130 250 ++ [7; 7; 7; 1; 1]).
Proof. apply bytes_dec. vm_compute. reflexivity. Qed.
