(* C08 - the layer tree mirrors the file's record order, and saving restores that order.
   Model: Tree/Build.v (PSDImage._init loop, constructor outcome, _build_record_tree, kind dispatch).
   All statements are for every record sequence / every forest: any length, any nesting depth. *)
From PsdV Require Import Base.Prelude Psd.Codec Psd.Model Tree.Forest Tree.Build Tree.BuildProofs Tree.File Tree.FileProofs.
From Coq Require Import Permutation.

(* ---- flatten then build: any forest that opening can produce (classes agree with the records,
   every group closed), of any depth *)
Theorem build_flatten : forall f : lforest, Forall WFc f -> build (flatten f) = Ok f.
Proof. exact build_flatten. Qed.
Print Assumptions build_flatten.

Theorem open_flatten : forall f : lforest, Forall WFc f -> open_doc (flatten f) = Opened f.
Proof. exact open_flatten. Qed.
Print Assumptions open_flatten.

(* a non-trivial forest meeting the hypothesis: leaf, group{ artboard{ type layer }, empty closed group } *)
Definition ex_b (i : Z) := mkRec i (Some DBound) None false [].
Definition ex_e (i : Z) (k : divk) (ts : list Z) := mkRec i (Some k) None false ts.
Definition ex_l (i : Z) (ts : list Z) := mkRec i None None true ts.
Definition ex_forest : lforest :=
  [ Leaf (ex_l 0 [26], KShape);
    Node (mkG (ex_b 1) (Some (ex_e 7 DOpen [])) GGroup)
      [ Node (mkG (ex_b 2) (Some (ex_e 4 DClosed [31])) GArtboard) [ Leaf (ex_l 3 [0; 26], KType) ];
        Node (mkG (ex_b 5) (Some (ex_e 6 DClosed [0])) GGroup) [] ] ].
Example ex_forest_wf : Forall WFc ex_forest.
Proof. repeat constructor. Qed.
Example ex_forest_roundtrip : map rid (flatten ex_forest) = [0; 1; 2; 3; 4; 5; 6; 7] /\ build (flatten ex_forest) = Ok ex_forest.
Proof. split; reflexivity. Qed.

(* ---- build then flatten, under the well-nestedness grammar WN ("a group contains exactly the
   records between its dividers, in order"; leaf classes by [classify], artboard by its keys) *)
Theorem flatten_build : forall s f, WN s f -> build s = Ok f /\ flatten f = s.
Proof. exact flatten_build. Qed.
Print Assumptions flatten_build.

(* the constructor succeeds exactly on the grammar, with exactly that tree *)
Theorem open_iff_wn : forall s f, open_doc s = Opened f <-> WN s f.
Proof. exact open_wn. Qed.
Print Assumptions open_iff_wn.

Theorem wn_kinds : forall s f, WN s f -> Forall WFc f /\ flatten f = s.
Proof. exact WN_sound. Qed.
Print Assumptions wn_kinds.

(* the grammar is total on the sequences an independent depth counter accepts, and only on those;
   the tree is unique *)
Theorem wn_total : forall s, balanced s -> exists f, WN s f.
Proof. exact wn_total. Qed.
Print Assumptions wn_total.

Theorem wn_balanced : forall s f, WN s f -> balanced s.
Proof. exact wn_balanced. Qed.
Print Assumptions wn_balanced.

Theorem wn_functional : forall s f f', WN s f -> WN s f' -> f = f'.
Proof. exact wn_functional. Qed.
Print Assumptions wn_functional.

Example ex_balanced : balanced (flatten ex_forest) /\ WN (flatten ex_forest) ex_forest.
Proof. split; [reflexivity|]. apply WFc_WN. exact ex_forest_wf. Qed.

(* ---- no record lost, duplicated or reordered: for EVERY sequence on which the loop succeeds
   (no well-nestedness hypothesis), and for the code's own flatten on every opened document *)
Theorem records_preserved : forall s f, build s = Ok f -> flatten f = s.
Proof. exact build_records. Qed.
Print Assumptions records_preserved.

Theorem records_preserved_opened : forall s f, open_doc s = Opened f -> flatten_opt f = map Some s.
Proof. exact open_records. Qed.
Print Assumptions records_preserved_opened.

Theorem ids_preserved : forall s f, open_doc s = Opened f -> map rid (flatten f) = map rid s.
Proof. exact ids_preserved. Qed.
Print Assumptions ids_preserved.

(* ---- what happens with sequences that are not well nested (DESIGN: unbalanced_rejected_or_open;
   on the real constructor both cases are rejected, the second by the clipping pass that ends _init) *)
Theorem balanced_opened : forall s, balanced s ->
  exists f, open_doc s = Opened f /\ build s = Ok f /\ Forall WFc f /\ flatten f = s.
Proof. exact open_balanced. Qed.
Print Assumptions balanced_opened.

Theorem extra_end_rejected : forall s, scan 0 s = None -> open_doc s = Raised 4.   (* AssertionError *)
Proof. exact open_extra_end. Qed.
Print Assumptions extra_end_rejected.

Theorem missing_end_rejected : forall s d, scan 0 s = Some (S d) -> open_doc s = Raised ATTRIBUTE_ERROR.
Proof. exact open_missing_end. Qed.
Print Assumptions missing_end_rejected.

Theorem missing_end_loop_keeps_open_group : forall s d, scan 0 s = Some (S d) ->
  exists f, build s = Ok f /\ closedF f = false /\ flatten f = s.
Proof. exact build_missing_end. Qed.
Print Assumptions missing_end_loop_keeps_open_group.

Example ex_extra_end : scan 0 [ex_l 0 []; ex_e 1 DOpen []] = None.
Proof. reflexivity. Qed.
Example ex_missing_end : scan 0 [ex_b 0; ex_l 1 []] = Some 1%nat.
Proof. reflexivity. Qed.

(* ---- kind dispatch: the code's if/elif chain equals the first-match table; the table is total
   and deterministic *)
Theorem classify_table : forall r k, Classifies r k <-> classify r = k.
Proof. exact classify_table. Qed.
Print Assumptions classify_table.

Theorem classify_total : forall r, exists k, Classifies r k.
Proof. exact classify_total. Qed.
Print Assumptions classify_total.

Theorem classify_deterministic : forall r k k', Classifies r k -> Classifies r k' -> k = k'.
Proof. exact classify_deterministic. Qed.
Print Assumptions classify_deterministic.

(* priority examples: type beats smart object beats the table; a fill with vector data and
   pixel_data_irrelevant is a shape, an adjustment is not; table order decides between two keys *)
Example ex_priority :
  classify (ex_l 0 [26; 6; 2; 1]) = KType /\ classify (ex_l 0 [26; 6; 2]) = KSmart /\
  classify (ex_l 0 [26; 6]) = KShape /\ classify (ex_l 0 [26; 10]) = KTab 10 /\
  classify (ex_l 0 [24; 10]) = KTab 10 /\ classify (mkRec 0 None None false [26; 6]) = KTab 6 /\
  classify (mkRec 0 (Some DOther) None false [26]) = KPixel.
Proof. repeat split; reflexivity. Qed.

(* ---- the dispatch sees the SET of deciding keys only: TaggedBlocks is an ordered dict, but neither the order of a
   record's blocks nor blocks with other keys can change the class *)
Theorem classify_depends_on_deciding : forall r r',
  (forall t, In t KIND_TAGS -> has t r = has t r') -> pdi r = pdi r' -> classify r = classify r'.
Proof. exact classify_depends_on_deciding. Qed.
Print Assumptions classify_depends_on_deciding.

Theorem classify_block_order_irrelevant : forall r r',
  Permutation (tags r) (tags r') -> pdi r = pdi r' -> classify r = classify r'.
Proof. exact classify_perm. Qed.
Print Assumptions classify_block_order_irrelevant.

Theorem classify_ignores_other_blocks : forall r pre t post,
  ~ In t KIND_TAGS -> classify (set_tags r (pre ++ t :: post)) = classify (set_tags r (pre ++ post)).
Proof. exact classify_ignores_other_blocks. Qed.
Print Assumptions classify_ignores_other_blocks.

Theorem artboard_block_order_irrelevant : forall r r', Permutation (tags r) (tags r') -> gkind_of r = gkind_of r'.
Proof. exact gkind_of_perm. Qed.
Print Assumptions artboard_block_order_irrelevant.

Example ex_other_block : ~ In 33 KIND_TAGS /\ ~ In 30 KIND_TAGS /\ Permutation [26; 6; 40] [40; 26; 6].
Proof.
  repeat split; try (vm_compute; intuition discriminate).
  apply perm_trans with (26 :: 40 :: [6]); [apply perm_skip, perm_swap|apply perm_swap].
Qed.

(* ---- end to end through the file model (Psd/Model.v, Psd/Leaf.v): PSDImage.open of the bytes that PSD.write
   produced.  For ANY well-formed document, opening the written bytes gives the tree of the records that were
   written (write only updates channel lengths, which _init does not look at) *)
Theorem open_bytes_saved : forall enc_s dec_s pad d bs n,
  0 < pad -> wf_psd enc_s dec_s d = true -> write_psd enc_s pad d = Ok (bs, n) ->
  open_bytes dec_s bs = open_psd d.
Proof. exact open_bytes_saved. Qed.
Print Assumptions open_bytes_saved.

(* a file-level record built from an abstract one is read back as that abstract record: the divider kinds are
   real 'lsct' / 'lsdk' SectionDividerSetting payloads parsed by the Leaf reader, the deciding keys tagged
   blocks with ARBITRARY payloads *)
Theorem abs_file : forall payload r, rep r -> abs_rec (file_rec payload r) = Ok r.
Proof. exact abs_file. Qed.
Print Assumptions abs_file.

(* the layer tree survives the actual bytes, any depth: write the records of [f] (in _build_record_tree's
   order) into a document, read the bytes back, open: [f].  Hypotheses: [f] is a tree opening can produce (WFc),
   its records are representable (id fits the 32-bit 'lyid' field, tag list canonical), the charset codec
   round-trips the empty name, and the write succeeds (all sizes fit their length fields) *)
Theorem open_saved_tree : forall enc_s dec_s payload pad f bs n,
  wf_name enc_s dec_s [] = true ->
  Forall WFc f -> Forall rep (flatten f) -> 0 < pad ->
  write_psd enc_s pad (doc_with (records_of_tree payload f)) = Ok (bs, n) ->
  open_bytes dec_s bs = Opened f.
Proof. intros enc_s dec_s payload pad f bs n Hn. exact (open_saved_tree_wf enc_s dec_s payload Hn pad f bs n). Qed.
Print Assumptions open_saved_tree.

(* all hypotheses hold for the depth-3 example, through real bytes (payload of deciding block c = [c; 7]) *)
Example ex_rep : Forall rep (flatten ex_forest).
Proof. repeat constructor. Qed.
Example ex_open_saved :
  match write_psd raw_codec 4 (doc_with (records_of_tree (fun c => [c; 7]) ex_forest)) with
  | Ok (bs, _) => open_bytes raw_codec bs = Opened ex_forest
  | Err _ => False
  end.
Proof. vm_compute. reflexivity. Qed.
