(* C09 -- structure edits behave like list edits and survive save and reopen. *)
From PsdV Require Import Base.Prelude Edit.Model Edit.Corr Edit.Inv.
Open Scope Z_scope.

(* F-C09-2: remove() leaves the stored _parent of the removed layer; Group.group_layers then
   attaches the new group to that stale parent although the layer is no longer listed there *)
Theorem group_layers_stale_parent_refuted :
  exists s o, Inv s /\ ~ memz 3 (kid_ids s 2) = true /\ snd (step s o) = Done [4]
              /\ kid_ids (fst (step s o)) 2 = [4].
Proof.
  exists (run empty_state (init4 ++ [Remove 2 3])), (GroupLayers [3] None).
  split; [apply Invb_iff; vm_compute; reflexivity|].
  split; [vm_compute; discriminate|].
  split; vm_compute; reflexivity.
Qed.
Print Assumptions group_layers_stale_parent_refuted.
