(* C09 -- structure edits behave like list edits and survive save and reopen.

   Model: Edit/Model.v.  Specification: Edit/Spec.v -- one plain list of ids per container and the
   Python list operations; an object is addressed by the list that contains it, never by a stored
   pointer.  [kid_ids s a] is the child-id list of object a in the model state s. *)
From PsdV Require Import Base.Prelude Edit.Model Edit.Spec Edit.Corr Edit.Inv Edit.Forest Edit.ProofsInv
  Edit.ProofsTree Edit.ProofsKids Edit.ProofsRefine Edit.Persist Edit.ProofsPersist.
Open Scope Z_scope.

(* ---------------------------------------------------------------- the tree is the result of the list operations *)

(* One accepted operation (outcome Done), from ANY state satisfying the invariant, with any arguments
   inside the guard (existing objects; listing operations get detached layers): every child list of
   the new state is what the plain-list operation gives.  Covers all 26 modelled operations: append,
   extend, insert, remove, pop, clear, item assignment and deletion, delete_layer, move_to_group,
   move_up, move_down, Group.new, Group.group_layers (and the setters / read-only operations, which
   leave the lists alone), for every code variant.  delete_layer / move_* / Group.new / group_layers
   locate an object by its stored _parent in the model and by the containing list in the
   specification: they agree because of invariant I1.  [refine_guard] is trivial except for
   group_layers without explicit parent, where it asks that layers[0]._parent still lists layers[0]
   (its negation is finding F-C09-2, refuted below). *)
Theorem step_refines : forall s o v,
  Inv s -> quiet s -> guard s o -> refine_guard s o -> snd (step s o) = Done v ->
  forall a, kid_ids (fst (step s o)) a = sp_apply (all_ids s) (next s) (is_container s) (kid_ids s) o a.
Proof. intros s o v HI Q. apply ProofsRefine.step_refines. split; assumption. Qed.
Print Assumptions step_refines.

(* All histories of any length: the model's lists and plain lists run side by side stay equal
   ([accepted]: every step answered Done and satisfied refine_guard; refused steps: Properties/C10.v). *)
Theorem history_refines : forall h s L,
  Inv s -> quiet s -> guards_r s h -> accepted s h ->
  (forall a, kid_ids s a = L a) -> forall a, kid_ids (run s h) a = sp_run s L h a.
Proof. intros h s L HI Q Hg Ha HL. apply (ProofsRefine.history_refines h s L (conj HI Q) Hg Ha HL). Qed.
Print Assumptions history_refines.

(* the hypotheses are satisfiable: a guarded, accepted history on the nested scene *)
Definition cfg_now : cfg := mkCfg true true true true true.
Example refines_example :
  let s := run (empty_state_v cfg_now) init1 in
  let h := [MoveToGroup 3 0; Insert 2 (-1) 6; MoveUp 4 (-2); GroupLayers [4; 5] None; Pop 1 0] in
  (Inv s /\ quiet s) /\ map (fun a => kid_ids (run s h) a) [0; 1; 2; 7]
                       = map (fun a => sp_run s (kid_ids s) h a) [0; 1; 2; 7].
Proof. split; [split; [apply Invb_iff; vm_compute; reflexivity | left; reflexivity] | vm_compute; reflexivity]. Qed.

(* refused operations: see Properties/C10.v (the invariant is kept; late refusals are findings) *)

(* ---------------------------------------------------------------- save and reopen *)
(* the record list written for a tree, read back by the reader's group stack, is the same tree:
   same identities (names, kinds, attributes and pixels travel with the record), nesting and order;
   for every tree, any depth and width *)
Theorem build_flatten : forall isg l, wk_l isg l -> build (flat_l isg l) [[]] = Some l.
Proof. exact build_flat. Qed.
Print Assumptions build_flatten.

Theorem reopen_after_save : forall lrfix isg f l,
  wk_l isg l -> (lrfix = true \/ lr16 f = None) -> reopen (save lrfix isg f l) = Some l.
Proof. exact Persist.reopen_after_save. Qed.
Print Assumptions reopen_after_save.

(* End to end, for every guarded history of any length from any state satisfying the invariant and every
   document d: history; save; open gives back the tree the history left below d -- the same objects (a
   record carries its identity: name, kind, visibility, clipping flag, opacity, rectangle and pixel planes
   are fields of the record, which travels unchanged), the same nesting, the same order; and by
   history_refines its child lists are those of the plain lists.  (lrfix = the writer updates the layer list
   the reader uses: /repo since de76dec; before it only for files without a Lr16/Lr32 block.) *)
Theorem history_save_reopen : forall h s f d lrfix,
  Inv s -> quiet s -> guards s h -> (lrfix = true \/ lr16 f = None) -> 0 <= d < next (run s h) ->
  reopen (save lrfix (isgroup (run s h)) f (kids_of (run s h) d)) = Some (kids_of (run s h) d).
Proof. intros h s f d lrfix HI Q. apply ProofsPersist.history_save_reopen. split; assumption. Qed.
Print Assumptions history_save_reopen.

Example reopen_example :
  reopen (save true (fun j => j <? 10) (mkFile [] (Some [RLeaf 77])) [T 1 [T 20 []; T 2 [T 21 []]]; T 22 []])
  = Some [T 1 [T 20 []; T 2 [T 21 []]]; T 22 []].
Proof. vm_compute. reflexivity. Qed.

(* F-C09-1 (fixed by de76dec): the pinned writer updated layer_info although the reader takes Lr16/Lr32 *)
Theorem save_lr16_drops_edit_refuted :
  exists isg f l, wk_l isg l /\ reopen (save false isg f l) <> Some l.
Proof. exact Persist.save_lr16_drops_edit_refuted. Qed.
Print Assumptions save_lr16_drops_edit_refuted.

(* ---------------------------------------------------------------- what the faithful model refutes *)
(* F-C09-2 (open): remove() leaves the stored _parent of the removed layer; Group.group_layers then
   attaches the new group to that stale parent although the layer is no longer listed there; plain
   lists leave the new group unattached.  On every code variant. *)
Theorem group_layers_stale_parent_refuted : forall c : cfg,
  exists s o, Inv s /\ memz 3 (kid_ids s 2) = false /\ snd (step s o) = Done [4]
              /\ kid_ids (fst (step s o)) 2 = [4]
              /\ sp_apply (all_ids s) (next s) (is_container s) (kid_ids s) o 2 = [].
Proof.
  intro c. exists (run (empty_state_v c) (init4 ++ [Remove 2 3])), (GroupLayers [3] None).
  destruct c as [[] [] [] [] []];
    (split; [apply Invb_iff; vm_compute; reflexivity|]; repeat split; vm_compute; reflexivity).
Qed.
Print Assumptions group_layers_stale_parent_refuted.

(* F-C09-7 (open, consequence of F-C10-1): once a layer is listed twice, the stored parent names only
   the last lister and move_to_group edits the wrong list *)
Theorem move_after_double_listing_refuted :
  exists s h, Inv s /\ kid_ids (run s h) 0 = [1; 2; 1]
              /\ sp_run s (kid_ids s) h 0 = [2; 1].
Proof.
  exists (run (empty_state_v cfg_now) init0), [Extend 5 [1]; Clear 5; MoveToGroup 1 0].
  split; [apply Invb_iff; vm_compute; reflexivity|]. split; vm_compute; reflexivity.
Qed.
Print Assumptions move_after_double_listing_refuted.
