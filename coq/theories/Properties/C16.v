(* C16 - attribute edits are observable at once and persist.
   Only the property theorems; proofs are [exact] of lemmas of Attrs/Proofs.v or [vm_compute] witnesses.
   All statements are for every layer state (every kind, every field value), every value, every history length.

   [cfg] selects the code that is modelled: [fixed_cfg] = the tree with the three repairs of this property
   (commits e50ee06, fc57e39, ee5faa2), the constructor repair cc4d99c and the proposed c16_group_setting_lsdk, [orig_cfg] = the tree before them.  Theorems quantified over [c] hold for
   both; the [_refuted] theorems about [orig_cfg] document the original defects F-C16-1/2/3. *)
From PsdV Require Import Base.Prelude Attrs.Model Attrs.Proofs.
From PsdV Require Attrs.Persist.

(* ---------------------------------------------------------------- 1. the getter shows the value at once *)
(* get c a (set a v s) = v, for every attribute, kind, value and configuration, under the exact guard *)
Theorem get_set : forall c a v s s',
  set c a v s = AOk s' -> get_set_guard c a v s = true -> get c a s' = v.
Proof. exact Proofs.get_set. Qed.
Print Assumptions get_set.

(* the guard is exact: outside it an accepted edit is NOT shown by the getter *)
Theorem get_set_exact : forall c a v s s',
  set c a v s = AOk s' -> get_set_guard c a v s = false -> get c a s' <> v.
Proof. exact Proofs.get_set_exact. Qed.
Print Assumptions get_set_exact.

(* with the repairs the guard is: a group object has its divider block (true of every group the library builds) *)
Theorem get_set_fixed : forall a v s s',
  divider_ok fixed_cfg s = true -> set fixed_cfg a v s = AOk s' -> get fixed_cfg a s' = v.
Proof. intros a v s s' D H. eapply Proofs.get_set; [exact H|apply Proofs.guard_fixed; exact D]. Qed.
Print Assumptions get_set_fixed.

Definition ex_pixel : layer := new_pixel orig_cfg false [76; 97] 2 3 4 3 0 0 77.
Definition ex_group : layer := new_group fixed_cfg [71] true 5.
Definition ex_fill : layer :=
  mkLayer KFill true [70] (Some [70]) false true 8 255 bm_norm false 0 0 0 0 None (Some 0) (Some 171) 32 32 box0 true 9 None.
Definition ex_group_content : layer :=
  mkLayer KGroup true [71] (Some [71]) false true 8 255 bm_norm false 0 0 0 0
    (Some (mkSdiv 1 true (Some bm_pass) None)) (Some 0) None 100 200 (25, 24, 66, 98) true 1 None.
Definition ex_group_lsdk : layer :=     (* a group whose divider sits under 'lsdk' only *)
  mkLayer KGroup true [71] (Some [71]) false true 8 255 bm_norm false 0 0 0 0 None (Some 0) None 100 200 box0 true 1
    (Some (mkSdiv 1 true (Some bm_pass) None)).
Definition lsdk_orig_cfg : cfg := mkCfg true true true false true.   (* the tree before c16_group_setting_lsdk *)

Example get_set_hyp :
  set fixed_cfg ALock (VInt 5) ex_pixel = AOk (with_lspf ex_pixel (Some 5)) /\
  get_set_guard fixed_cfg ALock (VInt 5) ex_pixel = true /\ divider_ok fixed_cfg ex_pixel = true.
Proof. repeat split. Qed.
Example get_set_group_hyp :
  divider_ok fixed_cfg ex_group = true /\ exists s', set fixed_cfg ABlend (VInt 1836411936) ex_group = AOk s'.
Proof. split; [reflexivity|eexists; reflexivity]. Qed.

(* F-C16-2 (original code): lock(flags) on a layer without a protection block stores 0 *)
Theorem lock_without_block_refuted : exists s v s',
  set orig_cfg ALock v s = AOk s' /\ get orig_cfg ALock s' <> v.
Proof. exists ex_pixel, (VInt 4), (with_lspf ex_pixel (Some 0)). split; [reflexivity|discriminate]. Qed.
Print Assumptions lock_without_block_refuted.

(* F-C16-3 (original code): clipping_layer = True on a layer without a document is ignored *)
Theorem clipping_detached_refuted : exists s v s',
  set orig_cfg AClip v s = AOk s' /\ get orig_cfg AClip s' <> v.
Proof. exists ex_pixel, (VBool true), ex_pixel. split; [reflexivity|discriminate]. Qed.
Print Assumptions clipping_detached_refuted.

(* F-C16-5 (code before c16_group_setting_lsdk): a group whose divider sits only under 'lsdk' reads NORMAL
   after blend_mode = PASS_THROUGH *)
Theorem get_set_blend_refuted : exists s s',
  set lsdk_orig_cfg ABlend (VInt bm_pass) s = AOk s' /\ get lsdk_orig_cfg ABlend s' = VInt bm_norm.
Proof. exists ex_group_lsdk. eexists. split; reflexivity. Qed.
Print Assumptions get_set_blend_refuted.

(* ... with the repair the same group is covered by get_set_fixed *)
Theorem lsdk_group_fixed : divider_ok fixed_cfg ex_group_lsdk = true /\ divider_ok lsdk_orig_cfg ex_group_lsdk = false /\
  exists s', set fixed_cfg ABlend (VInt bm_pass) ex_group_lsdk = AOk s' /\ get fixed_cfg ABlend s' = VInt bm_pass.
Proof. split; [reflexivity|]. split; [reflexivity|]. eexists. split; reflexivity. Qed.
Print Assumptions lsdk_group_fixed.

(* F-C16-1 (original code): the blend mode of a group made by Group.new reads None ... *)
Theorem new_group_blend_refuted : forall n o p, get orig_cfg ABlend (new_group orig_cfg n o p) = VNone.
Proof. reflexivity. Qed.
Print Assumptions new_group_blend_refuted.

(* ... while the repaired constructor gives PASS_THROUGH and a divider that is written *)
Theorem new_group_fixed : forall n o p,
  divider_ok fixed_cfg (new_group fixed_cfg n o p) = true /\ divider_signed fixed_cfg (new_group fixed_cfg n o p) = true /\
  get fixed_cfg ABlend (new_group fixed_cfg n o p) = VInt bm_pass.
Proof. exact Proofs.new_group_fixed. Qed.
Print Assumptions new_group_fixed.

Theorem new_pixel_ok : forall c att n t l w h dw dh p,
  divider_ok c (new_pixel c att n t l w h dw dh p) = true /\ divider_signed c (new_pixel c att n t l w h dw dh p) = true.
Proof. exact Proofs.new_pixel_ok. Qed.
Print Assumptions new_pixel_ok.

(* since /repo commit cc4d99c a layer created with ANY name shorter than 256 characters reads that name and has a
   record name that save can write (F-C19-3 before: the raw name went into the record) *)
Theorem new_group_name_writable : forall n o p, Z.of_nat (length n) < 256 ->
  name_writable (new_group fixed_cfg n o p) = true /\ get fixed_cfg AName (new_group fixed_cfg n o p) = VStr n.
Proof. exact Proofs.new_group_name_writable. Qed.
Print Assumptions new_group_name_writable.

Theorem new_pixel_name_writable : forall att n t l w h dw dh p, Z.of_nat (length n) < 256 ->
  name_writable (new_pixel fixed_cfg att n t l w h dw dh p) = true /\
  get fixed_cfg AName (new_pixel fixed_cfg att n t l w h dw dh p) = VStr n.
Proof. exact Proofs.new_pixel_name_writable. Qed.
Print Assumptions new_pixel_name_writable.

Theorem new_name_unwritable_refuted : exists n, name_writable (new_group orig_cfg n true 0) = false.
Proof. exists [1046]. reflexivity. Qed.
Print Assumptions new_name_unwritable_refuted.

(* ---------------------------------------------------------------- 2. which edits are accepted *)
(* acceptance depends on the attribute, the value and the kind only: name < 256 characters, opacity in 0..255,
   a BlendMode key, position only where the class has a setter (not Group / ShapeLayer / Artboard) *)
Theorem set_accepts : forall c a v s,
  (exists s', set c a v s = AOk s') <-> accepts (l_kind s) a v = true.
Proof. exact Proofs.set_accepts. Qed.
Print Assumptions set_accepts.

Theorem name_256_rejected : forall c l s,
  256 <= Z.of_nat (length l) -> set c AName (VStr l) s = AErr EAssert.
Proof.
  intros c l s H. simpl. unfold set_name.
  destruct (Z.of_nat (length l) <? 256) eqn:E; [apply Z.ltb_lt in E; lia|reflexivity].
Qed.
Print Assumptions name_256_rejected.

(* the name setter: record name is the value when macroman can encode it, "?" otherwise; 'luni' holds the value *)
Theorem name_record_fallback : forall c l s s',
  set c AName (VStr l) s = AOk s' ->
  l_luni s' = Some l /\ l_rname s' = (if macroman l then l else [qmark]) /\ macroman (l_rname s') = true.
Proof.
  intros c l s s' H. simpl in H. unfold set_name in H.
  destruct (Z.of_nat (length l) <? 256); inversion H; subst; simpl.
  repeat split. destruct (macroman l) eqn:M; [exact M|reflexivity].
Qed.
Print Assumptions name_record_fallback.

(* ---------------------------------------------------------------- 3. frame *)
(* an edit of attribute a leaves every other attribute's getter alone ... *)
Theorem frame : forall c a b v s s',
  a <> b -> set c a v s = AOk s' -> frame_guard a b s = true -> get c b s' = get c b s.
Proof. exact Proofs.frame. Qed.
Print Assumptions frame.
Example frame_hyp : AOpacity <> ALeft /\ frame_guard AOpacity ALeft ex_group_content = true /\
  exists s', set fixed_cfg AOpacity (VInt 7) ex_group_content = AOk s'.
Proof. split; [discriminate|]. split; [reflexivity|eexists; reflexivity]. Qed.

(* ... and the kind, the pixel payload, the fill opacity block, the other flags, the context *)
Theorem set_preserves : forall c a v s s', set c a v s = AOk s' -> same_rest s s'.
Proof. exact Proofs.set_same_rest. Qed.
Print Assumptions set_preserves.

(* the one dependency excluded by [frame_guard]: a Group's left/top/size are the box of its VISIBLE content
   (GroupMixin.bbox / Group.extract_bbox), so hiding the group moves them to 0.  By design, not a finding;
   replayed on group.psd by the harness (oracle kind "frame" skips exactly this). *)
Theorem frame_refuted : exists s s',
  set fixed_cfg AVisible (VBool false) s = AOk s' /\ get fixed_cfg ALeft s' <> get fixed_cfg ALeft s.
Proof. exists ex_group_content. eexists. split; [reflexivity|discriminate]. Qed.
Print Assumptions frame_refuted.

(* ---------------------------------------------------------------- 4. moving keeps the size *)
Theorem move_keeps_size_left : forall v s s',
  set_left v s = AOk s' -> move_guard_x v s = true ->
  get_width s' = get_width s /\ get_height s' = get_height s.
Proof. exact Proofs.move_left_size. Qed.
Print Assumptions move_keeps_size_left.

Theorem move_keeps_size_top : forall v s s',
  set_top v s = AOk s' -> move_guard_y v s = true ->
  get_width s' = get_width s /\ get_height s' = get_height s.
Proof. exact Proofs.move_top_size. Qed.
Print Assumptions move_keeps_size_top.

Theorem move_keeps_size_offset : forall x y s s',
  set_offset x y s = AOk s' -> move_guard_x x s = true -> move_guard_y y s = true ->
  get_width s' = get_width s /\ get_height s' = get_height s.
Proof. exact Proofs.move_offset_size. Qed.
Print Assumptions move_keeps_size_offset.
Example move_hyp : move_guard_x (-31) ex_fill = true /\ exists s', set_left (-31) ex_fill = AOk s'.
Proof. split; [reflexivity|eexists; reflexivity]. Qed.

(* F-C16-4 (current code): a fill layer whose new right edge is 0 changes its width (32 -> 64) *)
Theorem move_keeps_size_refuted : exists v s s',
  set_left v s = AOk s' /\ get_width s = 32 /\ get_width s' = 64.
Proof. exists (-32), ex_fill. eexists. repeat split. Qed.
Print Assumptions move_keeps_size_refuted.

(* ... and that class is exact *)
Theorem move_size_exact : forall v s s',
  set_left v s = AOk s' -> move_guard_x v s = false -> l_docw s <> 0 -> get_width s' <> get_width s.
Proof. exact Proofs.move_left_size_exact. Qed.
Print Assumptions move_size_exact.

(* ---------------------------------------------------------------- 5. histories *)
(* an edit that raises changes nothing (definition of [step]); accepted edits compose: after ANY sequence of
   edits every getter shows the last accepted value of its attribute, or its initial value *)
Theorem history_fixed : forall a l s,
  divider_ok fixed_cfg s = true -> derived_pos (l_kind s) a = false ->
  get fixed_cfg a (run_sets fixed_cfg l s) = lastval (l_kind s) a l (get fixed_cfg a s).
Proof. exact Proofs.history_fixed. Qed.
Print Assumptions history_fixed.
Example history_hyp :
  divider_ok fixed_cfg ex_group = true /\ derived_pos (l_kind ex_group) ABlend = false /\
  get fixed_cfg ABlend (run_sets fixed_cfg [(ABlend, VInt 1836411936); (AName, VStr [1; 2]); (ABlend, VInt 7); (ALeft, VInt 3)] ex_group)
  = VInt 1836411936.
Proof. repeat split. Qed.

(* any configuration, as long as the get/set guard holds along the way *)
Theorem history : forall c a l s,
  (forall b v, get_set_guard c b v s = true) ->
  (forall s1 s2 b v, set c b v s1 = AOk s2 ->
     (forall b' v', get_set_guard c b' v' s1 = true) -> (forall b' v', get_set_guard c b' v' s2 = true)) ->
  derived_pos (l_kind s) a = false ->
  get c a (run_sets c l s) = lastval (l_kind s) a l (get c a s).
Proof. exact Proofs.history. Qed.
Print Assumptions history.

Theorem history_pixels_kind : forall c l s,
  l_pixels (run_sets c l s) = l_pixels s /\ l_kind (run_sets c l s) = l_kind s.
Proof. intros. split; [apply Proofs.run_sets_pixels|apply Proofs.run_sets_kind]. Qed.
Print Assumptions history_pixels_kind.

(* ---------------------------------------------------------------- 6. save + open, abstract form *)
(* Section 7 DISCHARGES the assumption below against the byte-level format model; the abstract form is kept because
   it is what the harness tests directly on the implementation (real save + open, independent of the format model).
   The statements are relative to an abstract [save_open] and the ASSUMPTION that a layer whose fields fit their
   wire formats comes back as [stored] describes (record fields verbatim; 'luni' through UTF-16; 'lsct' through
   SectionDividerSetting.write/read).  The harness tests the assumption on every generated case by a real
   PSDImage.save + PSDImage.open (correspondence stream "history", operation OReopen). *)
Definition save_open_assumption (save_open : layer -> ares layer) : Prop :=
  forall s, writable s = true -> save_open s = AOk (stored s).

(* the model's executable [reopen] satisfies it, and raises exactly on the rest *)
Theorem reopen_satisfies_assumption : save_open_assumption reopen.
Proof. exact Proofs.reopen_stored. Qed.
Print Assumptions reopen_satisfies_assumption.

Theorem reopen_raises : forall s, writable s = false -> exists e, reopen s = AErr e.
Proof. exact Proofs.reopen_error. Qed.
Print Assumptions reopen_raises.

(* every getter reads the same after save + open *)
Theorem persist_get : forall save_open, save_open_assumption save_open -> forall c a s,
  writable s = true -> persist_get_guard c a s = true ->
  exists s', save_open s = AOk s' /\ get c a s' = get c a s.
Proof. exact Proofs.persist_get. Qed.
Print Assumptions persist_get.
Example persist_get_hyp :
  writable ex_group_content = true /\ forall a, persist_get_guard fixed_cfg a ex_group_content = true.
Proof. split; [reflexivity|intros []; reflexivity]. Qed.

(* a value set through the API reads back after save + open *)
Theorem persist_set : forall save_open, save_open_assumption save_open -> forall c a v s s1,
  set c a v s = AOk s1 -> get_set_guard c a v s = true -> persist_set_guard c a v s = true ->
  writable s1 = true ->
  exists s2, save_open s1 = AOk s2 /\ get c a s2 = v.
Proof. exact Proofs.persist_set. Qed.
Print Assumptions persist_set.
Example persist_set_hyp :
  exists s1, set fixed_cfg ABlend (VInt 1836411936) ex_group = AOk s1 /\
  get_set_guard fixed_cfg ABlend (VInt 1836411936) ex_group = true /\
  persist_set_guard fixed_cfg ABlend (VInt 1836411936) ex_group = true /\ writable s1 = true.
Proof. eexists. repeat split. Qed.

(* the kind, the pixels, the size, the fill opacity and the other flags survive too *)
Theorem persist_rest : forall save_open, save_open_assumption save_open -> forall s,
  writable s = true ->
  exists s', save_open s = AOk s' /\ l_kind s' = l_kind s /\ l_pixels s' = l_pixels s /\
    get_width s' = get_width s /\ get_height s' = get_height s /\ l_iopa s' = l_iopa s /\
    l_tp s' = l_tp s /\ l_fbits s' = l_fbits s.
Proof. exact Proofs.persist_rest. Qed.
Print Assumptions persist_rest.

(* which edits keep a layer writable: positions whose far edge stays in int32, lock flags in uint32 *)
Theorem set_writable : forall c a v s s',
  set c a v s = AOk s' -> writable s = true ->
  match a, v with
  | ALeft, VInt z => i32 z && i32 (z + get_width s)
  | ATop, VInt z => i32 z && i32 (z + get_height s)
  | ALock, VInt z => u32 z
  | _, _ => true
  end = true ->
  writable s' = true.
Proof. exact Proofs.set_writable. Qed.
Print Assumptions set_writable.

(* text without surrogates is UTF-16 stable (the name guard of persist) *)
Theorem utf16_no_surrogate : forall l, no_surrogate l -> utf16_rt l = l.
Proof. exact Proofs.utf16_rt_no_surrogate. Qed.
Print Assumptions utf16_no_surrogate.

(* and two characters forming a surrogate pair are not: they come back as one (string codecs: property C19) *)
Theorem utf16_pair_refuted : exists l, utf16_rt l <> l.
Proof. exists [55357; 56832]. vm_compute. discriminate. Qed.
Print Assumptions utf16_pair_refuted.

(* F-C16-1 (original code): a blend mode set on a new group is lost by save + open *)
Theorem persist_blend_refuted : exists v s1 s2,
  set orig_cfg ABlend v (new_group orig_cfg [71] true 5) = AOk s1 /\ get orig_cfg ABlend s1 = v /\
  reopen (attach 16 12 true s1) = AOk s2 /\ get orig_cfg ABlend s2 = VNone.
Proof. exists (VInt 1836411936). eexists. eexists. repeat split. Qed.
Print Assumptions persist_blend_refuted.

(* the whole property for histories: any sequence of edits, then save + open *)
Theorem history_persist : forall save_open, save_open_assumption save_open -> forall a l s,
  divider_ok fixed_cfg s = true -> divider_signed fixed_cfg s = true -> derived_pos (l_kind s) a = false ->
  writable (run_sets fixed_cfg l s) = true ->
  (a = AName -> persist_get_guard fixed_cfg AName (run_sets fixed_cfg l s) = true) ->
  exists s', save_open (run_sets fixed_cfg l s) = AOk s' /\
             get fixed_cfg a s' = lastval (l_kind s) a l (get fixed_cfg a s) /\ l_pixels s' = l_pixels s.
Proof. exact Proofs.history_persist. Qed.
Print Assumptions history_persist.
Example history_persist_hyp :
  let l := [(ALock, VInt 5); (AName, VStr [1048; 128512]); (ALeft, VInt (-7)); (AOpacity, VInt 300)] in
  divider_ok fixed_cfg ex_pixel = true /\ divider_signed fixed_cfg ex_pixel = true /\
  writable (run_sets fixed_cfg l ex_pixel) = true /\
  persist_get_guard fixed_cfg AName (run_sets fixed_cfg l ex_pixel) = true /\
  lastval KPixel AOpacity l (VInt 255) = VInt 255 /\ lastval KPixel ALock l VNone = VInt 5.
Proof. repeat split. Qed.


(* ---------------------------------------------------------------- 7. save + open on BYTES: the assumption discharged *)
(* [Persist.save_open_bytes e s] = abstract (LayerRecord.read (LayerRecord.write (record of s in environment e))):
   the layer's fields in the byte-level record of Psd/Model.v, its 'luni' / 'lsct' / 'lsdk' / 'lspf' / 'iOpa' blocks as
   typed payloads of Psd/Leaf.v, the str <-> UTF-16 step of Strings/Model.v; the environment [e] is everything else a
   real record carries (channel infos, mask, blending ranges, every other tagged block), arbitrary but well formed.
   [Persist.sound e s] = invariants of the Python objects (enum members, byte fields, flag bits, names are str of at
   most 2^24 characters) + the environment writes and stays below 2 GiB.  Composition of C01.layer_record_roundtrip
   (Psd.Proofs.record_rt), Psd.LeafProofs.leaf_rt, Strings.Proofs.join_units_utf16, Strings.CodecProofs.macroman_law. *)
Theorem stored_roundtrip : forall e s,
  Persist.sound e s -> writable s = true -> Persist.save_open_bytes e s = AOk (stored s).
Proof. exact Persist.stored_roundtrip. Qed.
Print Assumptions stored_roundtrip.

(* the byte-level save + open succeeds exactly on writable layers: the model's [reopen] IS the byte-level function *)
Theorem save_open_bytes_is_reopen : forall e s,
  Persist.sound e s -> (exists s', Persist.save_open_bytes e s = AOk s') <-> writable s = true.
Proof. exact Persist.save_open_bytes_is_reopen. Qed.
Print Assumptions save_open_bytes_is_reopen.

Definition ex_env : Persist.env :=
  Persist.mkEnv 1 [Psd.Model.mkCI (-1) 2; Psd.Model.mkCI 0 2] None (Psd.Model.mkBR None None)
    [Psd.Model.mkTB 943868237 1819896164 [0; 0; 0; 7]].     (* an 'lyid' block *)
Example sound_hyp : Persist.sound ex_env ex_group_content /\ Persist.sound ex_env ex_fill /\ writable ex_fill = true.
Proof.
  assert (E : Persist.env_fits ex_env).
  { split; [reflexivity|]. exists 12, 4, 4, 16.
    repeat split; try (eexists; eexists; split; [reflexivity|split; discriminate]). }
  split; [|split; [|reflexivity]]; (split; [reflexivity|]; split; [exact E|]; split; [reflexivity|]; split; [reflexivity|repeat constructor]).
Qed.

Theorem persist_get_bytes : forall e c a s,
  Persist.sound e s -> writable s = true -> persist_get_guard c a s = true ->
  exists s', Persist.save_open_bytes e s = AOk s' /\ get c a s' = get c a s.
Proof. exact Persist.persist_get_bytes. Qed.
Print Assumptions persist_get_bytes.

Theorem persist_set_bytes : forall e c a v s s1,
  Persist.sound e s -> Persist.value_text_ok a v ->
  set c a v s = AOk s1 -> get_set_guard c a v s = true -> persist_set_guard c a v s = true ->
  writable s1 = true ->
  exists s2, Persist.save_open_bytes e s1 = AOk s2 /\ get c a s2 = v.
Proof. exact Persist.persist_set_bytes. Qed.
Print Assumptions persist_set_bytes.

Theorem persist_rest_bytes : forall e s,
  Persist.sound e s -> writable s = true ->
  exists s', Persist.save_open_bytes e s = AOk s' /\ l_kind s' = l_kind s /\ l_pixels s' = l_pixels s /\
    get_width s' = get_width s /\ get_height s' = get_height s /\ l_iopa s' = l_iopa s /\
    l_tp s' = l_tp s /\ l_fbits s' = l_fbits s.
Proof. exact Persist.persist_rest_bytes. Qed.
Print Assumptions persist_rest_bytes.

(* soundness is an invariant: the constructors establish it, every setter keeps it *)
Theorem sound_set : forall e c a v s s',
  set c a v s = AOk s' -> Persist.value_text_ok a v -> Persist.sound e s -> Persist.sound e s'.
Proof. exact Persist.sound_set. Qed.
Print Assumptions sound_set.

(* the whole property on bytes: any sequence of edits on a sound layer, then save + open *)
Theorem history_persist_bytes : forall e a l s,
  Persist.sound e s -> Forall (fun av => Persist.value_text_ok (fst av) (snd av)) l ->
  divider_ok fixed_cfg s = true -> divider_signed fixed_cfg s = true -> derived_pos (l_kind s) a = false ->
  writable (run_sets fixed_cfg l s) = true ->
  (a = AName -> persist_get_guard fixed_cfg AName (run_sets fixed_cfg l s) = true) ->
  exists s', Persist.save_open_bytes e (run_sets fixed_cfg l s) = AOk s' /\
             get fixed_cfg a s' = lastval (l_kind s) a l (get fixed_cfg a s) /\ l_pixels s' = l_pixels s.
Proof. exact Persist.history_persist_bytes. Qed.
Print Assumptions history_persist_bytes.
