(* C04 - placeholder while the proofs are being developed *)
From PsdV Require Import Base.Prelude Rle.Model Compression.Model.
Example c04_placeholder : row_size 10 1 = 2.
Proof. reflexivity. Qed.
