(* C04 - channel compression is lossless for every codec, depth, size and file version.
   Only the property theorems; every proof is [exact] of a lemma of Compression/Proofs*.v (or a vm_compute
   witness).  All statements are for every width, height and content (no bound); depth in {1, 8, 16, 32};
   zlib is abstract: any pair [zc zd] with [zd (zc x) = Some x] (the law is tested by the harness on every
   payload of a run).  The row decoder is any decoder that accepts conforming PackBits rows; both decoders
   of the code do (C05), see [py_conforming], [cy_conforming]. *)
From PsdV Require Import Base.Prelude Rle.Model Rle.Proofs.
From PsdV Require Import Compression.Model Compression.Corr Compression.Proofs Compression.ProofsPredict
  Compression.ProofsCodec Compression.ProofsLoops Compression.ProofsTable.
From PsdV Require Psd.Codec Psd.Model Compression.File.

Definition zlib_law (zc : list Z -> list Z) (zd : list Z -> option (list Z)) : Prop :=
  forall x, zd (zc x) = Some x.

Example zlib_law_hyp : zlib_law zid zsome.     (* the instance the correspondence check evaluates *)
Proof. intros x. reflexivity. Qed.

(* ---------------------------------------------------------------- the row decoders of the code *)
Theorem py_conforming : conforming_decoder py_decode.
Proof. exact Compression.Proofs.py_conforming. Qed.
Print Assumptions py_conforming.

Theorem cy_conforming : conforming_decoder cy_decode.
Proof. exact Compression.Proofs.cy_conforming. Qed.
Print Assumptions cy_conforming.

(* ---------------------------------------------------------------- 1. codec level round trip *)
(* [raster data w h depth]: depth in {1,8,16,32}, 0 <= w, 0 <= h, data = h rows of (w*depth+7)/8 bytes.
   [codec_guard c depth]: only "ZIP with prediction needs depth <> 1"; no condition on the size
   (the width guard of finding F-C04-2 went away with its repair, commit 992c68e). *)
Theorem roundtrip : forall zc zd, zlib_law zc zd -> forall rdec, conforming_decoder rdec ->
  forall c data w h depth version e,
  raster data w h depth -> codec_guard c depth ->
  compress zc c data w h depth version = Ok e ->
  decompress zd rdec c e w h depth version = Ok data.
Proof. exact ProofsCodec.roundtrip. Qed.
Print Assumptions roundtrip.
Example roundtrip_hyp :
  raster [1; 2; 3; 4; 5; 6; 7; 8; 9; 10; 11; 12] 3 2 16 /\ codec_guard ZIPP 16 /\
  compress zid ZIPP [1; 2; 3; 4; 5; 6; 7; 8; 9; 10; 11; 12] 3 2 16 1 = Ok [1; 2; 2; 2; 2; 2; 7; 8; 2; 2; 2; 2].
Proof.
  split; [|split; [discriminate|reflexivity]].
  split; [right; right; left; reflexivity|]. split; [lia|]. split; [lia|].
  split; [apply bytes_dec|]; reflexivity.
Qed.

(* compress does return a stream, unless an RLE row is too long for the row table of the file version *)
Theorem compress_ok : forall zc c data w h depth version,
  raster data w h depth -> codec_guard c depth ->
  (c = RLE -> 128 * row_size w depth + 126 < 127 * cmax version) ->
  exists e, compress zc c data w h depth version = Ok e.
Proof. exact ProofsCodec.compress_ok. Qed.
Print Assumptions compress_ok.

(* the [fits] guard is discharged from the encoder's worst case (C05 encode_bound): PSD rows up to
   65023 bytes (e.g. 30000 px at 16 bits), PSB rows up to 4261412863 bytes always fit; both bounds are tight *)
Theorem v1_safe_row : forall rs, rs <= 65023 -> 128 * rs + 126 < 127 * cmax 1.
Proof. exact Compression.Proofs.v1_safe_row. Qed.
Print Assumptions v1_safe_row.
Theorem v2_safe_row : forall rs, rs <= 4261412863 -> 128 * rs + 126 < 127 * cmax 2.
Proof. exact Compression.Proofs.v2_safe_row. Qed.
Print Assumptions v2_safe_row.

(* ... and right beyond it the code raises OverflowError (modelled, and observed on the code): 65024 ramp bytes *)
Theorem compress_rle_v1_overflow : exists data w, w = 65023 + 1 /\ raster data w 1 8 /\
  forall zc, compress zc RLE data w 1 8 1 = Err OverflowErr.
Proof.
  exists (ramp (Z.to_nat 65024) 0 1), 65024. split; [reflexivity|]. split.
  - split; [right; left; reflexivity|]. split; [lia|]. split; [lia|].
    split; [apply bytes_dec|]; vm_compute; reflexivity.
  - intros zc. vm_compute. reflexivity.
Qed.
Print Assumptions compress_rle_v1_overflow.

(* the repaired defect F-C04-2 (commit 992c68e): rasters of width 0, which the code used to reject
   (decode_rle asked for max(row_size,1) bytes per row; range(.., .., 0) in the 32-bit shuffle) *)
Example roundtrip_zero_width_rle :
  raster [] 0 2 8 /\ compress zid RLE [] 0 2 8 1 = Ok [0; 0; 0; 0] /\
  decompress zsome py_decode RLE [0; 0; 0; 0] 0 2 8 1 = Ok [] /\
  decompress zsome cy_decode RLE [0; 0; 0; 0] 0 2 8 1 = Ok [].
Proof.
  split; [|split; [|split]]; try (vm_compute; reflexivity).
  split; [right; left; reflexivity|]. split; [lia|]. split; [lia|]. split; [constructor|reflexivity].
Qed.
Example roundtrip_zero_width_zipp32 :
  raster [] 0 3 32 /\ compress zid ZIPP [] 0 3 32 1 = Ok [] /\
  decompress zsome cy_decode ZIPP [] 0 3 32 1 = Ok [].
Proof.
  split; [|split]; try (vm_compute; reflexivity).
  split; [right; right; right; reflexivity|]. split; [lia|]. split; [lia|]. split; [constructor|reflexivity].
Qed.

(* ZIP with prediction has no 1-bit form: rejected with ValueError whatever the raster *)
Theorem zipp_1bit_rejected : forall zc data w h version, compress zc ZIPP data w h 1 version = Err ValueErr.
Proof. exact ProofsCodec.zipp_1bit_rejected. Qed.
Print Assumptions zipp_1bit_rejected.

(* the repaired defect F-C04-1 (1-bit rows whose width is not a multiple of 8): 10 x 2 pixels, 2 bytes per row *)
Example roundtrip_1bit_10x2 :
  raster [255; 192; 170; 128] 10 2 1 /\ codec_guard RLE 1 /\
  compress zid RLE [255; 192; 170; 128] 10 2 1 1 = Ok [0; 3; 0; 3; 1; 255; 192; 1; 170; 128].
Proof.
  split; [|split; [exact I|reflexivity]].
  split; [left; reflexivity|]. split; [lia|]. split; [lia|]. split; [apply bytes_dec|]; reflexivity.
Qed.

(* ---------------------------------------------------------------- 2. any conforming encoder *)
(* a stream = row table (2- or 4-byte big-endian counts) followed by rows; each row is ANY PackBits
   stream that the textbook expander (Rle.Model.expand, independent of the code) maps to the raster row *)
Theorem decode_any_conforming : forall rdec, conforming_decoder rdec ->
  forall w h depth version (encs rows : list (list Z)),
  0 < row_size w depth ->
  length encs = Z.to_nat h ->
  Forall bytes encs ->
  Forall2 (fun e r => expand e = Some r) encs rows ->
  Forall (fun r => len r = row_size w depth) rows ->
  fits version encs = true ->
  decode_rle rdec (rle_stream version encs) w h depth version = Ok (concat rows).
Proof. exact Compression.Proofs.decode_any_conforming. Qed.
Print Assumptions decode_any_conforming.
Example decode_any_conforming_hyp :   (* rows written with a no-op header and a 2-byte run, which this encoder never emits *)
  let encs := [[128; 255; 7; 0; 9]; [2; 1; 2; 3]] in let rows := [[7; 7; 9]; [1; 2; 3]] in
  0 < row_size 3 8 /\ length encs = Z.to_nat 2 /\ Forall bytes encs /\
  Forall2 (fun e r => expand e = Some r) encs rows /\ Forall (fun r => len r = row_size 3 8) rows /\
  fits 1 encs = true /\ rle_stream 1 encs = [0; 5; 0; 4; 128; 255; 7; 0; 9; 2; 1; 2; 3].
Proof.
  cbv zeta. split; [reflexivity|]. split; [reflexivity|].
  split; [constructor; [apply bytes_dec; reflexivity|constructor; [apply bytes_dec; reflexivity|constructor]]|].
  split; [repeat constructor|]. split; [repeat constructor|]. split; reflexivity.
Qed.

(* prediction: decode_prediction inverts the per-row difference coding of the format description
   (big-endian words mod 2^depth; 32 bits: four byte planes per row, then bytewise differences) *)
Theorem prediction_roundtrip : forall data w h depth,
  (depth = 8 \/ depth = 16 \/ depth = 32) -> 0 <= w -> 0 <= h ->
  bytes data -> len data = w * h * (depth / 8) ->
  exists e, encode_prediction data w h depth = Ok e /\ len e = len data /\
            decode_prediction e w h depth = Ok data.
Proof. exact ProofsCodec.prediction_roundtrip. Qed.
Print Assumptions prediction_roundtrip.

(* ---------------------------------------------------------------- 3. delta_inv, shuffle_inv *)
Theorem delta_dec_enc_row : forall m l, 0 < m -> inrange m l -> delta_dec_row m (delta_enc_row m l) = l.
Proof. exact ProofsPredict.delta_dec_enc_row. Qed.
Print Assumptions delta_dec_enc_row.
Theorem delta_enc_dec_row : forall m l, 0 < m -> inrange m l -> delta_enc_row m (delta_dec_row m l) = l.
Proof. exact ProofsPredict.delta_enc_dec_row. Qed.
Print Assumptions delta_enc_dec_row.
Example delta_hyp : 0 < 65536 /\ inrange 65536 [65535; 0; 65535; 1; 1].
Proof. split; [lia|]. repeat constructor; lia. Qed.

Theorem restore_shuffle_row : forall w l, length l = (4 * w)%nat -> restore_row w (shuffle_row l) = l.
Proof. exact ProofsPredict.restore_shuffle_row. Qed.
Print Assumptions restore_shuffle_row.
Theorem shuffle_restore_row : forall w l, length l = (4 * w)%nat -> shuffle_row (restore_row w l) = l.
Proof. exact ProofsPredict.shuffle_restore_row. Qed.
Print Assumptions shuffle_restore_row.

(* the structural forms used above are the code's loops:
   - the index form of the generator _shuffled_order (k-th index r*4w + o + b*w) *)
Theorem shuffle_row_index_form : forall w l, length l = (4 * w)%nat -> shuffle_row_ix w l = shuffle_row l.
Proof. exact ProofsLoops.shuffle_row_index_form. Qed.
Print Assumptions shuffle_row_index_form.
Theorem restore_row_index_form : forall w l, length l = (4 * w)%nat -> restore_row_ix w l = restore_row w l.
Proof. exact ProofsLoops.restore_row_index_form. Qed.
Print Assumptions restore_row_index_form.
(* - the in-place loops of _delta_encode (x descending) and _delta_decode (x ascending) on one row *)
Theorem delta_encode_loop_form : forall m row, enc_inplace m row = delta_enc_row m row.
Proof. exact ProofsLoops.delta_encode_loop_form. Qed.
Print Assumptions delta_encode_loop_form.
Theorem delta_decode_loop_form : forall m row, dec_inplace m row = delta_dec_row m row.
Proof. exact ProofsLoops.delta_decode_loop_form. Qed.
Print Assumptions delta_decode_loop_form.

(* ---------------------------------------------------------------- 4. containers, with their own geometry *)
Theorem channel_data_roundtrip : forall zc zd, zlib_law zc zd -> forall rdec, conforming_decoder rdec ->
  forall cd cd' data w h depth version,
  raster data w h depth -> codec_guard (cd_comp cd) depth ->
  cd_set_data zc cd data w h depth version = Ok cd' ->
  cd_get_data zd rdec cd' w h depth version = Ok data.
Proof. exact ProofsCodec.channel_data_roundtrip. Qed.
Print Assumptions channel_data_roundtrip.

Theorem image_data_roundtrip : forall zc zd, zlib_law zc zd -> forall rdec, conforming_decoder rdec ->
  forall c planes hd e,
  let w := hd_w hd in let h := hd_h hd in let ch := hd_channels hd in let depth := hd_depth hd in
  depth_ok depth -> 0 <= w -> 0 <= h -> 0 < ch ->
  Z.of_nat (length planes) = ch ->
  Forall bytes planes -> Forall (fun p => len p = h * row_size w depth) planes ->
  codec_guard c depth ->
  id_set_data zc c planes hd = Ok e ->
  id_get_data zd rdec c e hd = Ok planes.
Proof. exact ProofsCodec.image_data_roundtrip. Qed.
Print Assumptions image_data_roundtrip.
Example image_data_hyp :
  let hd := {| hd_w := 2; hd_h := 1; hd_channels := 3; hd_depth := 8; hd_version := 2 |} in
  let planes := [[1; 1]; [2; 3]; [4; 4]] in
  Forall (fun p => len p = hd_h hd * row_size (hd_w hd) (hd_depth hd)) planes /\
  id_set_data zid RLE planes hd = Ok [0; 0; 0; 2; 0; 0; 0; 3; 0; 0; 0; 2; 255; 1; 1; 2; 3; 255; 4] /\
  id_get_data zsome cy_decode RLE [0; 0; 0; 2; 0; 0; 0; 3; 0; 0; 0; 2; 255; 1; 1; 2; 3; 255; 4] hd = Ok planes.
Proof. cbv zeta. split; [repeat constructor|]. split; vm_compute; reflexivity. Qed.

Theorem vma_roundtrip : forall zc zd, zlib_law zc zd -> forall rdec, conforming_decoder rdec ->
  forall c data w h depth v,
  raster data w h depth -> codec_guard c depth ->
  vm_set_data zc (w, h) data depth c = Ok v ->
  vm_get_data zd rdec v = Some (Ok data).
Proof. exact ProofsCodec.vma_roundtrip. Qed.
Print Assumptions vma_roundtrip.

(* ---------------------------------------------------------------- 5. the RLE row table (C03 clause) *)
(* the stream encode_rle writes starts with exactly h counts of the width the version prescribes (cw: 2 bytes
   PSD, 4 bytes PSB); each count is the length of its row and fits the field; the counts sum to the size of
   the row data that follows; table + rows is the whole stream *)
Theorem rle_table_truthful : forall data w h depth version e,
  encode_rle data w h depth version = Ok e ->
  let k := cw version in
  let table := firstn (Z.to_nat h * k) e in
  let body := skipn (Z.to_nat h * k) e in
  let counts := map be_dec (chunks k table) in
  length table = (Z.to_nat h * k)%nat /\
  length counts = Z.to_nat h /\
  counts = map len (rle_rows data w h depth) /\
  Forall (fun c => 0 <= c < cmax version) counts /\
  body = concat (rle_rows data w h depth) /\
  zsum counts = len body /\
  len e = Z.of_nat (Z.to_nat h * k) + zsum counts.
Proof. exact ProofsTable.rle_table_truthful. Qed.
Print Assumptions rle_table_truthful.
Example rle_table_truthful_hyp :
  encode_rle [7; 7; 7; 1; 2; 3] 3 2 8 2 = Ok [0; 0; 0; 2; 0; 0; 0; 4; 254; 7; 2; 1; 2; 3].
Proof. reflexivity. Qed.

(* ---------------------------------------------------------------- 6. decode_rle on ANY input (C06 clause) *)
(* what decode_rle hands to the row decoder are consecutive pieces of a prefix of the stream after the
   table: nothing is read twice, nothing beyond the end of the stream it was given *)
Theorem decode_rle_reads : forall rdec data w h depth version,
  let k := cw version in
  let n := (Z.to_nat h * k)%nat in
  decode_rle rdec data w h depth version =
  if negb (Nat.eqb (length (firstn n data) mod k) 0) then Err ValueErr
  else dec_list rdec (rows_read (map be_dec (chunks k (firstn n data))) (skipn n data)) (row_size w depth).
Proof. exact ProofsTable.decode_rle_reads. Qed.
Print Assumptions decode_rle_reads.
Theorem rows_read_prefix : forall counts data, exists rest, concat (rows_read counts data) ++ rest = data.
Proof. exact ProofsTable.rows_read_prefix. Qed.
Print Assumptions rows_read_prefix.

(* both row decoders of the code never return more than the size they were asked for (C05) *)
Theorem py_bounded : bounded_decoder py_decode.
Proof. exact ProofsTable.py_bounded. Qed.
Print Assumptions py_bounded.
Theorem cy_bounded : bounded_decoder cy_decode.
Proof. exact ProofsTable.cy_bounded. Qed.
Print Assumptions cy_bounded.

(* bounded output for every stream, malformed tables and rows included *)
Theorem decode_rle_bounded : forall rdec, bounded_decoder rdec ->
  forall data w h depth version r,
  bytes data -> 0 <= h -> 0 <= row_size w depth ->
  decode_rle rdec data w h depth version = Ok r ->
  len r <= h * row_size w depth.
Proof. exact ProofsTable.decode_rle_bounded. Qed.
Print Assumptions decode_rle_bounded.
Example decode_rle_bounded_hyp :     (* a table that promises 255 and 3 bytes over 4 bytes of rows *)
  bytes [0; 255; 0; 3; 1; 7; 8; 128] /\ decode_rle py_decode [0; 255; 0; 3; 1; 7; 8; 128] 2 2 8 1 = Err ValueErr /\
  bytes [0; 3; 0; 9; 1; 7; 8; 255; 5] /\ decode_rle py_decode [0; 3; 0; 9; 1; 7; 8; 255; 5] 2 2 8 1 = Ok [7; 8; 5; 5].
Proof. repeat split; try (apply bytes_dec); vm_compute; reflexivity. Qed.

(* ---------------------------------------------------------------- 7. composition with the file model (C01) *)
(* pixels -> ChannelData.set_data -> channel j of layer i of a well-formed document -> write_psd -> bytes ->
   read_psd -> ChannelData.get_data with the re-read header's depth and version: the pixels.
   (psd_roundtrip of Properties/C01.v gives the compressed bytes back, [roundtrip] above the pixels.) *)
Theorem pixels_survive_file_channel :
  forall zc zd, zlib_law zc zd -> forall rdec, conforming_decoder rdec -> forall enc_s dec_s,
  forall pad (d : Psd.Model.psd) i j data w h cd0 cd' bs n,
  0 < pad -> Psd.Model.wf_psd enc_s dec_s d = true ->
  let depth := Psd.Model.h_depth (Psd.Model.p_header d) in
  let version := Psd.Model.h_version (Psd.Model.p_header d) in
  raster data w h depth -> codec_guard (cd_comp cd0) depth ->
  cd_set_data zc cd0 data w h depth version = Ok cd' ->
  File.layer_channel d i j = Some (File.to_file cd') ->
  Psd.Model.write_psd enc_s pad d = Ok (bs, n) ->
  exists d2, Psd.Model.read_psd dec_s bs = Ok d2 /\
    exists cd2, File.layer_channel d2 i j = Some cd2 /\
      cd_get_data zd rdec (File.of_file cd2) w h
        (Psd.Model.h_depth (Psd.Model.p_header d2)) (Psd.Model.h_version (Psd.Model.p_header d2)) = Ok data.
Proof. exact File.pixels_survive_file_channel. Qed.
Print Assumptions pixels_survive_file_channel.

(* planes -> ImageData.set_data(planes, header) -> image data section -> write_psd -> read_psd ->
   ImageData.get_data(header of the re-read document): the planes *)
Theorem pixels_survive_file_image :
  forall zc zd, zlib_law zc zd -> forall rdec, conforming_decoder rdec -> forall enc_s dec_s,
  forall pad c planes (d d1 : Psd.Model.psd) bs n,
  0 < pad ->
  let hd := Psd.Model.p_header d in
  Z.of_nat (length planes) = Psd.Model.h_channels hd ->
  Forall bytes planes ->
  Forall (fun p => len p = Psd.Model.h_height hd * row_size (Psd.Model.h_width hd) (Psd.Model.h_depth hd)) planes ->
  codec_guard c (Psd.Model.h_depth hd) ->
  File.store_image zc c planes d = Ok d1 ->
  Psd.Model.wf_psd enc_s dec_s d1 = true ->
  Psd.Model.write_psd enc_s pad d1 = Ok (bs, n) ->
  exists d2, Psd.Model.read_psd dec_s bs = Ok d2 /\ File.image_pixels zd rdec d2 = Ok planes.
Proof. exact File.pixels_survive_file_image. Qed.
Print Assumptions pixels_survive_file_image.

(* the hypotheses are satisfiable: a 2 x 1, 3-channel, 16-bit PSB with its merged image stored with RLE *)
Example pixels_survive_file_image_hyp :
  let d := Psd.Model.mkPSD (Psd.Model.mkHeader Psd.Model.sig_8BPS 2 3 1 2 16 3) [] []
             (Psd.Model.mkLAMI None None None) (Psd.Model.mkCD 0 []) in
  let planes := [[0; 1; 0; 1]; [2; 3; 4; 5]; [9; 9; 9; 9]] in
  exists d1 bs n,
    File.store_image zid RLE planes d = Ok d1 /\
    Psd.Model.wf_psd Psd.Model.raw_codec Psd.Model.raw_codec d1 = true /\
    Psd.Model.write_psd Psd.Model.raw_codec 4 d1 = Ok (bs, n) /\
    (exists d2, Psd.Model.read_psd Psd.Model.raw_codec bs = Ok d2 /\ File.image_pixels zsome cy_decode d2 = Ok planes).
Proof.
  cbv zeta. eexists. eexists. eexists.
  split; [vm_compute; reflexivity|]. split; [vm_compute; reflexivity|]. split; [vm_compute; reflexivity|].
  eexists. split; vm_compute; reflexivity.
Qed.

(* ... and a PSD with one 2 x 1 layer whose only channel holds RLE-compressed pixels *)
Example pixels_survive_file_channel_hyp :
  let cd' := {| cd_comp := RLE; cd_data := [0; 2; 255; 5] |} in
  let rec := Psd.Model.mkRec 0 0 1 2 [Psd.Model.mkCI 0 0] Psd.Model.sig_8BIM 1852797549 255 0
               (Psd.Model.mkFlags false false false false false false false false) None
               (Psd.Model.mkBR None None) [76] [] in
  let d := Psd.Model.mkPSD (Psd.Model.mkHeader Psd.Model.sig_8BPS 1 3 4 4 8 3) [] []
             (Psd.Model.mkLAMI (Some (Psd.Model.mkLI 1 (Some [rec]) (Some [[File.to_file cd']]))) None (Some []))
             (Psd.Model.mkCD 0 [0; 0; 0; 0; 0; 0; 0; 0; 0; 0; 0; 0]) in
  Psd.Model.wf_psd Psd.Model.raw_codec Psd.Model.raw_codec d = true /\
  raster [5; 5] 2 1 8 /\
  cd_set_data zid {| cd_comp := RLE; cd_data := [] |} [5; 5] 2 1 8 1 = Ok cd' /\
  File.layer_channel d 0 0 = Some (File.to_file cd') /\
  exists bs n, Psd.Model.write_psd Psd.Model.raw_codec 4 d = Ok (bs, n).
Proof.
  cbv zeta. split; [vm_compute; reflexivity|]. split.
  - split; [right; left; reflexivity|]. split; [lia|]. split; [lia|]. split; [apply bytes_dec|]; reflexivity.
  - split; [vm_compute; reflexivity|]. split; [reflexivity|]. eexists. eexists. vm_compute. reflexivity.
Qed.
