(* C06 - malformed input fails safely: the part that is logic.
   Interpreter crashes, wall-clock and memory are supervised by the harness (not theorems). *)
From PsdV Require Import Base.Prelude Malformed.Model Malformed.Proofs.

(* Whatever bytes are handed to the header reader, it answers Ok, IOError or ValueError - nothing else. *)
Theorem header_outcomes : forall b,
  (exists h, read_header b = Ok (h, skipn 26 b)) \/ read_header b = Err IOErr \/ read_header b = Err ValueErr.
Proof. exact Proofs.read_header_outcomes. Qed.
Print Assumptions header_outcomes.

(* An accepted header has a valid signature, version, channel count, size, depth and colour mode. *)
Theorem header_valid : forall b h rest,
  read_header b = Ok (h, rest) ->
  header_ok (firstn 4 b) h /\ rest = skipn 26 b /\ (26 <= length b)%nat.
Proof. exact Proofs.read_header_valid. Qed.
Print Assumptions header_valid.

Theorem header_truncated : forall b, (length b < 26)%nat -> read_header b = Err IOErr.
Proof. exact Proofs.read_header_short. Qed.
Print Assumptions header_truncated.

(* ... and every valid header is accepted (the validators reject nothing else): *)
Theorem header_complete : forall h rest,
  header_ok SIG h -> read_header (write_header h ++ rest) = Ok (h, rest).
Proof. exact Proofs.read_write_header. Qed.
Print Assumptions header_complete.

Example header_ok_hyp :
  header_ok SIG {| h_version := 2; h_channels := 56; h_height := 300000; h_width := 1; h_depth := 32; h_mode := 9 |}.
Proof. unfold header_ok, color_modes; cbn; intuition lia. Qed.

(* the bounds are tight: one past each limit is rejected (these were accepted before commit b073095) *)
Example header_57_channels_rejected :
  read_header (write_header {| h_version := 1; h_channels := 57; h_height := 1; h_width := 1; h_depth := 8; h_mode := 3 |}) = Err ValueErr.
Proof. reflexivity. Qed.
Example header_300001_rejected :
  read_header (write_header {| h_version := 2; h_channels := 3; h_height := 300001; h_width := 1; h_depth := 8; h_mode := 3 |}) = Err ValueErr.
Proof. reflexivity. Qed.

(* Count-driven loops: for ANY item reader that fails or consumes at least one byte, the number of iterations is
   bounded by the size of the data, whatever count the file declares (2^32-1 included), and the model never
   runs out of fuel: bounded work. *)
Theorem loop_iterations_bounded : forall A item,
  (forall s a s', item s = Ok (a, s') -> (length s' < length s)%nat) ->
  forall fuel count s t, snd (read_items A item fuel count s t) <= t + Z.of_nat (length s) + 1.
Proof. exact Proofs.read_items_ticks. Qed.
Print Assumptions loop_iterations_bounded.

Theorem loop_terminates : forall A item,
  (forall s a s', item s = Ok (a, s') -> (length s' < length s)%nat) ->
  (forall s, item s <> Err OutOfFuel) ->
  forall fuel count s t, (length s < fuel)%nat -> fst (read_items A item fuel count s t) <> Err OutOfFuel.
Proof. exact Proofs.read_items_fuel. Qed.
Print Assumptions loop_terminates.

(* A loop that succeeds read exactly the declared number of items and the data was long enough for them:
   an over-declared count always ends in an error, never in a partial structure. *)
Theorem loop_overcount_rejected : forall A item,
  (forall s a s', item s = Ok (a, s') -> (length s' < length s)%nat) ->
  (forall s, item s <> Err OutOfFuel) ->
  forall fuel count s t l rest t',
  read_items A item fuel count s t = (Ok (l, rest), t') ->
  Z.of_nat (length l) = Z.max count 0 /\ Z.max count 0 <= Z.of_nat (length s) /\ t' = t + Z.max count 0.
Proof. exact Proofs.read_items_overcount. Qed.
Print Assumptions loop_overcount_rejected.

(* Instance tied to the code by the correspondence check: descriptor List.read over 'long' items. *)
Theorem list_read_bounded : forall s,
  fst (read_list s) <> Err OutOfFuel /\ snd (read_list s) <= Z.of_nat (length s).
Proof. exact Proofs.read_list_bounded. Qed.
Print Assumptions list_read_bounded.

Example list_overcount :   (* declared 4294967295 items, one present: the second iteration finds no type code -> ValueError, after 2 iterations *)
  observe_list [255;255;255;255; 108;111;110;103; 0;0;0;7] = [err_code ValueErr; 2].
Proof. vm_compute. reflexivity. Qed.

(* ================================================================================================================
   Bounded work of the REAL readers: the container model of the format builder (Psd/Model.v: header, colour mode data,
   image resources, layer and mask information with its records / channel data / tagged blocks, image data) and its
   payload models (Psd/Descriptor.v, Effects.v, Patterns.v, Leaf.v).  From here on the names are those of Psd/Model.v
   (its read_header is the 26-byte reader above, field by field).                              Malformed/Cost*.v *)
From PsdV Require Import Psd.Codec Psd.Model Psd.Leaf Psd.Descriptor Psd.Effects Psd.Patterns.
From PsdV Require Import Malformed.CostTotal Malformed.CostTwin Malformed.CostThms Malformed.CostDescr.

(* ---- 1. every item reader that runs inside a count- or budget-driven loop consumes bytes when it succeeds *)
Theorem channel_info_progress : forall v s a s',            (* [ChannelInfo.read ... for i in range(num_channels)] *)
  read_channel_info v s = Ok (a, s') -> (length s' + 6 <= length s)%nat.
Proof. exact CostThms.channel_info_progress. Qed.
Print Assumptions channel_info_progress.
Theorem layer_record_progress : forall dec_s v s a s',      (* for _ in range(abs(layer_count)): LayerRecord.read *)
  read_record dec_s v s = Ok (a, s') -> (length s' + 43 <= length s)%nat.
Proof. exact CostThms.layer_record_progress. Qed.
Print Assumptions layer_record_progress.
Theorem channel_data_progress : forall n s a s',            (* for c in channel_info: ChannelData.read(fp, c.length - 2) *)
  read_channel_data n s = Ok (a, s') -> (length s' + 2 <= length s)%nat.
Proof. exact CostThms.channel_data_progress. Qed.
Print Assumptions channel_data_progress.
Theorem image_resource_progress : forall dec_s s a s',      (* while is_readable(fp, 4): ImageResource.read *)
  read_resource dec_s s = Ok (a, s') -> (length s' + 11 <= length s)%nat.
Proof. exact CostThms.image_resource_progress. Qed.
Print Assumptions image_resource_progress.
Theorem blending_range_progress : forall s a s',            (* while is_readable(fp, 8): read_channel_range *)
  read_range s = Ok (a, s') -> (length s' + 8 <= length s)%nat.
Proof. exact CostThms.blending_range_progress. Qed.
Print Assumptions blending_range_progress.
Theorem mask_params_progress : forall s a s',
  read_mask_params s = Ok (a, s') -> (length s' + 1 <= length s)%nat.
Proof. exact CostThms.mask_params_progress. Qed.
Print Assumptions mask_params_progress.
Theorem tagged_block_progress : forall v pad s b s',        (* while is_readable(fp, 8): TaggedBlock.read *)
  read_tagged_block v pad s = Ok (Some (b, s')) -> (length s' + 12 <= length s)%nat.
Proof. exact CostThms.tagged_block_progress. Qed.
Print Assumptions tagged_block_progress.
(* The readers that CAN succeed without consuming, exactly: TaggedBlock.read on an invalid signature (None: the loop
   breaks), ChannelDataList.read for a record without channels (the loop runs over the records already read:
   layer_count_bounded), GlobalLayerMaskInfo.read leaving a short block unread (not in a loop). *)
Theorem tagged_block_none_stops : forall f v pad budget s,
  read_tagged_block v pad s = Ok None -> read_tagged_items (S f) v pad budget s = Ok ([], s).
Proof. exact CostThms.tagged_block_none_stops. Qed.
Print Assumptions tagged_block_none_stops.
Theorem layer_count_bounded : forall dec_s v s li s',
  read_li_body dec_s v s = Ok (li, s') ->
  exists recs, li_records li = Some recs /\ Z.of_nat (length recs) = Z.abs (li_count li) /\
               (43 * length recs + 2 + length s' <= length s)%nat.
Proof. exact CostThms.layer_count_bounded. Qed.
Print Assumptions layer_count_bounded.
Theorem glmi_progress : forall s g s',
  read_glmi s = Ok (g, s') -> (s' = s /\ g = glmi_empty) \/ (length s' + 4 <= length s)%nat.
Proof. exact CostThms.glmi_progress. Qed.
Print Assumptions glmi_progress.
(* the count-driven loop of Psd/Model.v (read_n) over ANY item reader with progress p: a declared count is
   satisfiable only if count * p bytes are there *)
Theorem count_loop_bounded : forall A (rd : stream -> res (A * stream)) (p n : nat),
  (forall s a s', rd s = Ok (a, s') -> (length s' + p <= length s)%nat) ->
  forall s l s', read_n n rd s = Ok (l, s') -> length l = n /\ (length s' + n * p <= length s)%nat.
Proof. exact @CostThms.count_loop_bounded. Qed.
Print Assumptions count_loop_bounded.
(* descriptor family: every value reader consumes >= 1 byte, an item >= 9, a list element >= 5 *)
Theorem descriptor_value_progress : forall units fuel t os s d t' s',
  read_dval units fuel t os s = Ok (d, t', s') -> (length s' + 1 <= length s)%nat.
Proof. exact CostThms.descriptor_value_progress. Qed.
Print Assumptions descriptor_value_progress.
Theorem descriptor_items_progress : forall units fuel n t s r s',      (* descriptor.py:87 for _ in range(count) *)
  read_items (read_dval units fuel) n t s = Ok (r, s') -> (length s' + 9 * n <= length s)%nat.
Proof. exact CostThms.descriptor_items_progress. Qed.
Print Assumptions descriptor_items_progress.
Theorem descriptor_list_items_progress : forall units fuel n t s r s', (* descriptor.py:226 for _ in range(count) *)
  read_list_items (read_dval units fuel) n t s = Ok (r, s') -> (length s' + 5 * n <= length s)%nat.
Proof. exact CostThms.descriptor_list_items_progress. Qed.
Print Assumptions descriptor_list_items_progress.
Theorem effect_items_progress : forall n s r s',                       (* effects_layer.py:423 for _ in range(count) *)
  read_effect_items n s = Ok (r, s') -> (length s' + 12 * n <= length s)%nat.
Proof. exact CostThms.effect_items_progress. Qed.
Print Assumptions effect_items_progress.
Theorem vmal_channels_bounded : forall s v s',                         (* patterns.py:153 for _ in range(num_channels + 2) *)
  read_vmal s = Ok (v, s') -> (4 * length (vl_channels v) + 28 + length s' <= length s)%nat.
Proof. exact CostThms.vmal_channels_bounded. Qed.
Print Assumptions vmal_channels_bounded.

(* ---- 2. the whole-file reader on ANY byte string: total, with enough fuel, and linear cost *)
(* every outcome is a document or IOError / ValueError / AssertionError / an error of the charset decoder: never
   OutOfFuel (the fuel Model.read_psd passes to its loops, S (length data), is always sufficient), never IndexError *)
Theorem read_psd_total : forall dec_s b,
  (exists d, read_psd dec_s b = Ok d) \/
  (exists e, read_psd dec_s b = Err e /\
             ((e = IOErr \/ e = ValueErr \/ e = AssertErr) \/ exists x, dec_s x = Err e)).
Proof. exact CostTotal.read_psd_total. Qed.
Print Assumptions read_psd_total.
Theorem read_psd_fuel_sufficient : forall dec_s b,
  (forall x, dec_s x <> Err OutOfFuel) -> read_psd dec_s b <> Err OutOfFuel.
Proof. exact CostTotal.read_psd_fuel_sufficient. Qed.
Print Assumptions read_psd_fuel_sufficient.
Example decoder_hyp : forall x, raw_codec x <> Err OutOfFuel.
Proof. intros x. unfold raw_codec. destruct (forallb byteb x); discriminate. Qed.
(* an accepted file has a valid header (signature, version, channels, size, depth, colour mode) *)
Theorem read_psd_header_valid : forall dec_s b d, read_psd dec_s b = Ok d ->
  let h := p_header d in
  h_sig h = sig_8BPS /\ (h_version h = 1 \/ h_version h = 2) /\ 1 <= h_channels h <= 56 /\
  1 <= h_height h <= 300000 /\ 1 <= h_width h <= 300000 /\
  (h_depth h = 1 \/ h_depth h = 8 \/ h_depth h = 16 \/ h_depth h = 32) /\ In (h_mode h) model_color_modes.
Proof. intros dec_s b d H. apply CostThms.header_valid_spec. exact (CostThms.read_psd_header_valid dec_s b d H). Qed.
Print Assumptions read_psd_header_valid.

(* The instrumented twin (Malformed/CostTwin.v: same structure, one tick per fp.read call of the real code and per
   loop iteration) returns what read_psd returns, and its tick count is linear in the data with c = 2, k = 1 -
   whatever counts and lengths the bytes declare. *)
Theorem twin_same_result : forall dec_s b, fst (read_psd_t W_ticks dec_s b) = read_psd dec_s b.
Proof. exact CostThms.twin_same_result. Qed.
Print Assumptions twin_same_result.
Theorem read_psd_cost : forall dec_s b, ticks (read_psd_t W_ticks dec_s b) <= 2 * Z.of_nat (length b) + 1.
Proof. exact CostThms.read_psd_cost. Qed.
Print Assumptions read_psd_cost.
Example cost_tight_on_empty : ticks (read_psd_t W_ticks raw_codec []) = 2 * 0 + 1.
Proof. vm_compute. reflexivity. Qed.
(* a complete minimal document (header, three empty sections, raw image data): 9 reads, no iteration, 41 bytes returned *)
Definition minimal_psd : list Z :=
  [56;66;80;83; 0;1; 0;0;0;0;0;0; 0;1; 0;0;0;1; 0;0;0;1; 0;8; 0;1] ++ [0;0;0;0] ++ [0;0;0;0] ++ [0;0;0;0] ++ [0;0; 7].
Example cost_minimal : observe_cost minimal_psd = [0; 9; 0; 41].
Proof. vm_compute. reflexivity. Qed.
(* a layer count of 32767 over no data: one failed record read, not 32767 iterations *)
Example cost_overdeclared_layers :
  observe_cost ([56;66;80;83; 0;1; 0;0;0;0;0;0; 0;1; 0;0;0;1; 0;0;0;1; 0;8; 0;1] ++ [0;0;0;0] ++ [0;0;0;0]
                ++ [0;0;0;6] ++ [0;0;0;2] ++ [127;255]) = [err_code IOErr; 10; 1; 44].
Proof. vm_compute. reflexivity. Qed.

(* ---- 3. allocation *)
(* every modelled fp.read returns at most the bytes that are left - whatever length was declared *)
Theorem read_exact_alloc : forall n s a r, take n s = Ok (a, r) -> (length a <= length s)%nat.
Proof. exact CostThms.read_exact_alloc. Qed.
Print Assumptions read_exact_alloc.
Theorem read_lenient_alloc : forall n s, (length (fst (read_upto n s)) <= length s)%nat.
Proof. exact CostThms.read_lenient_alloc. Qed.
Print Assumptions read_lenient_alloc.
Theorem length_block_alloc : forall pre nb pad s d r,
  read_length_block pre nb pad s = Ok (d, r) -> (length d + pre + nb + length r <= length s)%nat.
Proof. exact CostThms.length_block_alloc. Qed.
Print Assumptions length_block_alloc.
(* ... and ALL the bytes returned by ALL reads of the whole-file reader (peeks of is_readable, blocks re-read as
   sub-streams, what a section reader looks at past its declared end) are at most six times the file *)
Theorem read_psd_bytes : forall dec_s b, ticks (read_psd_t W_bytes dec_s b) <= 6 * Z.of_nat (length b).
Proof. exact CostThms.read_psd_bytes. Qed.
Print Assumptions read_psd_bytes.

(* ---- payload readers: the fuel is sufficient on ANY bytes *)
Theorem dblock_fuel_sufficient : forall units two t s, read_dblock units two t s <> Err OutOfFuel.
Proof. exact CostDescr.dblock_fuel_sufficient. Qed.
Print Assumptions dblock_fuel_sufficient.
Theorem leaf_fuel_sufficient : forall k s, read_leaf k s <> Err OutOfFuel.
Proof. exact CostDescr.leaf_fuel_sufficient. Qed.
Print Assumptions leaf_fuel_sufficient.
Theorem patterns_fuel_sufficient : forall dec_s s,
  (forall x, dec_s x <> Err OutOfFuel) -> read_patterns dec_s (S (length s)) s <> Err OutOfFuel.
Proof.
  intros dec_s s Hd H. destruct (CostDescr.patterns_tot dec_s (S (length s)) s (Nat.lt_succ_diag_r _) _ H) as [[C|[C|C]]|[x C]];
    try discriminate C. exact (Hd x C).
Qed.
Print Assumptions patterns_fuel_sufficient.

(* NOT proved (partial): the cost twin covers the container model only - payload parsers (descriptors, effects,
   patterns, engine data, ...) have progress and fuel theorems above but no tick-count theorem; and the decode-time
   code (decompression, PIL/numpy buffers sized by the header geometry) is outside the model: see the allocation
   streams of harness/vh/c06.py.
   read_psd_cost_partial would be: ticks of PSDImage.open incl. payload parsing <= c * length b + k. *)
