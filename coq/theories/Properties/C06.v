(* C06 - malformed input fails safely: the part that is logic.
   Interpreter crashes, wall-clock and memory are supervised by the harness (not theorems). *)
From PsdV Require Import Base.Prelude Malformed.Model Malformed.Proofs.

(* Whatever bytes are handed to the header reader, it answers Ok, IOError or ValueError - nothing else. *)
Theorem header_outcomes : forall b,
  (exists h, read_header b = Ok (h, skipn 26 b)) \/ read_header b = Err IOErr \/ read_header b = Err ValueErr.
Proof. exact Proofs.read_header_outcomes. Qed.
Print Assumptions header_outcomes.

(* An accepted header has a valid signature, version, channel count, size, depth and colour mode. *)
Theorem header_valid : forall b h rest,
  read_header b = Ok (h, rest) ->
  header_ok (firstn 4 b) h /\ rest = skipn 26 b /\ (26 <= length b)%nat.
Proof. exact Proofs.read_header_valid. Qed.
Print Assumptions header_valid.

Theorem header_truncated : forall b, (length b < 26)%nat -> read_header b = Err IOErr.
Proof. exact Proofs.read_header_short. Qed.
Print Assumptions header_truncated.

(* ... and every valid header is accepted (the validators reject nothing else): *)
Theorem header_complete : forall h rest,
  header_ok SIG h -> read_header (write_header h ++ rest) = Ok (h, rest).
Proof. exact Proofs.read_write_header. Qed.
Print Assumptions header_complete.

Example header_ok_hyp :
  header_ok SIG {| h_version := 2; h_channels := 56; h_height := 300000; h_width := 1; h_depth := 32; h_mode := 9 |}.
Proof. unfold header_ok, color_modes; cbn; intuition lia. Qed.

(* the bounds are tight: one past each limit is rejected (these were accepted before commit b073095) *)
Example header_57_channels_rejected :
  read_header (write_header {| h_version := 1; h_channels := 57; h_height := 1; h_width := 1; h_depth := 8; h_mode := 3 |}) = Err ValueErr.
Proof. reflexivity. Qed.
Example header_300001_rejected :
  read_header (write_header {| h_version := 2; h_channels := 3; h_height := 300001; h_width := 1; h_depth := 8; h_mode := 3 |}) = Err ValueErr.
Proof. reflexivity. Qed.

(* Count-driven loops: for ANY item reader that fails or consumes at least one byte, the number of iterations is
   bounded by the size of the data, whatever count the file declares (2^32-1 included), and the model never
   runs out of fuel: bounded work. *)
Theorem loop_iterations_bounded : forall A item,
  (forall s a s', item s = Ok (a, s') -> (length s' < length s)%nat) ->
  forall fuel count s t, snd (read_items A item fuel count s t) <= t + Z.of_nat (length s) + 1.
Proof. exact Proofs.read_items_ticks. Qed.
Print Assumptions loop_iterations_bounded.

Theorem loop_terminates : forall A item,
  (forall s a s', item s = Ok (a, s') -> (length s' < length s)%nat) ->
  (forall s, item s <> Err OutOfFuel) ->
  forall fuel count s t, (length s < fuel)%nat -> fst (read_items A item fuel count s t) <> Err OutOfFuel.
Proof. exact Proofs.read_items_fuel. Qed.
Print Assumptions loop_terminates.

(* A loop that succeeds read exactly the declared number of items and the data was long enough for them:
   an over-declared count always ends in an error, never in a partial structure. *)
Theorem loop_overcount_rejected : forall A item,
  (forall s a s', item s = Ok (a, s') -> (length s' < length s)%nat) ->
  (forall s, item s <> Err OutOfFuel) ->
  forall fuel count s t l rest t',
  read_items A item fuel count s t = (Ok (l, rest), t') ->
  Z.of_nat (length l) = Z.max count 0 /\ Z.max count 0 <= Z.of_nat (length s) /\ t' = t + Z.max count 0.
Proof. exact Proofs.read_items_overcount. Qed.
Print Assumptions loop_overcount_rejected.

(* Instance tied to the code by the correspondence check: descriptor List.read over 'long' items. *)
Theorem list_read_bounded : forall s,
  fst (read_list s) <> Err OutOfFuel /\ snd (read_list s) <= Z.of_nat (length s).
Proof. exact Proofs.read_list_bounded. Qed.
Print Assumptions list_read_bounded.

Example list_overcount :   (* declared 4294967295 items, one present: the second iteration finds no type code -> ValueError, after 2 iterations *)
  observe_list [255;255;255;255; 108;111;110;103; 0;0;0;7] = [err_code ValueErr; 2].
Proof. vm_compute. reflexivity. Qed.
