(* C01 - every constructible low-level document survives write then read, and re-writes identically.

   Model: Psd/Model.v (mirrors psd_tools.psd read()/write() of the container classes, payloads of
   tagged blocks / image resources opaque), tied to /repo by harness/vh/c01.py on every run.
   All theorems quantify over: the charset codec (enc_s, dec_s - any pair of functions; the names
   present must lie where dec_s inverts enc_s, which is part of wf), the file version (in the
   header, 1 = PSD / 2 = PSB), the layer-info padding (any pad > 0, in particular 1, 2, 4), any
   number of resources / layers / channels / tagged blocks, any payload bytes (empty, odd, ...),
   any field value for which write() succeeds (an out-of-range value is a struct.error, no file).

   write() refreshes the per-channel lengths of the layer records (_update_channel_length), so the
   structure compared with the re-read one is the structure as it is after write ran
   ([psd_after_write d]; equal to d whenever the stored lengths were already truthful) - exactly what
   `PSD.frombytes(d.tobytes()) == d` compares in Python.

   The full statement ("for EVERY structure whose write succeeds") is false of the faithful model;
   the refuted classes are exhibited below ([*_refuted], replayed on the real code by the harness):
     F-C01-2  (FIXED in /repo by f3a2729, the guard is gone from wf) an empty GlobalLayerMaskInfo followed by
              fewer than 13 bytes in the rest of the file was not read back (is_readable(fp, 17) looked past
              the section); kept as [psd_roundtrip_refuted_before_f3a2729] about the old reader (Psd/Legacy.v);
     F-C01-3  MaskData with both feather parameters and no "real" fields is >= 36 bytes long and is
              read back as if it had the real fields - genuine defect (reader heuristic);
   and the structures that are not well-formed documents (their parts contradict each other, the
   format has no place for the distinction): tagged_blocks=None beside a layer info, layer_count=0
   with (empty) lists, opacity/kind without overlay colour, presence flag without parameters. *)
From PsdV Require Import Base.Prelude Psd.Codec Psd.Model Psd.Legacy Psd.Proofs Psd.Leaf Psd.LeafProofs Psd.Descriptor Psd.DescriptorProofs Psd.Effects Psd.EffectsProofs
  Psd.Patterns Psd.PatternsProofs Psd.Struct Psd.Adjust Psd.AdjustProofs Psd.Vector Psd.VectorProofs Psd.Linked Psd.LinkedProofs Psd.FilterFx Psd.FilterFxProofs Psd.Rsrc Psd.RsrcProofs Psd.Slices Psd.SlicesProofs Psd.Misc Psd.MiscProofs Psd.Meta Psd.MetaProofs Psd.LrBlockProofs Psd.Typed.
From Coq Require Import ZArith List Bool Lia.
Import ListNotations.
Open Scope Z_scope.

(* ------------------------------------------------------------------ the whole document *)
Theorem psd_roundtrip :
  forall enc_s dec_s pad d bs n,
    0 < pad -> wf_psd enc_s dec_s d = true ->
    write_psd enc_s pad d = Ok (bs, n) ->
    read_psd dec_s bs = Ok (psd_after_write d).
Proof. exact psd_rt. Qed.
Print Assumptions psd_roundtrip.

(* lengths already truthful: the re-read structure is the original itself *)
Theorem psd_roundtrip_exact :
  forall enc_s dec_s pad d bs n,
    0 < pad -> wf_psd enc_s dec_s d = true -> psd_after_write d = d ->
    write_psd enc_s pad d = Ok (bs, n) ->
    read_psd dec_s bs = Ok d.
Proof. intros enc_s dec_s pad d bs n Hp Hwf He H. rewrite (psd_rt enc_s dec_s pad d bs n Hp Hwf H). now rewrite He. Qed.
Print Assumptions psd_roundtrip_exact.

(* writing the re-read structure again yields exactly the same bytes *)
Theorem psd_rewrite :
  forall enc_s dec_s pad d bs n d',
    0 < pad -> wf_psd enc_s dec_s d = true ->
    write_psd enc_s pad d = Ok (bs, n) ->
    read_psd dec_s bs = Ok d' ->
    write_psd enc_s pad d' = Ok (bs, n).
Proof.
  intros enc_s dec_s pad d bs n d' Hp Hwf H Hr.
  rewrite (psd_rt enc_s dec_s pad d bs n Hp Hwf H) in Hr. inversion Hr; subst.
  now rewrite write_psd_after.
Qed.
Print Assumptions psd_rewrite.

(* ... and reading those bytes again yields the same structure again (a fixed point after one pass) *)
Theorem psd_reread_stable :
  forall enc_s dec_s pad d bs n,
    0 < pad -> wf_psd enc_s dec_s d = true ->
    write_psd enc_s pad d = Ok (bs, n) ->
    psd_after_write (psd_after_write d) = psd_after_write d /\
    write_psd enc_s pad (psd_after_write d) = Ok (bs, n).
Proof. intros. split; [apply psd_after_idem|now rewrite write_psd_after]. Qed.
Print Assumptions psd_reread_stable.

(* ------------------------------------------------------------------ per class: read (write x ++ rest) = (x, rest) *)
Theorem header_roundtrip : forall h bs n rest,
  header_valid h = true -> write_header h = Ok (bs, n) -> read_header (bs ++ rest) = Ok (h, rest).
Proof. exact header_rt. Qed.
Print Assumptions header_roundtrip.

Theorem color_mode_data_roundtrip : forall v bs n rest,
  write_cmd v = Ok (bs, n) -> read_cmd (bs ++ rest) = Ok (v, rest).
Proof. exact cmd_rt. Qed.
Print Assumptions color_mode_data_roundtrip.

Theorem image_resource_roundtrip : forall enc_s dec_s r bs n rest,
  wf_resource enc_s dec_s r = true -> write_resource enc_s r = Ok (bs, n) ->
  read_resource dec_s (bs ++ rest) = Ok (r, rest).
Proof. intros. now apply (resource_rt enc_s dec_s r bs n rest). Qed.
Print Assumptions image_resource_roundtrip.

Theorem image_resources_roundtrip : forall enc_s dec_s l bs n rest,
  wf_resources enc_s dec_s l = true -> write_resources enc_s l = Ok (bs, n) ->
  read_resources dec_s (bs ++ rest) = Ok (l, rest).
Proof. exact resources_rt. Qed.
Print Assumptions image_resources_roundtrip.

Theorem tagged_block_roundtrip : forall v pad b bs n rest,
  (pad = 1 \/ pad = 2 \/ pad = 4) -> wf_tb b = true ->
  write_tagged_block v pad b = Ok (bs, n) ->
  read_tagged_block v pad (bs ++ rest) = Ok (Some (b, rest)).
Proof. exact tagged_block_rt. Qed.
Print Assumptions tagged_block_roundtrip.

(* TaggedBlocks as read inside a layer record: to the end of the sub-stream, < 8 bytes of padding left *)
Theorem tagged_blocks_roundtrip : forall v pad l bs n tail,
  (pad = 1 \/ pad = 2 \/ pad = 4) -> wf_tbs l = true ->
  write_tagged_blocks v pad l = Ok (bs, n) -> len tail < 8 ->
  read_tagged_blocks v pad None (bs ++ tail) = Ok (l, tail).
Proof. exact tagged_blocks_rt. Qed.
Print Assumptions tagged_blocks_roundtrip.

(* ... and as read at the end of the section: up to end_pos, whatever follows in the file *)
Theorem tagged_blocks_endpos_roundtrip : forall v pad l bs n rest,
  (pad = 1 \/ pad = 2 \/ pad = 4) -> wf_tbs l = true ->
  write_tagged_blocks v pad l = Ok (bs, n) ->
  read_tagged_blocks v pad (Some (len bs)) (bs ++ rest) = Ok (l, rest).
Proof. exact tagged_blocks_budget_rt. Qed.
Print Assumptions tagged_blocks_endpos_roundtrip.

Theorem mask_data_roundtrip : forall m bs n rest,
  wf_mask m = true -> write_mask m = Ok (bs, n) -> read_mask (bs ++ rest) = Ok (Some m, rest).
Proof. exact mask_rt. Qed.
Print Assumptions mask_data_roundtrip.

Theorem mask_parameters_roundtrip : forall p bs n rest,
  write_mask_params p = Ok (bs, n) -> read_mask_params (bs ++ rest) = Ok (p, rest).
Proof. exact mask_params_rt. Qed.
Print Assumptions mask_parameters_roundtrip.

Theorem flags_roundtrip : forall f, flags_of (flags_byte f) = f /\ lflags_of (lflags_byte f) = f.
Proof. intros f. split; [apply flags_rt|apply lflags_rt]. Qed.
Print Assumptions flags_roundtrip.

Theorem blending_ranges_roundtrip : forall r bs n rest,
  wf_ranges r = true -> write_ranges r = Ok (bs, n) -> read_ranges (bs ++ rest) = Ok (r, rest).
Proof. exact ranges_rt. Qed.
Print Assumptions blending_ranges_roundtrip.

Theorem channel_info_roundtrip : forall v c bs n rest,
  wf_ci c = true -> write_channel_info v c = Ok (bs, n) -> read_channel_info v (bs ++ rest) = Ok (c, rest).
Proof. exact channel_info_rt. Qed.
Print Assumptions channel_info_roundtrip.

Theorem channel_data_roundtrip : forall c bs n rest,
  wf_cd c = true -> write_channel_data c = Ok (bs, n) ->
  read_channel_data (len (cd_data c)) (bs ++ rest) = Ok (c, rest).
Proof. exact channel_data_rt. Qed.
Print Assumptions channel_data_roundtrip.

Theorem layer_record_roundtrip : forall enc_s dec_s v r bs n rest,
  wf_record enc_s dec_s r = true -> write_record enc_s v r = Ok (bs, n) ->
  read_record dec_s v (bs ++ rest) = Ok (r, rest).
Proof. exact record_rt. Qed.
Print Assumptions layer_record_roundtrip.

(* LayerInfo: count, records with refreshed channel lengths, channel image data, trailing padding;
   the layer_count = 0 short form *)
Theorem layer_info_roundtrip : forall enc_s dec_s v pad li bs n rest,
  0 < pad -> wf_li enc_s dec_s li = true -> write_layer_info enc_s v pad li = Ok (bs, n) ->
  read_layer_info dec_s v (bs ++ rest) = Ok (li_after_write li, rest).
Proof. intros. now apply (layer_info_rt enc_s dec_s v pad li bs n rest). Qed.
Print Assumptions layer_info_roundtrip.

Theorem global_layer_mask_info_roundtrip : forall g bs n rest,
  wf_glmi g = true -> write_glmi g = Ok (bs, n) -> read_glmi (bs ++ rest) = Ok (g, rest).
Proof. intros. now apply (glmi_rt g bs n rest). Qed.
Print Assumptions global_layer_mask_info_roundtrip.

(* the section, in any context: [rest] is what follows it in the stream it is read from *)
Theorem layer_and_mask_information_roundtrip : forall enc_s dec_s v pad l bs n rest,
  0 < pad -> wf_lami enc_s dec_s v l (len rest) = true -> write_lami enc_s v pad l = Ok (bs, n) ->
  read_lami dec_s v (bs ++ rest) = Ok (lami_after_write l, rest).
Proof. exact lami_rt. Qed.
Print Assumptions layer_and_mask_information_roundtrip.

Theorem image_data_roundtrip : forall c bs n,
  wf_cd c = true -> write_image_data c = Ok (bs, n) -> read_image_data bs = Ok c.
Proof. intros. now apply (image_data_rt c bs n). Qed.
Print Assumptions image_data_roundtrip.

(* ------------------------------------------------------------------ Stage 2: leaf payload classes (Psd/Leaf.v)
   ByteElement, IntegerElement / ProtectedSetting, ShortIntegerElement, BooleanElement, StringElement,
   EmptyElement, Bytes, SectionDividerSetting, SheetColorSetting, ReferencePoint,
   ChannelBlendingRestrictionsSetting, Color, FilterMask, image_resources.Byte / Integer / ShortInteger:
   X.frombytes(x.tobytes(padding=p)) = x, for every padding p > 0 *)
Theorem leaf_roundtrip : forall pad l bs n,
  0 < pad -> wf_leaf l = true -> write_leaf pad l = Ok (bs, n) -> read_leaf (kind_of l) bs = Ok l.
Proof. exact leaf_rt. Qed.
Print Assumptions leaf_roundtrip.

(* ... and as the payload of a TaggedBlock, whatever the version, the block padding, the key *)
Theorem typed_block_roundtrip : forall v pad sg key l bs n rest,
  (pad = 1 \/ pad = 2 \/ pad = 4) -> memz sg model_tb_sigs = true -> wf_leaf l = true ->
  write_typed_block v pad sg key l = Ok (bs, n) ->
  read_typed_block (kind_of l) v pad (bs ++ rest) = Ok (Some (sg, key, l, rest)).
Proof. exact typed_block_rt. Qed.
Print Assumptions typed_block_roundtrip.

Example leaf_roundtrip_satisfiable :
  wf_leaf (LSectionDivider 1 (Some sig_8BIM) (Some 1885434739) (Some 4294967295)) = true /\
  (exists bs n, write_leaf 4 (LSectionDivider 1 (Some sig_8BIM) (Some 1885434739) (Some 4294967295)) = Ok (bs, n) /\ n = 16) /\
  wf_leaf (LString [55357; 56832; 65]) = true /\
  (exists bs n, write_leaf 4 (LString [55357; 56832; 65]) = Ok (bs, n) /\ n = 12).
Proof.
  split; [reflexivity|]. split; [do 2 eexists; split; vm_compute; reflexivity|]. split; [reflexivity|].
  do 2 eexists; split; vm_compute; reflexivity.
Qed.

(* what wf_leaf excludes: a SectionDividerSetting with a signature but no blend mode (or a sub type alone)
   writes only its kind; a Bytes value longer than 4 bytes is cut by the reader.  Not documents: the parts
   contradict each other / exceed the on-disk width. *)
Theorem leaf_roundtrip_refuted :
  (exists l bs n, l = LSectionDivider 0 (Some sig_8BIM) None None /\ write_leaf 4 l = Ok (bs, n) /\
                  read_leaf (kind_of l) bs = Ok (LSectionDivider 0 None None None)) /\
  (exists l bs n, l = LSectionDivider 0 None None (Some 7) /\ write_leaf 4 l = Ok (bs, n) /\
                  read_leaf (kind_of l) bs = Ok (LSectionDivider 0 None None None)) /\
  (exists l bs n, l = LBytes [1; 2; 3; 4; 5] /\ write_leaf 4 l = Ok (bs, n) /\
                  read_leaf (kind_of l) bs = Ok (LBytes [1; 2; 3; 4])).
Proof.
  split; [|split]; do 3 eexists; (split; [reflexivity|]); split; vm_compute; reflexivity.
Qed.
Print Assumptions leaf_roundtrip_refuted.

(* ------------------------------------------------------------------ Stage 2: the descriptor family (Psd/Descriptor.v)
   Descriptor / GlobalObject / ObjectArray, List / Reference, Property, UnitFloat(s), Double, Class1-3, String,
   EnumeratedReference, Offset, Bool, LargeInteger, Integer / Identifier / Index, Enumerated, RawData / Alias /
   Path, Name - nested to ANY depth, any number of items; the `_TERMS` rule is explicit state: for every term set
   [t] made of 4-byte codes, reading what was written under [t] gives the value back and leaves [t] unchanged
   (the reader only adds a key it meets with length 0 and does not know: the writer never produces one). *)
Theorem descriptor_roundtrip : forall units t d bs n rest fuel,
  wf_terms t = true -> wf_dval units d = true ->
  write_dval t d = Ok (bs, n) -> (dsize d <= fuel)%nat ->
  read_dval units fuel t (ostype_of d) (bs ++ rest) = Ok (d, t, rest).
Proof. intros units t d bs n rest fuel Hw Hd H Hf. exact (dval_rt units t Hw d Hd bs n rest fuel H Hf). Qed.
Print Assumptions descriptor_roundtrip.

(* the fuel the entry points pass (one more than the number of bytes) always suffices *)
Theorem descriptor_fuel : forall t d bs n, write_dval t d = Ok (bs, n) -> (dsize d <= length bs)%nat.
Proof. exact dsize_le. Qed.
Print Assumptions descriptor_fuel.

(* DescriptorBlock / DescriptorBlock2 (version fields, body, padding to any p > 0) *)
Theorem descriptor_block_roundtrip : forall units t pad blk bs n,
  0 < pad -> wf_terms t = true -> wf_dblock units blk = true -> write_dblock t pad blk = Ok (bs, n) ->
  read_dblock units (match blk with DBlock _ _ => false | DBlock2 _ _ _ => true end) t bs = Ok (blk, t).
Proof. exact dblock_rt. Qed.
Print Assumptions descriptor_block_roundtrip.

Definition ex_desc : dval :=
  DDesc OS_Objc [65; 66] [110; 117; 108; 108]
    [([69; 110; 97; 98], DBool true);
     ([108; 111; 110; 103; 101; 114; 95; 107; 101; 121], DList OS_VlLs [DInt OS_long (-1); DString [55357; 56832];
        DDesc OS_GlbO [] [120] [([97], DUnitFloat 592476532 4607182418800017408); ([98], DRaw OS_tdta [1; 2; 3])]]);
     ([79; 102; 115; 116], DObjArr 2 [] [79; 98; 65; 114] [([75], DUnitFloats 592476532 [0; 1])])].
Example descriptor_roundtrip_satisfiable :
  wf_terms [[69; 110; 97; 98]; [79; 102; 115; 116]] = true /\ wf_dval [592476532] ex_desc = true /\
  (exists bs n, write_dval [[69; 110; 97; 98]; [79; 102; 115; 116]] ex_desc = Ok (bs, n) /\ n = 194) /\ dsize ex_desc = 10%nat.
Proof.
  split; [reflexivity|]. split; [vm_compute; reflexivity|]. split; [|reflexivity].
  do 2 eexists. split; vm_compute; reflexivity.
Qed.

(* an empty key (or class id) has no faithful encoding: length 0 means "a 4-byte term follows", so the reader
   swallows the next four bytes (and records them as a new term); here what it then takes for the next length runs
   past the end of the data - an IOError since /repo 708c13e (before it the cut-short key was accepted and the value
   came back different, see descriptor_key_cut_short_refuted_before_708c13e) *)
Theorem descriptor_roundtrip_refuted :
  exists d bs n, d = DEnum [] [65; 66; 67; 68; 69] /\ write_dval [] d = Ok (bs, n) /\
    read_dval [] (S (length bs)) [] (ostype_of d) bs = Err IOErr /\
    (* ... and when enough bytes follow, the swallowed bytes become a term: the term set grows *)
    read_key [] [0; 0; 0; 0; 0; 0; 0; 5; 65] = Ok ([0; 0; 0; 5], [[0; 0; 0; 5]], [65]).
Proof.
  exists (DEnum [] [65; 66; 67; 68; 69]), [0; 0; 0; 0; 0; 0; 0; 5; 65; 66; 67; 68; 69], 13.
  split; [reflexivity|]. split; [vm_compute; reflexivity|]. split; vm_compute; reflexivity.
Qed.
Print Assumptions descriptor_roundtrip_refuted.

(* ------------------------------------------------------------------ Stage 2: EffectsLayer and its seven effect records
   (Psd/Effects.v): CommonStateInfo, ShadowInfo (drop / inner), OuterGlowInfo, InnerGlowInfo, BevelInfo (version 2
   with its real highlight / shadow colours: the record repaired by cde6d2c, F-C01-1), SolidFillInfo *)
Theorem effect_record_roundtrip : forall e bs n rest,
  wf_effect e = true -> write_effect e = Ok (bs, n) -> read_effect (effect_kind e) (bs ++ rest) = Ok e.
Proof. exact effect_rt. Qed.
Print Assumptions effect_record_roundtrip.

Theorem effects_layer_roundtrip : forall l bs n,
  wf_effects l = true -> write_effects l = Ok (bs, n) -> read_effects bs = Ok l.
Proof. exact effects_rt. Qed.
Print Assumptions effects_layer_roundtrip.

Definition ex_bevel : effect :=
  FxBevel 2 (-30) 5 7 1852797549 1836411936 (0, [65535; 0; 0; 0]) (7, [-1; 2; -3; 4]) 1 2 3 1 0 1
          (Some ((0, [1; 2; 3; 0]), (8, [100; 0; 0; 0]))).
Example effects_layer_roundtrip_satisfiable :
  wf_effects (mkFX 0 [(FX_cmnS, FxCommon 0 1); (FX_bevl, ex_bevel);
                      (FX_oglw, FxOuterGlow 2 1 2 (0, [1; 2; 3; 4]) 1852797549 1 255 (Some (0, [0; 0; 0; 0])))]) = true /\
  exists bs n, write_effects (mkFX 0 [(FX_cmnS, FxCommon 0 1); (FX_bevl, ex_bevel);
                      (FX_oglw, FxOuterGlow 2 1 2 (0, [1; 2; 3; 4]) 1852797549 1 255 (Some (0, [0; 0; 0; 0])))]) = Ok (bs, n) /\ n = 168.
Proof. split; [vm_compute; reflexivity|]. do 2 eexists. split; vm_compute; reflexivity. Qed.

(* version-dependent trailers must agree with the version: an OuterGlowInfo of version < 2 that carries a native
   colour writes it (`if self.native_color`) and does not read it back (`if version >= 2`) *)
Theorem effect_record_roundtrip_refuted :
  exists e bs n e', e = FxOuterGlow 0 1 2 (0, [1; 2; 3; 4]) 1852797549 1 255 (Some (0, [9; 9; 9; 9])) /\
    write_effect e = Ok (bs, n) /\ read_effect (effect_kind e) bs = Ok e' /\ e' <> e.
Proof.
  do 4 eexists. split; [reflexivity|]. split; [vm_compute; reflexivity|]. split; [vm_compute; reflexivity|]. discriminate.
Qed.
Print Assumptions effect_record_roundtrip_refuted.

(* ------------------------------------------------------------------ Stage 2: Patterns / Pattern / VirtualMemoryArrayList /
   VirtualMemoryArray (Psd/Patterns.v): any number of patterns and channels, indexed colour table, the three forms of
   a virtual memory array (not written / written without data / full record), opaque pixel data *)
Theorem pattern_roundtrip : forall enc_s dec_s p bs n,
  wf_pattern enc_s dec_s p = true -> write_pattern enc_s p = Ok (bs, n) -> read_pattern dec_s bs = Ok p.
Proof. exact pattern_rt. Qed.
Print Assumptions pattern_roundtrip.

Theorem patterns_roundtrip : forall enc_s dec_s l bs n,
  forallb (wf_pattern enc_s dec_s) l = true -> write_patterns enc_s l = Ok (bs, n) ->
  read_patterns dec_s (S (length bs)) bs = Ok l.
Proof. exact patterns_rt. Qed.
Print Assumptions patterns_roundtrip.

Theorem virtual_memory_array_list_roundtrip : forall l bs n rest,
  wf_vmal l = true -> write_vmal l = Ok (bs, n) -> read_vmal (bs ++ rest) = Ok (l, rest).
Proof. exact vmal_rt. Qed.
Print Assumptions virtual_memory_array_list_roundtrip.

Example patterns_roundtrip_satisfiable :
  let p := mkPattern 1 3 (4, -2) [80; 49] [97; 98] None
             (mkVMAL 3 [0; 0; 4; 4] [VmaSkipped; VmaEmpty 1; VmaFull 1 8 [0; 0; 4; 4] 8 1 [0; 1; 2]]) in
  wf_pattern raw_codec raw_codec p = true /\ exists bs n, write_patterns raw_codec [p] = Ok (bs, n) /\ n = 104.
Proof. split; [vm_compute; reflexivity|]. do 2 eexists. split; vm_compute; reflexivity. Qed.

(* a colour table in a non-indexed pattern is written (`if self.color_table`) but only read for INDEXED: the
   reader then takes the table for the VirtualMemoryArrayList and fails its version check *)
Theorem pattern_roundtrip_refuted :
  exists p bs n, pt_mode p = 3 /\ (exists t, pt_table p = Some t /\ length t = 256%nat) /\
    write_pattern raw_codec p = Ok (bs, n) /\ read_pattern raw_codec bs = Err AssertErr.
Proof.
  exists (mkPattern 1 3 (0, 0) [] [] (Some (repeat (1, 2, 3) 256)) (mkVMAL 3 [0; 0; 0; 0] [VmaSkipped; VmaSkipped])).
  do 2 eexists. split; [reflexivity|]. split; [eexists; split; [reflexivity|reflexivity]|].
  split; vm_compute; reflexivity.
Qed.
Print Assumptions pattern_roundtrip_refuted.

(* ------------------------------------------------------------------ Stage 3 (1): adjustment layers (Psd/Adjust.v)
   BrightnessContrast, ColorBalance, Exposure, HueSaturation, SelectiveColor, PhotoFilter (versions 2 and 3) as
   fixed layouts (Psd/Struct.v), ChannelMixer, Levels (29 records + any number of extra levels), Curves (any
   number of curves with 2..19 points or 256-entry maps, version 1 with its 'Crv ' extra marker, version 4),
   GradientMap (versions 1 and 3, any number of colour / transparency stops), ColorLookup (descriptor based).
   [read (write x) = x] on the content of the block (the payload is read from exactly those bytes). *)
Theorem fixed_layout_roundtrip : forall sp vs b rest,
  wf_fields sp vs = true -> pack_fields sp vs = Ok b -> unpack_fields sp (b ++ rest) = Ok (vs, rest).
Proof. exact fields_rt. Qed.
Print Assumptions fixed_layout_roundtrip.

Theorem adjustment_roundtrip : forall pad a bs n,
  wf_adj a = true -> write_adj pad a = Ok (bs, n) -> reread_adj a bs = Ok a.
Proof. exact adj_rt. Qed.
Print Assumptions adjustment_roundtrip.

Theorem curves_roundtrip : forall c bs n, wf_curves c = true -> write_curves c = Ok (bs, n) -> read_curves bs = Ok c.
Proof. exact curves_rt. Qed.
Print Assumptions curves_roundtrip.
Theorem levels_roundtrip : forall version recs extra bs n,
  wf_levels version recs extra = true -> write_levels version recs extra = Ok (bs, n) ->
  read_levels bs = Ok (version, recs, extra).
Proof. exact levels_rt. Qed.
Print Assumptions levels_roundtrip.
Theorem gradient_map_roundtrip : forall g bs n,
  wf_gradient g = true -> write_gradient g = Ok (bs, n) -> read_gradient bs = Ok g.
Proof. exact gradient_rt. Qed.
Print Assumptions gradient_map_roundtrip.
Theorem color_lookup_roundtrip : forall units t pad ver d bs n,
  wf_terms t = true -> wf_dval units d = true -> ostype_of d = OS_Objc ->
  write_color_lookup t pad ver 16 d = Ok (bs, n) -> read_color_lookup units t bs = Ok (ver, 16, d, t).
Proof. exact color_lookup_rt. Qed.
Print Assumptions color_lookup_roundtrip.

(* any modelled payload inside its container: the TaggedBlock / ImageResource round trip composed with the
   payload's own (generic in the payload: instantiate with write_adj / reread_adj, write_dblock / read_dblock, ...) *)
Theorem payload_in_tagged_block_roundtrip : forall X v pad sg key (w : W) (rd : stream -> res X) (x : X) bs n rest,
  (pad = 1 \/ pad = 2 \/ pad = 4) -> memz sg model_tb_sigs = true -> wtruth w ->
  (forall body m, w = Ok (body, m) -> rd body = Ok x) ->
  write_payload_block v pad sg key w = Ok (bs, n) ->
  read_payload_block rd v pad (bs ++ rest) = Ok (Some (sg, key, x, rest)).
Proof. intros X. exact (@payload_block_rt X). Qed.
Print Assumptions payload_in_tagged_block_roundtrip.
Theorem payload_in_image_resource_roundtrip : forall enc_s dec_s X sg key name (w : W) (rd : stream -> res X) (x : X) bs n rest,
  memz sg model_res_sigs = true -> wf_name enc_s dec_s name = true -> wtruth w ->
  (forall body m, w = Ok (body, m) -> rd body = Ok x) ->
  write_payload_resource enc_s sg key name w = Ok (bs, n) ->
  read_payload_resource dec_s rd (bs ++ rest) = Ok (sg, key, name, x, rest).
Proof. intros enc_s dec_s X. exact (@payload_resource_rt enc_s dec_s X). Qed.
Print Assumptions payload_in_image_resource_roundtrip.
Theorem adjustment_block_roundtrip : forall v pad sg key a bs n rest,
  (pad = 1 \/ pad = 2 \/ pad = 4) -> memz sg model_tb_sigs = true -> wf_adj a = true ->
  write_payload_block v pad sg key (write_adj (inner_padding pad) a) = Ok (bs, n) ->
  read_payload_block (reread_adj a) v pad (bs ++ rest) = Ok (Some (sg, key, a, rest)).
Proof.
  intros v pad sg key a bs n rest Hp Hs Hwf H.
  apply (payload_block_rt v pad sg key (write_adj (inner_padding pad) a) (reread_adj a) a bs n rest Hp Hs
           (wtruth_adj (inner_padding pad) a)); [|exact H].
  intros body m Hb. exact (adj_rt (inner_padding pad) a body m Hwf Hb).
Qed.
Print Assumptions adjustment_block_roundtrip.

Definition ex_curves : curves :=
  mkCurves false 1 5 [[0; 0; 255; 255]; [0; 0; 10; 20; 30; 40; 50; 60; 70; 80; 90; 100; 110; 120; 130; 140; 150; 160; 170; 180; 190; 200;
                                          210; 220; 230; 240; 250; 251; 252; 253; 254; 254; 255; 255; 65535; 0; 1; 2]]
           (Some (4, [(0, false, [0; 0; 255; 255]); (2, false, [])])).
Example adjustment_roundtrip_satisfiable :
  wf_adj (ACurves ex_curves) = true /\ (exists bs n, write_adj 4 (ACurves ex_curves) = Ok (bs, n) /\ n = 124) /\
  wf_adj (ALevels 2 (repeat [0; 255; 0; 255; 100] 31) (Some 3)) = true /\
  wf_adj (AStruct SPhfl [3; 1; 2; 3; 25; 1]) = true /\ wf_adj (AStruct SPhfl [2; 0; 1; 2; 3; 4; 25; 1]) = true.
Proof.
  split; [vm_compute; reflexivity|]. split; [do 2 eexists; split; [vm_compute; reflexivity|reflexivity]|].
  split; [vm_compute; reflexivity|]. split; vm_compute; reflexivity.
Qed.

(* asymmetric shapes wf_adj excludes: a curve with 20 points is written but refused by the reader's assertion; a
   version-4 Curves that carries an extra marker writes it and never reads it back; a version-1 GradientMap does not
   store its method *)
Theorem adjustment_roundtrip_refuted :
  (exists c bs n, len (hd [] (cv_data c)) = 40 /\ write_curves c = Ok (bs, n) /\ read_curves bs = Err AssertErr) /\
  (exists c bs n c', cv_version c = 4 /\ cv_extra c <> None /\ write_curves c = Ok (bs, n) /\ read_curves bs = Ok c' /\ cv_extra c' = None) /\
  (exists g bs n g', hd 0 (gm_head g) = 1 /\ gm_method g = 0x4c6e7220 /\ write_gradient g = Ok (bs, n) /\
                     read_gradient bs = Ok g' /\ gm_method g' = sig_Gcls).
Proof.
  split; [|split].
  - exists (mkCurves false 4 1 [repeat 7 40] None). do 2 eexists. split; [reflexivity|].
    split; [vm_compute; reflexivity|]. vm_compute. reflexivity.
  - exists (mkCurves false 4 0 [] (Some (4, []))). do 3 eexists. split; [reflexivity|]. split; [discriminate|].
    split; [vm_compute; reflexivity|]. split; [vm_compute; reflexivity|reflexivity].
  - exists (mkGrad [1; 0; 0] 0x4c6e7220 [] [] [] [2; 0; 32; 0; 0; 0; 0; 0; 0; 0; 0; 0; 0; 0; 0; 0; 0]). do 3 eexists.
    split; [reflexivity|]. split; [reflexivity|]. split; [vm_compute; reflexivity|]. split; [vm_compute; reflexivity|reflexivity].
Qed.
Print Assumptions adjustment_roundtrip_refuted.

(* ------------------------------------------------------------------ Stage 3 (2): vector paths (Psd/Vector.v)
   Path records are 26 bytes each: selector + a fixed layout (fill rule / initial fill / clipboard / knot), a sub-path
   record is its 24-byte header record followed by its knots.  The path reader loops while 26 bytes remain, so what the
   padding leaves (< 26 bytes) is not taken for a record. *)
Theorem path_record_roundtrip : forall r bs n rest,
  wf_prec r = true -> write_prec r = Ok (bs, n) ->
  read_prec (bs ++ rest) = Ok (r, rest) /\ n = len bs /\ len bs mod 26 = 0.
Proof.
  intros r bs n rest Hwf H. destruct (prec_rt r bs n rest Hwf H) as (Hr & _ & Hm).
  split; [exact Hr|]. split; [exact (wtruth_prec r bs n H)|exact Hm].
Qed.
Print Assumptions path_record_roundtrip.
Theorem vector_mask_setting_roundtrip : forall flags p bs n,
  forallb wf_prec p = true -> write_vmask 3 flags p = Ok (bs, n) -> read_vmask bs = Ok (3, flags, p).
Proof. intros flags p bs n Hwf H. exact (vmask_rt 3 flags p bs n eq_refl Hwf H). Qed.
Print Assumptions vector_mask_setting_roundtrip.
Theorem vector_stroke_content_roundtrip : forall units t pad key version d bs n,
  wf_terms t = true -> wf_dval units d = true -> ostype_of d = OS_Objc ->
  write_vscg t pad key version d = Ok (bs, n) -> read_vscg units t bs = Ok (key, version, d, t).
Proof. exact vscg_rt. Qed.
Print Assumptions vector_stroke_content_roundtrip.
Theorem vector_mask_block_roundtrip : forall v pad sg key flags p bs n rest,
  (pad = 1 \/ pad = 2 \/ pad = 4) -> memz sg model_tb_sigs = true -> forallb wf_prec p = true ->
  write_payload_block v pad sg key (write_vmask 3 flags p) = Ok (bs, n) ->
  read_payload_block read_vmask v pad (bs ++ rest) = Ok (Some (sg, key, (3, flags, p), rest)).
Proof.
  intros v pad sg key flags p bs n rest Hp Hs Hwf H.
  apply (payload_block_rt v pad sg key (write_vmask 3 flags p) read_vmask (3, flags, p) bs n rest Hp Hs (wtruth_vmask 3 flags p)); [|exact H].
  intros body m Hb. exact (vmask_rt 3 flags p body m eq_refl Hwf Hb).
Qed.
Print Assumptions vector_mask_block_roundtrip.
Theorem vector_stroke_content_block_roundtrip : forall units t v pad sg key vkey version d bs n rest,
  (pad = 1 \/ pad = 2 \/ pad = 4) -> memz sg model_tb_sigs = true ->
  wf_terms t = true -> wf_dval units d = true -> ostype_of d = OS_Objc ->
  write_payload_block v pad sg key (write_vscg t (inner_padding pad) vkey version d) = Ok (bs, n) ->
  read_payload_block (read_vscg units t) v pad (bs ++ rest) = Ok (Some (sg, key, (vkey, version, d, t), rest)).
Proof.
  intros units t v pad sg key vkey version d bs n rest Hp Hs Ht Hd Ho H.
  apply (payload_block_rt v pad sg key (write_vscg t (inner_padding pad) vkey version d) (read_vscg units t) (vkey, version, d, t) bs n rest Hp Hs
           (wtruth_vscg t (inner_padding pad) vkey version d)); [|exact H].
  intros body m Hb. exact (vscg_rt units t (inner_padding pad) vkey version d body m Ht Hd Ho Hb).
Qed.
Print Assumptions vector_stroke_content_block_roundtrip.

Definition ex_path : list prec :=
  [PRec 6 []; PRec 8 [1];
   PSub 0 [-1; 0; 0; 0; 0; 0; 0; 0; 0; 0; 0; 0; 0; 0]
        [(1, [0; 16777216; -16777216; 8388608; 2147483647; -2147483648]); (2, [1; 2; 3; 4; 5; 6])];
   PRec 7 [1; 2; 3; 4; 5]; PSub 3 [3; 65535; 4294967295; 7; 1; 2; 3; 4; 5; 6; 7; 8; 9; 10] []].
Example vector_mask_roundtrip_satisfiable :
  forallb wf_prec ex_path = true /\ exists bs n, write_vmask 3 5 ex_path = Ok (bs, n) /\ n = 192.
Proof. split; [vm_compute; reflexivity|]. do 2 eexists. split; [vm_compute; reflexivity|reflexivity]. Qed.

(* what the guards exclude: only version 3 is read back (the writer emits any version) *)
Theorem vector_mask_roundtrip_refuted :
  exists bs n, write_vmask 2 0 [] = Ok (bs, n) /\ read_vmask bs = Err AssertErr.
Proof. exists [0; 0; 0; 2; 0; 0; 0; 0], 8. split; vm_compute; reflexivity. Qed.
Print Assumptions vector_mask_roundtrip_refuted.

(* ------------------------------------------------------------------ Stage 3 (3): linked layers (Psd/Linked.v)
   LinkedLayer versions 1..7 of the three kinds, with the optional descriptor blocks, the time stamp, the data bytes
   and the version-dependent tail (child id, modification time, lock state); LinkedLayers = 8-byte length blocks
   padded to 4.  [rest'] is what follows the item inside its block (the reader of the list ignores it). *)
Theorem linked_layer_roundtrip : forall enc_s dec_s units t pad l bs n tail,
  wf_terms t = true -> wf_linked enc_s dec_s units l = true -> write_linked enc_s t pad l = Ok (bs, n) ->
  n = len bs /\ exists rest', read_linked dec_s units t (bs ++ tail) = Ok (l, t, rest').
Proof.
  intros enc_s dec_s units t pad l bs n tail Hw Hwf H. split; [exact (wtruth_linked enc_s t pad l bs n H)|].
  exact (linked_rt enc_s dec_s units t pad l bs n tail Hw Hwf H).
Qed.
Print Assumptions linked_layer_roundtrip.
Theorem linked_layers_roundtrip : forall enc_s dec_s units t l bs n,
  wf_terms t = true -> forallb (wf_linked enc_s dec_s units) l = true -> write_linked_layers enc_s t l = Ok (bs, n) ->
  n = len bs /\ read_linked_layers dec_s (S (length bs)) units t bs = Ok (l, t).
Proof.
  intros enc_s dec_s units t l bs n Hw Hwf H. split; [exact (wtruth_linked_layers enc_s t l bs n H)|].
  rewrite <- (app_nil_r bs) at 2. apply (linked_layers_rt enc_s dec_s units t Hw l bs n [] (S (length bs)) Hwf H); [reflexivity|lia].
Qed.
Print Assumptions linked_layers_roundtrip.
Theorem linked_layers_block_roundtrip : forall enc_s dec_s units t v pad sg key l bs n rest,
  (pad = 1 \/ pad = 2 \/ pad = 4) -> memz sg model_tb_sigs = true ->
  wf_terms t = true -> forallb (wf_linked enc_s dec_s units) l = true ->
  write_payload_block v pad sg key (write_linked_layers enc_s t l) = Ok (bs, n) ->
  read_payload_block (fun body => read_linked_layers dec_s (S (length body)) units t body) v pad (bs ++ rest)
  = Ok (Some (sg, key, (l, t), rest)).
Proof.
  intros enc_s dec_s units t v pad sg key l bs n rest Hp Hs Hw Hwf H.
  apply (payload_block_rt v pad sg key (write_linked_layers enc_s t l)
           (fun body => read_linked_layers dec_s (S (length body)) units t body) (l, t) bs n rest Hp Hs
           (wtruth_linked_layers enc_s t l)); [|exact H].
  intros body m Hb. exact (proj2 (linked_layers_roundtrip enc_s dec_s units t l body m Hw Hwf Hb)).
Qed.
Print Assumptions linked_layers_block_roundtrip.

Definition ex_ll_desc : dval := DDesc OS_Objc [65] [110; 117; 108; 108] [([107; 49; 50; 51; 52], DBool true)].
Definition ex_linked : list linked :=
  [mkLinked K_liFD 7 [49; 50] [65; 0xD83D] 0x706e6720 0 None (Some (DBlock 16 ex_ll_desc)) None None (Some [1; 2; 3])
            (Some []) (Some 4607182418800017408) (Some 1);
   mkLinked K_liFE 4 [] [] 1 2 (Some 18446744073709551615) None (Some (DBlock 16 ex_ll_desc))
            (Some [2024; 1; 2; 3; 4; 4607182418800017408]) (Some [9]) None None None;
   mkLinked K_liFE 2 [] [] 1 2 (Some 0) None (Some (DBlock 16 ex_ll_desc)) None (Some [9; 9]) None None None;
   mkLinked K_liFA 1 [] [66] 0 0 None None None None None None None None].
Example linked_layers_roundtrip_satisfiable :
  forallb (wf_linked raw_codec raw_codec []) ex_linked = true /\
  exists bs n, write_linked_layers raw_codec [] ex_linked = Ok (bs, n) /\ n = 328.
Proof. split; [vm_compute; reflexivity|]. do 2 eexists. split; [vm_compute; reflexivity|reflexivity]. Qed.

(* what wf_linked excludes - structures whose parts contradict each other; the writer goes by what is present, the
   reader by kind and version: a child id under version 4 is written and left unread; the data of an alias is
   counted in the header and not written; a version-5 item without a child id cannot be read back *)
Theorem linked_layer_roundtrip_refuted :
  (exists l bs n l' t' rest', ll_version l = 4 /\ ll_child l = Some [66] /\ write_linked raw_codec [] 1 l = Ok (bs, n) /\
      read_linked raw_codec [] [] bs = Ok (l', t', rest') /\ ll_child l' = None /\ rest' <> []) /\
  (exists l bs n l' t' rest', ll_kind l = K_liFA /\ ll_data l = Some [7] /\ write_linked raw_codec [] 1 l = Ok (bs, n) /\
      read_linked raw_codec [] [] bs = Ok (l', t', rest') /\ ll_data l' = None) /\
  (exists l bs n, ll_version l = 5 /\ ll_child l = None /\ write_linked raw_codec [] 1 l = Ok (bs, n) /\
      read_linked raw_codec [] [] bs = Err IOErr).
Proof.
  split; [|split].
  - exists (mkLinked K_liFD 4 [49] [65] 1 2 None None None None (Some [7;8]) (Some [66]) None None).
    exists [108; 105; 70; 68; 0; 0; 0; 4; 1; 49; 0; 0; 0; 1; 0; 65; 0; 0; 0; 1; 0; 0; 0; 2; 0; 0; 0; 0; 0; 0; 0; 2; 0; 7; 8; 0; 0; 0; 1; 0; 66], 41.
    exists (mkLinked K_liFD 4 [49] [65] 1 2 None None None None (Some [7;8]) None None None), [], [0; 0; 0; 1; 0; 66].
    split; [reflexivity|]. split; [reflexivity|]. split; [vm_compute; reflexivity|]. split; [vm_compute; reflexivity|].
    split; [reflexivity|discriminate].
  - exists (mkLinked K_liFA 1 [] [] 0 0 None None None None (Some [7]) None None None).
    exists [108; 105; 70; 65; 0; 0; 0; 1; 0; 0; 0; 0; 0; 0; 0; 0; 0; 0; 0; 0; 0; 0; 0; 0; 0; 0; 0; 0; 1; 0; 0; 0; 0; 0; 0; 0; 0; 0], 38.
    exists (mkLinked K_liFA 1 [] [] 0 0 None None None None None None None None), [], [].
    split; [reflexivity|]. split; [reflexivity|]. split; [vm_compute; reflexivity|]. split; [vm_compute; reflexivity|reflexivity].
  - exists (mkLinked K_liFD 5 [] [] 0 0 None None None None (Some [7]) None None None).
    exists [108; 105; 70; 68; 0; 0; 0; 5; 0; 0; 0; 0; 0; 0; 0; 0; 0; 0; 0; 0; 0; 0; 0; 0; 0; 0; 0; 0; 1; 0; 7], 31.
    split; [reflexivity|]. split; [reflexivity|]. split; vm_compute; reflexivity.
Qed.
Print Assumptions linked_layer_roundtrip_refuted.

(* ------------------------------------------------------------------ Stage 3 (4): filter effects (Psd/FilterFx.v)
   FilterEffects (version + items in 8-byte length blocks padded to 4), FilterEffect (uuid, version, the body block
   with rectangle / depth / max_channels and max_channels + 2 channels, the optional extra), FilterEffectChannel,
   FilterEffectExtra. *)
Theorem filter_effect_parts_roundtrip :
  (forall c bs n rest, wf_fchannel c = true -> write_fchannel c = Ok (bs, n) ->
                       read_fchannel (bs ++ rest) = Ok (c, rest) /\ n = len bs) /\
  (forall x bs n rest, wf_fextra x = true -> write_fextra x = Ok (bs, n) ->
                       read_fextra (bs ++ rest) = Ok (x, rest) /\ n = len bs).
Proof.
  split.
  - intros c bs n rest Hwf H. split; [exact (proj1 (fchannel_rt c bs n rest Hwf H))|exact (wtruth_fchannel c bs n H)].
  - intros x bs n rest Hwf H. split; [exact (proj1 (fextra_rt x bs n rest Hwf H))|exact (wtruth_fextra x bs n H)].
Qed.
Print Assumptions filter_effect_parts_roundtrip.
Theorem filter_effect_roundtrip : forall enc_s dec_s e bs n,
  wf_feffect enc_s dec_s e = true -> write_feffect enc_s e = Ok (bs, n) -> read_feffect dec_s bs = Ok e /\ n = len bs.
Proof.
  intros enc_s dec_s e bs n Hwf H. split; [exact (feffect_rt enc_s dec_s e bs n Hwf H)|exact (wtruth_feffect enc_s e bs n H)].
Qed.
Print Assumptions filter_effect_roundtrip.
Theorem filter_effects_roundtrip : forall enc_s dec_s v l bs n,
  wf_feffects enc_s dec_s v l = true -> write_feffects enc_s v l = Ok (bs, n) ->
  read_feffects dec_s bs = Ok (v, l) /\ n = len bs.
Proof.
  intros enc_s dec_s v l bs n Hwf H. split; [exact (feffects_rt enc_s dec_s v l bs n Hwf H)|exact (wtruth_feffects enc_s v l bs n H)].
Qed.
Print Assumptions filter_effects_roundtrip.
Theorem filter_effects_block_roundtrip : forall enc_s dec_s ver pad sg key v l bs n rest,
  (pad = 1 \/ pad = 2 \/ pad = 4) -> memz sg model_tb_sigs = true -> wf_feffects enc_s dec_s v l = true ->
  write_payload_block ver pad sg key (write_feffects enc_s v l) = Ok (bs, n) ->
  read_payload_block (read_feffects dec_s) ver pad (bs ++ rest) = Ok (Some (sg, key, (v, l), rest)).
Proof.
  intros enc_s dec_s ver pad sg key v l bs n rest Hp Hs Hwf H.
  apply (payload_block_rt ver pad sg key (write_feffects enc_s v l) (read_feffects dec_s) (v, l) bs n rest Hp Hs
           (wtruth_feffects enc_s v l)); [|exact H].
  intros body m Hb. exact (feffects_rt enc_s dec_s v l body m Hwf Hb).
Qed.
Print Assumptions filter_effects_block_roundtrip.

Definition ex_fx : list feffect :=
  [mkFE [49; 50] 1 [-1; 0; 2147483647; -2147483648] 8 1 [mkFCh 0 None []; mkFCh 1 None []; mkFCh 7 (Some 1) [1; 2; 3]]
        (Some (mkFEx 1 [1; 2; 3; 4] 0 [5]));
   mkFE [] 0 [0; 0; 0; 0] 16 0 [mkFCh 1 (Some 0) []; mkFCh 0 None []] None;
   mkFE [] 0 [0; 0; 0; 0] 16 0 [mkFCh 1 (Some 0) []; mkFCh 0 None []] (Some (mkFEx 0 [0; 0; 0; 0] 0 []))].
Example filter_effects_roundtrip_satisfiable :
  wf_feffects raw_codec raw_codec 1 ex_fx = true /\ exists bs n, write_feffects raw_codec 1 ex_fx = Ok (bs, n) /\ n = 240.
Proof. split; [vm_compute; reflexivity|]. do 2 eexists. split; [vm_compute; reflexivity|reflexivity]. Qed.

(* what the guards exclude: a channel that is not written drops its compression and data; a channel without a
   compression writes an empty block whatever its data; the reader takes max_channels + 2 channels whatever the
   writer emitted *)
Theorem filter_effect_roundtrip_refuted :
  (exists c bs n c', fc_written c = 0 /\ fc_comp c = Some 1 /\ write_fchannel c = Ok (bs, n) /\
                     read_fchannel bs = Ok (c', []) /\ fc_comp c' = None) /\
  (exists c bs n c', fc_comp c = None /\ fc_data c = [9] /\ write_fchannel c = Ok (bs, n) /\
                     read_fchannel bs = Ok (c', []) /\ fc_data c' = []) /\
  (exists e bs n, fe_maxch e = 1 /\ len (fe_channels e) = 2 /\ write_feffect raw_codec e = Ok (bs, n) /\
                  read_feffect raw_codec bs = Err IOErr).
Proof.
  split; [|split].
  - exists (mkFCh 0 (Some 1) [9]), [0; 0; 0; 0], 4, (mkFCh 0 None []).
    split; [reflexivity|]. split; [reflexivity|]. split; [vm_compute; reflexivity|]. split; [vm_compute; reflexivity|reflexivity].
  - exists (mkFCh 1 None [9]), [0; 0; 0; 1; 0; 0; 0; 0; 0; 0; 0; 0], 12, (mkFCh 1 None []).
    split; [reflexivity|]. split; [reflexivity|]. split; [vm_compute; reflexivity|]. split; [vm_compute; reflexivity|reflexivity].
  - exists (mkFE [97] 1 [0; 0; 1; 1] 8 1 [mkFCh 1 None []; mkFCh 1 None []] None).
    exists [1; 97; 0; 0; 0; 1; 0; 0; 0; 0; 0; 0; 0; 48; 0; 0; 0; 0; 0; 0; 0; 0; 0; 0; 0; 1; 0; 0; 0; 1; 0; 0; 0; 8; 0; 0; 0; 1; 0; 0; 0; 1;
            0; 0; 0; 0; 0; 0; 0; 0; 0; 0; 0; 1; 0; 0; 0; 0; 0; 0; 0; 0], 62.
    split; [reflexivity|]. split; [reflexivity|]. split; vm_compute; reflexivity.
Qed.
Print Assumptions filter_effect_roundtrip_refuted.

(* ------------------------------------------------------------------ Stage 3 (5): typed image resources (Psd/Rsrc.v)
   One table-driven codec (head layout, optional count, rows counted or "until the data ends") covers
   AlphaIdentifiers, LayerGroupEnabledIDs, LayerGroupInfo, HalftoneScreens, TransferFunctions, DisplayInfo,
   LayerSelectionIDs, GridGuidesInfo, PrintFlagsInfo, ResoulutionInfo, PixelAspectRatio, PrintScale - for every one of
   the twelve tables, any number of rows, any field values the layout can hold.  Beside it PrintFlags,
   ThumbnailResource(V4), VersionInfo, URLList, AlphaNamesUnicode, AlphaNamesPascal, PascalString. *)
Theorem resource_table_roundtrip : forall k head rows bs n,
  wf_rtable k head rows = true -> write_rtable k head rows = Ok (bs, n) ->
  read_rtable k bs = Ok (head, rows) /\ n = len bs.
Proof. intros k head rows bs n Hwf H. split; [exact (rtable_rt k head rows bs n Hwf H)|exact (wtruth_rtable k head rows bs n H)]. Qed.
Print Assumptions resource_table_roundtrip.
Theorem typed_resource_roundtrip : forall enc_s dec_s a bs n,
  wf_rsrc enc_s dec_s a = true -> write_rsrc enc_s a = Ok (bs, n) -> reread_rsrc dec_s a bs = Ok a /\ n = len bs.
Proof. intros enc_s dec_s a bs n Hwf H. split; [exact (rsrc_rt enc_s dec_s a bs n Hwf H)|exact (wtruth_rsrc enc_s a bs n H)]. Qed.
Print Assumptions typed_resource_roundtrip.
Theorem typed_resource_in_image_resource_roundtrip : forall enc_s dec_s sg key name a bs n rest,
  memz sg model_res_sigs = true -> wf_name enc_s dec_s name = true -> wf_rsrc enc_s dec_s a = true ->
  write_payload_resource enc_s sg key name (write_rsrc enc_s a) = Ok (bs, n) ->
  read_payload_resource dec_s (reread_rsrc dec_s a) (bs ++ rest) = Ok (sg, key, name, a, rest).
Proof.
  intros enc_s dec_s sg key name a bs n rest Hs Hn Hwf H.
  apply (payload_resource_rt enc_s dec_s sg key name (write_rsrc enc_s a) (reread_rsrc dec_s a) a bs n rest Hs Hn (wtruth_rsrc enc_s a)); [|exact H].
  intros body m Hb. exact (rsrc_rt enc_s dec_s a body m Hwf Hb).
Qed.
Print Assumptions typed_resource_in_image_resource_roundtrip.

Example typed_resource_roundtrip_satisfiable :
  wf_rsrc raw_codec raw_codec (RTable TDisplayInfo [1] [[0; 65535; 0; 0; 0; 100; 2]; [1; 2; 3; 4; 5; 6; 0]]) = true /\
  wf_rsrc raw_codec raw_codec (RTable THalftone [] [[3538944; 1; -2949120; 1; 0; 1]]) = true /\
  wf_rsrc raw_codec raw_codec (RTable TGridGuides [1; 576; 576] [[100; 0]; [4294967295; 1]]) = true /\
  wf_rsrc raw_codec raw_codec (RPrintFlags [0; 1; 0; 0; 0; 0; 1; 0] (Some 1)) = true /\
  wf_rsrc raw_codec raw_codec (RVersionInfo 1 1 [65; 0xD83D] [] 1) = true /\
  (exists bs n, write_rsrc raw_codec (RTable TGridGuides [1; 576; 576] [[100; 0]; [4294967295; 1]]) = Ok (bs, n) /\ n = 26).
Proof. repeat (split; [vm_compute; reflexivity|]). do 2 eexists. split; [vm_compute; reflexivity|reflexivity]. Qed.

(* what the guards exclude: a '?' field holding 2 comes back as 1; an alpha channel mode outside AlphaChannelMode is
   written and refused by the reader *)
Theorem typed_resource_roundtrip_refuted :
  (exists bs n, write_print_flags [2; 0; 0; 0; 0; 0; 0; 0] None = Ok (bs, n) /\
                read_print_flags bs = Ok ([1; 0; 0; 0; 0; 0; 0; 0], None)) /\
  (exists bs n, write_rtable TDisplayInfo [1] [[0; 0; 0; 0; 0; 0; 7]] = Ok (bs, n) /\ read_rtable TDisplayInfo bs = Err ValueErr).
Proof.
  split.
  - exists [1; 0; 0; 0; 0; 0; 0; 0], 8. split; vm_compute; reflexivity.
  - exists [0; 0; 0; 1; 0; 0; 0; 0; 0; 0; 0; 0; 0; 0; 0; 0; 7], 17. split; vm_compute; reflexivity.
Qed.
Print Assumptions typed_resource_roundtrip_refuted.

(* ------------------------------------------------------------------ Stage 3 (5): Slices (Psd/Slices.v)
   Version 6: bounding box, name, count and the slices, each optionally followed by a descriptor block that the reader
   finds by probing; versions 7 / 8: a descriptor block.  [probe_guard] (part of wf_slices) is the guard of finding
   F-C01-4: no slice without a block is directly followed by a slice whose id is 16. *)
Theorem slice_v6_roundtrip : forall units t x bs n rest,
  wf_terms t = true -> wf_slice6 units x = true -> write_slice6 t x = Ok (bs, n) ->
  (sl_data x = None -> probe_block units t rest = Ok (None, t, rest)) ->
  read_slice6 units t (bs ++ rest) = Ok (x, t, rest) /\ n = len bs.
Proof.
  intros units t x bs n rest Hw Hwf H Hp. split; [exact (slice6_rt units t x bs n rest Hw Hwf H Hp)|exact (wtruth_slice6 t x bs n H)].
Qed.
Print Assumptions slice_v6_roundtrip.
Theorem slices_roundtrip : forall units t x bs n,
  wf_terms t = true -> wf_slices units x = true -> write_slices t x = Ok (bs, n) ->
  read_slices units t bs = Ok (x, t) /\ n = len bs.
Proof. intros units t x bs n Hw Hwf H. split; [exact (slices_rt units t x bs n Hw Hwf H)|exact (wtruth_slices t x bs n H)]. Qed.
Print Assumptions slices_roundtrip.
Theorem slices_in_image_resource_roundtrip : forall enc_s dec_s units t sg key name x bs n rest,
  memz sg model_res_sigs = true -> wf_name enc_s dec_s name = true -> wf_terms t = true -> wf_slices units x = true ->
  write_payload_resource enc_s sg key name (write_slices t x) = Ok (bs, n) ->
  read_payload_resource dec_s (read_slices units t) (bs ++ rest) = Ok (sg, key, name, (x, t), rest).
Proof.
  intros enc_s dec_s units t sg key name x bs n rest Hs Hn Hw Hwf H.
  apply (payload_resource_rt enc_s dec_s sg key name (write_slices t x) (read_slices units t) (x, t) bs n rest Hs Hn (wtruth_slices t x)); [|exact H].
  intros body m Hb. exact (slices_rt units t x body m Hw Hwf Hb).
Qed.
Print Assumptions slices_in_image_resource_roundtrip.

Definition ex_slice (id group origin : Z) (assoc : option Z) (data : option dblock) : slice6 :=
  mkSlice id group origin assoc [65] 1 [0; 0; 640; 480] [104] [] [] [] 1 [] 0 0 [255; 1; 2; 3] data.
Definition ex_slices : slices :=
  SlicesV6 [0; 0; 640; 480] [85; 110] [ex_slice 15 1 1 (Some 7) None; ex_slice 16 1 2 None (Some (DBlock 16 ex_ll_desc)); ex_slice 16 0 0 None None].
Example slices_roundtrip_satisfiable :
  wf_slices [] ex_slices = false /\
  wf_slices [] (SlicesV6 [0; 0; 640; 480] [85; 110]
                  [ex_slice 16 1 1 (Some 7) (Some (DBlock 16 ex_ll_desc)); ex_slice 16 1 2 None None; ex_slice 17 0 0 None None]) = true.
Proof. split; vm_compute; reflexivity. Qed.

(* F-C01-4: two plain slices, the second with id 16 (group 1, origin 2): written, and the reader's probe after the
   first slice takes the second for a descriptor block and fails with IOError instead of going back *)
Definition plain_slice (id group origin : Z) : slice6 :=
  mkSlice id group origin None [] 0 [0; 0; 0; 0] [] [] [] [] 0 [] 0 0 [0; 0; 0; 0] None.
Theorem slices_roundtrip_refuted :
  let x := SlicesV6 [0; 0; 1; 1] [] [plain_slice 0 0 0; plain_slice 16 1 2] in
  forallb (wf_slice6 []) [plain_slice 0 0 0; plain_slice 16 1 2] = true /\ probe_guard [plain_slice 0 0 0; plain_slice 16 1 2] = false /\
  exists bs, write_slices [] x = Ok (bs, 166) /\ read_slices [] [] bs = Err IOErr.
Proof.
  cbv zeta. split; [vm_compute; reflexivity|]. split; [vm_compute; reflexivity|].
  exists (match write_slices [] (SlicesV6 [0; 0; 1; 1] [] [plain_slice 0 0 0; plain_slice 16 1 2]) with Ok (b, _) => b | Err _ => [] end).
  split; vm_compute; reflexivity.
Qed.
Print Assumptions slices_roundtrip_refuted.

(* ------------------------------------------------------------------ Stage 3 (6): Psd/Misc.v, Psd/Meta.v
   UserMask, SmartObjectLayerData, PlacedLayerData, TypeToolObjectSetting (engine data opaque: a RawData value like any
   other), PixelSourceData2, MetadataSettings / MetadataSetting, Annotations / Annotation. *)
Theorem user_mask_roundtrip : forall cid vals op fl bs n,
  write_user_mask cid vals op fl = Ok (bs, n) -> read_user_mask bs = Ok (cid, vals, op, fl) /\ n = len bs.
Proof. intros cid vals op fl bs n H. split; [exact (user_mask_rt cid vals op fl bs n H)|exact (wtruth_user_mask cid vals op fl bs n H)]. Qed.
Print Assumptions user_mask_roundtrip.
Theorem smart_object_layer_data_roundtrip : forall units t pad kind version b bs n,
  wf_terms t = true -> wf_sold units kind version b = true -> write_sold t pad kind version b = Ok (bs, n) ->
  read_sold units t bs = Ok (kind, version, b, t) /\ n = len bs.
Proof.
  intros units t pad kind version b bs n Hw Hwf H.
  split; [exact (sold_rt units t pad kind version b bs n Hw Hwf H)|exact (wtruth_sold t pad kind version b bs n H)].
Qed.
Print Assumptions smart_object_layer_data_roundtrip.
Theorem placed_layer_data_roundtrip : forall enc_s dec_s units t pad x bs n,
  wf_terms t = true -> wf_placed enc_s dec_s units x = true -> write_placed enc_s t pad x = Ok (bs, n) ->
  read_placed dec_s units t bs = Ok (x, t) /\ n = len bs.
Proof.
  intros enc_s dec_s units t pad x bs n Hw Hwf H.
  split; [exact (placed_rt enc_s dec_s units t pad x bs n Hw Hwf H)|exact (wtruth_placed enc_s t pad x bs n H)].
Qed.
Print Assumptions placed_layer_data_roundtrip.
Theorem type_tool_object_setting_roundtrip : forall units t pad x bs n,
  wf_terms t = true -> wf_typetool units x = true -> write_typetool t pad x = Ok (bs, n) ->
  read_typetool units t bs = Ok (x, t) /\ n = len bs.
Proof.
  intros units t pad x bs n Hw Hwf H. split; [exact (typetool_rt units t pad x bs n Hw Hwf H)|exact (wtruth_typetool t pad x bs n H)].
Qed.
Print Assumptions type_tool_object_setting_roundtrip.
Theorem pixel_source_data_roundtrip : forall pad l bs n,
  0 < pad <= 8 -> write_pixel_sources pad l = Ok (bs, n) -> read_pixel_sources (S (length bs)) bs = Ok l /\ n = len bs.
Proof. intros pad l bs n Hp H. split; [exact (pixel_sources_rt pad l bs n Hp H)|exact (wtruth_pixel_sources pad l bs n H)]. Qed.
Print Assumptions pixel_source_data_roundtrip.
Theorem metadata_settings_roundtrip : forall units t l bs n,
  wf_terms t = true -> forallb (wf_msetting units) l = true -> write_msettings t l = Ok (bs, n) ->
  read_msettings units t bs = Ok (l, t) /\ n = len bs.
Proof. intros units t l bs n Hw Hwf H. split; [exact (msettings_rt units t l bs n Hw Hwf H)|exact (wtruth_msettings t l bs n H)]. Qed.
Print Assumptions metadata_settings_roundtrip.
Theorem annotations_roundtrip : forall enc_s dec_s major minor l bs n,
  forallb (wf_annotation enc_s dec_s) l = true -> write_annotations enc_s major minor l = Ok (bs, n) ->
  read_annotations dec_s bs = Ok (major, minor, l) /\ n = len bs.
Proof.
  intros enc_s dec_s major minor l bs n Hwf H.
  split; [exact (annotations_rt enc_s dec_s major minor l bs n Hwf H)|exact (wtruth_annotations enc_s major minor l bs n H)].
Qed.
Print Assumptions annotations_roundtrip.
(* one of them inside its TaggedBlock, as an instance of the generic composition *)
Theorem type_tool_block_roundtrip : forall units t v pad sg key x bs n rest,
  (pad = 1 \/ pad = 2 \/ pad = 4) -> memz sg model_tb_sigs = true -> wf_terms t = true -> wf_typetool units x = true ->
  write_payload_block v pad sg key (write_typetool t (inner_padding pad) x) = Ok (bs, n) ->
  read_payload_block (read_typetool units t) v pad (bs ++ rest) = Ok (Some (sg, key, (x, t), rest)).
Proof.
  intros units t v pad sg key x bs n rest Hp Hs Hw Hwf H.
  apply (payload_block_rt v pad sg key (write_typetool t (inner_padding pad) x) (read_typetool units t) (x, t) bs n rest Hp Hs
           (wtruth_typetool t (inner_padding pad) x)); [|exact H].
  intros body m Hb. exact (typetool_rt units t (inner_padding pad) x body m Hw Hwf Hb).
Qed.
Print Assumptions type_tool_block_roundtrip.

Example stage3_6_satisfiable :
  wf_typetool [] (mkTySh 1 [4607182418800017408; 0; 0; 4607182418800017408; 0; 0] 50 (DBlock 16 ex_ll_desc) 1 (DBlock 16 ex_ll_desc) [-1; 0; 10; 20]) = true /\
  forallb (wf_msetting []) [mkMeta sig_8BIM 0x6d64796e 0 (MInt 7); mkMeta sig_8BIM 0x63757374 1 (MDesc (DBlock 16 ex_ll_desc));
                            mkMeta 0x38454c45 0x61626364 0 (MRaw [1; 2; 3])] = true /\
  (exists bs n, write_msettings [] [mkMeta sig_8BIM 0x6d64796e 0 (MInt 7); mkMeta 0x38454c45 0x61626364 0 (MRaw [1; 2; 3])] = Ok (bs, n) /\ n = 43).
Proof. split; [vm_compute; reflexivity|]. split; [vm_compute; reflexivity|]. do 2 eexists. split; [vm_compute; reflexivity|reflexivity]. Qed.

(* what the guards exclude: the writer of a metadata item goes by the type of its data, the reader by its key - raw
   bytes under a descriptor key are written and then read as a descriptor block *)
Theorem metadata_setting_roundtrip_refuted :
  exists bs n, write_msettings [] [mkMeta sig_8BIM 0x63757374 0 (MRaw [1; 2; 3])] = Ok (bs, n) /\ read_msettings [] [] bs = Err IOErr.
Proof.
  exists (match write_msettings [] [mkMeta sig_8BIM 0x63757374 0 (MRaw [1; 2; 3])] with Ok (b, _) => b | Err _ => [] end).
  exists (match write_msettings [] [mkMeta sig_8BIM 0x63757374 0 (MRaw [1; 2; 3])] with Ok (_, n) => n | Err _ => 0 end).
  split; vm_compute; reflexivity.
Qed.
Print Assumptions metadata_setting_roundtrip_refuted.

(* ------------------------------------------------------------------ LayerInfoBlock ('Lr16' / 'Lr32')
   The body of a LayerInfo as the payload of a tagged block: what is read back is the structure as it is after write
   refreshed the channel lengths ([li_update]), for any number of layers and channels, both versions, any padding. *)
Theorem layer_info_block_roundtrip : forall enc_s dec_s v pad li bs n,
  wf_lr_block enc_s dec_s li = true -> write_lr_block enc_s v pad li = Ok (bs, n) ->
  read_lr_block dec_s v bs = Ok (li_update li) /\ n = len bs.
Proof.
  intros enc_s dec_s v pad li bs n Hwf H.
  split; [exact (lr_block_rt enc_s dec_s v pad li bs n Hwf H)|exact (wtruth_lr_block enc_s v pad li bs n H)].
Qed.
Print Assumptions layer_info_block_roundtrip.
(* an empty block built with None in place of its two empty lists comes back with the lists *)
Theorem layer_info_block_roundtrip_refuted :
  exists bs n, write_lr_block raw_codec 1 4 (mkLI 0 None None) = Ok (bs, n) /\
               read_lr_block raw_codec 1 bs = Ok (mkLI 0 (Some []) (Some [])).
Proof. exists [0; 0; 0; 0], 4. split; vm_compute; reflexivity. Qed.
Print Assumptions layer_info_block_roundtrip_refuted.

(* the key reader before /repo 708c13e (Psd/Legacy.v): a key cut short by the end of the data was accepted and became a
   term; the current reader refuses it *)
Theorem descriptor_key_cut_short_refuted_before_708c13e :
  read_key_v0 [] [0; 0; 0; 0; 72] = Ok ([72], [[72]], []) /\ read_key [] [0; 0; 0; 0; 72] = Err IOErr.
Proof. split; vm_compute; reflexivity. Qed.
Print Assumptions descriptor_key_cut_short_refuted_before_708c13e.

(* back-patching the length = emitting the inner bytes after the packed length *)
Theorem length_block_backpatch : forall buf lb body,
  buf_write (buf_write buf (length buf + length lb) body) (length buf) lb = buf ++ lb ++ body.
Proof. exact patch_equiv. Qed.
Print Assumptions length_block_backpatch.

(* ------------------------------------------------------------------ the hypotheses are satisfiable *)
Definition ex_mask : mask_data :=
  mkMask (-3) 0 4 2147483647 255 (mkFlags false true false false true false false false)
         (Some (mkMP (Some 200) None None (Some 4607182418800017408))) None.
Definition ex_mask_real : mask_data :=
  mkMask 0 0 1 1 0 (mkFlags false false false false true false false false)
         (Some (mkMP None (Some 1) (Some 7) (Some 2)))
         (Some (mkMR (mkFlags true false false false false false false true) 255 (-2147483648) 0 5 6)).
Definition ex_rec (name : list Z) (m : option mask_data) (blocks : list tagged_block) : layer_record :=
  mkRec (-5) 0 10 20 [mkCI 0 0; mkCI (-1) 99; mkCI (-2) 7] sig_8BIM 1852797549 255 0
        (mkFlags false true false true false false false false) m
        (mkBR (Some [(0, 65535); (0, 65535)]) (Some [[(0, 65535); (1, 2)]; [(3, 4); (5, 65535)]]))
        name blocks.
Definition ex_doc : psd :=
  mkPSD (mkHeader sig_8BPS 2 56 300000 1 32 9) [1; 2; 3]
        [mkRes sig_8BIM 1000 [65; 66] [1; 2; 3]; mkRes 0x4d655361 65535 [] []]
        (mkLAMI
           (Some (mkLI (-2)
                       (Some [ex_rec [76; 49; 50] (Some ex_mask)
                                     [mkTB sig_8BIM 1819635305 [0; 0; 0; 1; 0; 65]; mkTB sig_8B64 1281456498 [1; 2; 3]];
                              ex_rec [] (Some ex_mask_real) []])
                       (Some [[mkCD 0 [9; 9; 9]; mkCD 1 []; mkCD 3 [1]];
                              [mkCD 2 [7]; mkCD 0 []; mkCD 1 [0; 0; 0; 0; 0]]])))
           (Some (mkGLMI (Some [0; 65535; 0; 0; 1]) 50 128))
           (Some [mkTB sig_8BIM 1282552118 [5]; mkTB sig_8BIM 2054847098 []]))
        (mkCD 1 [0; 1; 2]).
(* a version-1 document whose only content is an empty global layer mask info, image large enough *)
Definition ex_doc_small : psd :=
  mkPSD (mkHeader sig_8BPS 1 1 1 1 8 1) [] []
        (mkLAMI (Some (mkLI 0 None None)) (Some glmi_empty) (Some []))
        (mkCD 0 [0; 0; 0; 0; 0; 0; 0; 0; 0; 0; 0]).

Example psd_roundtrip_satisfiable :
  wf_psd raw_codec raw_codec ex_doc = true /\
  (exists bs n, write_psd raw_codec 2 ex_doc = Ok (bs, n) /\ n = 486 /\ len bs = 486) /\
  psd_after_write ex_doc <> ex_doc /\
  wf_psd raw_codec raw_codec ex_doc_small = true /\
  (exists bs n, write_psd raw_codec 4 ex_doc_small = Ok (bs, n)) /\
  psd_after_write ex_doc_small = ex_doc_small.
Proof.
  split; [vm_compute; reflexivity|]. split.
  - eexists. eexists. split; [vm_compute; reflexivity|]. split; vm_compute; reflexivity.
  - split; [vm_compute; discriminate|]. split; [vm_compute; reflexivity|].
    split; [eexists; eexists; vm_compute; reflexivity|reflexivity].
Qed.

(* ------------------------------------------------------------------ the refuted classes *)
(* F-C01-3: both feathers, no "real" fields: the 40-byte block is read as having them *)
Definition cx_mask : mask_data :=
  mkMask 0 0 0 0 0 (mkFlags false false false false true false false false)
         (Some (mkMP None (Some 0) None (Some 0))) None.
Theorem mask_data_roundtrip_refuted :
  exists m bs n, Bool.eqb (fb4 (m_flags m)) (is_some (m_params m)) = true /\ mask_len_guard m = false /\
                 write_mask m = Ok (bs, n) /\ read_mask bs <> Ok (Some m, []).
Proof.
  exists cx_mask. eexists. eexists. split; [reflexivity|]. split; [vm_compute; reflexivity|].
  split; [vm_compute; reflexivity|]. vm_compute. discriminate.
Qed.
Print Assumptions mask_data_roundtrip_refuted.

(* F-C01-2 (FIXED by /repo f3a2729; documentation): with the reader as it was before the fix (Psd/Legacy.v,
   a 17-byte probe into the rest of the file) a 1x1 document with a layer info, an empty global layer mask info and
   3 bytes of merged image lost the global layer mask info and re-wrote DIFFERENTLY.  With the current reader the
   same document is well-formed and round-trips (second half). *)
Definition cx_doc_glmi : psd :=
  mkPSD (mkHeader sig_8BPS 1 1 1 1 8 1) [] []
        (mkLAMI (Some (mkLI 0 None None)) (Some glmi_empty) (Some []))
        (mkCD 0 [0]).
Theorem psd_roundtrip_refuted_before_f3a2729 :
  (exists d bs n d' bs' n',
    glmi_guard (h_version (p_header d)) (p_lami d) (2 + len (cd_data (p_img d))) = false /\
    write_psd raw_codec 4 d = Ok (bs, n) /\ read_psd_v0 raw_codec bs = Ok d' /\
    d' <> psd_after_write d /\ write_psd raw_codec 4 d' = Ok (bs', n') /\ bs' <> bs) /\
  wf_psd raw_codec raw_codec cx_doc_glmi = true /\
  (exists bs n, write_psd raw_codec 4 cx_doc_glmi = Ok (bs, n) /\ read_psd raw_codec bs = Ok cx_doc_glmi).
Proof.
  split.
  { exists cx_doc_glmi. do 5 eexists. split; [vm_compute; reflexivity|].
    split; [vm_compute; reflexivity|]. split; [vm_compute; reflexivity|].
    split; [discriminate|]. split; [vm_compute; reflexivity|]. discriminate. }
  split; [vm_compute; reflexivity|]. do 2 eexists. split; [vm_compute; reflexivity|]. vm_compute. reflexivity.
Qed.
Print Assumptions psd_roundtrip_refuted_before_f3a2729.

(* not well-formed documents: why wf asks for these coherences (each is re-read as the normal form
   of the same content, and the normal form IS well-formed and stable) *)
Theorem not_wellformed_classes_refuted :
  (* tagged_blocks = None beside a layer info, inside a file: comes back as the empty TaggedBlocks *)
  (exists d bs n d', write_psd raw_codec 4 d = Ok (bs, n) /\ read_psd raw_codec bs = Ok d' /\ d' <> d /\
                     la_blocks (p_lami d) = None /\ la_blocks (p_lami d') = Some [] /\
                     wf_psd raw_codec raw_codec d' = true /\ write_psd raw_codec 4 d' = Ok (bs, n)) /\
  (* layer_count = 0 with empty lists: written in the short form, comes back with None *)
  (exists li bs n, write_layer_info raw_codec 1 4 li = Ok (bs, n) /\ li = mkLI 0 (Some []) (Some []) /\
                   read_layer_info raw_codec 1 bs = Ok (mkLI 0 None None, [])) /\
  (* opacity without overlay colour: no place on disk *)
  (exists g bs n, write_glmi g = Ok (bs, n) /\ g_overlay g = None /\ g_opacity g = 5 /\
                  read_glmi bs = Ok (glmi_empty, [])) /\
  (* parameters_applied without parameters: a padding byte is read as the (empty) parameters *)
  (exists m bs n m', write_mask m = Ok (bs, n) /\ m_params m = None /\ fb4 (m_flags m) = true /\
                     read_mask bs = Ok (Some m', []) /\ m_params m' = Some (mkMP None None None None)).
Proof.
  split.
  { exists (mkPSD (mkHeader sig_8BPS 1 1 1 1 8 1) [] [] (mkLAMI (Some (mkLI 0 None None)) None None) (mkCD 0 [0])).
    do 3 eexists. split; [vm_compute; reflexivity|]. split; [vm_compute; reflexivity|].
    split; [discriminate|]. split; [reflexivity|]. split; [vm_compute; reflexivity|].
    split; vm_compute; reflexivity. }
  split.
  { exists (mkLI 0 (Some []) (Some [])). do 2 eexists. split; [vm_compute; reflexivity|]. split; [reflexivity|]. vm_compute. reflexivity. }
  split.
  { exists (mkGLMI None 5 128). do 2 eexists. split; [vm_compute; reflexivity|].
    split; [reflexivity|]. split; [reflexivity|]. vm_compute. reflexivity. }
  exists (mkMask 0 0 0 0 0 (mkFlags false false false false true false false false) None None).
  do 3 eexists. split; [vm_compute; reflexivity|]. split; [reflexivity|]. split; [reflexivity|].
  split; [vm_compute; reflexivity|]. reflexivity.
Qed.
Print Assumptions not_wellformed_classes_refuted.
