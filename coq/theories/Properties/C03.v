(* C03 - written files are self-consistent: every length, count and alignment is truthful.

   [walk] (Psd/Walk.v) is an independent reader of the container format written from the Adobe
   specification: it navigates by the length fields alone and checks that every region is filled
   exactly (length prefixes followed by that many bytes inside their region, counts = items present,
   paddings present and zero, per-channel lengths adding up to the end of the layer info, sections
   adding up to the file size).  [layout_of] lists the blocks the writer emitted with the number of
   bytes it emitted for each.  The theorems hold for every charset codec, both file versions, layer
   info padding 1, 2 and 4, any number of resources / layers / channels / blocks, any payload.
   "The byte count each write() reports equals the bytes emitted": in the model [written] is
   accumulated as the code accumulates it (sums of sub-results, paddings derived from the running
   count), so [written_truthful_*] are theorems about that bookkeeping, not definitions.
   Not covered here: RLE row tables inside channel data (opaque bytes in this model; checked by the
   Python twin of the walker on every written file, and proved for the codec in C04/C05), and the
   plane count of the merged image produced by PSDImage.save() (C17). *)
From PsdV Require Import Base.Prelude Psd.Codec Psd.Model Psd.Proofs Psd.Walk Psd.Layout Psd.WalkProofs
  Psd.Leaf Psd.LeafProofs Psd.Descriptor Psd.DescriptorProofs Psd.Effects Psd.EffectsProofs
  Psd.Patterns Psd.PatternsProofs Psd.Struct Psd.Adjust Psd.AdjustProofs Psd.Vector Psd.VectorProofs Psd.Linked Psd.LinkedProofs Psd.FilterFx Psd.FilterFxProofs Psd.Rsrc Psd.RsrcProofs Psd.Slices Psd.SlicesProofs Psd.Misc Psd.MiscProofs Psd.Meta Psd.MetaProofs.
From Coq Require Import ZArith List Bool Lia.
Import ListNotations.
Open Scope Z_scope.

(* ------------------------------------------------------------------ the independent walker lands on every block *)
Theorem write_walks :
  forall enc_s dec_s pad d bs n,
    (pad = 1 \/ pad = 2 \/ pad = 4) -> wf_psd enc_s dec_s d = true ->
    write_psd enc_s pad d = Ok (bs, n) ->
    walk bs = Ok (layout_of enc_s pad d).
Proof. exact walk_written. Qed.
Print Assumptions write_walks.

(* the sizes of the top-level sections found by the walker add up to the file size *)
Theorem sections_sum_to_file_size :
  forall enc_s dec_s pad d bs n,
    (pad = 1 \/ pad = 2 \/ pad = 4) -> wf_psd enc_s dec_s d = true ->
    write_psd enc_s pad d = Ok (bs, n) ->
    blen (write_header (p_header d)) + blen (write_cmd (p_cmd d)) + blen (write_resources enc_s (p_res d)) +
    blen (write_lami enc_s (h_version (p_header d)) pad (p_lami d)) + blen (write_image_data (p_img d)) = len bs
    /\ n = len bs.
Proof.
  intros enc_s dec_s pad d bs n _ _ H. split; [|exact (wtruth_psd enc_s pad d bs n H)].
  unfold write_psd in H.
  apply w_seq_inv in H as (b1234 & n1234 & b5 & n5 & H & H5 & -> & ->).
  apply w_seq_inv in H as (b123 & n123 & b4 & n4 & H & H4 & -> & ->).
  apply w_seq_inv in H as (b12 & n12 & b3 & n3 & H & H3 & -> & ->).
  apply w_seq_inv in H as (b1 & n1 & b2 & n2 & H1 & H2 & -> & ->).
  rewrite (blen_ok _ _ _ H1), (blen_ok _ _ _ H2), (blen_ok _ _ _ H3), (blen_ok _ _ _ H4), (blen_ok _ _ _ H5).
  rewrite !len_app. lia.
Qed.
Print Assumptions sections_sum_to_file_size.

(* every length-prefixed block: the stored value is the number of bytes of the block's content, for ANY
   inner writer whose reported count is truthful (that is what makes the reported counts matter) *)
Theorem length_prefix_truthful :
  forall pre nb pad w bs n, wtruth w -> w_length_block pre nb pad w = Ok (bs, n) ->
    exists body lb, w = Ok (body, len body) /\ pack_u nb (len body) = Ok lb /\ be_val lb = len body /\
                    bs = zeros pre ++ lb ++ body ++ zeros (Z.to_nat (pad_count (len body + len (zeros pre ++ lb)) pad)).
Proof.
  intros pre nb pad w bs n Hw H. destruct (length_block_inv pre nb pad w bs n Hw H) as (body & lb & H1 & H2 & H3).
  exists body, lb. repeat split; try assumption. exact (pack_u_val _ _ _ H2).
Qed.
Print Assumptions length_prefix_truthful.

(* blocks end on their alignment: written + padding is a multiple of the divisor *)
Theorem padding_aligns : forall size d, 0 < d -> (size + pad_count size d) mod d = 0 /\ 0 <= pad_count size d < d.
Proof. intros. split; [now apply pad_count_aligned|now apply pad_count_range]. Qed.
Print Assumptions padding_aligns.

(* per-channel lengths stored in the records = 2 + the bytes stored for the channel (after write ran) *)
Theorem channel_lengths_truthful :
  forall rs cs, same_shape rs cs = true ->
    flat_map (fun r => map ci_len (r_channels r)) (upd_recs rs cs) =
    flat_map (map (fun c => 2 + len (cd_data c))) cs.
Proof. exact upd_recs_lens. Qed.
Print Assumptions channel_lengths_truthful.

(* ------------------------------------------------------------------ reported count = bytes emitted, every writer *)
Theorem written_truthful_psd : forall enc_s pad d bs n, write_psd enc_s pad d = Ok (bs, n) -> n = len bs.
Proof. exact wtruth_psd. Qed.
Print Assumptions written_truthful_psd.

Theorem written_truthful_elements :
  forall enc_s v pad,
    (forall h, wtruth (write_header h)) /\ (forall c, wtruth (write_cmd c)) /\
    (forall r, wtruth (write_resource enc_s r)) /\ (forall l, wtruth (write_resources enc_s l)) /\
    (forall b, wtruth (write_tagged_block v pad b)) /\ (forall l, wtruth (write_tagged_blocks v pad l)) /\
    (forall m, wtruth (write_mask m)) /\ (forall p, wtruth (write_mask_params p)) /\
    (forall r, wtruth (write_ranges r)) /\ (forall c, wtruth (write_channel_info v c)) /\
    (forall c, wtruth (write_channel_data c)) /\ (forall r, wtruth (write_record enc_s v r)) /\
    (forall li, wtruth (write_layer_info enc_s v pad li)) /\ (forall g, wtruth (write_glmi g)) /\
    (forall l, wtruth (write_lami enc_s v pad l)) /\ (forall c, wtruth (write_image_data c)).
Proof.
  intros. repeat split; intros;
    auto using wtruth_header, wtruth_cmd, wtruth_resource, wtruth_resources, wtruth_tagged_block, wtruth_tagged_blocks,
      wtruth_mask, wtruth_mask_params, wtruth_ranges, wtruth_channel_info, wtruth_channel_data, wtruth_record,
      wtruth_layer_info, wtruth_glmi, wtruth_lami.
Qed.
Print Assumptions written_truthful_elements.

(* ... the modelled payload classes: value elements, section divider, sheet colour, reference point, colour, ... and
   the whole descriptor family at any nesting depth, DescriptorBlock(2) with its padding *)
Theorem written_truthful_payloads :
  (forall pad l, wtruth (write_leaf pad l)) /\
  (forall t d, wtruth (write_dval t d)) /\ (forall t pad b, wtruth (write_dblock t pad b)) /\
  (forall e, wtruth (write_effect e)) /\ (forall l, wtruth (write_effects l)) /\
  (forall enc_s p, wtruth (write_pattern enc_s p)) /\ (forall enc_s l, wtruth (write_patterns enc_s l)) /\
  (forall pad a, wtruth (write_adj pad a)) /\ (forall t pad ver dv d, wtruth (write_color_lookup t pad ver dv d)) /\
  (forall r, wtruth (write_prec r)) /\ (forall version flags p, wtruth (write_vmask version flags p)) /\
  (forall t pad key version d, wtruth (write_vscg t pad key version d)) /\
  (forall enc_s t pad l, wtruth (write_linked enc_s t pad l)) /\ (forall enc_s t l, wtruth (write_linked_layers enc_s t l)) /\
  (forall c, wtruth (write_fchannel c)) /\ (forall x, wtruth (write_fextra x)) /\
  (forall enc_s e, wtruth (write_feffect enc_s e)) /\ (forall enc_s v l, wtruth (write_feffects enc_s v l)) /\
  (forall enc_s a, wtruth (write_rsrc enc_s a)) /\ (forall t x, wtruth (write_slice6 t x)) /\ (forall t x, wtruth (write_slices t x)) /\
  (forall cid vals op fl, wtruth (write_user_mask cid vals op fl)) /\ (forall t pad kind version b, wtruth (write_sold t pad kind version b)) /\
  (forall enc_s t pad x, wtruth (write_placed enc_s t pad x)) /\ (forall t pad x, wtruth (write_typetool t pad x)) /\
  (forall pad l, wtruth (write_pixel_sources pad l)) /\ (forall t l, wtruth (write_msettings t l)) /\
  (forall enc_s major minor l, wtruth (write_annotations enc_s major minor l)).
Proof.
  split; [exact wtruth_leaf|]. split; [exact wtruth_dval|]. split; [exact wtruth_dblock|].
  split; [exact wtruth_effect|]. split; [exact wtruth_effects|]. split; [exact wtruth_pattern|]. split; [exact wtruth_patterns|].
  split; [exact wtruth_adj|]. split; [exact wtruth_color_lookup|]. split; [exact wtruth_prec|]. split; [exact wtruth_vmask|]. split; [exact wtruth_vscg|]. split; [exact wtruth_linked|]. split; [exact wtruth_linked_layers|]. split; [exact wtruth_fchannel|]. split; [exact wtruth_fextra|].
  split; [exact wtruth_feffect|]. split; [exact wtruth_feffects|]. split; [exact wtruth_rsrc|]. split; [exact wtruth_slice6|]. split; [exact wtruth_slices|]. split; [exact wtruth_user_mask|]. split; [exact wtruth_sold|].
  split; [exact wtruth_placed|]. split; [exact wtruth_typetool|]. split; [exact wtruth_pixel_sources|]. split; [exact wtruth_msettings|exact wtruth_annotations].
Qed.
Print Assumptions written_truthful_payloads.

(* the combinators themselves: any composition of truthful writers is truthful *)
Theorem written_truthful_combinators :
  (forall b, wtruth (w_bytes b)) /\ (forall r, wtruth (w_fmt r)) /\
  (forall a b, wtruth a -> wtruth b -> wtruth (w_seq a b)) /\
  (forall l, Forall wtruth l -> wtruth (w_concat l)) /\
  (forall w d, wtruth w -> wtruth (w_then_pad w d)) /\
  (forall pre nb pad w, wtruth w -> wtruth (w_length_block pre nb pad w)) /\
  (forall enc_s name pad, wtruth (w_pascal enc_s name pad)).
Proof.
  repeat split; intros; auto using wtruth_bytes, wtruth_fmt, wtruth_seq, wtruth_concat, wtruth_then_pad,
    wtruth_length_block, wtruth_pascal.
Qed.
Print Assumptions written_truthful_combinators.

(* ------------------------------------------------------------------ satisfiable; and what the guard excludes *)
Definition ex_doc : psd :=
  mkPSD (mkHeader sig_8BPS 2 3 2 2 8 3) [1; 2; 3]
        [mkRes sig_8BIM 1000 [65; 66] [1; 2; 3]; mkRes sig_8BIM 2000 [] []]
        (mkLAMI
           (Some (mkLI 1
                       (Some [mkRec 0 0 2 2 [mkCI 0 0; mkCI (-1) 99] sig_8BIM 1852797549 255 0
                                    (mkFlags false true false true false false false false) None
                                    (mkBR (Some [(0, 65535); (0, 65535)]) (Some [[(0, 65535); (1, 2)]]))
                                    [76; 49; 50] [mkTB sig_8BIM 1819635305 [0; 0; 0; 1; 0; 65]; mkTB sig_8B64 1281456498 [1; 2; 3]]])
                       (Some [[mkCD 0 [9; 9; 9; 9]; mkCD 1 [0; 2; 0; 2; 129; 7; 129; 7]]])))
           (Some (mkGLMI None 0 128))
           (Some [mkTB sig_8BIM 1282552118 [5]]))
        (mkCD 0 [0; 1; 2; 3; 4; 5; 6; 7; 8; 9; 10; 11]).

Example write_walks_satisfiable :
  wf_psd raw_codec raw_codec ex_doc = true /\
  exists bs n, write_psd raw_codec 4 ex_doc = Ok (bs, n) /\
               walk bs = Ok [(K_HEADER, 26); (K_CMD, 7); (K_RESOURCES, 34); (K_RES, 18); (K_RES, 12);
                             (K_LAMI, 180); (K_LAYERINFO, 148); (K_RECORD, 120); (K_MASK, 4); (K_RANGES, 20);
                             (K_NAME, 4); (K_LTB, 18); (K_LTB, 19); (K_CHANNEL, 6); (K_CHANNEL, 10);
                             (K_GLMI, 4); (K_GTB, 20); (K_IMAGE, 14)].
Proof.
  split; [vm_compute; reflexivity|]. do 2 eexists. split; vm_compute; reflexivity.
Qed.

(* without the coherence asked by wf the statement is false: tagged blocks written straight after the
   layer info (no global layer mask info) are taken for a length field by any reader of the format *)
Theorem write_walks_refuted :
  exists d bs n, write_psd raw_codec 4 d = Ok (bs, n) /\ walk bs = Err IOErr /\
                 la_glmi (p_lami d) = None /\ exists b, la_blocks (p_lami d) = Some [b].
Proof.
  exists (mkPSD (mkHeader sig_8BPS 1 1 1 1 8 1) [] []
                (mkLAMI (Some (mkLI 0 None None)) None (Some [mkTB sig_8BIM 2054847098 [1; 2; 3; 4]])) (mkCD 0 [0])).
  do 2 eexists. split; [vm_compute; reflexivity|]. split; [vm_compute; reflexivity|]. split; [reflexivity|].
  eexists. reflexivity.
Qed.
Print Assumptions write_walks_refuted.
