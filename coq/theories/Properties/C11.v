(* C11 - compositing agrees with the published compositing model (Porter-Duff / PDF 1.7 11.3-11.4).

   Model: Composite/Model.v (per-pixel kernel: Compositor state, _apply_source normal + knockout paths,
   _divide, _clip, finish / backdrop removal, elements with masks x density x fill x opacity, groups
   isolated / pass-through, clipping runs) and Composite/Doc.v (layer tree, visibility, bounding boxes,
   viewports, paste) written once over an abstract scalar structure; the theorems below are about its
   instance over the reals (ROps); the instance over Q runs in the correspondence check and
   Composite/Transfer.v carries it onto the real instance.  Spec: Composite/Spec.v.
   Blend functions are arbitrary functions B with 0 <= B b s <= 1 on the unit square ([blend_ok]);
   [blend_fn_range] shows the twelve modelled modes qualify.  All statements hold for every list length,
   nesting depth and value in range - no bounds. *)
From Coq Require Import Reals QArith Qreals List.
From PsdV Require Import Composite.Scalar Composite.Model Composite.Spec Composite.Geometry Composite.Doc
  Composite.Plane Composite.SpecEval Composite.ProofsKernel Composite.ProofsSpec Composite.ProofsBlend Composite.ProofsLaws
  Composite.ProofsDoc Composite.ProofsSpecEval Composite.ProofsEndToEnd Composite.Transfer.
Import ListNotations.
Open Scope R_scope.

(* group alpha / shape after ANY list of sources:  1 - prod (1 - alpha_i)   (pure algebra, no side condition) *)
Theorem union_fold (l : list source) iso cb ab :
  let st := apply_sources l (@init ROps iso cb ab) in
  ag st = group_alpha (map s_a l) /\ sg st = group_alpha (map s_f l).
Proof. exact (ProofsSpec.union_fold l iso cb ab). Qed.
Print Assumptions union_fold.

Theorem total_alpha_fold (l : list source) (st : state ROps) :
  a st = a0 st + ag st - a0 st * ag st ->
  a (apply_sources l st) = 1 - (1 - a st) * prod_compl (map s_a l).
Proof. exact (ProofsSpec.total_alpha_fold l st). Qed.
Print Assumptions total_alpha_fold.

(* one _apply_source step (normal path) IS the basic compositing formula of PDF 11.3.3 *)
Theorem step_is_pdf_formula (st : state ROps) cs fs als B :
  Inv st -> src_ok cs fs als -> blend_ok B ->
  let st' := @apply_source ROps st cs fs als B false in
  a st' = pdf_alpha (a st) als /\
  a st' * c st' = pdf_premult B (c st) (a st) cs als /\
  (a st' <> 0 -> c st' = pdf_color B (c st) (a st) cs als).
Proof. exact (ProofsSpec.step_is_pdf_formula st cs fs als B). Qed.
Print Assumptions step_is_pdf_formula.

(* the hypotheses are satisfiable by a non-trivial state and source *)
Example step_hypotheses_example :
  Inv (@init ROps false (1/2) (1/4)) /\ src_ok (1/3) (1/2) (1/4) /\ blend_ok (@blend_fn ROps BMultiply).
Proof.
  split; [apply init_Inv; unfold unit; Lra.lra|]. split; [unfold src_ok, unit; Lra.lra | apply blend_fn_range].
Qed.

(* the invariant (all fields in [0,1], alpha = Union(alpha_0, alpha_g), removal bound, alpha_g <= shape_g)
   is kept by both paths of _apply_source, and _clip never changes the colour it is applied to *)
Theorem apply_source_keeps_invariant (st : state ROps) cs fs als B ko :
  Inv st -> src_ok cs fs als -> blend_ok B -> Inv (@apply_source ROps st cs fs als B ko).
Proof. exact (apply_source_Inv st cs fs als B ko). Qed.
Print Assumptions apply_source_keeps_invariant.

Theorem clip_is_identity_normal (st : state ROps) cs fs als B :
  Inv st -> src_ok cs fs als -> blend_ok B ->
  let st' := @apply_source ROps st cs fs als B false in
  a st' <> 0 -> c st' * a st' = num_normal st cs als B.
Proof. intros I S HB. exact (proj2 (apply_source_normal_Inv st cs fs als B I S HB)). Qed.
Print Assumptions clip_is_identity_normal.

Theorem clip_is_identity_knockout (st : state ROps) cs fs als B :
  Inv st -> src_ok cs fs als -> blend_ok B ->
  let st' := @apply_source ROps st cs fs als B true in
  a st' <> 0 -> c st' * a st' = num_ko st cs fs als B.
Proof. intros I S HB. exact (proj2 (apply_source_ko_Inv st cs fs als B I S HB)). Qed.
Print Assumptions clip_is_identity_knockout.

(* state_in_unit_interval for whole element trees: groups in groups, clipping runs, knockout, masks *)
Theorem state_in_unit_interval (l : list (elem ROps)) iso cb ab :
  Forall wf l -> unit cb -> unit ab -> Inv (apply_list l (@init ROps iso cb ab)).
Proof. intros W Hc Ha. exact (apply_list_Inv l W _ (init_Inv iso cb ab Hc Ha)). Qed.
Print Assumptions state_in_unit_interval.

(* the backdrop-removal formula of the `color` property yields a colour without the help of _clip,
   and its premultiplied form is  alpha*C - alpha_0*C_0*(1 - alpha_g)  (PDF 11.4.8) *)
Theorem removal_needs_no_clip (st : state ROps) : Inv st -> ag st <> 0 ->
  let C := pdf_removal (c st) (c0 st) (a0 st) (ag st) in
  unit C /\ @finish_color ROps st = C /\ ag st * C = a st * c st - a0 st * c0 st * (1 - ag st).
Proof. exact (finish_unclipped st). Qed.
Print Assumptions removal_needs_no_clip.

(* an isolated group of Normal-mode layers is the Porter-Duff "over" fold on premultiplied colour *)
Theorem porter_duff (l : list (R * R)) cb ab :
  unit cb -> unit ab -> Forall (fun p => unit (fst p) /\ unit (snd p)) l ->
  let '(C, f, al) := @finish ROps (apply_sources (map src_normal l) (@init ROps true cb ab)) in
  (al * C, al) = pd_stack l.
Proof. exact (ProofsSpec.porter_duff l cb ab). Qed.
Print Assumptions porter_duff.

Example porter_duff_example :
  Forall (fun p : R * R => unit (fst p) /\ unit (snd p)) [(1/5, 1/2); (4/5, 1/4); (1, 0)].
Proof. repeat constructor; cbn; Lra.lra. Qed.

(* the modelled blend modes meet the range hypothesis *)
Theorem blend_fn_range (b : blend) : blend_ok (@blend_fn ROps b).
Proof. exact (ProofsBlend.blend_fn_range b). Qed.
Print Assumptions blend_fn_range.

(* every well-formed 8-bit document (any tree, any viewport, pixel, channel, backdrop in [0,1]) is sampled
   into well-formed elements, hence all of the above applies to what the document model evaluates, and its
   result is a colour, a shape and an alpha in [0,1] *)
Theorem document_samples_are_wellformed (ls : list layer) vp x y k :
  Forall layer_ok ls -> Forall wf (@sample_list ROps vp x y k ls).
Proof. exact (sample_list_wf ls vp x y k). Qed.
Print Assumptions document_samples_are_wellformed.

Theorem composite_in_range (ls : list layer) vp cb ab x y k :
  Forall layer_ok ls -> unit cb -> unit ab ->
  let '(C, f, al) := @composite_doc ROps vp cb ab ls x y k in unit C /\ unit f /\ unit al.
Proof. exact (composite_doc_in_range ls vp cb ab x y k). Qed.
Print Assumptions composite_in_range.

Example wellformed_document_example :
  Forall layer_ok
    [Px (0, 0, 2, 1)%Z [[51; 204]%Z] [255; 128]%Z (MkAttrs true 255 255 BNormal false None false 255);
     Gr true [Px (1, 0, 3, 1)%Z [[1000; 65535]%Z] [16384; 40000]%Z       (* a layer of a 16-bit document *)
                (MkAttrs true 128 64 BMultiply false (Some (MkMask (1, 0, 2, 1)%Z [32768%Z] 255 (Some 200%Z) false)) false 65535)]
        (MkAttrs true 200 255 BNormal false None false 255)].
Proof. repeat (constructor; unfold is_byte, attrs_ok, mask_ok, vals_ok; cbn; try Lia.lia); repeat constructor; unfold is_byte; Lia.lia. Qed.

(* the rational instance that vm_compute executes in the correspondence check is, through Q2R, exactly the
   real instance the theorems above speak about: whole document model, kernel and sampling *)
Theorem executed_model_is_the_real_model vp (cb ab : Q) ls x y k :
  let '(C, f, al) := @composite_doc QOps vp cb ab ls x y k in
  @composite_doc ROps vp (Q2R cb) (Q2R ab) ls x y k = (Q2R C, Q2R f, Q2R al).
Proof. exact (model_Q_is_model_R vp cb ab ls x y k). Qed.
Print Assumptions executed_model_is_the_real_model.

(* ---------------- the kernel computes the PDF 11.4.8 group recurrences (SpecEval.v: premultiplied, no clipping,
   no 0/0 convention) on EVERY well-formed element tree: knockout and normal elements, nested isolated and
   non-isolated groups, masks / opacities, clipping runs *)
Theorem kernel_is_pdf (iso : bool) (cb ab : R) (l : list (elem ROps)) :
  Forall wf l -> unit cb -> unit ab ->
  let '(C, f, al) := @composite_px ROps iso cb ab l in
  let '(P, f', al') := pdf_composite iso cb ab l in
  f = f' /\ al = al' /\ al * C = P.
Proof. exact (ProofsSpecEval.kernel_is_pdf iso cb ab l). Qed.
Print Assumptions kernel_is_pdf.

(* ---------------- end to end: for documents of pixel layers with masks, clipping runs and groups (isolated and
   pass-through, any nesting), the visibility filter, group bounding boxes, viewport intersections, early exits
   and pastes compute, at every pixel of ANY viewport, the whole-plane PDF group formula - modulo colour where
   alpha is 0 (shape, alpha and alpha*colour are compared) *)
Theorem viewport_model_eq_spec (ls : list layer) (vp : rect) (cb ab : R) (x y : Z) (k : nat) :
  Forall layer_ok ls -> unit cb -> unit ab -> inside vp x y = true ->
  let '(C, f, al) := @composite_doc ROps vp cb ab ls x y k in
  let '(P, f', al') := pdf_composite false cb ab (@plane_list ROps x y k ls) in
  f = f' /\ al = al' /\ al * C = P.
Proof. exact (ProofsEndToEnd.viewport_model_eq_spec ls vp cb ab x y k). Qed.
Print Assumptions viewport_model_eq_spec.

Example viewport_model_eq_spec_example :
  inside (-1, 0, 5, 3)%Z 2 1 = true /\ unit (1/2) /\ unit (1/4).
Proof. split; [reflexivity | unfold unit; split; Lra.lra]. Qed.

(* Not proved here (stated for the record):
   - float32 rounding of NumPy: bounded by the tolerance of the correspondence check, not modelled;
   - the blend functions beyond the range hypothesis 0 <= B <= 1 (their formulas are C12's subject). *)
