(* C11 - compositing agrees with the published compositing model (placeholder header; theorems below). *)
From PsdV Require Import Composite.Scalar Composite.Model Composite.Spec Composite.ProofsKernel Composite.ProofsSpec.
