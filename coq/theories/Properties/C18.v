(* C18 - placeholder while the proofs are being built *)
From PsdV Require Import Base.Prelude Engine.Model Engine.Corr.
