(* C18 - text engine data round-trips (psd_tools/psd/engine_data.py), both layouts.
   Only the property theorems; every proof is [exact] of a lemma of Engine/Proofs*.v.
   All statements are unbounded: every byte list, every tree of any depth and width, every integer,
   every decimal magnitude.  Model: Engine/Model.v (tied to the code by harness/vh/c18.py). *)
From PsdV Require Import Base.Prelude Engine.Model Engine.Corr
  Engine.ProofsLex Engine.ProofsLeaf Engine.ProofsParse Engine.ProofsWrite Engine.ProofsFuel Engine.ProofsCount Engine.ProofsSpace Engine.Embedded Engine.ProofsReparse Engine.ProofsMore Engine.ProofsLayout.

(* ------------------------------------------------------------------ strings *)
(* 1. the three sequential un-escaping replaces undo the three sequential escaping replaces, for
      every byte string (no assumption on the bytes: any UTF-16 content, any characters) *)
Theorem unescape_escape : forall bs, unescape (escape bs) = bs.
Proof. exact ProofsLex.unescape_escape. Qed.
Print Assumptions unescape_escape.

(* 2. the tokenizer's end scan returns exactly the escaped string, whatever its content and whatever follows *)
Theorem string_end_found : forall p rest, scan_end (escape p ++ 41 :: rest) = Some (escape p, rest).
Proof. exact ProofsLex.scan_end_escape. Qed.
Print Assumptions string_end_found.

Theorem string_token_found : forall p rest,
  tokenize ([40;254;255] ++ escape p ++ [41] ++ rest) = (KStr, [40;254;255] ++ escape p ++ [41]) :: tokenize rest.
Proof. exact ProofsWrite.string_token_found. Qed.
Print Assumptions string_token_found.

(* 3. a String element is read back from its token: every UTF-16BE payload (paired surrogates) *)
Theorem string_roundtrip : forall p, utf16_ok p = true ->
  leaf_of KStr (leaf_bytes (TStr p)) = Ok (TStr p).
Proof. exact ProofsLeaf.string_read. Qed.
Print Assumptions string_roundtrip.
(* U+015C, "\", "a\", U+5C5C, ")(" U+2829 U+295C: UTF-16BE forms full of 0x5C / 0x28 / 0x29 *)
Example string_roundtrip_hyp :
  utf16_ok [1;92] = true /\ utf16_ok [0;92] = true /\ utf16_ok [0;97;0;92] = true /\ utf16_ok [92;92] = true /\
  utf16_ok [0;41;0;40;40;41;41;92] = true /\ utf16_ok [216;61;222;0] = true.
Proof. repeat split. Qed.

(* before commit aadd31f (finding F-C18-1) the end search was "first ')' not preceded by '\'":
   that search does not find the end of a string whose UTF-16BE form ends in 0x5C (here U+015C) *)
Theorem old_end_search_refuted : exists p,
  utf16_ok p = true /\
  scan_old ([40;254;255] ++ escape p ++ [41]) <> Some ([40;254;255] ++ escape p ++ [41], []).
Proof. exists [1;92]. split; [reflexivity|]. vm_compute. discriminate. Qed.
Print Assumptions old_end_search_refuted.

(* ------------------------------------------------------------------ numbers *)
(* 4. Integer: "%d" then int() is the identity on every integer, of any size (far beyond int64) ... *)
Theorem int_text_roundtrip : forall z, classify (int_bytes z) = KNum /\ int_of_bytes (int_bytes z) = z.
Proof. intros z. split; [apply ProofsLeaf.int_classify|apply ProofsLeaf.int_roundtrip]. Qed.
Print Assumptions int_text_roundtrip.
(* ... and the Integer element is read back exactly when it has at most 4300 decimal digits: CPython's
   sys.get_int_max_str_digits() makes int(token) (and "%d" % value) raise ValueError beyond that *)
Theorem int_element_roundtrip : forall z, int_ok z = true -> leaf_of KNum (leaf_bytes (TInt z)) = Ok (TInt z).
Proof. exact ProofsLeaf.int_read. Qed.
Print Assumptions int_element_roundtrip.
Example int_element_roundtrip_hyp : int_ok (2 ^ 63) = true /\ int_ok (- 2 ^ 200) = true /\ int_ok (- 10 ^ 100) = true.
Proof. repeat split; vm_compute; reflexivity. Qed.
(* the limit: every integer of magnitude >= 10^4300 is outside; its write() raises ValueError, and a token of more
   than 4300 digits cannot be read (one of exactly 4300 can) *)
Theorem int_limit : forall z, int_ok z = true <-> Z.abs z < 10 ^ 4300.
Proof. exact ProofsReparse.int_ok_iff. Qed.
Print Assumptions int_limit.
Theorem int_limit_refuted :
  (forall ly, write ly [([97], TInt (10 ^ 4300))] = Err ValueErr) /\
  leaf_of KNum (repeat 49 4301) = Err ValueErr /\
  parse ([47;97;32] ++ repeat 49 4301) = Err ValueErr /\
  parse ([47;97;32] ++ repeat 49 4300) = Ok [([97], TInt (dval (repeat 49 4300)))].
Proof.
  split.
  - intros ly. unfold write. cbn [wbig snd]. rewrite (ProofsLeaf.int_ok_limit (10 ^ 4300)); [reflexivity|].
    change (Z.of_nat MAX_STR_DIGITS) with 4300. rewrite Z.abs_eq; [apply Z.le_refl|]. apply Z.pow_nonneg. discriminate.
  - repeat split; vm_compute; reflexivity.
Qed.
Print Assumptions int_limit_refuted.

(* 5. Float: the text made from '%.8f' (zeros stripped, "0." shortened to ".") is a decimal token and is read
      back to the same 8 places, for every sign and magnitude *)
Theorem float_text_roundtrip : forall neg mag, 0 <= mag ->
  classify (float_bytes (Fl neg mag false)) = KDec /\
  float_of_bytes (float_bytes (Fl neg mag false)) = Fl neg mag false.
Proof.
  intros neg mag H. split; [apply (ProofsLeaf.float_re_dec neg mag H)|apply (ProofsLeaf.float_roundtrip neg mag H)].
Qed.
Print Assumptions float_text_roundtrip.
(* the statement has no upper bound on the magnitude: beyond 1e16, where '%.8f' prints many integer digits, the text is
   still a decimal token read back to the same 8 places (which double has which text is CPython's: tested) *)
Example float_text_roundtrip_big :
  float_of_bytes (float_bytes (Fl true (17976931348623157 * 10 ^ 300) false)) = Fl true (17976931348623157 * 10 ^ 300) false.
Proof. vm_compute. reflexivity. Qed.
Example float_text_roundtrip_hyp :
  float_bytes (Fl true 50000000 false) = [45;46;53] /\ float_bytes (Fl false 10000000000000000000000000000 false) =
  [49;48;48;48;48;48;48;48;48;48;48;48;48;48;48;48;48;48;48;48;48;46;48].
Proof. split; vm_compute; reflexivity. Qed.
(* a non-zero value below 5e-9 is written ".0" / "-.0" and read back as zero: equal to the 8 places kept *)
Theorem float_tiny_roundtrip : forall neg, float_of_bytes (float_bytes (Fl neg 0 true)) = Fl neg 0 false.
Proof. exact ProofsLeaf.float_tiny_roundtrip. Qed.
Print Assumptions float_tiny_roundtrip.

(* ------------------------------------------------------------------ tokens of the written text *)
(* 6. the text written for a tree tokenizes to exactly the tree's token sequence (only white space is
      not a token), in both layouts, at any depth *)
Theorem tokens_roundtrip_indented : forall d,
  wf_tree (TDict d) = true -> tokenize (wv (Some O) (TDict d)) = vtoks (TDict d).
Proof. exact ProofsWrite.tokens_of_indented. Qed.
Print Assumptions tokens_roundtrip_indented.

Theorem tokens_roundtrip_compact : forall d,
  wf_tree (TDict d) = true -> tokenize (wentries None d) = etoks d.
Proof. exact ProofsWrite.tokens_of_compact. Qed.
Print Assumptions tokens_roundtrip_compact.

(* ------------------------------------------------------------------ the round trip *)
(* 7. EngineData (indented, with container): every well-formed tree is written without error and read back
      equal to the 8 decimal places the text keeps ([untiny_kvs d]: d itself unless it holds a non-zero decimal
      below 5e-9, which comes back as zero) -- any depth, any width, Lists of any mixture of items.  (Until commit
      073f171 this needed the guard "a List written with an indent holds Dicts only": finding F-C18-2, now fixed.) *)
Theorem parse_print_indented : forall d,
  wf_tree (TDict d) = true -> exists bs, write Indented d = Ok bs /\ parse bs = Ok (untiny_kvs d).
Proof. exact ProofsWrite.parse_write_indented. Qed.
Print Assumptions parse_print_indented.

(* 8. EngineData2 (compact, no container): every well-formed tree *)
Theorem parse_print_compact : forall d,
  wf_tree (TDict d) = true -> exists bs, write Compact d = Ok bs /\ parse bs = Ok (untiny_kvs d).
Proof. exact ProofsWrite.parse_write_compact. Qed.
Print Assumptions parse_print_compact.

(* 8b. exactly equal when no decimal is tiny; and in general stable from the second generation on *)
Theorem parse_print_exact : forall ly d, wf_tree (TDict d) = true -> notiny (TDict d) = true ->
  exists bs, write ly d = Ok bs /\ parse bs = Ok d.
Proof. exact ProofsWrite.parse_write_exact. Qed.
Print Assumptions parse_print_exact.
Theorem rewrite_stable : forall ly d, wf_tree (TDict d) = true ->
  exists bs d' bs', write ly d = Ok bs /\ parse bs = Ok d' /\ write ly d' = Ok bs' /\ parse bs' = Ok d' /\ d' = untiny_kvs d.
Proof. exact ProofsWrite.rewrite_stable. Qed.
Print Assumptions rewrite_stable.
Example tiny_roundtrip : let d := [([97], TList [TFloat (Fl true 0 true); TFloat (Fl false 3 false)])] in
  wf_tree (TDict d) = true /\ notiny (TDict d) = false /\
  untiny_kvs d = [([97], TList [TFloat (Fl true 0 false); TFloat (Fl false 3 false)])].
Proof. repeat split. Qed.

(* the hypotheses are satisfiable by a tree with every element class, nesting through Dicts and Lists, strings
   ending in byte 0x5C, a List of Dicts (indented), a List holding a Dict after a number (compact inside),
   a List with a Dict first and other items after it (the former F-C18-2 class) *)
Definition sample : kvs :=
  [([69;110], TDict [([84], TStr [1;92;0;40;0;41;0;92]); ([118], TList [TFloat (Fl true 50000000 false); TInt (-7); TInt 0]);
                     ([114], TList [TDict [([97], TBool true)]; TDict []]);
                     ([109], TList [TInt 5; TDict [([120], TList [TList []; TList [TStr []]])]]);
                     ([116], TTag [40;104;119;105;100;41]); ([112], TProp [95;57]);
                     ([122], TList [TDict []; TInt 5; TFloat (Fl false 550000000 false); TList [TInt 1]; TDict [([97], TStr [0;120])]; TBool false])]);
   ([48], TList [])].
Example parse_print_hyp : wf_tree (TDict sample) = true /\ notiny (TDict sample) = true /\ untiny_kvs sample = sample.
Proof. repeat split; vm_compute; reflexivity. Qed.
Example parse_print_sample :
  (exists bs, write Indented sample = Ok bs /\ parse bs = Ok sample) /\
  (exists bs, write Compact sample = Ok bs /\ parse bs = Ok sample).
Proof.
  split; [exists (wv (Some O) (TDict sample))|exists (wentries None sample)]; split; vm_compute; reflexivity.
Qed.

(* 9. what was written is rewritten byte for byte after being read (fixture blobs; the engine data embedded in a
      type layer, which TypeToolObjectSetting parses on read and writes back through the same writer) *)
Theorem rewrite_unchanged : forall ly d bs, wf_tree (TDict d) = true -> notiny (TDict d) = true ->
  write ly d = Ok bs ->
  match parse bs with Ok d' => write ly d' | Err e => Err e end = Ok bs.
Proof. exact ProofsWrite.rewrite_unchanged. Qed.
Print Assumptions rewrite_unchanged.

(* 9b. the number write() returns (accumulated piece by piece as the code does) is the number of bytes written, for
       every tree and both layouts: RawData / write_length_block record it as the length of the engine data embedded
       in a type-tool block, so the embedded data is delimited exactly *)
Theorem write_count_truthful : forall ly d bs, write ly d = Ok bs -> write_count ly d = Zlen bs.
Proof. exact ProofsCount.write_count_truthful. Qed.
Print Assumptions write_count_truthful.
Example write_count_sample : write_count Indented sample = 238 /\ write_count Compact sample = 179.
Proof. split; vm_compute; reflexivity. Qed.

(* ------------------------------------------------------------------ text the library did not write *)
(* 9c. ANY layout of a token sequence gives the same tokens: before each token any number of divider bytes
       [ \n\t] -- none at all at the start of the data and after a string token -- and any trailing white space.
       Tokens: string tokens with any content made of plain bytes and backslash pairs, any other clean token. *)
Theorem tokenize_layout : forall ps prev trail,
  ws_ok prev ps = true -> forallb ptok_ok (map snd ps) = true -> forallb is_div trail = true ->
  tokenize (render ps ++ trail) = map tokof (map snd ps).
Proof. exact ProofsSpace.tokenize_layout. Qed.
Print Assumptions tokenize_layout.

Theorem parse_whitespace_insensitive : forall ps ps' trail trail',
  map snd ps = map snd ps' -> forallb ptok_ok (map snd ps) = true ->
  ws_ok true ps = true -> ws_ok true ps' = true ->
  forallb is_div trail = true -> forallb is_div trail' = true ->
  tokenize (render ps ++ trail) = tokenize (render ps' ++ trail') /\
  parse (render ps ++ trail) = parse (render ps' ++ trail').
Proof. exact ProofsSpace.parse_whitespace_insensitive. Qed.
Print Assumptions parse_whitespace_insensitive.

(* 9d. hence the reader is correct on every layout of a well-formed tree, not only on the library's two: the tokens
       of the tree, laid out in any way [ws_ok] allows, are read as the tree (with and without the container) *)
Theorem parse_any_layout : forall d ps trail,
  wf_tree (TDict d) = true -> map snd ps = ptoks (TDict d) -> ws_ok true ps = true ->
  forallb is_div trail = true -> parse (render ps ++ trail) = Ok (untiny_kvs d).
Proof. exact ProofsSpace.parse_any_layout. Qed.
Print Assumptions parse_any_layout.
Theorem parse_any_layout_bare : forall d ps trail,
  wf_tree (TDict d) = true -> map snd ps = eptoks d -> ws_ok true ps = true ->
  forallb is_div trail = true -> parse (render ps ++ trail) = Ok (untiny_kvs d).
Proof. exact ProofsSpace.parse_any_layout_bare. Qed.
Print Assumptions parse_any_layout_bare.
(* e.g. the sample tree with "\n\t\t " before every token but nothing after a string, and "\n\n" at the end *)
Definition sample_layout : layout_t :=
  (fix go (prev : bool) (l : list ptok) : layout_t :=
     match l with [] => [] | t :: r => ((if prev then [] else [10;9;9;32]), t) :: go (is_pstr t) r end) true (ptoks (TDict sample)).
Example parse_any_layout_hyp :
  map snd sample_layout = ptoks (TDict sample) /\ ws_ok true sample_layout = true /\
  parse (render sample_layout ++ [10;10]) = Ok sample /\ existsb (fun p => is_nil (fst p)) (tl sample_layout) = true.
Proof. repeat split; vm_compute; reflexivity. Qed.

(* 9e. where a divider is REQUIRED: after every token that is not a string.  Two such tokens written without one are
       read as ONE token (so [ws_ok] excludes exactly the layouts that change the token sequence) ... *)
Theorem divider_required : forall a b rest,
  clean a = true -> clean b = true -> starts_str (a ++ b) = false -> sep_start rest = true ->
  tokenize (a ++ b ++ rest) = emit (a ++ b) (tokenize rest).
Proof. exact ProofsSpace.divider_required. Qed.
Print Assumptions divider_required.
(* ... a number directly followed by a name, a name directly followed by a string: unknown tokens, ValueError;
   a string directly followed by a name or a number (and preceded by nothing) is fine *)
Theorem divider_required_refuted :
  parse [47;97;32;53;47;98;32;49] = Err ValueErr /\                      (* "/a 5/b 1" *)
  parse ([47;97] ++ [40;254;255;0;120;41]) = Err ValueErr /\             (* "/a(..x)"  *)
  parse ([47;97;32] ++ [40;254;255;0;120;41] ++ [47;98;32] ++ [40;254;255;41] ++ [49]) =
    Ok [([97], TStr [0;120]); ([98], TStr [])].                          (* "/a (..x)/b (..)1": the stray 1 is skipped *)
Proof. repeat split; vm_compute; reflexivity. Qed.
Print Assumptions divider_required_refuted.

(* 9e'. conversely every text the tokenizer accepts IS such a layout (the white space that stood before each token,
        none required at the start or after a string): [ws_ok] is exact *)
Theorem layout_iff : forall l ts, nobad ts = true ->
  (tokenize l = ts <->
   exists ps trail, is_layout l ps trail /\ ws_ok true ps = true /\ map tokof (map snd ps) = ts).
Proof. exact ProofsLayout.layout_iff. Qed.
Print Assumptions layout_iff.

(* ------------------------------------------------------------------ the embedded case *)
(* 9f. RawData.write with the EngineData OBJECT as value writes exactly what it would write for the object's bytes:
       the length field is the count the object's write() returns, and that count is truthful (9b) *)
Theorem raw_object_writes_as_bytes : forall t ly d bs, write ly d = Ok bs ->
  raw_obj_w ly d = Descriptor.write_dval t (Descriptor.DRaw Descriptor.OS_tdta bs).
Proof. exact Embedded.raw_object_writes_as_bytes. Qed.
Print Assumptions raw_object_writes_as_bytes.

(* 9g. TypeToolObjectSetting (modelled in Engine/Embedded.v on the descriptor / length-block model of Psd/): a block
       whose text descriptor holds under "EngineData" the bytes written for a well-formed tree d re-reads to the same
       block with the engine data parsed and exposed as exactly d, and what was re-read writes the same block bytes *)
Theorem type_tool_engine_data_roundtrip : forall units t pad x d bs blk n rest,
  Descriptor.wf_terms t = true -> wf_tysh units x = true ->
  wf_tree (TDict d) = true -> write Indented d = Ok bs -> find_raw (text_items (ty_text x)) = Some bs ->
  write_tysh t pad x = Ok (blk, n) ->
  read_tysh units t (blk ++ rest) = Ok (x, Some (untiny_kvs d)) /\
  raw_obj_w Indented d = Descriptor.write_dval t (Descriptor.DRaw Descriptor.OS_tdta bs) /\
  (forall x' e, read_tysh units t (blk ++ rest) = Ok (x', e) -> write_tysh t pad x' = Ok (blk, n)).
Proof. exact Embedded.type_tool_engine_data_roundtrip. Qed.
Print Assumptions type_tool_engine_data_roundtrip.

(* ... and inside its tagged block (signature, key, length field, padding: Psd/Typed.v payload_block_rt) *)
Theorem type_tool_block_roundtrip : forall units t v pad sg key x d bs blk n rest,
  (pad = 1 \/ pad = 2 \/ pad = 4) -> Model.memz sg Model.model_tb_sigs = true ->
  Descriptor.wf_terms t = true -> wf_tysh units x = true ->
  wf_tree (TDict d) = true -> write Indented d = Ok bs -> find_raw (text_items (ty_text x)) = Some bs ->
  Typed.write_payload_block v pad sg key (write_tysh t 4 x) = Ok (blk, n) ->
  Typed.read_payload_block (read_tysh units t) v pad (blk ++ rest) = Ok (Some (sg, key, (x, Some (untiny_kvs d)), rest)).
Proof. exact Embedded.type_tool_block_roundtrip. Qed.
Print Assumptions type_tool_block_roundtrip.

(* ------------------------------------------------------------------ any data the reader accepts *)
(* 9h. whatever bytes parse reads without error (Photoshop's own text, any fixture, anything), the tree it returns
       is well-formed ... *)
Theorem parse_wf : forall data d, parse data = Ok d -> wf_tree (TDict d) = true.
Proof. exact ProofsReparse.parse_wf. Qed.
Print Assumptions parse_wf.
(* ... hence it is written back, in either layout, to text that reads as the same tree (to 8 places; exactly the same
   when the data held no non-zero decimal below 5e-9): read - expose - write back for EVERY accepted input *)
Theorem reparse_any_input : forall data d ly, parse data = Ok d ->
  exists bs, write ly d = Ok bs /\ parse bs = Ok (untiny_kvs d) /\ (notiny (TDict d) = true -> parse bs = Ok d).
Proof. exact ProofsReparse.reparse_any_input. Qed.
Print Assumptions reparse_any_input.
Example reparse_any_input_hyp :                                    (* "/a  [ 00.50 (..x)7 ] 12 /a -3" : not the library's layout, a stray token, a repeated key *)
  parse [47;97;32;32;91;32;48;48;46;53;48;32;40;254;255;0;120;41;55;32;93;32;49;50;32;47;97;32;45;51] = Ok [([97], TInt (-3))].
Proof. vm_compute. reflexivity. Qed.
(* different trees are written as different texts *)
Theorem write_injective : forall ly d1 d2 bs,
  wf_tree (TDict d1) = true -> wf_tree (TDict d2) = true -> notiny (TDict d1) = true -> notiny (TDict d2) = true ->
  write ly d1 = Ok bs -> write ly d2 = Ok bs -> d1 = d2.
Proof. exact ProofsReparse.write_injective. Qed.
Print Assumptions write_injective.

(* 9i. how the reader can fail: ValueError (unknown token, unterminated string, bad UTF-16, digit limit, a closing
       token where a value is due), StopIteration (IndexErr: the data ends after a key), AttributeError (AssertErr:
       ">>" inside a List) -- no other outcome, whatever the bytes *)
Theorem parse_errors : forall data e, parse data = Err e -> e = ValueErr \/ e = IndexErr \/ e = AssertErr.
Proof. exact ProofsMore.parse_errors. Qed.
Print Assumptions parse_errors.
Example parse_errors_hyp : parse [47;97] = Err IndexErr /\ parse [47;97;32;91;32;62;62] = Err AssertErr /\ parse [47;97;32;62;62] = Err ValueErr.
Proof. repeat split. Qed.

(* 9j. what follows the closing ">>" of the container is not read (padding, NULs, anything after a divider) *)
Theorem parse_ignores_trailer : forall d rest, wf_tree (TDict d) = true -> sep_start rest = true ->
  parse (wv (Some O) (TDict d) ++ rest) = Ok (untiny_kvs d).
Proof. exact ProofsMore.parse_ignores_trailer. Qed.
Print Assumptions parse_ignores_trailer.

(* 9k. number formatting does not matter to the reader: leading zeros of the integer part and trailing zeros of the
       fraction ("0.333" = "00.3330" = ".333": Photoshop writes the first form, the library the last), leading zeros
       of an Integer *)
Theorem float_format_insensitive : forall (neg : bool) ip fr z1 z2,
  forallb is_digit ip = true -> forallb is_digit fr = true -> (length fr + z2 <= 8)%nat ->
  let s := if neg then [45] else [] in
  fmag (float_of_bytes (s ++ repeat 48 z1 ++ ip ++ 46 :: fr ++ repeat 48 z2)) = fmag (float_of_bytes (s ++ ip ++ 46 :: fr)) /\
  fneg (float_of_bytes (s ++ repeat 48 z1 ++ ip ++ 46 :: fr ++ repeat 48 z2)) = fneg (float_of_bytes (s ++ ip ++ 46 :: fr)).
Proof. exact ProofsMore.float_format_insensitive. Qed.
Print Assumptions float_format_insensitive.
Theorem int_format_insensitive : forall (neg : bool) z1 ds, forallb is_digit ds = true -> ds <> [] ->
  let s := if neg then [45] else [] in
  int_of_bytes (s ++ repeat 48 z1 ++ ds) = int_of_bytes (s ++ ds).
Proof. exact ProofsMore.int_format_insensitive. Qed.
Print Assumptions int_format_insensitive.

(* 9l. a repeated key behaves as in an OrderedDict: the last value, at the first position *)
Theorem set_kv_semantics : forall k v d,
  lookup k (set_kv k v d) = Some v /\
  (forall k', list_eqb k' k = false -> lookup k' (set_kv k v d) = lookup k' d) /\
  (existsb (list_eqb k) (map fst d) = true -> map fst (set_kv k v d) = map fst d) /\
  (existsb (list_eqb k) (map fst d) = false -> set_kv k v d = d ++ [(k, v)]).
Proof. exact ProofsMore.set_kv_semantics. Qed.
Print Assumptions set_kv_semantics.

(* 9m. the Txt2 (TEXT_ENGINE_DATA) tagged block, whose payload is an EngineData2 object: written into the length block
       with the count write() returns, read back through EngineData2.frombytes - the whole block round-trips *)
Theorem text_engine_data_block_roundtrip : forall v pad sg key d blk n rest,
  (pad = 1 \/ pad = 2 \/ pad = 4) -> Model.memz sg Model.model_tb_sigs = true -> wf_tree (TDict d) = true ->
  Typed.write_payload_block v pad sg key (engine_w Compact d) = Ok (blk, n) ->
  Typed.read_payload_block parse v pad (blk ++ rest) = Ok (Some (sg, key, untiny_kvs d, rest)).
Proof. exact Embedded.text_engine_data_block_roundtrip. Qed.
Print Assumptions text_engine_data_block_roundtrip.

(* 10. the fuel of the model's tokenizer and reader is always sufficient: OutOfFuel is never an outcome *)
Theorem parse_never_out_of_fuel : forall data, parse data <> Err OutOfFuel.
Proof. exact ProofsFuel.parse_total. Qed.
Print Assumptions parse_never_out_of_fuel.

(* ------------------------------------------------------------------ the guards are needed *)
(* the witnesses of the former finding F-C18-2 (a List starting with a Dict and holding a number / a Float, which
   used to be written as the unknown token ">>5" / to raise TypeError) now round-trip in both layouts *)
Example mixed_list_roundtrips :
  let d1 := [([97], TList [TDict []; TInt 5])] in
  let d2 := [([97], TList [TDict []; TFloat (Fl false 550000000 false)])] in
  (exists bs, write Indented d1 = Ok bs /\ parse bs = Ok d1) /\ (exists bs, write Indented d2 = Ok bs /\ parse bs = Ok d2) /\
  (exists bs, write Compact d1 = Ok bs /\ parse bs = Ok d1) /\
  write Indented d1 = Ok [10;10;60;60;10;9;47;97;32;91;10;9;60;60;10;9;62;62;10;9;53;10;9;93;10;62;62].
Proof.
  cbv zeta. repeat split;
    first [ exists (wv (Some O) (TDict [([97], TList [TDict []; TInt 5])])); split; vm_compute; reflexivity
          | exists (wv (Some O) (TDict [([97], TList [TDict []; TFloat (Fl false 550000000 false)])])); split; vm_compute; reflexivity
          | exists (wentries None [([97], TList [TDict []; TInt 5])]); split; vm_compute; reflexivity
          | vm_compute; reflexivity ].
Qed.

(* the writers fail only for an Integer beyond CPython's digit limit (no write() is reached with an argument it does
   not take) *)
Theorem write_total : forall ly d, wbig (TDict d) = false -> exists bs, write ly d = Ok bs.
Proof. exact ProofsWrite.write_total. Qed.
Print Assumptions write_total.
Theorem write_fails_only_big : forall ly d e, write ly d = Err e -> e = ValueErr /\ wbig (TDict d) = true.
Proof. exact ProofsWrite.write_fails_only_big. Qed.
Print Assumptions write_fails_only_big.

(* property names outside [A-Za-z0-9_]+ do not survive: "a b" becomes the key "a" and a stray token *)
Theorem bad_name_refuted : exists d bs,
  write Compact d = Ok bs /\ parse bs <> Ok d.
Proof. exists [([97;32;98], TInt 1)]. exists (wentries None [([97;32;98], TInt 1)]). split; [reflexivity|]. vm_compute. discriminate. Qed.
Print Assumptions bad_name_refuted.

(* a Tag must be one of the two tag token forms: "( )" is read as two tokens *)
Theorem bad_tag_refuted : exists d bs, write Compact d = Ok bs /\ parse bs <> Ok d.
Proof. exists [([97], TTag [40;32;41])]. exists (wentries None [([97], TTag [40;32;41])]). split; [reflexivity|]. vm_compute. discriminate. Qed.
Print Assumptions bad_tag_refuted.

(* representation guards of the model (not reachable from Python values): a repeated key, a payload that is not UTF-16 *)
Theorem dup_key_refuted : exists d bs, write Compact d = Ok bs /\ parse bs <> Ok d.
Proof. exists [([97], TInt 1); ([97], TInt 2)]. exists (wentries None [([97], TInt 1); ([97], TInt 2)]). split; [reflexivity|]. vm_compute. discriminate. Qed.
Theorem bad_payload_refuted : exists d bs, write Compact d = Ok bs /\ parse bs = Err ValueErr.
Proof. exists [([97], TStr [0])]. exists (wentries None [([97], TStr [0])]). split; vm_compute; reflexivity. Qed.
Print Assumptions dup_key_refuted.
Print Assumptions bad_payload_refuted.
